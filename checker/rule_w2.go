package main

// W-2 — framing of the JSON array and of the CSV header (C04).
// CL — the classifier is reset before a batch is coded (C06).

import (
	"go/ast"
	"go/constant"
	"go/token"
	"go/types"
	"strings"
)

func init() {
	register(&Rule{
		ID: "W-2", Props: []string{"C04"}, Min: 3,
		Doc: `framing: in WriteJSON the write of the opening '[' is a top-level statement executed before any formatting goroutine is started, and in the writing goroutine the
closing ']' is written after the loop over the chunk channel and before the output is closed; in FormatCVSBatch the header line is written exactly when batch.Order() == 0
(nothing else in the condition), before the records.`,
		Run: runW2,
	})
	register(&Rule{
		ID: "CL", Props: []string{"C06"}, Min: 1,
		Doc: `classifier state is per batch: in ISequenceSubChunk the worker calls classifier.Reset() before the first classifier.Code() of each batch (Reset precedes the coding
loop in the same block), so codes never leak from one batch into the next.`,
		Run: runCL,
	})
}

func constStringArg(info *types.Info, call *ast.CallExpr) (string, bool) {
	for _, a := range call.Args {
		e := ast.Unparen(a)
		if cv, ok := e.(*ast.CallExpr); ok && len(cv.Args) == 1 {
			if tv, ok := info.Types[cv.Fun]; ok && tv.IsType() {
				e = ast.Unparen(cv.Args[0])
			}
		}
		if tv, ok := info.Types[e]; ok && tv.Value != nil && tv.Value.Kind() == constant.String {
			return constant.StringVal(tv.Value), true
		}
	}
	return "", false
}

func runW2(c *Ctx, s *Sink) {
	fd, p := c.FindFunc("pkg/obiformats", "WriteJSON")
	if fd == nil {
		s.Undecided(nil, "pkg/obiformats.WriteJSON:framing", 0, "function not found")
	} else {
		info := p.TypesInfo
		// opening: '[' must be written before any goroutine that sends chunks (a formatter) is started;
		// the goroutine that receives and writes them may be started earlier
		defs := collectDefs(info, fd)
		isFormatter := func(g *ast.GoStmt) bool {
			lit := localClosure(info, defs, g.Call.Fun)
			if lit == nil {
				return true // unknown target: be conservative
			}
			sends := false
			ast.Inspect(lit.Body, func(n ast.Node) bool {
				if _, ok := n.(*ast.SendStmt); ok {
					sends = true
				}
				return true
			})
			return sends
		}
		openPos, firstGo := token.NoPos, token.NoPos
		for _, st := range fd.Body.List {
			switch x := st.(type) {
			case *ast.ExprStmt:
				if call, ok := x.X.(*ast.CallExpr); ok {
					if str, ok := constStringArg(info, call); ok && strings.Contains(str, "[") && openPos == token.NoPos {
						openPos = x.Pos()
					}
				}
			case *ast.GoStmt:
				if isFormatter(x) && firstGo == token.NoPos {
					firstGo = x.Pos()
				}
			case *ast.ForStmt:
				ast.Inspect(x, func(n ast.Node) bool {
					if g, ok := n.(*ast.GoStmt); ok && firstGo == token.NoPos && isFormatter(g) {
						firstGo = g.Pos()
					}
					return true
				})
			}
		}
		key := "pkg/obiformats.WriteJSON:opening"
		switch {
		case openPos == token.NoPos:
			s.Fail(nil, key, fd.Pos(), "the opening '[' of the JSON array is not written by a top-level statement of WriteJSON")
		case firstGo != token.NoPos && openPos > firstGo:
			s.Fail(nil, key, openPos, "the opening '[' is written after the formatting goroutines are started: a first batch can reach the output before it")
		default:
			s.Pass(nil, key, openPos, "'[' written before any formatting goroutine starts")
		}
		// closing: the literal that closes the output
		key = "pkg/obiformats.WriteJSON:closing"
		done := false
		ast.Inspect(fd.Body, func(n ast.Node) bool {
			lit, ok := n.(*ast.FuncLit)
			if !ok || done {
				return true
			}
			loopEnd, closePos, bracketPos := token.NoPos, token.NoPos, token.NoPos
			for _, st := range lit.Body.List {
				switch x := st.(type) {
				case *ast.RangeStmt:
					loopEnd = x.End()
				case *ast.ExprStmt:
					if call, ok := x.X.(*ast.CallExpr); ok {
						if str, ok := constStringArg(info, call); ok && strings.Contains(str, "]") {
							bracketPos = x.Pos()
						}
					}
				}
				ast.Inspect(st, func(m ast.Node) bool {
					if call, ok := m.(*ast.CallExpr); ok {
						if sel, ok := call.Fun.(*ast.SelectorExpr); ok && sel.Sel.Name == "Close" {
							if tv, ok := info.Types[sel.X]; ok && sinkTypes[sinkTypeName(tv.Type)] && closePos == token.NoPos {
								closePos = call.Pos()
							}
						}
					}
					return true
				})
			}
			if loopEnd == token.NoPos || closePos == token.NoPos {
				return true
			}
			done = true
			switch {
			case bracketPos == token.NoPos:
				s.Fail(nil, key, lit.Pos(), "the closing ']' of the JSON array is never written by the writing goroutine")
			case bracketPos < loopEnd:
				s.Fail(nil, key, bracketPos, "the closing ']' is written before the loop over the chunks has ended")
			case bracketPos > closePos:
				s.Fail(nil, key, bracketPos, "the closing ']' is written after the output has been closed")
			default:
				s.Pass(nil, key, bracketPos, "']' written after the last chunk and before Close")
			}
			return true
		})
		if !done {
			s.Undecided(nil, key, fd.Pos(), "no goroutine that loops over the chunks and closes the output")
		}
	}
	// CSV header
	fd, p = c.FindFunc("pkg/obiformats", "FormatCVSBatch")
	key := "pkg/obiformats.FormatCVSBatch:header"
	if fd == nil {
		s.Undecided(nil, key, 0, "function not found")
		return
	}
	info := p.TypesInfo
	var hdr *ast.IfStmt
	var firstRec token.Pos
	for _, st := range fd.Body.List {
		switch x := st.(type) {
		case *ast.IfStmt:
			ast.Inspect(x.Body, func(n ast.Node) bool {
				if call, ok := n.(*ast.CallExpr); ok && isCallTo(info, call, "pkg/obiformats.CSVHeader") {
					hdr = x
				}
				return true
			})
		case *ast.RangeStmt:
			if firstRec == token.NoPos {
				firstRec = x.Pos()
			}
		}
	}
	switch {
	case hdr == nil:
		s.Fail(nil, key, fd.Pos(), "the CSV header is not written under a condition on the batch number")
	case !isOrderZeroTest(info, hdr.Cond):
		s.Fail(nil, key, hdr.Pos(), "the CSV header is written under '"+types.ExprString(hdr.Cond)+"' instead of exactly for batch 0: the header is missing, repeated, or depends on the content of the batch")
	case earlyReturn(fd.Body, hdr.Pos()) != token.NoPos:
		s.Fail(nil, key, earlyReturn(fd.Body, hdr.Pos()), "FormatCVSBatch can return before the header test: when the batch that must carry the header (number 0) takes that exit — an empty first batch — the CSV output has no header line")
	case firstRec != token.NoPos && hdr.Pos() > firstRec:
		s.Fail(nil, key, hdr.Pos(), "the header is written after the records of the batch")
	default:
		s.Pass(nil, key, hdr.Pos(), "header written exactly for batch 0, before the records")
	}
}

func runCL(c *Ctx, s *Sink) {
	fd, p := c.FindFunc("pkg/obichunk", "ISequenceSubChunk")
	key := "pkg/obichunk.ISequenceSubChunk:reset-before-code"
	if fd == nil {
		s.Undecided(nil, key, 0, "function not found")
		return
	}
	info := p.TypesInfo
	defs := collectDefs(info, fd)
	ok, found := false, false
	ast.Inspect(fd.Body, func(n ast.Node) bool {
		blk, isB := n.(*ast.BlockStmt)
		if !isB {
			return true
		}
		resetIdx, codeIdx := -1, -1
		for i, st := range blk.List {
			ast.Inspect(st, func(m ast.Node) bool {
				if call, isC := m.(*ast.CallExpr); isC {
					// a helper that receives the classifier and codes the batch (extracted coding loop)
					if body, cinfo, bind := c.calleeSource(info, defs, call); body != nil {
						for po, arg := range bind {
							if tv, has := info.Types[arg]; has && strings.HasSuffix(sinkTypeName(tv.Type), "/pkg/obiseq.BioSequenceClassifier") {
								ast.Inspect(body, func(k ast.Node) bool {
									if c2, ok := k.(*ast.CallExpr); ok {
										if s2, ok := c2.Fun.(*ast.SelectorExpr); ok && rootObj(cinfo, s2.X) == po {
											if s2.Sel.Name == "Reset" && resetIdx < 0 {
												resetIdx = i
											}
											if s2.Sel.Name == "Code" && codeIdx < 0 {
												codeIdx = i
											}
										}
									}
									return true
								})
							}
						}
					}
					if sel, isS := call.Fun.(*ast.SelectorExpr); isS {
						if tv, has := info.Types[sel.X]; has && strings.HasSuffix(sinkTypeName(tv.Type), "/pkg/obiseq.BioSequenceClassifier") {
							if sel.Sel.Name == "Reset" && resetIdx < 0 {
								resetIdx = i
							}
							if sel.Sel.Name == "Code" && codeIdx < 0 {
								codeIdx = i
							}
						}
					}
				}
				return true
			})
		}
		if codeIdx >= 0 {
			found = true
			if resetIdx >= 0 && resetIdx < codeIdx {
				ok = true
			}
		}
		return true
	})
	switch {
	case !found:
		s.Undecided(nil, key, fd.Pos(), "no call of classifier.Code found")
	case ok:
		s.Pass(nil, key, fd.Pos(), "classifier.Reset() precedes the coding loop of each batch")
	default:
		s.Fail(nil, key, fd.Pos(), "the batch is coded without a preceding classifier.Reset(): codes of the previous batch are reused, so different keys of two batches can share a code and be merged")
	}
}

// isOrderZeroTest: cond is exactly `<batch>.Order() == 0` (either operand order).
func isOrderZeroTest(info *types.Info, cond ast.Expr) bool {
	be, ok := ast.Unparen(cond).(*ast.BinaryExpr)
	if !ok || be.Op != token.EQL {
		return false
	}
	isOrder := func(e ast.Expr) bool {
		call, ok := ast.Unparen(e).(*ast.CallExpr)
		if !ok {
			return false
		}
		f := callee(info, call)
		return f != nil && f.Name() == "Order" && strings.HasSuffix(fullName(f), "BioSequenceBatch).Order")
	}
	isZero := func(e ast.Expr) bool {
		tv, ok := info.Types[e]
		if !ok || tv.Value == nil {
			return false
		}
		v, exact := constant.Int64Val(constant.ToInt(tv.Value))
		return exact && v == 0
	}
	return (isOrder(be.X) && isZero(be.Y)) || (isOrder(be.Y) && isZero(be.X))
}

// earlyReturn: a return statement (outside function literals) positioned before pos.
func earlyReturn(body *ast.BlockStmt, pos token.Pos) token.Pos {
	found := token.NoPos
	ast.Inspect(body, func(n ast.Node) bool {
		if _, ok := n.(*ast.FuncLit); ok {
			return false
		}
		if r, ok := n.(*ast.ReturnStmt); ok && r.Pos() < pos && found == token.NoPos {
			found = r.Pos()
		}
		return true
	})
	return found
}

// W-5 — the JSON text of a record is what the encoder produced (C04).
func init() {
	register(&Rule{
		ID: "W-5", Props: []string{"C04", "C02"}, Min: 1,
		Doc: `well-formedness of one JSON record is delegated to the encoder and to nobody else: in pkg/obiformats the bytes returned by JSONRecord originate from a json Marshal* call and
are not passed through textual post-processing (strconv.Quote/Unquote, strings.Replace, regexp …) — rewriting escape sequences in marshalled text turns "\\u0041" typed by a user,
a control character or a Windows path into an invalid escape, a raw control byte or a panic.`,
		Run: runW5,
	})
}

func runW5(c *Ctx, s *Sink) {
	fd, p := c.FindFunc("pkg/obiformats", "JSONRecord")
	key := "pkg/obiformats.JSONRecord:encoder-output"
	if fd == nil {
		s.Undecided(nil, key, 0, "function not found")
		return
	}
	info := p.TypesInfo
	defs := collectDefsTuple(info, fd)
	isMarshal := func(f *types.Func) bool {
		return f != nil && f.Pkg() != nil && strings.HasSuffix(f.Pkg().Path(), "json") && strings.HasPrefix(f.Name(), "Marshal")
	}
	textual := func(f *types.Func) bool {
		if f == nil || f.Pkg() == nil {
			return false
		}
		switch f.Pkg().Path() {
		case "strconv", "strings", "regexp", "bytes":
			switch f.Name() {
			case "Quote", "Unquote", "Replace", "ReplaceAll", "ReplaceAllString", "ReplaceAllLiteralString", "Map", "NewReplacer":
				return true
			}
		}
		return false
	}
	// does a module function apply textual rewriting (one level)?
	rewrites := func(f *types.Func) string {
		d, dp := c.DeclOf(f)
		if d == nil || d.Body == nil {
			return ""
		}
		found := ""
		ast.Inspect(d.Body, func(n ast.Node) bool {
			if call, ok := n.(*ast.CallExpr); ok {
				if g := callee(dp.TypesInfo, call); textual(g) {
					found = g.Pkg().Name() + "." + g.Name()
				}
			}
			return true
		})
		return found
	}
	var bad []string
	marshal := false
	var trace func(e ast.Expr, depth int)
	trace = func(e ast.Expr, depth int) {
		if depth > 6 {
			return
		}
		e = ast.Unparen(e)
		switch x := e.(type) {
		case *ast.Ident:
			for _, d := range defs[info.ObjectOf(x)] {
				if d != nil {
					trace(d, depth+1)
				}
			}
		case *ast.CallExpr:
			f := callee(info, x)
			switch {
			case isMarshal(f):
				marshal = true
			case textual(f):
				bad = append(bad, c.Pos(x.Pos())+": "+f.Pkg().Name()+"."+f.Name())
			case f != nil && strings.HasPrefix(f.Pkg().Path(), modPath):
				if w := rewrites(f); w != "" {
					bad = append(bad, c.Pos(x.Pos())+": "+f.Name()+" (applies "+w+")")
				}
				for _, a := range x.Args {
					trace(a, depth+1)
				}
			default:
				for _, a := range x.Args {
					trace(a, depth+1)
				}
			}
		}
	}
	ast.Inspect(fd.Body, func(n ast.Node) bool {
		if r, ok := n.(*ast.ReturnStmt); ok && len(r.Results) == 1 {
			trace(r.Results[0], 0)
		}
		return true
	})
	switch {
	case len(bad) > 0:
		s.Fail(nil, key, fd.Pos(), "the marshalled JSON of a record is rewritten as text before it is written ("+strings.Join(bad, "; ")+"): a title containing \\uXXXX, a control character or a backslash sequence yields an invalid escape, a raw control byte or a failure of the rewriting — the output is not a valid JSON array")
	case !marshal:
		s.Undecided(nil, key, fd.Pos(), "the returned bytes do not come from a json Marshal* call")
	default:
		s.Pass(nil, key, fd.Pos(), "the record text is the encoder's output, unmodified")
	}
}
