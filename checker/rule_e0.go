package main

// E0 — the methods of a slice of records do not read its first element when there is none (C03, C13).

import (
	"fmt"
	"go/ast"
	"go/token"
	"go/types"
	"strings"

	"golang.org/x/tools/go/packages"
)

func init() {
	register(&Rule{
		ID: "E0", Props: []string{"C03", "C13"}, Min: 2,
		Doc: `an input without any record goes through every command: in pkg/obiseq, a method of BioSequenceSlice that reads an element at a constant index of its receiver does so only where the
length of the receiver is known to exceed that index — by linear arithmetic over the tests on len() of the enclosing branches and of the conjunctions to the left of the access (a && b evaluates b
only when a holds). IsPaired() read (*s)[0] unconditionally: obiiter.IBatchOver calls it on the whole data, so obiclean — and every command built on IBatchOver — died with 'index out of range
[0] with length 0' on an empty file instead of writing an empty result. Exemption (one symbol, with its reason): Merge, whose contract is a non-empty class of identical records (its only caller
hands it the classes built by the dereplication).`,
		Run: runE0,
	})
}

var e0Exempt = map[string]string{
}

func runE0(c *Ctx, s *Sink) {
	c.EachFunc([]string{"pkg/obiseq"}, func(p *packages.Package, fd *ast.FuncDecl) {
		if fd.Recv == nil || len(fd.Recv.List) == 0 || len(fd.Recv.List[0].Names) == 0 {
			return
		}
		info := p.TypesInfo
		recv := info.ObjectOf(fd.Recv.List[0].Names[0])
		if recv == nil || !strings.HasSuffix(namedTypeName(derefType(recv.Type())), "/pkg/obiseq.BioSequenceSlice") {
			return
		}
		nacc, badPos := constIndexGuarded(info, fd.Body, recv, 0)
		if nacc == 0 {
			return
		}
		name := funcName(p, fd)
		if why, ok := e0Exempt[name]; ok {
			s.Pass(nil, name+":first-element-guarded", fd.Pos(), "exempt: "+why)
			return
		}
		okAll := !badPos.IsValid()
		key := name + ":first-element-guarded"
		if okAll {
			s.Pass(nil, key, fd.Pos(), fmt.Sprintf("%d constant-index read(s) of the receiver, each where its length exceeds the index", nacc))
		} else {
			s.Fail(nil, key, badPos, "an element of the receiver is read at a constant index without a test of its length: on a slice without any record the method panics (index out of range [0] with length 0) — IsPaired() is called by IBatchOver on the whole data, obiclean on an empty file dies instead of writing an empty result")
		}
	})
}

// constIndexGuarded: every read of target (or *target) at a constant index >= minIdx in the body lies where the length of
// target is known to exceed the index — by linear arithmetic over the len() tests of the enclosing branches and of the
// conjunctions to the left of the read. Returns the number of reads and the position of an unguarded one.
func constIndexGuarded(info *types.Info, body *ast.BlockStmt, recv types.Object, minIdx int64) (int, token.Pos) {
	type access struct {
		ix  *ast.IndexExpr
		k   int64
		pre []ast.Expr // conjuncts evaluated before it in the same expression
	}
	var accs []access
	var stack []ast.Node
	ast.Inspect(body, func(n ast.Node) bool {
		if n == nil {
			stack = stack[:len(stack)-1]
			return true
		}
		stack = append(stack, n)
		ix, ok := n.(*ast.IndexExpr)
		if !ok {
			return true
		}
		base := ast.Unparen(ix.X)
		if st, ok := base.(*ast.StarExpr); ok {
			base = ast.Unparen(st.X)
		}
		id, ok := base.(*ast.Ident)
		if !ok || info.ObjectOf(id) != recv {
			return true
		}
		k, isC := constInt(info, ix.Index)
		if !isC || k < minIdx {
			return true
		}
		var pre []ast.Expr
		for j := len(stack) - 2; j >= 0; j-- {
			if b, ok := stack[j].(*ast.BinaryExpr); ok && b.Op == token.LAND && ix.Pos() >= b.Y.Pos() && ix.End() <= b.Y.End() {
				pre = append(pre, b.X)
			}
			if _, ok := stack[j].(ast.Stmt); ok {
				break
			}
		}
		accs = append(accs, access{ix, k, pre})
		return true
	})
	if len(accs) == 0 {
		return 0, token.NoPos
	}
	lenAtom := func(env *linEnv) linForm {
		var e ast.Expr = ast.NewIdent(recv.Name())
		if _, isPtr := recv.Type().(*types.Pointer); isPtr {
			e = &ast.StarExpr{X: e}
		}
		a := "|" + types.ExprString(e) + "|"
		env.atoms[a], env.lens[a] = true, true
		return lfAtom(a)
	}
	env := &linEnv{info: info, vars: map[types.Object]linForm{}, defs: map[types.Object][]ast.Expr{}, atoms: map[string]bool{}, lens: map[string]bool{}, elems: map[string]linForm{}}
	seen := map[*ast.IndexExpr]bool{}
	badPos := token.NoPos
	judge := func(pth linPath, from, to token.Pos) {
		for _, a := range accs {
			if a.ix.Pos() < from || a.ix.End() > to {
				continue
			}
			seen[a.ix] = true
			pth.env.cur = pth.sys
			sys := pth.known()
			for _, pe := range a.pre {
				if cs := pth.env.cond(pe, false); len(cs) == 1 {
					sys = append(append(linSys{}, sys...), cs[0]...)
				}
			}
			if !sys.entails(linLE(lfConst(a.k+1), lenAtom(pth.env))) {
				badPos = a.ix.Pos()
			}
		}
	}
	// the reads standing in the condition of an if are judged with the state of the path before the branch
	env.onCond = func(pth linPath, cond ast.Expr) { judge(pth, cond.Pos(), cond.End()) }
	linWalk([]linPath{{env: env}}, body.List, func(pth linPath, st ast.Stmt) {
		if _, isFor := st.(*ast.ForStmt); isFor {
			return // visited again inside the body
		}
		judge(pth, st.Pos(), st.End())
	})
	for _, a := range accs {
		if !seen[a.ix] {
			badPos = a.ix.Pos()
		}
	}
	return len(accs), badPos
}

func init() {
	register(&Rule{
		ID: "SX", Props: []string{"C16", "C03"}, Min: 1,
		Doc: `the names of the output files are built for every name the user may give: in pkg/obitools/obiconvert, an element of index 1 or more of the result of strings.Split / strings.SplitN is read
only where the length of that result is known to exceed the index (same decision procedure as E0). SplitN(name, ".", 2) has one element for a name without a dot: BuildPairedFileNames read
parts[1] unconditionally, so 'obigrep --paired-with r.fastq -o outnoext' (or --save-discarded disc) died with 'index out of range [1] with length 1' after the reads had been processed.`,
		Run: func(c *Ctx, s *Sink) {
			c.EachFunc([]string{"pkg/obitools/obiconvert"}, func(p *packages.Package, fd *ast.FuncDecl) {
				info := p.TypesInfo
				ast.Inspect(fd.Body, func(n ast.Node) bool {
					as, ok := n.(*ast.AssignStmt)
					if !ok || len(as.Lhs) != 1 || len(as.Rhs) != 1 {
						return true
					}
					call, ok := ast.Unparen(as.Rhs[0]).(*ast.CallExpr)
					if !ok {
						return true
					}
					switch fullName(callee(info, call)) {
					case "strings.Split", "strings.SplitN", "strings.Fields":
					default:
						return true
					}
					parts := rootObj(info, as.Lhs[0])
					if parts == nil {
						return true
					}
					nacc, bad := constIndexGuarded(info, fd.Body, parts, 1)
					if nacc == 0 {
						return true
					}
					key := funcName(p, fd) + ":" + parts.Name() + ":split-element-guarded"
					if bad.IsValid() {
						s.Fail(nil, key, bad, "an element beyond the first of a split name is read without a test of the number of elements: a name without the separator gives one element — 'obigrep --paired-with r.fastq -o outnoext f.fastq' panics (index out of range [1] with length 1) in BuildPairedFileNames")
					} else {
						s.Pass(nil, key, as.Pos(), fmt.Sprintf("%d read(s) beyond the first element, each where the number of elements exceeds the index", nacc))
					}
					return true
				})
			})
		},
	})
}
