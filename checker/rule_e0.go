package main

// E0 — the methods of a slice of records do not read its first element when there is none (C03, C13).

import (
	"fmt"
	"go/ast"
	"go/token"
	"go/types"
	"strings"

	"golang.org/x/tools/go/packages"
)

func init() {
	register(&Rule{
		ID: "E0", Props: []string{"C03", "C13"}, Min: 2,
		Doc: `an input without any record goes through every command: in pkg/obiseq, a method of BioSequenceSlice that reads an element at a constant index of its receiver does so only where the
length of the receiver is known to exceed that index — by linear arithmetic over the tests on len() of the enclosing branches and of the conjunctions to the left of the access (a && b evaluates b
only when a holds). IsPaired() read (*s)[0] unconditionally: obiiter.IBatchOver calls it on the whole data, so obiclean — and every command built on IBatchOver — died with 'index out of range
[0] with length 0' on an empty file instead of writing an empty result. Exemption (one symbol, with its reason): Merge, whose contract is a non-empty class of identical records (its only caller
hands it the classes built by the dereplication).`,
		Run: runE0,
	})
}

var e0Exempt = map[string]string{
	"pkg/obiseq.(BioSequenceSlice).Merge": "merges a class of identical records: the classes of the dereplication hold at least one record (documented precondition of the only caller, IMergeSequenceBatch)",
}

func runE0(c *Ctx, s *Sink) {
	c.EachFunc([]string{"pkg/obiseq"}, func(p *packages.Package, fd *ast.FuncDecl) {
		if fd.Recv == nil || len(fd.Recv.List) == 0 || len(fd.Recv.List[0].Names) == 0 {
			return
		}
		info := p.TypesInfo
		recv := info.ObjectOf(fd.Recv.List[0].Names[0])
		if recv == nil || !strings.HasSuffix(namedTypeName(derefType(recv.Type())), "/pkg/obiseq.BioSequenceSlice") {
			return
		}
		// constant-index reads of the receiver
		type access struct {
			ix  *ast.IndexExpr
			k   int64
			pre []ast.Expr // conjuncts evaluated before it in the same expression
		}
		var accs []access
		var stack []ast.Node
		ast.Inspect(fd.Body, func(n ast.Node) bool {
			if n == nil {
				stack = stack[:len(stack)-1]
				return true
			}
			stack = append(stack, n)
			ix, ok := n.(*ast.IndexExpr)
			if !ok {
				return true
			}
			base := ast.Unparen(ix.X)
			if st, ok := base.(*ast.StarExpr); ok {
				base = ast.Unparen(st.X)
			}
			id, ok := base.(*ast.Ident)
			if !ok || info.ObjectOf(id) != recv {
				return true
			}
			k, isC := constInt(info, ix.Index)
			if !isC {
				return true
			}
			var pre []ast.Expr
			for j := len(stack) - 2; j >= 0; j-- {
				if b, ok := stack[j].(*ast.BinaryExpr); ok && b.Op == token.LAND && ix.Pos() >= b.Y.Pos() && ix.End() <= b.Y.End() {
					pre = append(pre, b.X)
				}
				if _, ok := stack[j].(ast.Stmt); ok {
					break
				}
			}
			accs = append(accs, access{ix, k, pre})
			return true
		})
		if len(accs) == 0 {
			return
		}
		name := funcName(p, fd)
		if why, ok := e0Exempt[name]; ok {
			s.Pass(nil, name+":first-element-guarded", fd.Pos(), "exempt: "+why)
			return
		}
		lenAtom := func(env *linEnv) linForm {
			// |*s| or |s| according to the receiver kind
			var e ast.Expr = ast.NewIdent(recv.Name())
			if _, isPtr := recv.Type().(*types.Pointer); isPtr {
				e = &ast.StarExpr{X: e}
			}
			a := "|" + types.ExprString(e) + "|"
			env.atoms[a], env.lens[a] = true, true
			return lfAtom(a)
		}
		env := &linEnv{info: info, vars: map[types.Object]linForm{}, defs: map[types.Object][]ast.Expr{}, atoms: map[string]bool{}, lens: map[string]bool{}, elems: map[string]linForm{}}
		okAll, seen := true, map[*ast.IndexExpr]bool{}
		var badPos token.Pos
		linWalk([]linPath{{env: env}}, fd.Body.List, func(pth linPath, st ast.Stmt) {
			for _, a := range accs {
				if a.ix.Pos() < st.Pos() || a.ix.End() > st.End() {
					continue
				}
				if _, isFor := st.(*ast.ForStmt); isFor {
					continue // visited again inside the body
				}
				seen[a.ix] = true
				pth.env.cur = pth.sys
				sys := pth.known()
				for _, pe := range a.pre {
					if cs := pth.env.cond(pe, false); len(cs) == 1 {
						sys = append(append(linSys{}, sys...), cs[0]...)
					}
				}
				if !sys.entails(linLE(lfConst(a.k+1), lenAtom(pth.env))) {
					okAll = false
					badPos = a.ix.Pos()
				}
			}
		})
		for _, a := range accs {
			if !seen[a.ix] {
				okAll, badPos = false, a.ix.Pos()
			}
		}
		key := name + ":first-element-guarded"
		if okAll {
			s.Pass(nil, key, fd.Pos(), fmt.Sprintf("%d constant-index read(s) of the receiver, each where its length exceeds the index", len(accs)))
		} else {
			s.Fail(nil, key, badPos, "an element of the receiver is read at a constant index without a test of its length: on a slice without any record the method panics (index out of range [0] with length 0) — IsPaired() is called by IBatchOver on the whole data, obiclean on an empty file dies instead of writing an empty result")
		}
	})
}
