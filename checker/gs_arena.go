package main

// Write-through-parameter summaries for GS: a call in a multi-instance
// goroutine that hands a shared reference (captured scratch buffer, arena,
// &captured) to a function which stores through that parameter is a shared store.

import (
	"go/ast"
	"go/token"
	"go/types"
)

type wtKey struct {
	fn  *types.Func
	idx int
}

type wtSummary struct {
	c    *Ctx
	memo map[wtKey]int // 1 yes, 2 no, 3 in progress
}

var wtCache *wtSummary
var wtCacheFor *Ctx

func writeThrough(c *Ctx) *wtSummary {
	if wtCacheFor != c {
		wtCache, wtCacheFor = &wtSummary{c: c, memo: map[wtKey]int{}}, c
	}
	return wtCache
}

// writes reports whether fn stores through its idx-th parameter (receiver = -1).
func (w *wtSummary) writes(fn *types.Func, idx int) bool {
	fn = fn.Origin()
	k := wtKey{fn, idx}
	switch w.memo[k] {
	case 1:
		return true
	case 2, 3:
		return false
	}
	fd, p := w.c.DeclOf(fn)
	if fd == nil || fd.Body == nil {
		w.memo[k] = 2
		return false
	}
	w.memo[k] = 3
	info := p.TypesInfo
	var param types.Object
	if idx < 0 {
		if fd.Recv != nil && len(fd.Recv.List) > 0 && len(fd.Recv.List[0].Names) > 0 {
			param = info.ObjectOf(fd.Recv.List[0].Names[0])
		}
	} else {
		ps := flattenParams(fd.Type.Params)
		if idx < len(ps) && ps[idx] != nil {
			param = info.ObjectOf(ps[idx])
		}
	}
	res := false
	if param != nil && isRefType(param.Type()) {
		// local aliases of the parameter's referent: x := *p ; x := p
		alias := map[types.Object]bool{param: true}
		isAlias := func(e ast.Expr) bool {
			o := rootObj(info, e)
			return o != nil && alias[o]
		}
		base := func(e ast.Expr) ast.Expr {
			for {
				switch x := ast.Unparen(e).(type) {
				case *ast.IndexExpr:
					e = x.X
				case *ast.SelectorExpr:
					e = x.X
				case *ast.StarExpr:
					e = x.X
				case *ast.SliceExpr:
					e = x.X
				default:
					return e
				}
			}
		}
		ast.Inspect(fd.Body, func(n ast.Node) bool {
			if res {
				return false
			}
			switch x := n.(type) {
			case *ast.AssignStmt:
				for i, l := range x.Lhs {
					l = ast.Unparen(l)
					if _, isIdent := l.(*ast.Ident); !isIdent && isAlias(base(l)) {
						res = true // *p = …, p[i] = …, (*p)[i] = …, p.f = …
					}
					// alias propagation: q := *p / q := p (slices share storage)
					if id, isIdent := l.(*ast.Ident); isIdent && i < len(x.Rhs) && x.Tok == token.DEFINE {
						if isAlias(base(x.Rhs[i])) {
							if o := info.ObjectOf(id); o != nil && isRefType(o.Type()) {
								alias[o] = true
							}
						}
					}
				}
			case *ast.IncDecStmt:
				if _, isIdent := ast.Unparen(x.X).(*ast.Ident); !isIdent && isAlias(base(x.X)) {
					res = true
				}
			case *ast.CallExpr:
				if id, ok := x.Fun.(*ast.Ident); ok && id.Name == "copy" && len(x.Args) == 2 && isAlias(base(x.Args[0])) {
					res = true
				}
				if cf := callee(info, x); cf != nil {
					for i, a := range x.Args {
						a = ast.Unparen(a)
						if isAlias(base(a)) {
							if tv, ok := info.Types[a]; ok && isRefType(tv.Type) && w.writes(cf, i) {
								res = true
							}
						}
					}
					if sel, ok := x.Fun.(*ast.SelectorExpr); ok && isAlias(base(sel.X)) && w.writes(cf, -1) {
						res = true
					}
				}
			}
			return true
		})
	}
	if res {
		w.memo[k] = 1
	} else {
		w.memo[k] = 2
	}
	return res
}
