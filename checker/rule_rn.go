package main

// RN — the kind of an attribute value is asked in a way that stands a null (C07).

import (
	"go/ast"
	"go/types"
	"strings"

	"golang.org/x/tools/go/packages"
)

func init() {
	register(&Rule{
		ID: "RN", Props: []string{"C07"}, Min: 4,
		Doc: `"copies, subsequences and reverse complements" exist for every record the readers accept: an attribute may be null ({"x":null} is read, kept and written back), and every derivation copies
the annotations through obiutils.MustFillMap, which asks each value whether it is a map, a slice or an array. In pkg/obiutils no method is called on the result of reflect.TypeOf(v) for an
interface-typed v unless v is tested against nil in an enclosing condition or an earlier returning test: reflect.TypeOf(nil) is a nil Type, and Kind() on it is a nil dereference — obiannotate
--cut, obipcr, obimultiplex, obijoin … died with SIGSEGV on such a record (reflect.ValueOf(v).Kind() is the null-safe form). And a value of interface type is handed to the generic deep copy (barkimedes/go-deepcopy, which skips the map entries and
leaves holding a nil interface) only after a type switch has copied, entry by entry, the two containers a JSON header decodes into: a nested null otherwise disappears from every copy.`,
		Run: func(c *Ctx, s *Sink) {
			c.EachFunc([]string{"pkg/obiutils", "pkg/obiseq"}, func(p *packages.Package, fd *ast.FuncDecl) {
				info := p.TypesInfo
				var stack []ast.Node
				ast.Inspect(fd.Body, func(n ast.Node) bool {
					if n == nil {
						stack = stack[:len(stack)-1]
						return true
					}
					stack = append(stack, n)
					outer, ok := n.(*ast.CallExpr)
					if !ok {
						return true
					}
					sel, ok := outer.Fun.(*ast.SelectorExpr)
					if !ok {
						return true
					}
					inner, ok := ast.Unparen(sel.X).(*ast.CallExpr)
					if !ok || len(inner.Args) != 1 || fullName(callee(info, inner)) != "reflect.TypeOf" {
						return true
					}
					arg := inner.Args[0]
					if _, isIface := info.TypeOf(arg).Underlying().(*types.Interface); !isIface {
						return true
					}
					key := funcName(p, fd) + ":TypeOf(" + types.ExprString(arg) + ")." + sel.Sel.Name
					argTxt := types.ExprString(arg)
					guarded := false
					for k := len(stack) - 2; k >= 0; k-- {
						if ifs, ok := stack[k].(*ast.IfStmt); ok && k+1 < len(stack) && stack[k+1] == ast.Node(ifs.Body) {
							if strings.Contains(types.ExprString(ifs.Cond), argTxt+" != nil") {
								guarded = true
							}
						}
						if b, ok := stack[k].(*ast.BinaryExpr); ok && b.Op.String() == "&&" && strings.Contains(types.ExprString(b.X), argTxt+" != nil") {
							guarded = true
						}
					}
					for _, st := range fd.Body.List {
						if st.End() > outer.Pos() {
							break
						}
						if ifs, ok := st.(*ast.IfStmt); ok && strings.Contains(types.ExprString(ifs.Cond), argTxt+" == nil") {
							if n := len(ifs.Body.List); n > 0 {
								if _, isRet := ifs.Body.List[n-1].(*ast.ReturnStmt); isRet {
									guarded = true
								}
							}
						}
					}
					if guarded {
						s.Pass(nil, key, outer.Pos(), "the value is tested against nil before its type is asked")
					} else {
						s.Fail(nil, key, outer.Pos(), "reflect.TypeOf("+argTxt+") is nil for a null value and ."+sel.Sel.Name+"() dereferences it: MustFillMap asks this of every annotation value, so Copy, Subsequence and ReverseComplement(false) panic on a record holding {\"x\":null}, which the readers accept and the writers write back (obiannotate --cut 2:5: SIGSEGV in obiutils.IsAMap)")
					}
					return true
				})
			})
			// the null-safe form is counted too, so that the rule does not become vacuous once repaired
			c.EachFunc([]string{"pkg/obiutils"}, func(p *packages.Package, fd *ast.FuncDecl) {
				info := p.TypesInfo
				ast.Inspect(fd.Body, func(n ast.Node) bool {
					outer, ok := n.(*ast.CallExpr)
					if !ok {
						return true
					}
					sel, ok := outer.Fun.(*ast.SelectorExpr)
					if !ok || sel.Sel.Name != "Kind" {
						return true
					}
					inner, ok := ast.Unparen(sel.X).(*ast.CallExpr)
					if !ok || len(inner.Args) != 1 || fullName(callee(info, inner)) != "reflect.ValueOf" {
						return true
					}
					if _, isIface := info.TypeOf(inner.Args[0]).Underlying().(*types.Interface); isIface {
						s.Pass(nil, funcName(p, fd)+":ValueOf("+types.ExprString(inner.Args[0])+").Kind", outer.Pos(), "reflect.ValueOf(v).Kind() is Invalid for a null value: no dereference")
					}
					return true
				})
			})
			// (2) the containers of a decoded JSON header are not handed to the generic deep copy
			c.EachFunc([]string{"pkg/obiutils", "pkg/obiseq"}, func(p *packages.Package, fd *ast.FuncDecl) {
				info := p.TypesInfo
				ast.Inspect(fd.Body, func(n ast.Node) bool {
					call, ok := n.(*ast.CallExpr)
					if !ok {
						return true
					}
					f := callee(info, call)
					if f == nil || f.Pkg() == nil || !strings.Contains(f.Pkg().Path(), "deepcopy") || len(call.Args) != 1 {
						return true
					}
					if _, isIface := info.TypeOf(call.Args[0]).Underlying().(*types.Interface); !isIface {
						return true
					}
					key := funcName(p, fd) + ":deepcopy(" + types.ExprString(call.Args[0]) + "):null-entries-kept"
					arg := rootObj(info, call.Args[0])
					// a type switch on the same value, before the call, with returning clauses for map[string]interface{} and []interface{}
					hasMap, hasSlice := false, false
					ast.Inspect(fd.Body, func(m ast.Node) bool {
						ts, ok := m.(*ast.TypeSwitchStmt)
						if !ok || ts.Pos() > call.Pos() {
							return true
						}
						switched := false
						ast.Inspect(ts.Assign, func(q ast.Node) bool {
							if ta, ok := q.(*ast.TypeAssertExpr); ok && rootObj(info, ta.X) == arg {
								switched = true
							}
							return true
						})
						if !switched {
							return true
						}
						for _, cl := range ts.Body.List {
							cc := cl.(*ast.CaseClause)
							returns := false
							for _, st := range cc.Body {
								if _, ok := st.(*ast.ReturnStmt); ok {
									returns = true
								}
							}
							for _, te := range cc.List {
								switch strings.ReplaceAll(types.ExprString(te), "any", "interface{}") {
								case "map[string]interface{}":
									hasMap = hasMap || returns
								case "[]interface{}":
									hasSlice = hasSlice || returns
								}
							}
						}
						return true
					})
					if hasMap && hasSlice {
						s.Pass(nil, key, call.Pos(), "the JSON containers are copied entry by entry before the generic deep copy is reached")
					} else {
						s.Fail(nil, key, call.Pos(), "an attribute value decoded from a JSON header (map[string]interface{}, []interface{}) is handed to the generic deep copy, which skips the entries holding a nil interface: the copy of {\"m\":{\"a\":null,\"b\":1}} is {\"m\":{\"b\":1}} — obiannotate --cut writes a record that has lost its null entries")
					}
					return true
				})
			})
		},
	})
}
