package main

// W-8 — a writer that was given the output either hands it on or closes it (C04, C18).

import (
	"go/ast"
	"go/types"
	"strings"

	"golang.org/x/tools/go/packages"
)

func init() {
	register(&Rule{
		ID: "W-8", Props: []string{"C04", "C18"}, Min: 5,
		Doc: `"closes the output after the last batch" also for a stream without any batch: in pkg/obiformats, a function that receives the output as an io.WriteCloser parameter reaches every
return that reports success (last result the literal nil, or not an error at all) only after having handed that parameter to another function of the module or called Close() on it (typestate over
go/cfg). A successful return that did neither leaves the file open and unterminated: obiconvert -Z of an empty input wrote a 0-byte file that gzip refuses, where --fasta-output wrote a valid
empty archive.`,
		Run: runW8,
	})
}

func runW8(c *Ctx, s *Sink) {
	c.EachFunc([]string{"pkg/obiformats"}, func(p *packages.Package, fd *ast.FuncDecl) {
		info := p.TypesInfo
		var out types.Object
		for _, id := range flattenParams(fd.Type.Params) {
			if id == nil {
				continue
			}
			if strings.HasSuffix(info.ObjectOf(id).Type().String(), "io.WriteCloser") {
				out = info.ObjectOf(id)
			}
		}
		if out == nil || fd.Type.Results == nil {
			return
		}
		// only functions returning an error last (the front-ends); helpers that cannot fail are judged through their callers
		res := fd.Type.Results.List
		if !isErrorType(info.TypeOf(res[len(res)-1].Type)) {
			return
		}
		key := funcName(p, fd) + ":output-handed-on-or-closed"
		g := buildCFG(info, fd.Body)
		ts := &typestate{g: g, init: 0, info: info,
			events: func(n ast.Node) []tsEvent {
				var evs []tsEvent
				visitEval(n, func(m ast.Node) {
					switch x := m.(type) {
					case *ast.CallExpr:
						for _, a := range x.Args {
							if id, ok := ast.Unparen(a).(*ast.Ident); ok && info.ObjectOf(id) == out {
								evs = append(evs, tsEvent{kind: "use", node: m})
							}
						}
						if sel, ok := ast.Unparen(x.Fun).(*ast.SelectorExpr); ok && sel.Sel.Name == "Close" {
							if id, ok := ast.Unparen(sel.X).(*ast.Ident); ok && info.ObjectOf(id) == out {
								evs = append(evs, tsEvent{kind: "use", node: m})
							}
						}
					case *ast.FuncLit:
						// captured by a goroutine / closure of the function
						used := false
						ast.Inspect(x.Body, func(k ast.Node) bool {
							if id, ok := k.(*ast.Ident); ok && info.Uses[id] == out {
								used = true
							}
							return true
						})
						if used {
							evs = append(evs, tsEvent{kind: "use", node: m})
						}
					case *ast.ReturnStmt:
						if len(x.Results) > 0 {
							last := ast.Unparen(x.Results[len(x.Results)-1])
							if id, ok := last.(*ast.Ident); ok && id.Name == "nil" {
								evs = append(evs, tsEvent{kind: "ok-return", node: m})
							}
						}
					}
				})
				return evs
			},
			step: func(st int, ev tsEvent) (int, string) {
				switch ev.kind {
				case "use":
					return 1, ""
				case "ok-return":
					if st == 0 {
						return st, "success is reported on a path where the output was neither handed to a writer nor closed: the file stays open and unterminated (a compressed output is a 0-byte file that gzip refuses)"
					}
				}
				return st, ""
			}}
		r := ts.run()
		if len(r.errs) > 0 {
			s.Fail(nil, key, r.errs[0].pos, r.errs[0].msg)
		} else {
			s.Pass(nil, key, fd.Pos(), "every successful return follows a hand-over or a Close() of the output")
		}
	})
}

func init() {
	register(&Rule{
		ID: "W-9", Props: []string{"C18"}, Min: 4,
		Doc: `"closing fails" is reported on the standard output as on a file: every function of pkg/obiformats that hands os.Stdout to one of the four writers (or to the generic one) appends
OptionCloseFile() to the options and never OptionDontCloseFile() — the siblings agree. A stream left open is never closed by anything: the close(2) error of a quota or a network file system
(strace -e inject=close:error=EDQUOT) ended obiconvert --fasta-output with status 1 and obiconvert --json-output / obicsv with status 0. And in every main of cmd/obitools nothing is printed on the
standard output after the call that may close it (a function from which such a ...ToStdout function is reachable): obitag > out ended every successful run with "file already closed" and status 1.`,
		Run: runW9,
	})
}

func runW9(c *Ctx, s *Sink) {
	closers := map[*types.Func]bool{}
	c.EachFunc([]string{"pkg/obiformats"}, func(p *packages.Package, fd *ast.FuncDecl) {
		info := p.TypesInfo
		var site *ast.CallExpr
		ast.Inspect(fd.Body, func(n ast.Node) bool {
			call, ok := n.(*ast.CallExpr)
			if !ok {
				return true
			}
			f := callee(info, call)
			if f == nil || f.Pkg() == nil || rel(f.Pkg().Path()) != "pkg/obiformats" {
				return true
			}
			for _, a := range call.Args {
				if isStdout(info, a) {
					site = call
				}
			}
			return true
		})
		if site == nil {
			return
		}
		key := funcName(p, fd) + ":stdout-closed"
		closes, keeps := false, false
		ast.Inspect(fd.Body, func(n ast.Node) bool {
			if call, ok := n.(*ast.CallExpr); ok {
				if f := callee(info, call); f != nil {
					switch f.Name() {
					case "OptionCloseFile":
						closes = true
					case "OptionDontCloseFile":
						keeps = true
					}
				}
			}
			return true
		})
		switch {
		case keeps || !closes:
			s.Fail(nil, key, site.Pos(), "the standard output is handed to the writer without OptionCloseFile(): it is never closed, so an error that surfaces at close(2) (quota, network file system) is not reported — exit 0 — where the FASTA and FASTQ siblings exit 1")
		default:
			s.Pass(nil, key, site.Pos(), "the writer is told to close the standard output (its Close() error is reported by the writer)")
			if fn, ok := info.Defs[fd.Name].(*types.Func); ok {
				closers[fn] = true
			}
		}
	})
	if len(closers) == 0 {
		return
	}
	reach := c.RefGraph().reachers(closers)
	c.EachFunc([]string{"cmd/obitools"}, func(p *packages.Package, fd *ast.FuncDecl) {
		if fd.Name.Name != "main" || fd.Recv != nil || p.Name != "main" {
			return
		}
		info := p.TypesInfo
		key := rel(p.PkgPath) + ".main:no-print-after-stdout-closed"
		g := buildCFG(info, fd.Body)
		ts := &typestate{g: g, init: 0, info: info,
			events: func(n ast.Node) []tsEvent {
				var evs []tsEvent
				visitEval(n, func(m ast.Node) {
					call, ok := m.(*ast.CallExpr)
					if !ok {
						return
					}
					fn := callee(info, call)
					if fn == nil || fn.Pkg() == nil {
						return
					}
					if reach[fn.Origin()] || closers[fn.Origin()] {
						evs = append(evs, tsEvent{kind: "close", node: m})
						return
					}
					if fn.Pkg().Path() == "fmt" && (fn.Name() == "Print" || fn.Name() == "Printf" || fn.Name() == "Println") {
						evs = append(evs, tsEvent{kind: "print", node: m})
					}
					if fn.Pkg().Path() == "fmt" && strings.HasPrefix(fn.Name(), "Fprint") && len(call.Args) > 0 && isStdout(info, call.Args[0]) {
						evs = append(evs, tsEvent{kind: "print", node: m})
					}
					if sel, ok := ast.Unparen(call.Fun).(*ast.SelectorExpr); ok && isStdout(info, sel.X) && strings.HasPrefix(sel.Sel.Name, "Write") {
						evs = append(evs, tsEvent{kind: "print", node: m})
					}
				})
				return evs
			},
			step: func(st int, ev tsEvent) (int, string) {
				if ev.kind == "close" {
					return 1, ""
				}
				if st == 1 {
					return st, "printed on the standard output after the call that may have closed it: when the sequences went to stdout the print fails with \"file already closed\" (and, its error being tested, ends a successful run with status 1)"
				}
				return st, ""
			}}
		r := ts.run()
		if len(r.errs) > 0 {
			s.Fail(nil, key, r.errs[0].pos, r.errs[0].msg)
		} else if r.exitStates&(1<<1) != 0 {
			s.Pass(nil, key, fd.Pos(), "nothing is printed on stdout after the writers were started")
		}
	})
}
