package main

// IT-4 — order discipline at every push.

import (
	"fmt"
	"go/ast"
	"go/constant"
	"go/token"
	"go/types"
	"sort"
	"strings"

	"golang.org/x/tools/go/cfg"
)

func init() {
	register(&Rule{
		ID: "IT-4", Props: []string{"C03", "C04", "C01", "C06", "C16"}, Min: 30,
		Doc: `order discipline at every push: the number of a pushed batch is (i) pass-through: the number of the batch obtained in the same iteration, and the
push happens exactly once per obtained batch on every path (a keep-order stage that skips a batch leaves a hole on which every re-sequencer stalls); or (ii) a counter that
starts at 0 and is incremented exactly once between two pushes (local variable, synchronised counter closure, per-key map counter, range index), the consumed iterator being
the result of SortBatches()/Rebatch() unless the combinator is order-agnostic by contract (tabled); or (iii) number + running offset (Concat).`,
		Run: runIT4,
	})
}

// combinators that renumber in arrival order and do not promise input order
var itOrderAgnostic = map[string]string{
	"pkg/obiiter.(IBioSequence).Pool":                "pools several streams; arrival order is the contract",
	"pkg/obichunk.IUniqueSequence":                   "dereplication does not promise order",
	"pkg/obichunk.ISequenceSubChunk":                 "dereplication does not promise order",
	"pkg/obichunk.ISequenceChunk":                    "dereplication does not promise order",
	"pkg/obichunk.ISequenceChunkOnDisk":              "dereplication does not promise order",
	"pkg/obiiter.(IBioSequence).IMergeSequenceBatch": "dereplication does not promise order",
}

// reviewed exceptions of the numbering recogniser: key -> reason
var itOrderExceptions = map[string]string{
	"pkg/obitools/obirefidx.IndexReferenceDB:indexed":        "order l[0]/10 of a work range that starts at multiples of 10: affine image of a gap-free range",
}

type ordKind int

const (
	ordUnknown ordKind = iota
	ordPass            // pass-through of an iterator batch
	ordPassChan        // pass-through of a chunk number received from a channel range
	ordCounter
	ordClosure
	ordKeyed
	ordConst
	ordRangeIdx
	ordOffset
)

type ordInfo struct {
	kind   ordKind
	src    types.Object   // pass: iterator object; counter: variable; closure: func var; keyed: map var
	rng    *ast.RangeStmt // passChan / rangeIdx
	expr   ast.Expr
	cval   int64
	offVar types.Object
	field  types.Object // keyed through a struct held in the map: the counter field
	why    string
}

type it4 struct {
	c    *Ctx
	h    *itHandle
	body *itBody
	info *types.Info
	defs map[types.Object][]ast.Expr // assignments to locals in the body's declaration
}

func runIT4(c *Ctx, s *Sink) {
	for _, h := range itHandles(c) {
		props := itProps(h)
		pushes := h.eventsOf("Push")
		if len(pushes) == 0 {
			s.Pass(props, h.key(), h.create.Pos(), "no push: nothing to number")
			continue
		}
		if why, ok := itOrderExceptions[h.key()]; ok {
			s.Pass(props, h.key(), pushes[0].pos(), "tabled exception: "+why)
			continue
		}
		// group pushes per body
		byBody := map[*itBody][]*itEvent{}
		var bodies []*itBody
		for _, p := range pushes {
			if byBody[p.body] == nil {
				bodies = append(bodies, p.body)
			}
			byBody[p.body] = append(byBody[p.body], p)
		}
		for _, b := range bodies {
			if rs := reseqIn(c, b); rs != nil {
				s.Pass(props, h.key()+":order:"+b.label, byBody[b][0].pos(), "re-sequencer: emits stored batches under their own number in counter order; shape decided by W-1 ("+rs.key()+")")
				continue
			}
			a := &it4{c: c, h: h, body: b, info: b.pkg.TypesInfo}
			a.defs = collectDefs(a.info, b.outer)
			a.check(s, props, byBody[b])
		}
	}
}

func collectDefs(info *types.Info, root ast.Node) map[types.Object][]ast.Expr {
	defs := map[types.Object][]ast.Expr{}
	ast.Inspect(root, func(n ast.Node) bool {
		switch x := n.(type) {
		case *ast.AssignStmt:
			for i, l := range x.Lhs {
				id, ok := ast.Unparen(l).(*ast.Ident)
				if !ok {
					continue
				}
				o := info.ObjectOf(id)
				if o == nil {
					continue
				}
				if len(x.Lhs) == len(x.Rhs) {
					defs[o] = append(defs[o], x.Rhs[i])
				} else {
					defs[o] = append(defs[o], nil)
				}
			}
		case *ast.ValueSpec:
			for i, id := range x.Names {
				if o := info.ObjectOf(id); o != nil && i < len(x.Values) {
					defs[o] = append(defs[o], x.Values[i])
				}
			}
		}
		return true
	})
	return defs
}

func (a *it4) mutated(o types.Object) bool {
	m := false
	ast.Inspect(a.body.outer, func(n ast.Node) bool {
		if inc, ok := n.(*ast.IncDecStmt); ok {
			if id, ok := ast.Unparen(inc.X).(*ast.Ident); ok && a.info.ObjectOf(id) == o {
				m = true
			}
		}
		return true
	})
	return m
}

func (a *it4) isBatchGet(e ast.Expr) (types.Object, bool) {
	call, ok := ast.Unparen(e).(*ast.CallExpr)
	if !ok {
		return nil, false
	}
	sel, ok := call.Fun.(*ast.SelectorExpr)
	if !ok {
		return nil, false
	}
	fn := fullName(callee(a.info, call))
	switch fn {
	case modPath + "/pkg/obiiter.(IBioSequence).Get":
		return rootObj(a.info, sel.X), true
	case modPath + "/pkg/obiiter.(BioSequenceBatch).PairedWith":
		return a.isBatchGet(sel.X)
	}
	return nil, false
}

// batchSource: the iterator a batch variable was obtained from.
func (a *it4) batchSource(e ast.Expr) (types.Object, bool) {
	e = ast.Unparen(e)
	if o, ok := a.isBatchGet(e); ok {
		return o, true
	}
	if id, ok := e.(*ast.Ident); ok {
		o := a.info.ObjectOf(id)
		ds := a.defs[o]
		if len(ds) == 0 {
			return nil, false
		}
		var src types.Object
		for _, d := range ds {
			if d == nil {
				return nil, false
			}
			so, ok := a.isBatchGet(d)
			if !ok {
				return nil, false
			}
			if src != nil && so != src {
				return nil, false
			}
			src = so
		}
		return src, src != nil
	}
	return nil, false
}

func (a *it4) classifyPush(p *itEvent) ordInfo {
	arg := ast.Unparen(p.arg)
	// pushed from inside an inlined callee: a parameter stands for the argument of the call
	if id, ok := arg.(*ast.Ident); ok && p.bind != nil {
		if b, ok := p.bind[a.info.ObjectOf(id)]; ok {
			arg = ast.Unparen(b)
		}
	}
	// direct batch
	if src, ok := a.batchSource(arg); ok {
		return ordInfo{kind: ordPass, src: src, expr: arg}
	}
	var ord ast.Expr
	switch x := arg.(type) {
	case *ast.CallExpr:
		// a helper that builds its result batch with the number of one of its batch parameters
		// (extracted loop body): the number passes through from the corresponding argument
		if f := callee(a.info, x); f != nil {
			if pi, ok := a.c.orderPassThrough(f); ok && pi < len(x.Args) {
				if src, ok := a.batchSource(x.Args[pi]); ok {
					return ordInfo{kind: ordPass, src: src, expr: arg}
				}
			}
		}
		fn := fullName(callee(a.info, x))
		switch fn {
		case modPath + "/pkg/obiiter.MakeBioSequenceBatch":
			if len(x.Args) == 3 {
				ord = x.Args[1]
			}
		case modPath + "/pkg/obiiter.(BioSequenceBatch).Reorder":
			if len(x.Args) == 1 {
				ord = x.Args[0]
			}
		}
	case *ast.CompositeLit:
		ord = compositeOrder(a.info, x)
	case *ast.Ident:
		// local batch variable built by a composite literal / MakeBioSequenceBatch
		ds := a.defs[a.info.ObjectOf(x)]
		if len(ds) == 1 && ds[0] != nil {
			switch d := ast.Unparen(ds[0]).(type) {
			case *ast.CompositeLit:
				ord = compositeOrder(a.info, d)
			case *ast.CallExpr:
				if isCallTo(a.info, d, "pkg/obiiter.MakeBioSequenceBatch") && len(d.Args) == 3 {
					ord = d.Args[1]
				}
			}
		}
	}
	if ord == nil {
		return ordInfo{kind: ordUnknown, why: "cannot find the order of pushed batch " + types.ExprString(arg)}
	}
	return a.classifyOrder(ord, p)
}

func compositeOrder(info *types.Info, cl *ast.CompositeLit) ast.Expr {
	tv, ok := info.Types[cl]
	if !ok || namedTypeName(tv.Type) != modPath+"/pkg/obiiter.BioSequenceBatch" {
		return nil
	}
	// the batch number is the integer field of the batch (whatever it is called, wherever it stands)
	intField := -1
	if st, ok := tv.Type.Underlying().(*types.Struct); ok {
		for k := 0; k < st.NumFields(); k++ {
			if b, ok := st.Field(k).Type().Underlying().(*types.Basic); ok && b.Info()&types.IsInteger != 0 {
				intField = k
			}
		}
	}
	for i, el := range cl.Elts {
		if kv, ok := el.(*ast.KeyValueExpr); ok {
			if id, ok := kv.Key.(*ast.Ident); ok {
				if fv, ok := info.ObjectOf(id).(*types.Var); ok && fv.IsField() {
					if b, ok := fv.Type().Underlying().(*types.Basic); ok && b.Info()&types.IsInteger != 0 {
						return kv.Value
					}
				}
			}
		} else if i == intField {
			return el
		}
	}
	return nil
}

func (a *it4) classifyOrder(ord ast.Expr, p *itEvent) ordInfo {
	ord = ast.Unparen(ord)
	// inside an inlined callee: a parameter stands for the argument of the call, *param for X when the
	// argument is &X
	if p != nil && p.bind != nil {
		switch x := ord.(type) {
		case *ast.Ident:
			if b, ok := p.bind[a.info.ObjectOf(x)]; ok {
				ord = ast.Unparen(b)
			}
		case *ast.StarExpr:
			if id, ok := ast.Unparen(x.X).(*ast.Ident); ok {
				if b, ok := p.bind[a.info.ObjectOf(id)]; ok {
					if u, ok := ast.Unparen(b).(*ast.UnaryExpr); ok && u.Op == token.AND {
						ord = ast.Unparen(u.X)
					}
				}
			}
		}
	}
	if tv, ok := a.info.Types[ord]; ok && tv.Value != nil {
		v, _ := constant.Int64Val(tv.Value)
		return ordInfo{kind: ordConst, cval: v, expr: ord}
	}
	// b.Order() / b.order
	if recv := orderReceiver(a.info, ord); recv != nil {
		if src, ok := a.batchSource(recv); ok {
			return ordInfo{kind: ordPass, src: src, expr: ord}
		}
	}
	switch x := ord.(type) {
	case *ast.SelectorExpr:
		// bucket.order where bucket is the element of a local map (bucket := buckets[key], or the value of
		// a range over that map): the per-key counter is a field of the map's element
		if id, ok := ast.Unparen(x.X).(*ast.Ident); ok {
			if fv, ok := a.info.ObjectOf(x.Sel).(*types.Var); ok && fv.IsField() {
				if mv := a.mapElemOrigin(a.info.ObjectOf(id), p); mv != nil {
					return ordInfo{kind: ordKeyed, src: mv, field: fv, expr: ord}
				}
			}
		}
		// chunks.Order where chunks is the value of a range over a channel
		if id, ok := ast.Unparen(x.X).(*ast.Ident); ok && x.Sel.Name == "Order" {
			if rs := rangeDefining(a.info, p.path, a.info.ObjectOf(id)); rs != nil {
				if tv, ok := a.info.Types[rs.X]; ok {
					if _, isChan := tv.Type.Underlying().(*types.Chan); isChan {
						return ordInfo{kind: ordPassChan, rng: rs, expr: ord}
					}
				}
			}
		}
	case *ast.Ident:
		o := a.info.ObjectOf(x)
		if rs := rangeDefining(a.info, p.path, o); rs != nil {
			if k, ok := rs.Key.(*ast.Ident); ok && a.info.ObjectOf(k) == o {
				if tv, ok := a.info.Types[rs.X]; ok {
					switch tv.Type.Underlying().(type) {
					case *types.Slice, *types.Array:
						return ordInfo{kind: ordRangeIdx, rng: rs, expr: ord}
					}
				}
			}
		}
		// single-assignment local copy of another expression (order := chunks.Order)
		if ds := a.defs[o]; len(ds) == 1 && ds[0] != nil && !a.mutated(o) {
			if tv, ok := a.info.Types[ast.Unparen(ds[0])]; !(ok && tv.Value != nil) {
				if sub := a.classifyOrder(ds[0], p); sub.kind != ordUnknown && sub.kind != ordCounter {
					return sub
				}
			}
		}
		if v, ok := o.(*types.Var); ok && !v.IsField() {
			return ordInfo{kind: ordCounter, src: o, expr: ord}
		}
	case *ast.CallExpr:
		if id, ok := ast.Unparen(x.Fun).(*ast.Ident); ok && len(x.Args) == 0 {
			if o := a.info.ObjectOf(id); o != nil {
				if _, isSig := o.Type().Underlying().(*types.Signature); isSig {
					if _, isVar := o.(*types.Var); isVar {
						return ordInfo{kind: ordClosure, src: o, expr: ord}
					}
				}
			}
		}
	case *ast.IndexExpr:
		if id, ok := ast.Unparen(x.X).(*ast.Ident); ok {
			if tv, ok := a.info.Types[x.X]; ok {
				if _, isMap := tv.Type.Underlying().(*types.Map); isMap {
					return ordInfo{kind: ordKeyed, src: a.info.ObjectOf(id), expr: ord}
				}
			}
		}
	case *ast.BinaryExpr:
		if x.Op == token.ADD {
			if recv := orderReceiver(a.info, x.X); recv != nil {
				if src, ok := a.batchSource(recv); ok {
					if id, ok := ast.Unparen(x.Y).(*ast.Ident); ok {
						return ordInfo{kind: ordOffset, src: src, offVar: a.info.ObjectOf(id), expr: ord}
					}
				}
			}
		}
	}
	return ordInfo{kind: ordUnknown, why: "unrecognised order expression " + types.ExprString(ord), expr: ord}
}

// orderReceiver returns b for b.Order() or b.order.
func orderReceiver(info *types.Info, e ast.Expr) ast.Expr {
	switch x := ast.Unparen(e).(type) {
	case *ast.CallExpr:
		if sel, ok := x.Fun.(*ast.SelectorExpr); ok && fullName(callee(info, x)) == modPath+"/pkg/obiiter.(BioSequenceBatch).Order" {
			return sel.X
		}
	case *ast.SelectorExpr:
		if x.Sel.Name == "order" {
			if tv, ok := info.Types[x.X]; ok && namedTypeName(tv.Type) == modPath+"/pkg/obiiter.BioSequenceBatch" {
				return x.X
			}
		}
	}
	return nil
}

func rangeDefining(info *types.Info, path []ast.Node, o types.Object) *ast.RangeStmt {
	if o == nil {
		return nil
	}
	for i := len(path) - 1; i >= 0; i-- {
		if rs, ok := path[i].(*ast.RangeStmt); ok {
			for _, kv := range []ast.Expr{rs.Key, rs.Value} {
				if id, ok := kv.(*ast.Ident); ok && info.ObjectOf(id) == o {
					return rs
				}
			}
		}
	}
	return nil
}

func (a *it4) check(s *Sink, props []string, pushes []*itEvent) {
	h := a.h
	base := h.key() + ":order:" + a.body.label
	type grp struct {
		oi     ordInfo
		pushes []*itEvent
	}
	groups := map[string]*grp{}
	var order []string
	for _, p := range pushes {
		oi := a.classifyPush(p)
		gk := fmt.Sprintf("%d/%p/%p", oi.kind, oi.src, oi.rng)
		if oi.kind == ordOffset {
			gk = fmt.Sprintf("%d/%p", oi.kind, oi.offVar)
		}
		if oi.kind == ordUnknown {
			s.Undecided(props, base, p.pos(), oi.why)
			return
		}
		if groups[gk] == nil {
			groups[gk] = &grp{oi: oi}
			order = append(order, gk)
		}
		groups[gk].pushes = append(groups[gk].pushes, p)
	}
	if len(order) > 1 {
		s.Undecided(props, base, pushes[0].pos(), "pushes on "+h.name+" in one body use different numbering schemes")
		return
	}
	g := groups[order[0]]
	oi := g.oi
	switch oi.kind {
	case ordPass, ordPassChan, ordRangeIdx:
		msg := a.exactlyOncePerItem(oi, g.pushes)
		what := map[ordKind]string{ordPass: "pass-through of the batch number", ordPassChan: "pass-through of the chunk number", ordRangeIdx: "range index"}[oi.kind]
		if msg != "" {
			s.Fail(props, base, g.pushes[0].pos(), what+": "+msg)
			return
		}
		if oi.kind == ordRangeIdx {
			// range over a slice: numbers 0..n-1 without gap by construction
			s.Pass(props, base, g.pushes[0].pos(), "numbered by the index of a range over a slice, one push per iteration on every path")
			return
		}
		s.Pass(props, base, g.pushes[0].pos(), what+", exactly one push per obtained batch on every path")
	case ordCounter:
		if msg := a.counterDiscipline(oi.src, g.pushes); msg != "" {
			s.Fail(props, base, g.pushes[0].pos(), "counter "+oi.src.Name()+": "+msg)
			return
		}
		if msg := a.sortedInputs(); msg != "" {
			s.Fail(props, base, g.pushes[0].pos(), msg)
			return
		}
		s.Pass(props, base, g.pushes[0].pos(), "local counter "+oi.src.Name()+" starts at 0, one increment between pushes; consumed stream is sorted or order-agnostic")
	case ordClosure:
		if msg := a.closureDiscipline(oi.src, g.pushes); msg != "" {
			s.Fail(props, base, g.pushes[0].pos(), "counter closure "+oi.src.Name()+": "+msg)
			return
		}
		if msg := a.sortedInputs(); msg != "" {
			s.Fail(props, base, g.pushes[0].pos(), msg)
			return
		}
		s.Pass(props, base, g.pushes[0].pos(), "synchronised counter closure "+oi.src.Name()+" yields 0,1,2,…, called once per push; consumed stream is sorted or order-agnostic")
	case ordConst:
		if oi.cval != 0 {
			s.Fail(props, base, g.pushes[0].pos(), fmt.Sprintf("single batch numbered %d instead of 0", oi.cval))
			return
		}
		if len(h.eventsOf("Push")) != 1 || inLoop(g.pushes[0].path, a.body) {
			s.Fail(props, base, g.pushes[0].pos(), "constant batch number 0 used for more than one push")
			return
		}
		if msg := a.sortedInputs(); msg != "" {
			s.Fail(props, base, g.pushes[0].pos(), msg)
			return
		}
		s.Pass(props, base, g.pushes[0].pos(), "single push numbered 0; consumed stream is sorted")
	case ordKeyed:
		kd := a.keyedDiscipline
		if oi.field != nil {
			kd = func(mv types.Object, pushes []*itEvent) string { return a.keyedFieldDiscipline(mv, oi.field, pushes) }
		}
		if msg := kd(oi.src, g.pushes); msg != "" {
			s.Fail(props, base, g.pushes[0].pos(), "per-key counter "+oi.src.Name()+": "+msg)
			return
		}
		if msg := a.sortedInputs(); msg != "" {
			s.Fail(props, base, g.pushes[0].pos(), msg)
			return
		}
		s.Pass(props, base, g.pushes[0].pos(), "per-key counter starts at 0 when the key's stream is created and is incremented once after each in-loop push; consumed stream is sorted")
	case ordOffset:
		if msg := a.offsetDiscipline(oi, g.pushes); msg != "" {
			s.Fail(props, base, g.pushes[0].pos(), "offset numbering: "+msg)
			return
		}
		s.Pass(props, base, g.pushes[0].pos(), "number = source number + running offset (max so far + 1), offsets start at 0")
	}
}

func inLoop(path []ast.Node, b *itBody) bool {
	inside := false
	for _, n := range path {
		if n == b.fn || n == b.body {
			inside = true
			continue
		}
		if !inside {
			continue
		}
		switch n.(type) {
		case *ast.ForStmt, *ast.RangeStmt:
			return true
		}
	}
	return false
}

// exactlyOncePerItem: typestate over the body's CFG.  state 0 = nothing
// pending, 1 = an item has been obtained and not yet pushed.
func (a *it4) exactlyOncePerItem(oi ordInfo, pushes []*itEvent) string {
	g := buildCFG(a.info, a.body.body)
	pushSet := map[ast.Node]bool{}
	for _, p := range pushes {
		pushSet[p.node] = true
	}
	isNext := func(n ast.Node) bool {
		call, ok := n.(*ast.CallExpr)
		if !ok {
			return false
		}
		sel, ok := call.Fun.(*ast.SelectorExpr)
		if !ok {
			return false
		}
		return fullName(callee(a.info, call)) == modPath+"/pkg/obiiter.(IBioSequence).Next" && rootObj(a.info, sel.X) == oi.src
	}
	var firstErr string
	ts := &typestate{g: g, init: 0, info: a.info,
		events: func(n ast.Node) []tsEvent {
			var evs []tsEvent
			visitEval(n, func(m ast.Node) {
				if pushSet[m] {
					evs = append(evs, tsEvent{kind: "push", node: m})
				} else if oi.kind == ordPass && isNext(m) {
					evs = append(evs, tsEvent{kind: "next", node: m})
				}
			})
			return evs
		},
		step: func(st int, ev tsEvent) (int, string) {
			switch ev.kind {
			case "next":
				if st == 1 {
					return 1, "a path obtains the next batch without having pushed the previous one: its number is missing downstream (re-sequencers and writers stall on the hole)"
				}
				return 2, "" // 2 = Next evaluated, outcome decided on the edge
			case "push":
				if st == 0 {
					return 0, "a batch number is pushed twice (or pushed without an obtained batch) on a path"
				}
				return 0, ""
			}
			return st, ""
		},
		condLeaf: func(leaf ast.Expr, st int, truth bool) int {
			if oi.kind == ordPass && st == 2 {
				if truth {
					return 1
				}
				return 0
			}
			return st
		},
		edge: func(b *cfg.Block, succ int, st int) int {
			if oi.kind == ordPass {
				if st == 2 {
					return 1 // Next() used as a statement: assume an item was obtained
				}
				return st
			}
			// range-based: entering the body obtains an item
			if b.Kind == cfg.KindRangeLoop && b.Stmt == ast.Stmt(oi.rng) {
				if succ == 0 {
					if st == 1 {
						return 3 // error state: previous item not pushed
					}
					return 1
				}
				if st == 1 {
					return 3
				}
				return 0
			}
			return st
		}}
	res := ts.run()
	for _, e := range res.errs {
		if firstErr == "" {
			firstErr = e.msg + " (at " + a.c.Pos(e.pos) + ")"
		}
	}
	if firstErr != "" {
		return firstErr
	}
	// state 3 reachable anywhere shows up at exits or loops: detect via exit states and a second pass
	if res.exitStates&(1<<3) != 0 {
		return "an iteration ends without pushing the item it obtained: its number is missing downstream (re-sequencers and writers stall on the hole)"
	}
	if res.exitStates&(1<<1) != 0 {
		return "the producer can exit with an obtained batch not pushed (at " + a.c.Pos(res.exitPos[1]) + ")"
	}
	return ""
}

func isZeroInit(info *types.Info, e ast.Expr) bool {
	if e == nil {
		return false
	}
	if tv, ok := info.Types[e]; ok && tv.Value != nil {
		if v, ok := constant.Int64Val(constant.ToInt(tv.Value)); ok {
			return v == 0
		}
	}
	return false
}

// counterDiscipline: counter starts at 0; between two pushes exactly one
// increment; no other write.
func (a *it4) counterDiscipline(cv types.Object, pushes []*itEvent) string {
	// definition
	ds := a.defs[cv]
	if len(ds) == 0 || !isZeroInit(a.info, ds[0]) {
		return "is not initialised to the constant 0"
	}
	if len(ds) > 1 {
		return "is assigned more than once (only ++ is allowed after the initialisation)"
	}
	pushSet := map[ast.Node]bool{}
	for _, p := range pushes {
		pushSet[p.node] = true
	}
	g := buildCFG(a.info, a.body.body)
	ts := &typestate{g: g, init: 0, info: a.info,
		events: func(n ast.Node) []tsEvent {
			var evs []tsEvent
			visitEval(n, func(m ast.Node) {
				incPos, pushPos := a.calleeIncrements(m, cv, pushes)
				if incPos != token.NoPos && incPos < pushPos {
					evs = append(evs, tsEvent{kind: "inc", node: m})
				}
				if pushSet[m] {
					evs = append(evs, tsEvent{kind: "push", node: m})
				}
				if incPos != token.NoPos && incPos >= pushPos {
					evs = append(evs, tsEvent{kind: "inc", node: m})
				}
				if inc, ok := m.(*ast.IncDecStmt); ok {
					if id, ok := ast.Unparen(inc.X).(*ast.Ident); ok && a.info.ObjectOf(id) == cv {
						if inc.Tok == token.INC {
							evs = append(evs, tsEvent{kind: "inc", node: m})
						} else {
							evs = append(evs, tsEvent{kind: "bad", node: m})
						}
					}
				}
			})
			return evs
		},
		step: func(st int, ev tsEvent) (int, string) {
			switch ev.kind {
			case "push":
				if st == 1 {
					return 1, "two pushes without an increment in between: duplicate batch number"
				}
				return 1, ""
			case "inc":
				if st == 0 {
					return 0, "incremented without a push since the last increment: a batch number is skipped"
				}
				return 0, ""
			case "bad":
				return st, "is decremented"
			}
			return st, ""
		}}
	// increments outside this body?
	outside := false
	ast.Inspect(a.body.outer, func(n ast.Node) bool {
		if inc, ok := n.(*ast.IncDecStmt); ok {
			if id, ok := ast.Unparen(inc.X).(*ast.Ident); ok && a.info.ObjectOf(id) == cv {
				if !(inc.Pos() >= a.body.body.Pos() && inc.End() <= a.body.body.End()) {
					outside = true
				}
			}
		}
		return true
	})
	if outside {
		return "is incremented outside the pushing body"
	}
	res := ts.run()
	if len(res.errs) > 0 {
		return res.errs[0].msg + " (at " + a.c.Pos(res.errs[0].pos) + ")"
	}
	return ""
}

// sortedInputs: every iterator consumed in the body must be sorted, unless the
// combinator is order-agnostic.
func (a *it4) sortedInputs() string {
	fn := funcName(a.h.pkg, a.h.fd)
	if _, ok := itOrderAgnostic[fn]; ok {
		return ""
	}
	consumed := map[types.Object]token.Pos{}
	ast.Inspect(a.body.body, func(n ast.Node) bool {
		call, ok := n.(*ast.CallExpr)
		if !ok {
			return true
		}
		sel, ok := call.Fun.(*ast.SelectorExpr)
		if !ok {
			return true
		}
		switch fullName(callee(a.info, call)) {
		case modPath + "/pkg/obiiter.(IBioSequence).Next", modPath + "/pkg/obiiter.(IBioSequence).Load":
			if o := rootObj(a.info, sel.X); o != nil && !a.h.denotes(a.info, sel.X) {
				if _, seen := consumed[o]; !seen {
					consumed[o] = call.Pos()
				}
			} else if o == nil {
				consumed[nil] = call.Pos()
			}
		}
		return true
	})
	var objs []types.Object
	for o := range consumed {
		objs = append(objs, o)
	}
	sort.Slice(objs, func(i, j int) bool { return consumed[objs[i]] < consumed[objs[j]] })
	for _, o := range objs {
		if o == nil {
			return "renumbers a stream obtained from an expression the analyser cannot track"
		}
		if !a.isSorted(o, consumed[o]) {
			return fmt.Sprintf("renumbers the batches of %s in arrival order, but %s is not the result of SortBatches()/Rebatch(): with parallel upstream stages the record order is lost (use at %s)", o.Name(), o.Name(), a.c.Pos(consumed[o]))
		}
	}
	return ""
}

func sortedChain(info *types.Info, e ast.Expr) bool {
	call, ok := ast.Unparen(e).(*ast.CallExpr)
	if !ok {
		return false
	}
	switch fullName(callee(info, call)) {
	case modPath + "/pkg/obiiter.(IBioSequence).SortBatches", modPath + "/pkg/obiiter.(IBioSequence).Rebatch":
		return true
	}
	return false
}

func (a *it4) isSorted(o types.Object, use token.Pos) bool {
	ds := a.defs[o]
	// the last assignment before the use must be a sorted chain
	var last ast.Expr
	found := false
	for _, d := range ds {
		if d == nil {
			continue
		}
		if d.Pos() < use {
			last = d
			found = true
		}
	}
	return found && sortedChain(a.info, last)
}

// closureDiscipline: nextOrder-like closures.
func (a *it4) closureDiscipline(fv types.Object, pushes []*itEvent) string {
	ds := a.defs[fv]
	info := a.info
	var scope ast.Node = a.body.outer
	if len(ds) == 0 {
		// the closure is a parameter of a named function started with go (an extracted goroutine body):
		// it is bound by the go statement of the creating function
		if fdecl, ok := a.body.fn.(*ast.FuncDecl); ok {
			for _, l := range a.h.launches {
				if l.target != a.body {
					continue
				}
				for i, prm := range flattenParams(fdecl.Type.Params) {
					if prm != nil && a.info.ObjectOf(prm) == fv && i < len(l.stmt.Call.Args) {
						if id, ok := ast.Unparen(l.stmt.Call.Args[i]).(*ast.Ident); ok {
							hinfo := a.h.pkg.TypesInfo
							ds = collectDefs(hinfo, a.h.fd)[hinfo.ObjectOf(id)]
							info, scope = hinfo, a.h.fd
						}
					}
				}
			}
		}
	}
	if len(ds) != 1 || ds[0] == nil {
		return "is not bound exactly once"
	}
	var lit *ast.FuncLit
	nargs := 0
	switch d := ast.Unparen(ds[0]).(type) {
	case *ast.FuncLit:
		lit = d
	case *ast.CallExpr:
		// factory such as obiutils.AtomicCounter()
		fn := callee(info, d)
		cd, cp := a.c.DeclOf(fn)
		if cd == nil {
			return "comes from a factory without source"
		}
		nargs = len(d.Args)
		info = cp.TypesInfo
		lits := localFuncLits(info, cd)
		// returned identifier
		ast.Inspect(cd.Body, func(n ast.Node) bool {
			if r, ok := n.(*ast.ReturnStmt); ok && len(r.Results) == 1 {
				switch rv := ast.Unparen(r.Results[0]).(type) {
				case *ast.FuncLit:
					lit = rv
				case *ast.Ident:
					lit = lits[info.ObjectOf(rv)]
				}
			}
			return true
		})
		if lit == nil {
			return "factory " + fn.Name() + " does not return a recognisable closure"
		}
		return closureCounter(info, cd, lit, nargs == 0) + a.closureCalls(fv, pushes)
	}
	if lit == nil {
		return "is not a function literal"
	}
	return closureCounter(info, scope, lit, false) + a.closureCalls(fv, pushes)
}

// closureCalls: every call of the closure must be inside a push argument.
func (a *it4) closureCalls(fv types.Object, pushes []*itEvent) string {
	msg := ""
	ast.Inspect(a.body.outer, func(n ast.Node) bool {
		call, ok := n.(*ast.CallExpr)
		if !ok {
			return true
		}
		id, ok := ast.Unparen(call.Fun).(*ast.Ident)
		if !ok || a.info.ObjectOf(id) != fv {
			return true
		}
		inside := false
		for _, p := range a.h.eventsOf("Push") {
			if call.Pos() >= p.node.Pos() && call.End() <= p.node.End() {
				inside = true
			}
		}
		if !inside {
			msg = "; called outside a push (" + a.c.Pos(call.Pos()) + "): the number drawn is never pushed, leaving a hole"
		}
		return true
	})
	if msg != "" {
		return strings.TrimPrefix(msg, "; ")
	}
	return ""
}

// closureCounter symbolically evaluates a counter closure: returns "" when
// each call returns init+calls-so-far with init == 0, under a lock or with
// sync/atomic.
func closureCounter(info *types.Info, scope ast.Node, lit *ast.FuncLit, noArgs bool) string {
	type val struct {
		ok  bool
		off int // value = c_old + off
	}
	var cvar types.Object
	coff := 0
	env := map[types.Object]val{}
	synced := false
	var ret *val
	var eval func(e ast.Expr) val
	eval = func(e ast.Expr) val {
		e = ast.Unparen(e)
		switch x := e.(type) {
		case *ast.Ident:
			o := info.ObjectOf(x)
			if v, ok := env[o]; ok {
				return v
			}
			if cvar == nil {
				if vv, ok := o.(*types.Var); ok && !vv.IsField() && !(o.Pos() >= lit.Pos() && o.Pos() <= lit.End()) {
					if b, ok := o.Type().Underlying().(*types.Basic); ok && b.Info()&types.IsInteger != 0 {
						cvar = o
					}
				}
			}
			if o == cvar && cvar != nil {
				return val{true, coff}
			}
		case *ast.CallExpr:
			if tv, ok := info.Types[x.Fun]; ok && tv.IsType() && len(x.Args) == 1 {
				return eval(x.Args[0])
			}
			fn := fullName(callee(info, x))
			// method form on the typed atomics: order.Add(k) with order an atomic.Int32 / Int64 / Uint32 / Uint64
			if strings.HasPrefix(fn, "sync/atomic.(") && strings.HasSuffix(fn, ").Add") && len(x.Args) == 1 {
				if sel, ok := ast.Unparen(x.Fun).(*ast.SelectorExpr); ok {
					if id, ok := ast.Unparen(sel.X).(*ast.Ident); ok {
						o := info.ObjectOf(id)
						if cvar == nil {
							cvar = o
						}
						if o == cvar {
							if tv, ok := info.Types[x.Args[0]]; ok && tv.Value != nil {
								k, _ := constant.Int64Val(constant.ToInt(tv.Value))
								coff += int(k)
								synced = true
								return val{true, coff}
							}
						}
					}
				}
			}
			if strings.HasPrefix(fn, "sync/atomic.AddInt") || strings.HasPrefix(fn, "sync/atomic.AddUint") {
				if len(x.Args) == 2 {
					if u, ok := ast.Unparen(x.Args[0]).(*ast.UnaryExpr); ok && u.Op == token.AND {
						if id, ok := ast.Unparen(u.X).(*ast.Ident); ok {
							o := info.ObjectOf(id)
							if cvar == nil {
								cvar = o
							}
							if o == cvar {
								if tv, ok := info.Types[x.Args[1]]; ok && tv.Value != nil {
									k, _ := constant.Int64Val(constant.ToInt(tv.Value))
									coff += int(k)
									synced = true
									return val{true, coff}
								}
							}
						}
					}
				}
			}
		case *ast.BinaryExpr:
			l := eval(x.X)
			if tv, ok := info.Types[x.Y]; ok && tv.Value != nil && l.ok {
				k, _ := constant.Int64Val(constant.ToInt(tv.Value))
				switch x.Op {
				case token.ADD:
					return val{true, l.off + int(k)}
				case token.SUB:
					return val{true, l.off - int(k)}
				}
			}
		}
		return val{}
	}
	for _, st := range lit.Body.List {
		switch x := st.(type) {
		case *ast.ExprStmt:
			if call, ok := x.X.(*ast.CallExpr); ok {
				if sel, ok := call.Fun.(*ast.SelectorExpr); ok && (sel.Sel.Name == "Lock" || sel.Sel.Name == "Unlock") {
					if sel.Sel.Name == "Lock" {
						synced = true
					}
					continue
				}
			}
			return "closure body has an unrecognised statement"
		case *ast.DeferStmt:
			if sel, ok := x.Call.Fun.(*ast.SelectorExpr); ok && sel.Sel.Name == "Unlock" {
				continue
			}
			return "closure body has an unrecognised defer"
		case *ast.AssignStmt:
			if len(x.Lhs) != 1 || len(x.Rhs) != 1 {
				return "closure body has an unrecognised assignment"
			}
			id, ok := x.Lhs[0].(*ast.Ident)
			if !ok {
				return "closure body has an unrecognised assignment"
			}
			v := eval(x.Rhs[0])
			if !v.ok {
				return "closure computes its result from something else than the counter"
			}
			o := info.ObjectOf(id)
			if o == cvar {
				coff = v.off
			} else {
				env[o] = v
			}
		case *ast.IncDecStmt:
			id, ok := x.X.(*ast.Ident)
			if !ok {
				return "closure body has an unrecognised statement"
			}
			o := info.ObjectOf(id)
			if cvar == nil {
				cvar = o
			}
			if o != cvar {
				return "closure increments a second variable"
			}
			if x.Tok == token.INC {
				coff++
			} else {
				coff--
			}
		case *ast.ReturnStmt:
			if len(x.Results) != 1 {
				return "closure does not return one value"
			}
			v := eval(x.Results[0])
			if !v.ok {
				return "closure returns something else than the counter"
			}
			ret = &v
		default:
			return "closure body has an unrecognised statement"
		}
	}
	if ret == nil || cvar == nil {
		return "closure is not a counter"
	}
	if coff != 1 {
		return fmt.Sprintf("counter advances by %d per call instead of 1", coff)
	}
	if !synced {
		return "counter is neither locked nor atomic although producers run concurrently"
	}
	// initial value of the counter variable
	init, ok := counterInit(info, scope, cvar, noArgs, lit)
	if !ok {
		return "initial value of the counter " + cvar.Name() + " is not a constant"
	}
	if first := init + ret.off; first != 0 {
		return fmt.Sprintf("first number returned is %d, not 0: batch 0 never exists, any downstream re-sequencer or writer waits for it forever", first)
	}
	return ""
}

func counterInit(info *types.Info, scope ast.Node, cvar types.Object, ignoreVariadicOverride bool, skipLit *ast.FuncLit) (int, bool) {
	var vals []ast.Expr
	bad := false
	var walk func(n ast.Node, guarded bool)
	walk = func(n ast.Node, guarded bool) {
		ast.Inspect(n, func(m ast.Node) bool {
			switch x := m.(type) {
			case *ast.FuncLit:
				if x == skipLit {
					return false // writes inside the counter closure are the increments
				}
			case *ast.IfStmt:
				if ignoreVariadicOverride && isLenGuard(x.Cond) {
					return false
				}
			case *ast.CompositeLit:
				// a counter that is a field of a local struct: its value in the literal that creates the struct
				if fv, ok := cvar.(*types.Var); ok && fv.IsField() {
					if st, ok := info.TypeOf(x).Underlying().(*types.Struct); ok {
						idx := -1
						for k := 0; k < st.NumFields(); k++ {
							if st.Field(k) == fv {
								idx = k
							}
						}
						if idx >= 0 {
							var val ast.Expr
							found := false
							for k, el := range x.Elts {
								if kv, ok := el.(*ast.KeyValueExpr); ok {
									if kid, ok := kv.Key.(*ast.Ident); ok && info.ObjectOf(kid) == cvar {
										val, found = kv.Value, true
									}
								} else if k == idx {
									val, found = el, true
								}
							}
							if found {
								vals = append(vals, val)
							} else {
								vals = append(vals, nil) // zero value
							}
						}
					}
				}
			case *ast.AssignStmt:
				for i, l := range x.Lhs {
					if sel, ok := ast.Unparen(l).(*ast.SelectorExpr); ok && info.ObjectOf(sel.Sel) == cvar {
						if len(x.Lhs) == len(x.Rhs) {
							vals = append(vals, x.Rhs[i])
						} else {
							bad = true
						}
					}
					if id, ok := l.(*ast.Ident); ok && info.ObjectOf(id) == cvar {
						if len(x.Lhs) == len(x.Rhs) {
							vals = append(vals, x.Rhs[i])
						} else {
							bad = true
						}
					}
				}
			case *ast.ValueSpec:
				for i, id := range x.Names {
					if info.ObjectOf(id) == cvar {
						if i < len(x.Values) {
							vals = append(vals, x.Values[i])
						} else {
							vals = append(vals, nil) // zero value
						}
					}
				}
			}
			return true
		})
	}
	walk(scope, false)
	if bad || len(vals) != 1 {
		return 0, false
	}
	if vals[0] == nil {
		return 0, true
	}
	e := ast.Unparen(vals[0])
	if tv, ok := info.Types[e]; ok && tv.Value != nil {
		v, ok := constant.Int64Val(constant.ToInt(tv.Value))
		return int(v), ok
	}
	return 0, false
}

func isLenGuard(e ast.Expr) bool {
	b, ok := ast.Unparen(e).(*ast.BinaryExpr)
	if !ok || b.Op != token.GTR {
		return false
	}
	call, ok := ast.Unparen(b.X).(*ast.CallExpr)
	if !ok {
		return false
	}
	id, ok := call.Fun.(*ast.Ident)
	return ok && id.Name == "len"
}

// keyedDiscipline: the Distribute idiom.  counters[key] = 0 in the block that
// creates the key's stream; inside the record loop each push with counters[key]
// is followed by counters[key]++ in the same block; pushes inside a range over
// a map indexed by the range key (final flush) need no increment.
func (a *it4) keyedDiscipline(mv types.Object, pushes []*itEvent) string {
	isCounter := func(e ast.Expr) bool {
		ix, ok := ast.Unparen(e).(*ast.IndexExpr)
		if !ok {
			return false
		}
		id, ok := ast.Unparen(ix.X).(*ast.Ident)
		return ok && a.info.ObjectOf(id) == mv
	}
	// initialisation next to the creation
	list, i := stmtListOf(a.h.createPath(), a.h.create)
	initOK := false
	if list != nil {
		for j := range list {
			if as, ok := list[j].(*ast.AssignStmt); ok && len(as.Lhs) == 1 && isCounter(as.Lhs[0]) && isZeroInit(a.info, as.Rhs[0]) {
				initOK = true
			}
		}
	}
	_ = i
	if !initOK {
		return "is not set to 0 in the block that creates the key's stream"
	}
	// other writes: only ++ adjacent to a push
	nInc := 0
	var msg string
	ast.Inspect(a.body.body, func(n ast.Node) bool {
		switch x := n.(type) {
		case *ast.AssignStmt:
			for _, l := range x.Lhs {
				if isCounter(l) && !(len(x.Rhs) == 1 && isZeroInit(a.info, x.Rhs[0])) {
					msg = "is assigned outside the initialisation"
				}
			}
		case *ast.IncDecStmt:
			if isCounter(x.X) {
				if x.Tok != token.INC {
					msg = "is decremented"
				}
				nInc++
			}
		}
		return true
	})
	if msg != "" {
		return msg
	}
	seenInc := 0
	for _, p := range pushes {
		// flush loop: range over a map, counter indexed by the range key
		flush := false
		for k := len(p.path) - 1; k >= 0; k-- {
			if rs, ok := p.path[k].(*ast.RangeStmt); ok {
				if tv, ok := a.info.Types[rs.X]; ok {
					if _, isMap := tv.Type.Underlying().(*types.Map); isMap {
						flush = true
					}
				}
				break
			}
			if _, ok := p.path[k].(*ast.ForStmt); ok {
				break
			}
		}
		list, i := stmtListOf(p.path, enclosingStmt(p.path))
		if flush {
			// at most one push per key and no increment needed; the push must not be in an inner loop
			continue
		}
		if list == nil || i+1 >= len(list) {
			return "push is not followed by the increment of its key's counter (duplicate batch number) at " + a.c.Pos(p.pos())
		}
		inc, ok := list[i+1].(*ast.IncDecStmt)
		if !ok || !isCounter(inc.X) || inc.Tok != token.INC {
			return "push is not followed by the increment of its key's counter (duplicate batch number) at " + a.c.Pos(p.pos())
		}
		seenInc++
	}
	if seenInc != nInc {
		return "is incremented somewhere without a push: a batch number is skipped"
	}
	return ""
}

func enclosingStmt(path []ast.Node) ast.Node {
	for i := len(path) - 1; i > 0; i-- {
		switch path[i-1].(type) {
		case *ast.BlockStmt, *ast.CaseClause, *ast.CommClause:
			return path[i]
		}
	}
	return nil
}

func (h *itHandle) createPath() []ast.Node {
	var path, found []ast.Node
	var walk func(n ast.Node) bool
	walk = func(n ast.Node) bool {
		path = append(path, n)
		if n == h.create {
			found = append([]ast.Node(nil), path...)
			return true
		}
		done := false
		ast.Inspect(n, func(m ast.Node) bool {
			if m == nil || m == n || done {
				return m == n
			}
			if walk(m) {
				done = true
			}
			return false
		})
		path = path[:len(path)-1]
		return done
	}
	walk(h.fd)
	return found
}

// offsetDiscipline: Concat.  number = b.order + off; off is not modified in
// the loop containing the push; every assignment of off outside is
// `off = m + 1` or the constant 0; m starts at -1 … see message.
func (a *it4) offsetDiscipline(oi ordInfo, pushes []*itEvent) string {
	off := oi.offVar
	if off == nil {
		return "offset is not a local variable"
	}
	ds := a.defs[off]
	if len(ds) == 0 || !isZeroInit(a.info, ds[0]) {
		return "offset does not start at 0"
	}
	var mvar types.Object
	for _, d := range ds[1:] {
		b, ok := ast.Unparen(d).(*ast.BinaryExpr)
		if !ok || b.Op != token.ADD || !isConstInt(a.info, b.Y, 1) {
			return "offset is updated by something else than max+1"
		}
		id, ok := ast.Unparen(b.X).(*ast.Ident)
		if !ok {
			return "offset is updated by something else than max+1"
		}
		if mvar != nil && a.info.ObjectOf(id) != mvar {
			return "offset is updated from two different variables"
		}
		mvar = a.info.ObjectOf(id)
	}
	if mvar == nil {
		return "offset is never advanced between streams"
	}
	// offset must not be written inside a loop that pushes
	for _, p := range pushes {
		for k := len(p.path) - 1; k >= 0; k-- {
			var body *ast.BlockStmt
			switch l := p.path[k].(type) {
			case *ast.ForStmt:
				body = l.Body
			default:
				continue
			}
			written := false
			ast.Inspect(body, func(n ast.Node) bool {
				if as, ok := n.(*ast.AssignStmt); ok {
					for _, l := range as.Lhs {
						if id, ok := l.(*ast.Ident); ok && a.info.ObjectOf(id) == off {
							written = true
						}
					}
				}
				return true
			})
			if written {
				// only allowed in an outer loop after the inner pushing loop: require the write to be outside the innermost loop
				inner := true
				for k2 := len(p.path) - 1; k2 > k; k2-- {
					if _, ok := p.path[k2].(*ast.ForStmt); ok {
						inner = false
					}
				}
				if inner {
					return "offset changes inside the loop that pushes"
				}
			}
			break
		}
		// the max variable must be raised with the pushed number in the same loop
		if !a.maxTracked(p, mvar, oi, ds) {
			return "the running maximum " + mvar.Name() + " is not raised to the pushed number in the pushing loop (" + a.c.Pos(p.pos()) + ")"
		}
	}
	// the maximum must start below every possible number: -1 (an empty first stream must not shift the next one)
	md := a.defs[mvar]
	if len(md) == 0 {
		return "running maximum has no initial value"
	}
	if tv, ok := a.info.Types[ast.Unparen(md[0])]; ok && tv.Value != nil {
		v, _ := constant.Int64Val(constant.ToInt(tv.Value))
		if v != -1 {
			return fmt.Sprintf("running maximum %s starts at %d: when the first stream is empty the next stream is numbered from %d, so batch 0 never exists and every downstream re-sequencer or writer stalls", mvar.Name(), v, v+1)
		}
	} else {
		return "running maximum has a non-constant initial value"
	}
	return ""
}

func isConstInt(info *types.Info, e ast.Expr, k int64) bool {
	if tv, ok := info.Types[ast.Unparen(e)]; ok && tv.Value != nil {
		v, ok := constant.Int64Val(constant.ToInt(tv.Value))
		return ok && v == k
	}
	return false
}

// maxTracked: in the loop that pushes, the running maximum is raised to the pushed number itself:
// `if X > m { m = X }` with X textually the pushed order expression, or X = the source number when
// the offset is still provably 0 at that loop (no assignment of the offset precedes the loop).
func (a *it4) maxTracked(p *itEvent, mvar types.Object, oi ordInfo, offDefs []ast.Expr) bool {
	info := a.info
	pushed := ""
	// recover the pushed order expression text
	switch x := ast.Unparen(p.arg).(type) {
	case *ast.CallExpr:
		if len(x.Args) == 1 {
			pushed = types.ExprString(ast.Unparen(x.Args[0]))
		} else if len(x.Args) == 3 {
			pushed = types.ExprString(ast.Unparen(x.Args[1]))
		}
	}
	for k := len(p.path) - 1; k >= 0; k-- {
		if l, ok := p.path[k].(*ast.ForStmt); ok {
			found := false
			accept := func(tracked string) {
				if tracked == pushed {
					found = true
				} else if oi.offVar != nil && pushed == tracked+" + "+oi.offVar.Name() {
					// allowed only while the offset is still 0: no later definition of the offset precedes this loop
					zero := true
					for _, d := range offDefs[1:] {
						if d != nil && d.Pos() < l.Pos() {
							zero = false
						}
					}
					if zero {
						found = true
					}
				}
			}
			ast.Inspect(l.Body, func(n ast.Node) bool {
				// m = max(m, X) / m = max(X, m)
				if as, ok := n.(*ast.AssignStmt); ok && len(as.Lhs) == 1 && len(as.Rhs) == 1 {
					if lid, ok := ast.Unparen(as.Lhs[0]).(*ast.Ident); ok && info.ObjectOf(lid) == mvar {
						if call, ok := ast.Unparen(as.Rhs[0]).(*ast.CallExpr); ok && len(call.Args) == 2 {
							if fid, ok := call.Fun.(*ast.Ident); ok && fid.Name == "max" {
								for k, arg := range call.Args {
									if id, ok := ast.Unparen(arg).(*ast.Ident); ok && info.ObjectOf(id) == mvar {
										accept(types.ExprString(ast.Unparen(call.Args[1-k])))
									}
								}
							}
						}
					}
				}
				if ifs, ok := n.(*ast.IfStmt); ok {
					if b, ok := ast.Unparen(ifs.Cond).(*ast.BinaryExpr); ok && b.Op == token.GTR {
						if id, ok := ast.Unparen(b.Y).(*ast.Ident); ok && info.ObjectOf(id) == mvar {
							for _, st := range ifs.Body.List {
								if as, ok := st.(*ast.AssignStmt); ok && len(as.Lhs) == 1 {
									if lid, ok := as.Lhs[0].(*ast.Ident); ok && info.ObjectOf(lid) == mvar {
										tracked := types.ExprString(ast.Unparen(as.Rhs[0]))
										if tracked != types.ExprString(ast.Unparen(b.X)) {
											continue
										}
										if tracked == pushed {
											found = true
										} else if oi.offVar != nil && pushed == tracked+" + "+oi.offVar.Name() {
											// allowed only while the offset is still 0: no later definition of the offset precedes this loop
											zero := true
											for _, d := range offDefs[1:] {
												if d != nil && d.Pos() < l.Pos() {
													zero = false
												}
											}
											if zero {
												found = true
											}
										}
									}
								}
							}
						}
					}
				}
				return true
			})
			return found
		}
	}
	return false
}

var reseqCache []*reseq
var reseqCacheFor *Ctx

func allReseq(c *Ctx) []*reseq {
	if reseqCacheFor != c {
		reseqCache, reseqCacheFor = findResequencers(c), c
	}
	return reseqCache
}

// reseqIn returns the re-sequencer whose if-statement lies in the body, when
// every push of the body is inside it.
func reseqIn(c *Ctx, b *itBody) *reseq {
	for _, r := range allReseq(c) {
		if r.ifs.Pos() >= b.body.Pos() && r.ifs.End() <= b.body.End() {
			return r
		}
	}
	return nil
}

// orderPassThrough: every return of f (a function of the module returning a BioSequenceBatch) yields
// either its batch parameter number pi itself or MakeBioSequenceBatch(_, <param pi>.Order(), _).
func (c *Ctx) orderPassThrough(f *types.Func) (int, bool) {
	fd, p := c.DeclOf(f)
	if fd == nil || fd.Body == nil || fd.Type.Results == nil || fd.Type.Results.NumFields() != 1 {
		return 0, false
	}
	info := p.TypesInfo
	if namedTypeName(info.TypeOf(fd.Type.Results.List[0].Type)) != modPath+"/pkg/obiiter.BioSequenceBatch" {
		return 0, false
	}
	params := flattenParams(fd.Type.Params)
	pidx := map[types.Object]int{}
	for i, id := range params {
		if id != nil {
			pidx[info.ObjectOf(id)] = i
		}
	}
	// parameters must not be reassigned
	reassigned := map[types.Object]bool{}
	ast.Inspect(fd.Body, func(n ast.Node) bool {
		if as, ok := n.(*ast.AssignStmt); ok {
			for _, l := range as.Lhs {
				if id, ok := ast.Unparen(l).(*ast.Ident); ok {
					if _, isP := pidx[info.ObjectOf(id)]; isP {
						reassigned[info.ObjectOf(id)] = true
					}
				}
			}
		}
		return true
	})
	res, ok, n := -1, true, 0
	ast.Inspect(fd.Body, func(nd ast.Node) bool {
		if _, isLit := nd.(*ast.FuncLit); isLit {
			return false
		}
		r, isRet := nd.(*ast.ReturnStmt)
		if !isRet || len(r.Results) != 1 {
			return true
		}
		n++
		var po types.Object
		switch x := ast.Unparen(r.Results[0]).(type) {
		case *ast.Ident:
			po = info.ObjectOf(x)
		case *ast.CallExpr:
			if isCallTo(info, x, "pkg/obiiter.MakeBioSequenceBatch") && len(x.Args) == 3 {
				if recv := orderReceiver(info, x.Args[1]); recv != nil {
					po = rootObj(info, recv)
				}
			}
		}
		pi, isP := pidx[po]
		if po == nil || !isP || reassigned[po] || (res >= 0 && res != pi) {
			ok = false
			return true
		}
		res = pi
		return true
	})
	return res, ok && n > 0 && res >= 0
}

// calleeIncrements: m is a call whose callee (module function or local closure) increments, through a
// pointer parameter bound to &cv, the counter cv.  Returns the position of the increment inside the
// callee and the position of the (inlined) push made by the same call, NoPos when there is none.
func (a *it4) calleeIncrements(m ast.Node, cv types.Object, pushes []*itEvent) (token.Pos, token.Pos) {
	call, ok := m.(*ast.CallExpr)
	if !ok {
		return token.NoPos, token.NoPos
	}
	body, cinfo, bind := a.c.calleeSource(a.info, a.defs, call)
	if body == nil {
		return token.NoPos, token.NoPos
	}
	incPos := token.NoPos
	ast.Inspect(body, func(n ast.Node) bool {
		if inc, ok := n.(*ast.IncDecStmt); ok && inc.Tok == token.INC {
			if st, ok := ast.Unparen(inc.X).(*ast.StarExpr); ok {
				if id, ok := ast.Unparen(st.X).(*ast.Ident); ok {
					if b, ok := bind[cinfo.ObjectOf(id)]; ok {
						if u, ok := ast.Unparen(b).(*ast.UnaryExpr); ok && u.Op == token.AND && rootObj(a.info, u.X) == cv {
							incPos = inc.Pos()
						}
					}
				}
			}
		}
		return true
	})
	pushPos := token.NoPos
	for _, p := range pushes {
		if p.node == m {
			if p.call != nil {
				pushPos = p.call.Pos()
			} else if p.send != nil {
				pushPos = p.send.Pos()
			}
		}
	}
	return incPos, pushPos
}

// mapElemOrigin: v is a local bound to an element of a local map — v, ok := m[k]; v = m[k]; for k, v := range m —
// returns the map's object.
func (a *it4) mapElemOrigin(v types.Object, p *itEvent) types.Object {
	if v == nil {
		return nil
	}
	var mv types.Object
	isMapIdx := func(e ast.Expr) types.Object {
		ix, ok := ast.Unparen(e).(*ast.IndexExpr)
		if !ok {
			return nil
		}
		if tv, ok := a.info.Types[ix.X]; ok {
			if _, isMap := tv.Type.Underlying().(*types.Map); isMap {
				return rootObj(a.info, ix.X)
			}
		}
		return nil
	}
	ast.Inspect(a.body.body, func(n ast.Node) bool {
		switch x := n.(type) {
		case *ast.AssignStmt:
			if len(x.Rhs) == 1 && len(x.Lhs) >= 1 && rootObj(a.info, x.Lhs[0]) == v {
				if m := isMapIdx(x.Rhs[0]); m != nil {
					mv = m
				}
			}
		case *ast.RangeStmt:
			if x.Value != nil && rootObj(a.info, x.Value) == v {
				if tv, ok := a.info.Types[x.X]; ok {
					if _, isMap := tv.Type.Underlying().(*types.Map); isMap {
						mv = rootObj(a.info, x.X)
					}
				}
			}
		}
		return true
	})
	return mv
}

// keyedFieldDiscipline: the per-key counter is the field fv of the struct the map mv holds for each key.
// It is 0 (explicitly or by omission) in the literal that creates the element, in the block that creates
// the key's stream; each in-loop push is followed by the increment of that field; nothing else writes it.
func (a *it4) keyedFieldDiscipline(mv, fv types.Object, pushes []*itEvent) string {
	isCounter := func(e ast.Expr) bool {
		sel, ok := ast.Unparen(e).(*ast.SelectorExpr)
		return ok && a.info.ObjectOf(sel.Sel) == fv
	}
	// creation literal
	initOK := false
	list, _ := stmtListOf(a.h.createPath(), a.h.create)
	for _, st := range list {
		ast.Inspect(st, func(n ast.Node) bool {
			cl, ok := n.(*ast.CompositeLit)
			if !ok {
				return true
			}
			stt, ok := a.info.TypeOf(cl).Underlying().(*types.Struct)
			if !ok {
				return true
			}
			has := false
			for i := 0; i < stt.NumFields(); i++ {
				if stt.Field(i) == fv {
					has = true
				}
			}
			if !has {
				return true
			}
			zero := true
			for i, el := range cl.Elts {
				if kv, ok := el.(*ast.KeyValueExpr); ok {
					if kid, ok := kv.Key.(*ast.Ident); ok && a.info.ObjectOf(kid) == fv && !isZeroInit(a.info, kv.Value) {
						zero = false
					}
				} else if i < stt.NumFields() && stt.Field(i) == fv && !isZeroInit(a.info, el) {
					zero = false
				}
			}
			if zero {
				initOK = true
			}
			return true
		})
	}
	if !initOK {
		return "is not 0 in the element created in the block that creates the key's stream"
	}
	nInc := 0
	msg := ""
	ast.Inspect(a.body.body, func(n ast.Node) bool {
		switch x := n.(type) {
		case *ast.AssignStmt:
			for _, l := range x.Lhs {
				if isCounter(l) {
					msg = "is assigned outside the creation of the element"
				}
			}
		case *ast.IncDecStmt:
			if isCounter(x.X) {
				if x.Tok != token.INC {
					msg = "is decremented"
				}
				nInc++
			}
		}
		return true
	})
	if msg != "" {
		return msg
	}
	seenInc := 0
	for _, p := range pushes {
		flush := false
		for k := len(p.path) - 1; k >= 0; k-- {
			if rs, ok := p.path[k].(*ast.RangeStmt); ok {
				if tv, ok := a.info.Types[rs.X]; ok {
					if _, isMap := tv.Type.Underlying().(*types.Map); isMap {
						flush = true
					}
				}
				break
			}
			if _, ok := p.path[k].(*ast.ForStmt); ok {
				break
			}
		}
		if flush {
			continue
		}
		list, i := stmtListOf(p.path, enclosingStmt(p.path))
		if list == nil || i+1 >= len(list) {
			return "push is not followed by the increment of its key's counter (duplicate batch number) at " + a.c.Pos(p.pos())
		}
		inc, ok := list[i+1].(*ast.IncDecStmt)
		if !ok || !isCounter(inc.X) || inc.Tok != token.INC {
			return "push is not followed by the increment of its key's counter (duplicate batch number) at " + a.c.Pos(p.pos())
		}
		seenInc++
	}
	if seenInc != nInc {
		return "is incremented somewhere without a push: a batch number is skipped"
	}
	_ = mv
	return ""
}
