package main

// JS — the title-line scanner that delimits the JSON annotation object honours
// JSON string escapes (C02).

import (
	"go/ast"
	"go/token"
	"go/types"

	"golang.org/x/tools/go/packages"
)

func init() {
	register(&Rule{
		ID: "JS", Props: []string{"C02"}, Min: 1,
		Doc: `the title-line scanner's lexical model contains JSON's: the function that computes the extent [start:stop] handed to json.Unmarshal either delimits the object with
a JSON decoder, or is a byte scanner in which the toggle of the in-string flag on '"' is control-dependent on an escape test — a comparison with '\\' or a flag whose
assignments depend on one. Without it the scanner leaves string state at the first \" of a value the writer itself emits, mis-counts braces and the reader aborts or truncates
the annotations. JS-brace: brace counting is guarded by the in-string flag.`,
		Run: runJS,
	})
}

func runJS(c *Ctx, s *Sink) {
	// instances: functions of pkg/obiformats that slice their input for json.Unmarshal
	found := 0
	c.EachFunc([]string{"pkg/obiformats"}, func(p *packages.Package, fd *ast.FuncDecl) {
		info := p.TypesInfo
		uses := false
		ast.Inspect(fd.Body, func(n ast.Node) bool {
			if call, ok := n.(*ast.CallExpr); ok && len(call.Args) >= 1 {
				fn := fullName(callee(info, call))
				if fn == "github.com/goccy/go-json.Unmarshal" || fn == "encoding/json.Unmarshal" {
					if _, isSlice := ast.Unparen(call.Args[0]).(*ast.SliceExpr); isSlice {
						uses = true
					}
				}
			}
			return true
		})
		if !uses {
			return
		}
		found++
		key := funcName(p, fd)
		// (A) decoder based?
		decoder := false
		ast.Inspect(fd.Body, func(n ast.Node) bool {
			if call, ok := n.(*ast.CallExpr); ok {
				if sel, ok := call.Fun.(*ast.SelectorExpr); ok && sel.Sel.Name == "InputOffset" {
					decoder = true
				}
			}
			return true
		})
		if decoder {
			s.Pass(nil, key, fd.Pos(), "the object extent is delimited by a JSON decoder")
			return
		}
		// (B) toggle statements X = !X
		var toggles []*ast.AssignStmt
		var stack []ast.Node
		guards := map[*ast.AssignStmt][]ast.Expr{}
		var walk func(n ast.Node)
		walk = func(n ast.Node) {
			if n == nil {
				return
			}
			stack = append(stack, n)
			defer func() { stack = stack[:len(stack)-1] }()
			if as, ok := n.(*ast.AssignStmt); ok && len(as.Lhs) == 1 && len(as.Rhs) == 1 {
				if u, ok := ast.Unparen(as.Rhs[0]).(*ast.UnaryExpr); ok && u.Op == token.NOT && rootObj(info, u.X) != nil && rootObj(info, u.X) == rootObj(info, as.Lhs[0]) {
					toggles = append(toggles, as)
					for _, anc := range stack {
						if ifs, ok := anc.(*ast.IfStmt); ok {
							guards[as] = append(guards[as], ifs.Cond)
						}
					}
				}
			}
			var children []ast.Node
			ast.Inspect(n, func(m ast.Node) bool {
				if m == nil || m == n {
					return m == n
				}
				children = append(children, m)
				return false
			})
			for _, ch := range children {
				walk(ch)
			}
		}
		walk(fd.Body)
		if len(toggles) == 0 {
			s.Undecided(nil, key, fd.Pos(), "neither a JSON decoder nor an in-string toggle found in the scanner")
			return
		}
		// variables whose value depends on a backslash comparison
		escVars := map[types.Object]bool{}
		mentionsBackslash := func(e ast.Node) bool {
			m := false
			ast.Inspect(e, func(n ast.Node) bool {
				if ex, ok := n.(ast.Expr); ok {
					if v, ok := constInt(info, ex); ok && v == '\\' {
						if _, isLit := ast.Unparen(ex).(*ast.BasicLit); isLit {
							m = true
						}
					}
				}
				if id, ok := n.(*ast.Ident); ok && escVars[info.ObjectOf(id)] {
					m = true
				}
				return true
			})
			return m
		}
		for changed := true; changed; {
			changed = false
			ast.Inspect(fd.Body, func(n ast.Node) bool {
				if as, ok := n.(*ast.AssignStmt); ok && len(as.Lhs) == len(as.Rhs) {
					for i, l := range as.Lhs {
						if o := rootObj(info, l); o != nil && !escVars[o] && mentionsBackslash(as.Rhs[i]) {
							escVars[o] = true
							changed = true
						}
					}
				}
				return true
			})
		}
		inString := rootObj(info, toggles[0].Lhs[0])
		for _, t := range toggles {
			ok := false
			for _, g := range guards[t] {
				if mentionsBackslash(g) {
					ok = true
				}
			}
			if !ok {
				s.Fail(nil, key, t.Pos(), "the in-string flag is toggled on every '\"' without any escape test: an annotation value containing \\\" (which the JSON writer emits for a double quote) ends the string early, braces inside it are counted, and the reader aborts with an annotation parsing error or truncates the object")
				return
			}
		}
		// brace counting guarded by the in-string flag
		braceOK := true
		ast.Inspect(fd.Body, func(n ast.Node) bool {
			ifs, ok := n.(*ast.IfStmt)
			if !ok {
				return true
			}
			counts := false
			for _, st := range ifs.Body.List {
				if _, ok := st.(*ast.IncDecStmt); ok {
					counts = true
				}
			}
			if counts {
				mentionsBrace, mentionsFlag := false, false
				ast.Inspect(ifs.Cond, func(m ast.Node) bool {
					if ex, ok := m.(ast.Expr); ok {
						if v, ok := constInt(info, ex); ok && (v == '{' || v == '}') {
							mentionsBrace = true
						}
					}
					if id, ok := m.(*ast.Ident); ok && info.ObjectOf(id) == inString {
						mentionsFlag = true
					}
					return true
				})
				if mentionsBrace && !mentionsFlag {
					braceOK = false
				}
			}
			return true
		})
		if !braceOK {
			s.Fail(nil, key, fd.Pos(), "braces are counted without testing the in-string flag: a brace inside a string value changes the nesting level")
			return
		}
		s.Pass(nil, key, toggles[0].Pos(), "the in-string toggle is guarded by an escape test and braces are counted outside strings only")
	})
	if found == 0 {
		s.Undecided(nil, "pkg/obiformats:json-title-scanner", 0, "no function slicing its input for json.Unmarshal found")
	}
}
