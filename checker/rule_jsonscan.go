package main

// JS — the title-line scanner that delimits the JSON annotation object honours
// JSON string escapes (C02).

import (
	"fmt"
	"go/ast"
	"go/token"
	"go/types"
	"strings"

	"golang.org/x/tools/go/packages"
)

func init() {
	register(&Rule{
		ID: "JS", Props: []string{"C02"}, Min: 1,
		Doc: `the title-line scanner's lexical model contains JSON's: the function that computes the extent [start:stop] handed to json.Unmarshal either delimits the object with
a JSON decoder, or is a byte scanner in which the toggle of the in-string flag on '"' is control-dependent on an escape test — a comparison with '\\' or a flag whose
assignments depend on one. Without it the scanner leaves string state at the first \" of a value the writer itself emits, mis-counts braces and the reader aborts or truncates
the annotations. JS-brace: brace counting is guarded by the in-string flag.`,
		Run: runJS,
	})
}

func runJS(c *Ctx, s *Sink) {
	// instances: functions of pkg/obiformats that slice their input for json.Unmarshal
	found := 0
	c.EachFunc([]string{"pkg/obiformats"}, func(p *packages.Package, fd *ast.FuncDecl) {
		info := p.TypesInfo
		uses := false
		ast.Inspect(fd.Body, func(n ast.Node) bool {
			if call, ok := n.(*ast.CallExpr); ok && len(call.Args) >= 1 {
				fn := fullName(callee(info, call))
				if fn == "github.com/goccy/go-json.Unmarshal" || fn == "encoding/json.Unmarshal" {
					if _, isSlice := ast.Unparen(call.Args[0]).(*ast.SliceExpr); isSlice {
						uses = true
					}
				}
			}
			return true
		})
		if !uses {
			return
		}
		found++
		key := funcName(p, fd)
		// (A) decoder based?
		decoder := false
		ast.Inspect(fd.Body, func(n ast.Node) bool {
			if call, ok := n.(*ast.CallExpr); ok {
				if sel, ok := call.Fun.(*ast.SelectorExpr); ok && sel.Sel.Name == "InputOffset" {
					decoder = true
				}
			}
			return true
		})
		if decoder {
			s.Pass(nil, key, fd.Pos(), "the object extent is delimited by a JSON decoder")
			return
		}
		// the byte scanner may live in a helper of the package (extracted loop): analyse it there
		fd = findScanner(c, p, fd)
		// (B) toggle statements X = !X
		var toggles []*ast.AssignStmt
		var stack []ast.Node
		guards := map[*ast.AssignStmt][]ast.Expr{}
		var walk func(n ast.Node)
		walk = func(n ast.Node) {
			if n == nil {
				return
			}
			stack = append(stack, n)
			defer func() { stack = stack[:len(stack)-1] }()
			if as, ok := n.(*ast.AssignStmt); ok && len(as.Lhs) == 1 && len(as.Rhs) == 1 {
				if u, ok := ast.Unparen(as.Rhs[0]).(*ast.UnaryExpr); ok && u.Op == token.NOT && rootObj(info, u.X) != nil && rootObj(info, u.X) == rootObj(info, as.Lhs[0]) {
					toggles = append(toggles, as)
					for _, anc := range stack {
						if ifs, ok := anc.(*ast.IfStmt); ok {
							guards[as] = append(guards[as], ifs.Cond)
						}
					}
				}
			}
			var children []ast.Node
			ast.Inspect(n, func(m ast.Node) bool {
				if m == nil || m == n {
					return m == n
				}
				children = append(children, m)
				return false
			})
			for _, ch := range children {
				walk(ch)
			}
		}
		walk(fd.Body)
		if len(toggles) == 0 {
			s.Undecided(nil, key, fd.Pos(), "neither a JSON decoder nor an in-string toggle found in the scanner")
			return
		}
		// variables whose value depends on a backslash comparison
		escVars := map[types.Object]bool{}
		mentionsBackslash := func(e ast.Node) bool {
			m := false
			ast.Inspect(e, func(n ast.Node) bool {
				if ex, ok := n.(ast.Expr); ok {
					if v, ok := constInt(info, ex); ok && v == '\\' {
						if _, isLit := ast.Unparen(ex).(*ast.BasicLit); isLit {
							m = true
						}
					}
				}
				if id, ok := n.(*ast.Ident); ok && escVars[info.ObjectOf(id)] {
					m = true
				}
				return true
			})
			return m
		}
		for changed := true; changed; {
			changed = false
			ast.Inspect(fd.Body, func(n ast.Node) bool {
				if as, ok := n.(*ast.AssignStmt); ok && len(as.Lhs) == len(as.Rhs) {
					for i, l := range as.Lhs {
						if o := rootObj(info, l); o != nil && !escVars[o] && mentionsBackslash(as.Rhs[i]) {
							escVars[o] = true
							changed = true
						}
					}
				}
				return true
			})
		}
		inString := rootObj(info, toggles[0].Lhs[0])
		for _, t := range toggles {
			ok := false
			for _, g := range guards[t] {
				if mentionsBackslash(g) {
					ok = true
				}
			}
			if !ok {
				s.Fail(nil, key, t.Pos(), "the in-string flag is toggled on every '\"' without any escape test: an annotation value containing \\\" (which the JSON writer emits for a double quote) ends the string early, braces inside it are counted, and the reader aborts with an annotation parsing error or truncates the object")
				return
			}
		}
		// brace counting guarded by the in-string flag
		braceOK := true
		ast.Inspect(fd.Body, func(n ast.Node) bool {
			ifs, ok := n.(*ast.IfStmt)
			if !ok {
				return true
			}
			counts := false
			for _, st := range ifs.Body.List {
				if _, ok := st.(*ast.IncDecStmt); ok {
					counts = true
				}
			}
			if counts {
				mentionsBrace, mentionsFlag := false, false
				ast.Inspect(ifs.Cond, func(m ast.Node) bool {
					if ex, ok := m.(ast.Expr); ok {
						if v, ok := constInt(info, ex); ok && (v == '{' || v == '}') {
							mentionsBrace = true
						}
					}
					if id, ok := m.(*ast.Ident); ok && info.ObjectOf(id) == inString {
						mentionsFlag = true
					}
					return true
				})
				if mentionsBrace && !mentionsFlag {
					braceOK = false
				}
			}
			return true
		})
		if !braceOK {
			s.Fail(nil, key, fd.Pos(), "braces are counted without testing the in-string flag: a brace inside a string value changes the nesting level")
			return
		}
		s.Pass(nil, key, toggles[0].Pos(), "the in-string toggle is guarded by an escape test and braces are counted outside strings only")
	})
	if found == 0 {
		s.Undecided(nil, "pkg/obiformats:json-title-scanner", 0, "no function slicing its input for json.Unmarshal found")
	}
}

// JS-A — the scanner's transition function is JSON's string automaton.
//
// The loop body of the byte scanner is loop-free code over two flags (in
// string, escaped), a brace depth and the current byte.  Its transition table is
// finite: it is evaluated for every flag valuation and every byte class and
// compared with the automaton of RFC 8259 strings:
//   outside a string  : '"' enters; braces change the depth
//   in a string       : '\' sets escaped; '"' leaves; braces are text
//   in a string, esc. : whatever the byte, it is consumed and escaped is cleared
func init() {
	register(&Rule{
		ID: "JS-A", Props: []string{"C02"}, Min: 1,
		Doc: `the byte scanner that delimits the annotation object implements the JSON string automaton: its loop body, evaluated for the 2x2 flag valuations x byte classes
{'"', '\\', '{', '}', other}, yields exactly: outside a string '"' enters it and braces move the depth; inside, an unescaped '\\' sets the escape flag, an unescaped '"' leaves, braces are text;
after an escape any byte (a second backslash included) is consumed and the flag cleared. A scanner that keeps the flag set after "\\\\" takes the closing quote of a value ending with a
backslash for an escaped one and loses every annotation.`,
		Run: runJSA,
	})
}

func runJSA(c *Ctx, s *Sink) {
	fd, p := c.FindFunc("pkg/obiformats", "_parse_json_header_")
	key := "pkg/obiformats._parse_json_header_:automaton"
	if fd == nil {
		s.Undecided(nil, key, 0, "function not found")
		return
	}
	info := p.TypesInfo
	// decoder based implementation: nothing to evaluate (JS clause A covers it)
	decoder := false
	ast.Inspect(fd.Body, func(n ast.Node) bool {
		if call, ok := n.(*ast.CallExpr); ok {
			if sel, ok := call.Fun.(*ast.SelectorExpr); ok && sel.Sel.Name == "InputOffset" {
				decoder = true
			}
		}
		return true
	})
	if decoder {
		s.Pass(nil, key, fd.Pos(), "the object extent is delimited by a JSON decoder")
		return
	}
	fd = findScanner(c, p, fd)
	// the scanning loop: a for statement, or a range over the length whose body starts with the exit test
	// (for i := range lh { if stop >= 0 { break }; … }) — that test is the loop condition, not a step of the automaton
	type scanLoop struct {
		pos  token.Pos
		Body *ast.BlockStmt
	}
	var loop *scanLoop
	ast.Inspect(fd.Body, func(n ast.Node) bool {
		if loop != nil {
			return false
		}
		switch f := n.(type) {
		case *ast.ForStmt:
			loop = &scanLoop{f.Pos(), f.Body}
		case *ast.RangeStmt:
			loop = &scanLoop{f.Pos(), f.Body}
		}
		return true
	})
	if loop != nil {
		list := loop.Body.List
		for len(list) > 0 {
			ifs, ok := list[0].(*ast.IfStmt)
			if !ok || ifs.Else != nil || ifs.Init != nil || len(ifs.Body.List) != 1 {
				break
			}
			br, ok := ifs.Body.List[0].(*ast.BranchStmt)
			if !ok || br.Tok != token.BREAK || br.Label != nil {
				break
			}
			list = list[1:]
		}
		loop = &scanLoop{loop.pos, &ast.BlockStmt{Lbrace: loop.Body.Lbrace, List: list, Rbrace: loop.Body.Rbrace}}
	}
	params := flattenParams(fd.Type.Params)
	if loop == nil || len(params) == 0 {
		s.Undecided(nil, key, fd.Pos(), "no scanning loop")
		return
	}
	buffer := info.ObjectOf(params[0])
	// roles
	var inStr, esc, depth types.Object
	ast.Inspect(loop.Body, func(n ast.Node) bool {
		switch x := n.(type) {
		case *ast.AssignStmt:
			if len(x.Lhs) != 1 || len(x.Rhs) != 1 {
				return true
			}
			o := rootObj(info, x.Lhs[0])
			if o == nil {
				return true
			}
			bt, ok := o.Type().Underlying().(*types.Basic)
			if !ok || bt.Kind() != types.Bool {
				return true
			}
			// toggled: X = !X
			if u, ok := ast.Unparen(x.Rhs[0]).(*ast.UnaryExpr); ok && u.Op == token.NOT && rootObj(info, u.X) == o {
				inStr = o
				return true
			}
			mentionsBackslash := false
			ast.Inspect(x.Rhs[0], func(m ast.Node) bool {
				if lit, ok := m.(*ast.BasicLit); ok && lit.Kind == token.CHAR && lit.Value == `'\\'` {
					mentionsBackslash = true
				}
				return true
			})
			if mentionsBackslash {
				esc = o
			}
		case *ast.IncDecStmt:
			if o := rootObj(info, x.X); o != nil && depth == nil {
				depth = o
			}
		}
		return true
	})
	if inStr == nil || esc == nil || depth == nil {
		s.Undecided(nil, key, loop.pos, "cannot identify the in-string flag (toggled on '\"'), the escape flag (assigned from a test of '\\\\') and the depth counter of the scanner")
		return
	}
	classes := []struct {
		name string
		b    int64
	}{{`'"'`, '"'}, {`'\\'`, '\\'}, {"'{'", '{'}, {"'}'", '}'}, {"another byte", 'a'}}
	var bad []string
	n := 0
	for _, q := range []bool{false, true} {
		for _, e := range []bool{false, true} {
			if !q && e {
				continue // unreachable: the escape flag is only set inside a string
			}
			for _, cl := range classes {
				env := map[types.Object]cevalue{}
				ast.Inspect(fd, func(nn ast.Node) bool {
					if id, ok := nn.(*ast.Ident); ok {
						if v, ok := info.ObjectOf(id).(*types.Var); ok && !v.IsField() {
							if bt, ok := v.Type().Underlying().(*types.Basic); ok {
								if _, set := env[v]; !set {
									if bt.Info()&types.IsInteger != 0 {
										env[v] = cevalue{i: 7}
									} else if bt.Kind() == types.Bool {
										env[v] = cevalue{isBool: true}
									}
								}
							}
						}
					}
					return true
				})
				env[inStr] = cevalue{isBool: true, b: q}
				env[esc] = cevalue{isBool: true, b: e}
				env[depth] = cevalue{i: 5}
				hook := func(ix *ast.IndexExpr) (int64, bool) {
					if rootObj(info, ix.X) == buffer {
						return cl.b, true
					}
					return 0, false
				}
				if _, err := evalStmts(c, p, loop.Body.List, env, hook); err != nil {
					s.Undecided(nil, key, loop.pos, "loop body cannot be evaluated: "+err.Error())
					return
				}
				n++
				// reference
				wq, we, wd := q, false, int64(5)
				switch {
				case !q:
					if cl.b == '"' {
						wq = true
					}
					if cl.b == '{' {
						wd = 6
					}
					if cl.b == '}' {
						wd = 4
					}
				case q && !e:
					if cl.b == '"' {
						wq = false
					}
					if cl.b == '\\' {
						we = true
					}
				}
				gq, ge, gd := env[inStr].b, env[esc].b, env[depth].i
				if gq != wq || ge != we || gd != wd {
					bad = append(bad, fmt.Sprintf("(in string=%v, escaped=%v) on %s gives (in string=%v, escaped=%v, depth%+d), JSON requires (in string=%v, escaped=%v, depth%+d)", q, e, cl.name, gq, ge, gd-5, wq, we, wd-5))
				}
			}
		}
	}
	if len(bad) > 0 {
		s.Fail(nil, key, loop.pos, "the scanner is not the JSON string automaton: "+strings.Join(bad, "; "))
	} else {
		s.Pass(nil, key, loop.pos, fmt.Sprintf("%d transitions (flags x byte classes) agree with the JSON string automaton", n))
	}
}

// findScanner returns fd when it contains an in-string toggle (X = !X), otherwise the first function of
// the same package called from it (two levels) that contains one; fd when none does.
func findScanner(c *Ctx, p *packages.Package, fd *ast.FuncDecl) *ast.FuncDecl {
	info := p.TypesInfo
	hasToggle := func(d *ast.FuncDecl) bool {
		t := false
		ast.Inspect(d.Body, func(n ast.Node) bool {
			if as, ok := n.(*ast.AssignStmt); ok && len(as.Lhs) == 1 && len(as.Rhs) == 1 {
				if u, ok := ast.Unparen(as.Rhs[0]).(*ast.UnaryExpr); ok && u.Op == token.NOT && rootObj(info, u.X) != nil && rootObj(info, u.X) == rootObj(info, as.Lhs[0]) {
					t = true
				}
			}
			return true
		})
		return t
	}
	if hasToggle(fd) {
		return fd
	}
	level := []*ast.FuncDecl{fd}
	seen := map[*ast.FuncDecl]bool{fd: true}
	for depth := 0; depth < 2; depth++ {
		var next []*ast.FuncDecl
		for _, d := range level {
			var found *ast.FuncDecl
			ast.Inspect(d.Body, func(n ast.Node) bool {
				if call, ok := n.(*ast.CallExpr); ok && found == nil {
					if f := callee(info, call); f != nil && f.Pkg() == p.Types {
						if cd, _ := c.DeclOf(f); cd != nil && cd.Body != nil && !seen[cd] {
							seen[cd] = true
							if hasToggle(cd) {
								found = cd
							} else {
								next = append(next, cd)
							}
						}
					}
				}
				return true
			})
			if found != nil {
				return found
			}
		}
		level = next
	}
	return fd
}
