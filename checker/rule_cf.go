package main

// CF — the carry handed to math/bits is a carry (C20).

import (
	"fmt"
	"go/ast"
	"go/token"
	"go/types"

	"golang.org/x/tools/go/packages"
)

func init() {
	register(&Rule{
		ID: "CF", Props: []string{"C20"}, Min: 20,
		Doc: `"addition, subtraction … return the mathematically exact result whenever that result fits": math/bits documents that the carry input of Add64 and Sub64 'must be 0 or 1; otherwise the
behavior is undefined' (the amd64 intrinsic turns the word into the CPU flag through a 32 bit negation: 2^32 counts as 0, 3 as 1; the portable code adds the word). In pkg/obifp the third
argument of every bits.Add64 / bits.Sub64 is the constant 0 or 1, or a variable whose every definition is the carry result (second value) of a bits.Add64 / bits.Sub64 — a flow typing of
carries. Uint64.Add64 / Sub64 handed their own carryIn parameter, a full word like the carries of Mul64 and of the shifts of the same type: Add64(5, 0, carryIn = 2) gave 6, Add64(0, 0, 2^63)
gave 0 without carry.`,
		Run: func(c *Ctx, s *Sink) {
			c.EachFunc([]string{"pkg/obifp"}, func(p *packages.Package, fd *ast.FuncDecl) {
				info := p.TypesInfo
				// carry variables: second value of a two-value definition from bits.Add64/Sub64
				isBits := func(e ast.Expr) bool {
					call, ok := ast.Unparen(e).(*ast.CallExpr)
					if !ok {
						return false
					}
					n := fullName(callee(info, call))
					return n == "math/bits.Add64" || n == "math/bits.Sub64"
				}
				carryDefs := map[types.Object][2]int{} // [carry definitions, other definitions]
				ast.Inspect(fd.Body, func(n ast.Node) bool {
					as, ok := n.(*ast.AssignStmt)
					if !ok {
						return true
					}
					for i, l := range as.Lhs {
						id, ok := ast.Unparen(l).(*ast.Ident)
						if !ok || id.Name == "_" {
							continue
						}
						o := info.ObjectOf(id)
						if o == nil {
							continue
						}
						cnt := carryDefs[o]
						if len(as.Lhs) == 2 && len(as.Rhs) == 1 && i == 1 && isBits(as.Rhs[0]) {
							cnt[0]++
						} else {
							cnt[1]++
						}
						carryDefs[o] = cnt
					}
					return true
				})
				n := 0
				ast.Inspect(fd.Body, func(nd ast.Node) bool {
					call, ok := nd.(*ast.CallExpr)
					if !ok || !isBits(call) || len(call.Args) != 3 {
						return true
					}
					n++
					key := fmt.Sprintf("%s:%s#%d:carry-is-a-carry", funcName(p, fd), callee(info, call).Name(), n)
					arg := ast.Unparen(call.Args[2])
					// conversions uint64(x) are seen through
					for {
						cv, ok := arg.(*ast.CallExpr)
						if !ok || len(cv.Args) != 1 {
							break
						}
						if tv, ok := info.Types[cv.Fun]; !ok || !tv.IsType() {
							break
						}
						arg = ast.Unparen(cv.Args[0])
					}
					if v, isC := constInt(info, arg); isC && (v == 0 || v == 1) {
						s.Pass(nil, key, call.Pos(), "constant carry")
						return true
					}
					if id, ok := arg.(*ast.Ident); ok {
						if cnt := carryDefs[info.ObjectOf(id)]; cnt[0] > 0 && cnt[1] == 0 {
							s.Pass(nil, key, call.Pos(), "the carry is the carry out of a previous bits.Add64/Sub64")
							return true
						}
					}
					s.Fail(nil, key, call.Pos(), "the carry input is "+types.ExprString(call.Args[2])+", which is neither 0/1 nor the carry out of a math/bits operation: for a word above 1 the result is undefined (amd64: Add64(5, 0, 2) = 6 for an exact sum of 7; Add64(0, 0, 2^63) = 0 without carry; the portable code gives other values) — the other 64 bit primitives of the type (Mul64, the shifts) do exchange whole words as 'carry'")
					return true
				})
			})
		},
	})
}

func init() {
	register(&Rule{
		ID: "CF-2", Props: []string{"C20"}, Min: 2,
		Doc: `"… return the mathematically exact result": what does not fit the word is returned exactly too. In pkg/obifp two carries (second results of bits.Add64 / bits.Sub64) that were BOTH produced
with a constant carry input — two additions chained through their sum to add a third full-word operand, as Uint64.Add64 and Sub64 do — may both be 1, so an expression combining them uses +:
with | the carry of 2 + (2^64-1) + (2^64-1) = 2·2^64 is 1. (Carries chained through the carry input of the next call cannot both be set and are not concerned.)`,
		Run: func(c *Ctx, s *Sink) {
			c.EachFunc([]string{"pkg/obifp"}, func(p *packages.Package, fd *ast.FuncDecl) {
				info := p.TypesInfo
				// carries produced by a call whose own carry input is the constant 0
				free := map[types.Object]bool{}
				ast.Inspect(fd.Body, func(n ast.Node) bool {
					as, ok := n.(*ast.AssignStmt)
					if !ok || len(as.Lhs) != 2 || len(as.Rhs) != 1 {
						return true
					}
					call, ok := ast.Unparen(as.Rhs[0]).(*ast.CallExpr)
					if !ok || len(call.Args) != 3 {
						return true
					}
					if fn := fullName(callee(info, call)); fn != "math/bits.Add64" && fn != "math/bits.Sub64" {
						return true
					}
					if v, isC := constInt(info, call.Args[2]); isC && v == 0 {
						if o := rootObj(info, as.Lhs[1]); o != nil {
							free[o] = true
						}
					}
					return true
				})
				if len(free) < 2 {
					return
				}
				n := 0
				ast.Inspect(fd.Body, func(nd ast.Node) bool {
					b, ok := nd.(*ast.BinaryExpr)
					if !ok {
						return true
					}
					x, y := rootObj(info, b.X), rootObj(info, b.Y)
					_, xi := ast.Unparen(b.X).(*ast.Ident)
					_, yi := ast.Unparen(b.Y).(*ast.Ident)
					if !xi || !yi || x == nil || y == nil || !free[x] || !free[y] || x == y {
						return true
					}
					n++
					key := fmt.Sprintf("%s:carries#%d:summed", funcName(p, fd), n)
					if b.Op == token.ADD {
						s.Pass(nil, key, b.Pos(), "the two carries are added")
					} else {
						s.Fail(nil, key, b.Pos(), "two carries that can both be 1 are combined with "+b.Op.String()+": Add64(2, 2^64-1, carryIn = 2^64-1) returns (0, carry 1) where the exact sum is 2·2^64 — what does not fit the word is under-reported")
					}
					return true
				})
			})
		},
	})
}
