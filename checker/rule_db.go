package main

// DB — the De Bruijn graph counts every window once (C19).

import (
	"go/ast"
	"go/token"
	"go/types"
	"strings"
)

func init() {
	register(&Rule{
		ID: "DB", Props: []string{"C19"}, Min: 2,
		Doc: `the weight of a k-mer is the sum over sequences of count times its number of occurrences. In pkg/obikmer.(*DeBruijnGraph).Push (1) the guard on the length of the sequence admits a
sequence of length exactly k (it holds one k-mer): decided with linear arithmetic on the guard — an early return must be infeasible, a wrapping 'if' feasible, under len == kmersize; (2) the code
that adds the weights visits the windows once: no function or closure reachable from Push that stores into the weight map calls itself from inside a loop or from more than one call site — a
recursion over the remaining suffix repeated for each alternative base of an ambiguity code multiplies by 4 (n), 3 or 2 the weight of every k-mer located after the code, makes the weights depend
on the strand, and the consensus follows a minority variant.`,
		Run: runDB,
	})
}

func runDB(c *Ctx, s *Sink) {
	fd, p := c.FindFunc("pkg/obikmer", "(*DeBruijnGraph).Push")
	base := "pkg/obikmer.(*DeBruijnGraph).Push"
	if fd == nil {
		s.Undecided(nil, base, 0, "function not found")
		return
	}
	info := p.TypesInfo
	// (1) the length guard
	key := base + ":admits-length-k"
	isK := func(e ast.Expr) bool {
		sel, ok := ast.Unparen(e).(*ast.SelectorExpr)
		if !ok {
			return false
		}
		v, ok := info.ObjectOf(sel.Sel).(*types.Var)
		return ok && v.IsField() && strings.Contains(strings.ToLower(v.Name()), "size")
	}
	defs := collectDefs(info, fd)
	isLen := func(e ast.Expr) bool {
		e = ast.Unparen(e)
		if id, ok := e.(*ast.Ident); ok {
			ds := defs[info.ObjectOf(id)]
			if len(ds) == 1 && ds[0] != nil {
				e = ast.Unparen(ds[0])
			}
		}
		call, ok := e.(*ast.CallExpr)
		if !ok {
			return false
		}
		if f := callee(info, call); f != nil && f.Name() == "Len" {
			return true
		}
		if id, ok := call.Fun.(*ast.Ident); ok && id.Name == "len" {
			return true
		}
		return false
	}
	decided := false
	for _, st := range fd.Body.List {
		ifs, ok := st.(*ast.IfStmt)
		if !ok {
			continue
		}
		b, ok := ast.Unparen(ifs.Cond).(*ast.BinaryExpr)
		if !ok {
			continue
		}
		var op token.Token
		switch {
		case isLen(b.X) && isK(b.Y):
			op = b.Op
		case isK(b.X) && isLen(b.Y):
			op = map[token.Token]token.Token{token.LSS: token.GTR, token.GTR: token.LSS, token.LEQ: token.GEQ, token.GEQ: token.LEQ}[b.Op]
		default:
			continue
		}
		// truth of "len op k" when len == k
		atEq := op == token.LEQ || op == token.GEQ || op == token.EQL
		returns := false
		for _, bs := range ifs.Body.List {
			if _, ok := bs.(*ast.ReturnStmt); ok {
				returns = true
			}
		}
		decided = true
		switch {
		case returns && atEq:
			s.Fail(nil, key, ifs.Pos(), "Push returns without adding anything when the sequence has exactly kmersize nucleotides: its single k-mer gets weight 0, a lone sequence of length k gives an empty graph")
		case !returns && !atEq:
			s.Fail(nil, key, ifs.Pos(), "the k-mers of a sequence are added only when it is strictly longer than kmersize: a sequence of exactly k nucleotides holds one k-mer, which never receives its count (lone sequence: 'graph is empty'; shared k-mer: weight 1 instead of 8)")
		default:
			s.Pass(nil, key, ifs.Pos(), "a sequence of length kmersize is admitted")
		}
		break
	}
	if !decided {
		s.Undecided(nil, key, fd.Pos(), "no top-level comparison between the length of the sequence and the k-mer size")
	}
	// (2) fan-out of the recursion in the functions adding weights
	key = base + ":windows-visited-once"
	weightMap := func(e ast.Expr) bool {
		ix, ok := ast.Unparen(e).(*ast.IndexExpr)
		if !ok {
			return false
		}
		_, isMap := info.TypeOf(ix.X).Underlying().(*types.Map)
		return isMap
	}
	type unit struct {
		name string
		body *ast.BlockStmt
		self types.Object // the object whose call is a self call (method object or closure variable)
	}
	var units []unit
	seen := map[types.Object]bool{}
	var addFunc func(f *types.Func)
	var scan func(body *ast.BlockStmt)
	scan = func(body *ast.BlockStmt) {
		ast.Inspect(body, func(n ast.Node) bool {
			switch x := n.(type) {
			case *ast.AssignStmt:
				for i, r := range x.Rhs {
					if lit, ok := ast.Unparen(r).(*ast.FuncLit); ok && i < len(x.Lhs) {
						if o := rootObj(info, x.Lhs[i]); o != nil && !seen[o] {
							seen[o] = true
							units = append(units, unit{o.Name(), lit.Body, o})
						}
					}
				}
			case *ast.CallExpr:
				if f := callee(info, x); f != nil && f.Pkg() == p.Types {
					addFunc(f)
				}
			}
			return true
		})
	}
	addFunc = func(f *types.Func) {
		if seen[f] {
			return
		}
		seen[f] = true
		if d, _ := c.DeclOf(f); d != nil && d.Body != nil {
			units = append(units, unit{f.Name(), d.Body, f})
			scan(d.Body)
		}
	}
	if self, ok := info.Defs[fd.Name].(*types.Func); ok {
		seen[self] = true
		units = append(units, unit{"Push", fd.Body, self})
	}
	scan(fd.Body)
	var bad []string
	nstore := 0
	for _, u := range units {
		stores := false
		ast.Inspect(u.body, func(n ast.Node) bool {
			if as, ok := n.(*ast.AssignStmt); ok {
				for _, l := range as.Lhs {
					if weightMap(l) {
						stores = true
					}
				}
			}
			return true
		})
		if !stores {
			// a closure that only recurses and delegates the store is judged with the unit it calls
			calls := false
			ast.Inspect(u.body, func(n ast.Node) bool {
				if call, ok := n.(*ast.CallExpr); ok {
					if f := callee(info, call); f != nil && seen[f] {
						calls = true
					}
				}
				return true
			})
			if !calls {
				continue
			}
		}
		nstore++
		selfCalls, inLoop := 0, false
		var stack []ast.Node
		ast.Inspect(u.body, func(n ast.Node) bool {
			if n == nil {
				stack = stack[:len(stack)-1]
				return true
			}
			stack = append(stack, n)
			call, ok := n.(*ast.CallExpr)
			if !ok {
				return true
			}
			var target types.Object
			if f := callee(info, call); f != nil {
				target = f
			} else if id, ok := ast.Unparen(call.Fun).(*ast.Ident); ok {
				target = info.ObjectOf(id)
			}
			if target == nil || target != u.self {
				return true
			}
			selfCalls++
			for _, anc := range stack {
				switch anc.(type) {
				case *ast.ForStmt, *ast.RangeStmt:
					inLoop = true
				}
			}
			return true
		})
		if selfCalls > 1 || inLoop {
			bad = append(bad, u.name)
		}
	}
	switch {
	case len(bad) > 0:
		s.Fail(nil, key, fd.Pos(), "the weights are added by a recursion that calls itself once per alternative base ("+strings.Join(bad, ", ")+"): every window located after an ambiguity code is visited once per alternative, so its k-mer receives 4 (n), 3 or 2 times the count of the sequence — the weights depend on the strand and the heaviest path follows a minority variant that happens to carry an n upstream")
	case nstore == 0:
		s.Undecided(nil, key, fd.Pos(), "no function reachable from Push stores into the weight map")
	default:
		s.Pass(nil, key, fd.Pos(), "the functions adding the weights do not fan out")
	}
}
