package main

// RE — read-error discipline on the input path (C17).

import (
	"fmt"
	"go/ast"
	"go/token"
	"go/types"
	"strings"

	"golang.org/x/tools/go/packages"
)

func init() {
	register(&Rule{
		ID: "RE-1", Props: []string{"C17"}, Min: 5,
		Doc: `io.ErrUnexpectedEOF is never benign on the input path: decompressors report a truncated stream with exactly this value, and io.ReadFull also returns it for a
short final read, so code that accepts it cannot tell the two apart. Every comparison of an error with io.ErrUnexpectedEOF (==, !=, errors.Is, switch case) in pkg/obiformats is
evaluated three-valued with 'err is ErrUnexpectedEOF' true: the branch taken must diverge (fatal) or return the error. One obligation per function that reads the input stream.`,
		Run: runRE1,
	})
	register(&Rule{
		ID: "RE-2", Props: []string{"C17"}, Min: 8,
		Doc: `every read error is consumed and only io.EOF is benign: for each read on the input stream (io.ReadFull/ReadAtLeast, Read/Peek/ReadRune/ReadByte/ReadLine/ReadString on
a reader that is not an in-memory buffer, and the local read-until-full helper) the error result must not be blank; each 'if err != nil' style test of it must be fatal, return an
expression that depends on the error, or be restricted to io.EOF by its condition — converting an arbitrary read error into 'no content'/nil is a violation.`,
		Run: runRE2,
	})
}

func isObj(info *types.Info, e ast.Expr, pkg, name string) bool {
	var id *ast.Ident
	switch x := ast.Unparen(e).(type) {
	case *ast.Ident:
		id = x
	case *ast.SelectorExpr:
		id = x.Sel
	}
	if id == nil {
		return false
	}
	o := info.Uses[id]
	return o != nil && o.Pkg() != nil && o.Pkg().Path() == pkg && o.Name() == name
}

// tri-valued evaluation of a condition assuming the error is io.ErrUnexpectedEOF.
// 1 true, 0 false, -1 unknown
func evalAssumingUEOF(info *types.Info, e ast.Expr) int {
	e = ast.Unparen(e)
	switch x := e.(type) {
	case *ast.BinaryExpr:
		switch x.Op {
		case token.LAND:
			a, b := evalAssumingUEOF(info, x.X), evalAssumingUEOF(info, x.Y)
			if a == 0 || b == 0 {
				return 0
			}
			if a == 1 && b == 1 {
				return 1
			}
			return -1
		case token.LOR:
			a, b := evalAssumingUEOF(info, x.X), evalAssumingUEOF(info, x.Y)
			if a == 1 || b == 1 {
				return 1
			}
			if a == 0 && b == 0 {
				return 0
			}
			return -1
		case token.EQL, token.NEQ:
			isErr := func(e ast.Expr) bool {
				tv, ok := info.Types[e]
				return ok && tv.Type != nil && tv.Type.String() == "error"
			}
			var other ast.Expr
			if isErr(x.X) {
				other = x.Y
			} else if isErr(x.Y) {
				other = x.X
			}
			if other == nil {
				return -1
			}
			eq := -1
			switch {
			case isObj(info, other, "io", "ErrUnexpectedEOF"):
				eq = 1
			case isObj(info, other, "io", "EOF"):
				eq = 0
			default:
				if id, ok := ast.Unparen(other).(*ast.Ident); ok && id.Name == "nil" {
					eq = 0
				}
			}
			if eq == -1 {
				return -1
			}
			if x.Op == token.NEQ {
				return 1 - eq
			}
			return eq
		}
	case *ast.UnaryExpr:
		if x.Op == token.NOT {
			v := evalAssumingUEOF(info, x.X)
			if v >= 0 {
				return 1 - v
			}
		}
	case *ast.CallExpr:
		if isCallTo(info, x, "errors.Is") && len(x.Args) == 2 {
			if isObj(info, x.Args[1], "io", "ErrUnexpectedEOF") {
				return 1
			}
			if isObj(info, x.Args[1], "io", "EOF") {
				return 0
			}
		}
	}
	return -1
}

func mentionsObj(info *types.Info, n ast.Node, pkg, name string) bool {
	found := false
	ast.Inspect(n, func(m ast.Node) bool {
		if e, ok := m.(ast.Expr); ok && isObj(info, e, pkg, name) {
			found = true
		}
		return true
	})
	return found
}

// branchPropagates: the block diverges (fatal/panic/exit) or returns a non-nil error expression.
func branchPropagates(info *types.Info, b *ast.BlockStmt) bool {
	if b == nil || len(b.List) == 0 {
		return false
	}
	switch x := b.List[len(b.List)-1].(type) {
	case *ast.ExprStmt:
		if call, ok := x.X.(*ast.CallExpr); ok {
			return noReturnCall(info, call)
		}
	case *ast.ReturnStmt:
		for _, r := range x.Results {
			if tv, ok := info.Types[r]; ok && tv.Type != nil && tv.Type.String() == "error" {
				if id, ok := ast.Unparen(r).(*ast.Ident); ok && id.Name == "nil" {
					return false
				}
				return true
			}
		}
	}
	return false
}

func isStreamRead(info *types.Info, call *ast.CallExpr) (bool, ast.Expr) {
	fn := fullName(callee(info, call))
	switch fn {
	case "io.ReadFull", "io.ReadAtLeast", "io.ReadAll":
		if len(call.Args) > 0 {
			return true, call.Args[0]
		}
	}
	if strings.HasSuffix(fn, "/pkg/obiformats.readFull") && len(call.Args) > 0 {
		return true, call.Args[0]
	}
	// a reading helper of the module, whatever its name: f(io.Reader, []byte) (int, error)
	if f := callee(info, call); f != nil && f.Pkg() != nil && strings.HasPrefix(f.Pkg().Path(), modPath) && len(call.Args) == 2 {
		if sig, ok := f.Type().(*types.Signature); ok && sig.Recv() == nil && sig.Params().Len() == 2 && sig.Results().Len() == 2 {
			if sinkTypeName(sig.Params().At(0).Type()) == "io.Reader" && sig.Params().At(1).Type().String() == "[]byte" &&
				sig.Results().At(0).Type().String() == "int" && isErrorType(sig.Results().At(1).Type()) {
				return true, call.Args[0]
			}
		}
	}
	if sel, ok := call.Fun.(*ast.SelectorExpr); ok {
		switch sel.Sel.Name {
		case "Read", "Peek", "ReadRune", "ReadByte", "ReadLine", "ReadString", "ReadBytes":
			if tv, ok := info.Types[sel.X]; ok {
				switch sinkTypeName(tv.Type) {
				case "bufio.Reader", "io.Reader", "io.ReadCloser", "os.File", modPath + "/pkg/obiformats.Reader":
					return true, sel.X
				}
			}
		}
	}
	return false, nil
}

// inMemoryReader: the reader argument is (built over) an in-memory buffer.
func inMemoryReader(info *types.Info, defs map[types.Object][]ast.Expr, e ast.Expr, depth int) bool {
	if tv, ok := info.Types[e]; ok {
		switch sinkTypeName(tv.Type) {
		case "bytes.Buffer", "bytes.Reader", "strings.Reader":
			return true
		}
	}
	if depth > 3 {
		return false
	}
	o := rootObj(info, e)
	if o == nil {
		return false
	}
	for _, d := range defs[o] {
		if call, ok := ast.Unparen(d).(*ast.CallExpr); ok && len(call.Args) > 0 {
			fn := fullName(callee(info, call))
			if fn == "bufio.NewReader" || fn == "bufio.NewReaderSize" || fn == "encoding/csv.NewReader" {
				if inMemoryReader(info, defs, call.Args[0], depth+1) {
					return true
				}
			}
			if fn == "bytes.NewReader" || fn == "bytes.NewBuffer" || fn == "strings.NewReader" || fn == "bytes.NewBufferString" {
				return true
			}
		}
	}
	return false
}

var reScopeFiles = map[string]bool{"xopen.go": true, "seqfile_chunk_read.go": true, "universal_read.go": true, "ngsfilter_read.go": true}

func reScope(c *Ctx, p *packages.Package, fd *ast.FuncDecl) bool {
	if rel(p.PkgPath) != "pkg/obiformats" {
		return false
	}
	file := c.Fset.Position(fd.Pos()).Filename
	return reScopeFiles[file[strings.LastIndex(file, "/")+1:]]
}

func runRE1(c *Ctx, s *Sink) {
	c.EachFunc([]string{"pkg/obiformats"}, func(p *packages.Package, fd *ast.FuncDecl) {
		info := p.TypesInfo
		// instances: functions that read a stream or mention ErrUnexpectedEOF
		reads := false
		ast.Inspect(fd.Body, func(n ast.Node) bool {
			if call, ok := n.(*ast.CallExpr); ok {
				if is, _ := isStreamRead(info, call); is {
					reads = true
				}
			}
			return true
		})
		mentions := mentionsObj(info, fd.Body, "io", "ErrUnexpectedEOF")
		if !mentions && !(reads && reScope(c, p, fd)) {
			return
		}
		fname := funcName(p, fd)
		if !mentions {
			s.Pass(nil, fname, fd.Pos(), "reads the input stream and never treats io.ErrUnexpectedEOF specially")
			return
		}
		n := 0
		bad := 0
		var walk func(node ast.Node)
		walk = func(node ast.Node) {
			ast.Inspect(node, func(m ast.Node) bool {
				switch x := m.(type) {
				case *ast.IfStmt:
					if mentionsObj(info, x.Cond, "io", "ErrUnexpectedEOF") {
						n++
						key := fmt.Sprintf("%s:cmp#%d", fname, n)
						v := evalAssumingUEOF(info, x.Cond)
						switch {
						case v == 1 && branchPropagates(info, x.Body):
						case v == 0 && x.Else != nil && func() bool { b, ok := x.Else.(*ast.BlockStmt); return ok && branchPropagates(info, b) }():
						default:
							bad++
							what := "continues normally"
							if v == 1 {
								what = "takes the 'then' branch, which neither aborts nor returns the error"
							} else if v == 0 {
								what = "skips the fatal branch"
							}
							s.Fail(nil, key, x.Cond.Pos(), "when the read error is io.ErrUnexpectedEOF (truncated compressed stream) the code "+what+": the records decompressed so far are processed and the command exits 0")
						}
					}
				case *ast.CaseClause:
					for _, e := range x.List {
						if isObj(info, e, "io", "ErrUnexpectedEOF") {
							n++
							if !branchPropagates(info, &ast.BlockStmt{List: x.Body}) {
								bad++
								s.Fail(nil, fmt.Sprintf("%s:cmp#%d", fname, n), e.Pos(), "switch case accepts io.ErrUnexpectedEOF without aborting")
							}
						}
					}
				}
				return true
			})
		}
		walk(fd.Body)
		// uses that raise the error (right-hand side of an assignment, operand of a return) are not acceptances
		total, raised := 0, 0
		ast.Inspect(fd.Body, func(m ast.Node) bool {
			switch x := m.(type) {
			case *ast.SelectorExpr:
				if isObj(info, x, "io", "ErrUnexpectedEOF") {
					total++
				}
			case *ast.AssignStmt:
				for _, r := range x.Rhs {
					if isObj(info, ast.Unparen(r), "io", "ErrUnexpectedEOF") {
						raised++
					}
				}
			case *ast.ReturnStmt:
				for _, r := range x.Results {
					if isObj(info, ast.Unparen(r), "io", "ErrUnexpectedEOF") {
						raised++
					}
				}
			}
			return true
		})
		if n == 0 && total == raised {
			s.Pass(nil, fname, fd.Pos(), fmt.Sprintf("io.ErrUnexpectedEOF is only raised (%d site(s)), never compared", raised))
			return
		}
		if n == 0 {
			s.Undecided(nil, fname, fd.Pos(), "io.ErrUnexpectedEOF is used outside an if/switch condition")
			return
		}
		if bad == 0 {
			s.Pass(nil, fname, fd.Pos(), fmt.Sprintf("%d comparison(s) with io.ErrUnexpectedEOF, each aborting or returning the error", n))
		}
	})
}

func runRE2(c *Ctx, s *Sink) {
	c.EachFunc([]string{"pkg/obiformats"}, func(p *packages.Package, fd *ast.FuncDecl) {
		if !reScope(c, p, fd) {
			return
		}
		info := p.TypesInfo
		defs := collectDefs(info, fd)
		fname := funcName(p, fd)
		counts := map[string]int{}
		var stack []ast.Node
		var visit func(n ast.Node)
		visit = func(n ast.Node) {
			if n == nil {
				return
			}
			stack = append(stack, n)
			defer func() { stack = stack[:len(stack)-1] }()
			if call, ok := n.(*ast.CallExpr); ok {
				if is, rd := isStreamRead(info, call); is && !inMemoryReader(info, defs, rd, 0) && returnsError(info, call) {
					name := types.ExprString(call.Fun)
					counts[name]++
					key := fmt.Sprintf("%s:%s#%d", fname, name, counts[name])
					ok, why := readErrorDisposition(info, fd, stack, call)
					if ok {
						s.Pass(nil, key, call.Pos(), why)
					} else {
						s.Fail(nil, key, call.Pos(), "read on the input stream: "+why)
					}
				}
			}
			var children []ast.Node
			ast.Inspect(n, func(m ast.Node) bool {
				if m == nil || m == n {
					return m == n
				}
				children = append(children, m)
				return false
			})
			for _, ch := range children {
				visit(ch)
			}
		}
		visit(fd.Body)
	})
}

func readErrorDisposition(info *types.Info, fd *ast.FuncDecl, stack []ast.Node, call *ast.CallExpr) (bool, string) {
	var parent ast.Node
	for i := len(stack) - 2; i >= 0; i-- {
		if _, ok := stack[i].(*ast.ParenExpr); ok {
			continue
		}
		parent = stack[i]
		break
	}
	switch p := parent.(type) {
	case *ast.ReturnStmt:
		return true, "error returned to the caller"
	case *ast.ExprStmt:
		return false, "its error is discarded (call used as a statement)"
	case *ast.AssignStmt:
		var errVar types.Object
		for _, l := range p.Lhs {
			if id, ok := l.(*ast.Ident); ok && id.Name != "_" {
				if o := info.ObjectOf(id); o != nil && o.Type().String() == "error" {
					errVar = o
				}
			}
		}
		if errVar == nil {
			return false, "its error is assigned to the blank identifier"
		}
		var scope ast.Node = fd.Body
		for i := len(stack) - 1; i >= 0; i-- {
			if lit, ok := stack[i].(*ast.FuncLit); ok {
				scope = lit.Body
				break
			}
		}
		return errTestsSound(info, scope, errVar, p.End())
	}
	return false, "its error is used in an unrecognised context"
}

// errTestsSound: every if-statement after pos that tests the variable against
// nil (err != nil) must be fatal / return something that depends on err, or
// be restricted to io.EOF; at least one test or a return of err must exist.
func errTestsSound(info *types.Info, scope ast.Node, v types.Object, from token.Pos) (bool, string) {
	uses := func(n ast.Node) bool {
		u := false
		ast.Inspect(n, func(x ast.Node) bool {
			if id, ok := x.(*ast.Ident); ok && info.ObjectOf(id) == v {
				u = true
			}
			return true
		})
		return u
	}
	tested := false
	partialSeen := false
	problem := ""
	reassigned := token.Pos(0)
	ast.Inspect(scope, func(n ast.Node) bool {
		if n == nil || n.End() <= from || problem != "" {
			return problem == "" && n != nil
		}
		switch x := n.(type) {
		case *ast.AssignStmt:
			// the variable is overwritten by another call: stop looking further
			if x.Pos() >= from {
				sameClass := false
				if len(x.Rhs) == 1 {
					if id, ok := ast.Unparen(x.Rhs[0]).(*ast.Ident); ok && id.Name == "nil" {
						sameClass = true // err = nil is a swallow (judged where it stands), not a new error value
					}
				}
				if len(x.Rhs) == 1 {
					if call, ok := ast.Unparen(x.Rhs[0]).(*ast.CallExpr); ok {
						sameClass, _ = isStreamRead(info, call)
					}
					// err = <sentinel error other than io.EOF>: the error stays an error (often io.EOF made fatal)
					if sel, ok := ast.Unparen(x.Rhs[0]).(*ast.SelectorExpr); ok {
						if o, ok := info.Uses[sel.Sel].(*types.Var); ok && o.Pkg() != nil && o.Parent() == o.Pkg().Scope() && isErrorType(o.Type()) && !isObj(info, sel, "io", "EOF") {
							sameClass = true
						}
					}
				}
				for _, l := range x.Lhs {
					if id, ok := l.(*ast.Ident); ok && info.ObjectOf(id) == v && reassigned == 0 && !sameClass {
						reassigned = x.Pos()
					}
				}
			}
		case *ast.IfStmt:
			if x.Cond.Pos() < from || !uses(x.Cond) {
				return true
			}
			if reassigned != 0 && x.Pos() > reassigned {
				return true
			}
			// a test weakened by a conjunct that does not concern the error (err != nil && n == 0)
			// lets errors through: it is not the test that consumes the error
			if mentionsObj(info, x.Cond, "io", "EOF") && !condNegatesEOF(info, x.Cond) {
				return true // a clause restricted to the clean end of stream: neither consumes nor loses other errors
			}
			partial := false
			for _, cj := range conjuncts(x.Cond) {
				if !uses(cj) {
					partial = true
				}
			}
			if partial {
				partialSeen = true
				return false // what happens inside does not cover the other case
			}
			// which branch is taken for a genuine (non-EOF) error?
			var errBranch *ast.BlockStmt
			switch evalAssumingUEOF(info, x.Cond) {
			case 1:
				errBranch = x.Body
			case 0:
				errBranch, _ = x.Else.(*ast.BlockStmt)
			}
			if errBranch == nil {
				return true // no branch for the error case here: not the consuming test
			}
			if blockDiverges(info, errBranch) {
				tested = true
				if r, ok := errBranch.List[len(errBranch.List)-1].(*ast.ReturnStmt); ok {
					dep := false
					for _, res := range r.Results {
						if uses(res) {
							dep = true
						}
					}
					if !dep {
						problem = "an arbitrary read error is replaced by " + exprList(r.Results) + " (the failure is reported as a benign condition or lost)"
					}
				}
				return true
			}
			// non-diverging error branch: err = nil style swallowing
			ast.Inspect(errBranch, func(m ast.Node) bool {
				if as, ok := m.(*ast.AssignStmt); ok && len(as.Lhs) == 1 && len(as.Rhs) == 1 {
					if id, ok := as.Lhs[0].(*ast.Ident); ok && info.ObjectOf(id) == v {
						if rid, ok := as.Rhs[0].(*ast.Ident); ok && rid.Name == "nil" {
							problem = "the error is reset to nil under a condition not restricted to io.EOF"
						}
					}
				}
				return true
			})
		case *ast.ReturnStmt:
			if x.Pos() >= from && (reassigned == 0 || x.Pos() < reassigned) {
				for _, r := range x.Results {
					if uses(r) && !underUnrelatedCondition(scope, x, uses) {
						tested = true
					}
				}
			}
		}
		return true
	})
	if problem != "" {
		return false, problem
	}
	if !tested && partialSeen {
		return false, "its error is only tested together with an unrelated condition (err != nil && …): when that condition is false the read error is lost and the data read so far is processed as a complete input"
	}
	if !tested {
		return false, "its error is never tested or returned"
	}
	return true, "error tested: fatal, propagated, or benign only for io.EOF"
}

// condNegatesEOF: the condition has the shape "... err != io.EOF ..." (EOF excluded from the failing set).
func condNegatesEOF(info *types.Info, e ast.Expr) bool {
	neg := false
	ast.Inspect(e, func(n ast.Node) bool {
		if b, ok := n.(*ast.BinaryExpr); ok && b.Op == token.NEQ {
			if isObj(info, b.X, "io", "EOF") || isObj(info, b.Y, "io", "EOF") {
				neg = true
			}
		}
		return true
	})
	return neg
}

func exprList(es []ast.Expr) string {
	var parts []string
	for _, e := range es {
		parts = append(parts, types.ExprString(e))
	}
	return strings.Join(parts, ", ")
}

func conjuncts(e ast.Expr) []ast.Expr {
	e = ast.Unparen(e)
	if b, ok := e.(*ast.BinaryExpr); ok && b.Op == token.LAND {
		return append(conjuncts(b.X), conjuncts(b.Y)...)
	}
	return []ast.Expr{e}
}

// underUnrelatedCondition: the statement is nested in an if whose condition
// does not concern the error (a return of err under 'mimeType == nil' does
// not consume the error on the other branch).
func underUnrelatedCondition(scope ast.Node, target ast.Node, uses func(ast.Node) bool) bool {
	found := false
	var stack []ast.Node
	var walk func(n ast.Node) bool
	walk = func(n ast.Node) bool {
		if n == nil {
			return false
		}
		if n == target {
			for _, anc := range stack {
				if ifs, ok := anc.(*ast.IfStmt); ok && !uses(ifs.Cond) {
					found = true
				}
			}
			return true
		}
		stack = append(stack, n)
		done := false
		ast.Inspect(n, func(m ast.Node) bool {
			if m == nil || m == n || done {
				return m == n
			}
			if walk(m) {
				done = true
			}
			return false
		})
		stack = stack[:len(stack)-1]
		return done
	}
	walk(scope)
	return found
}
