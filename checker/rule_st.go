package main

// ST — standard input goes through the same decoding chain as a file (C01, C17).

import (
	"fmt"
	"go/ast"
	"go/types"
	"strings"

	"golang.org/x/tools/go/packages"
)

func init() {
	register(&Rule{
		ID: "ST", Props: []string{"C01", "C17"}, Min: 2,
		Doc: `what the commands read does not depend on the transport: a file is opened through Ropen/Buf (decompressor chosen from the magic bytes, errors surfaced) and its format is sniffed;
standard input must take the same chain. In the module (1) every use of os.Stdin as a reader argument is the argument of obiformats.Buf
— handed directly to a parser, compressed or corrupt bytes reach a text parser — and (2) no function reachable through static calls from obiconvert.CLIReadBioSequences calls the C reader
open_fast_sek_stdin: that reader sniffs nothing (GenBank/EMBL text yields invented records, exit 0), lets zlib copy verbatim any stream whose gzip magic is damaged and drop what follows a complete
member (truncated or corrupted input accepted, exit 0), and ignores bzip2/xz/zstd.`,
		Run: runST,
	})
}

func runST(c *Ctx, s *Sink) {
	// (1) os.Stdin as an argument
	c.EachFunc([]string{"pkg", "cmd"}, func(p *packages.Package, fd *ast.FuncDecl) {
		info := p.TypesInfo
		n := 0
		ast.Inspect(fd.Body, func(nd ast.Node) bool {
			call, ok := nd.(*ast.CallExpr)
			if !ok {
				return true
			}
			for _, a := range call.Args {
				sel, ok := ast.Unparen(a).(*ast.SelectorExpr)
				if !ok || sel.Sel.Name != "Stdin" {
					continue
				}
				if v, ok := info.ObjectOf(sel.Sel).(*types.Var); !ok || v.Pkg() == nil || v.Pkg().Path() != "os" {
					continue
				}
				n++
				key := fmt.Sprintf("%s:stdin-arg#%d", funcName(p, fd), n)
				f := callee(info, call)
				if f != nil && strings.HasSuffix(fullName(f), "/pkg/obiformats.Buf") {
					s.Pass(nil, key, call.Pos(), "os.Stdin is opened through Buf")
				} else {
					name := types.ExprString(call.Fun)
					s.Fail(nil, key, call.Pos(), "os.Stdin is handed to "+name+" without going through obiformats.Buf: compressed input on stdin is not decompressed and the reader's error handling for damaged streams is bypassed, unlike the same bytes given as a file")
				}
			}
			return true
		})
	})
	// (2) reachability of the C stdin opener from CLIReadBioSequences
	fd, p := c.FindFunc("pkg/obitools/obiconvert", "CLIReadBioSequences")
	key := "pkg/obitools/obiconvert.CLIReadBioSequences:no-kseq-stdin"
	if fd == nil {
		s.Undecided(nil, key, 0, "function not found")
		return
	}
	seen := map[*ast.FuncDecl]bool{fd: true}
	type item struct {
		fd   *ast.FuncDecl
		p    *packages.Package
		path string
	}
	work := []item{{fd, p, "CLIReadBioSequences"}}
	found := ""
	nfun := 0
	for len(work) > 0 && found == "" {
		it := work[0]
		work = work[1:]
		nfun++
		ast.Inspect(it.fd.Body, func(nd ast.Node) bool {
			switch x := nd.(type) {
			case *ast.CallExpr:
				// cgo call C.open_fast_sek_stdin: after cgo translation the callee is _Cfunc_open_fast_sek_stdin
				txt := types.ExprString(x.Fun)
				if strings.Contains(txt, "open_fast_sek_stdin") {
					found = it.path + " -> " + txt + " (" + c.Pos(x.Pos()) + ")"
				}
			case *ast.Ident:
				if f, ok := it.p.TypesInfo.Uses[x].(*types.Func); ok && f.Pkg() != nil && strings.HasPrefix(f.Pkg().Path(), modPath) {
					if d, dp := c.DeclOf(f); d != nil && d.Body != nil && !seen[d] {
						seen[d] = true
						work = append(work, item{d, dp, it.path + " -> " + f.Name()})
					}
				}
			}
			return true
		})
	}
	if found != "" {
		s.Fail(nil, key, fd.Pos(), "standard input is read by the C kseq/zlib reader: "+found+": no format sniffing (obiconvert < file.gb exits 0 with invented records while obiconvert file.gb is right), a stream whose gzip magic is damaged is copied verbatim and what follows a complete member is dropped (exit 0 on truncated or corrupted input), bzip2/xz/zstd are not decompressed")
	} else {
		s.Pass(nil, key, fd.Pos(), fmt.Sprintf("%d functions reachable from CLIReadBioSequences, none opens stdin with the C reader", nfun))
	}
}
