package main

// Rules added after the sixth round of independent changes.

import (
	"fmt"
	"go/ast"
	"go/token"
	"go/types"
	"sort"
	"strings"

	"golang.org/x/tools/go/cfg"
	"golang.org/x/tools/go/packages"
)

func init() {
	register(&Rule{
		ID: "IT-11", Props: []string{"C04", "C03", "C05"}, Min: 10,
		Doc: `one iterator clone per worker: a variable of type IBioSequence is handed to at most one goroutine — a go statement inside a loop (or a second go statement) that passes the same
iterator variable rather than its Split() makes several workers share the unsynchronised current/pushBack fields: one worker's Next() lands between another's Next() and Get(), a batch is
formatted twice and its predecessor never.`,
		Run: runIT11,
	})
	register(&Rule{
		ID: "BF", Props: []string{"C19", "C15", "C05"}, Min: 1,
		Doc: `a recycled scratch slice is emptied before it is filled: in pkg/obikmer and pkg/obialign, a function that appends to the slice behind a pointer parameter (*buf = append(*buf, …))
first re-binds the pointer to a fresh slice or truncates *buf ((*buf)[:0] / make) on every path (must-reset typestate); otherwise the 4-mers (positions, scores) left by the previous
sequence are counted again.`,
		Run: runBF,
	})
	register(&Rule{
		ID: "PR-2", Props: []string{"C11"}, Min: 3,
		Doc: `the two orientation blocks of _Pcr treat their matches alike: (idx) the multiset of match components (first/second match × start/end) read in conditions is the same in both blocks;
(len) in each block the amplicon length tested against the bounds is assigned on every path of the iteration before the test (must-define: a stale length of the previous pair validates
an upstream pair).`,
		Run: runPR2,
	})
	register(&Rule{
		ID: "FR-len", Props: []string{"C10"}, Min: 1,
		Doc: `the end of a hit is its start plus the number of pattern positions known to the compiled pattern: in FindAllIndex the length added to the start originates from the patlen field of the
C pattern (or ApatPattern.Len()), not from the length of the pattern's text (brackets, '#', '!' and class members are not positions).`,
		Run: runFRLen,
	})
	register(&Rule{
		ID: "AL-5", Props: []string{"C07"}, Min: 1,
		Doc: `a reverse complement is computed from the nucleotides the object holds now: every value returned by ReverseComplement is its receiver, a fresh Copy() of it (possibly through a helper
method of the package returning its receiver) or nil — never a *BioSequence remembered in a field of the receiver from an earlier call: no mutator, in-place reversal or Recycle() invalidates such
a link, so it is stale after any change of either end and aliases the source. AL-6: Recycle() does not follow links to other sequences (paired).`,
		Run: runAL5,
	})
	register(&Rule{
		ID: "LX-EOL", Props: []string{"C01", "C02"}, Min: 2,
		Doc: `a record starts at the beginning of a line: in the backward splitters, the state reached just after the record-start symbol ('@', '>') moves to the accepting state for
end-of-line bytes only (evaluated for 256 bytes); accepting a blank there cuts a title that contains " @" in two.`,
		Run: runLXEOL,
	})
	register(&Rule{
		ID: "JS-D", Props: []string{"C02"}, Min: 1,
		Doc: `the definition restored from the annotations is not overwritten by an empty remainder: in the title-line parsers, SetDefinition(rest) after the annotation object has been decoded
is guarded by len(rest) > 0.`,
		Run: runJSD,
	})
}

func runIT11(c *Ctx, s *Sink) {
	c.EachFunc([]string{"pkg"}, func(p *packages.Package, fd *ast.FuncDecl) {
		info := p.TypesInfo
		type use struct {
			pos    token.Pos
			inLoop bool
		}
		uses := map[types.Object][]use{}
		defs := collectDefs(info, fd)
		var stack []ast.Node
		ast.Inspect(fd.Body, func(n ast.Node) bool {
			if n == nil {
				stack = stack[:len(stack)-1]
				return true
			}
			stack = append(stack, n)
			g, ok := n.(*ast.GoStmt)
			if !ok {
				return true
			}
			for ai, a := range g.Call.Args {
				if id, ok := ast.Unparen(a).(*ast.Ident); ok {
					if o := info.ObjectOf(id); o != nil && isIterType(o.Type()) && consumesParam(c, info, defs, g, ai) {
						// inside a loop that does not itself declare the variable (a range value is a
						// different iterator at each turn)
						inLoop := false
						for _, anc := range stack {
							switch anc.(type) {
							case *ast.ForStmt, *ast.RangeStmt:
								if !(o.Pos() >= anc.Pos() && o.Pos() < anc.End()) {
									inLoop = true
								}
							case *ast.FuncLit:
								inLoop = false
							}
						}
						uses[o] = append(uses[o], use{g.Pos(), inLoop})
					}
				}
			}
			return true
		})
		if len(uses) == 0 {
			return
		}
		fname := funcName(p, fd)
		var objs []types.Object
		for o := range uses {
			objs = append(objs, o)
		}
		sort.Slice(objs, func(i, j int) bool { return objs[i].Pos() < objs[j].Pos() })
		for _, o := range objs {
			us := uses[o]
			key := fname + ":workers:" + o.Name()
			shared := len(us) > 1
			for _, u := range us {
				if u.inLoop {
					shared = true
				}
			}
			// a reassignment between the uses (iterator = iterator.Split()) gives each worker its own clone
			if shared {
				reassigned := false
				ast.Inspect(fd.Body, func(n ast.Node) bool {
					if as, ok := n.(*ast.AssignStmt); ok && as.Tok == token.ASSIGN {
						for _, l := range as.Lhs {
							if rootObj(info, l) == o {
								reassigned = true
							}
						}
					}
					return true
				})
				if reassigned {
					shared = false
				}
			}
			if shared {
				s.Fail(nil, key, us[0].pos, "the iterator "+o.Name()+" is handed to several goroutines (go statement in a loop, or several go statements) instead of one Split() per worker: the workers race on its current batch")
			} else {
				s.Pass(nil, key, us[0].pos, "handed to one goroutine; the other workers receive Split() clones")
			}
		}
	})
}

func runBF(c *Ctx, s *Sink) {
	c.EachFunc([]string{"pkg/obikmer", "pkg/obialign"}, func(p *packages.Package, fd *ast.FuncDecl) {
		info := p.TypesInfo
		for _, prm := range flattenParams(fd.Type.Params) {
			if prm == nil {
				continue
			}
			po := info.ObjectOf(prm)
			ptr, ok := po.Type().(*types.Pointer)
			if !ok {
				continue
			}
			if _, isSlice := ptr.Elem().Underlying().(*types.Slice); !isSlice {
				continue
			}
			isDeref := func(e ast.Expr) bool {
				st, ok := ast.Unparen(e).(*ast.StarExpr)
				return ok && rootObj(info, st.X) == po
			}
			appends := false
			ast.Inspect(fd.Body, func(n ast.Node) bool {
				if as, ok := n.(*ast.AssignStmt); ok && len(as.Lhs) == 1 && len(as.Rhs) == 1 && isDeref(as.Lhs[0]) {
					if call, ok := ast.Unparen(as.Rhs[0]).(*ast.CallExpr); ok {
						if id, ok := call.Fun.(*ast.Ident); ok && id.Name == "append" && len(call.Args) > 0 && isDeref(call.Args[0]) {
							appends = true
						}
					}
				}
				return true
			})
			if !appends {
				continue
			}
			key := funcName(p, fd) + ":reset:" + po.Name()
			g := buildCFG(info, fd.Body)
			ts := &typestate{g: g, init: 0, info: info,
				events: func(n ast.Node) []tsEvent {
					as, ok := n.(*ast.AssignStmt)
					if !ok || len(as.Lhs) != 1 || len(as.Rhs) != 1 {
						return nil
					}
					// buffer = &fresh
					if id, ok := ast.Unparen(as.Lhs[0]).(*ast.Ident); ok && info.ObjectOf(id) == po {
						return []tsEvent{{kind: "reset", node: n}}
					}
					if !isDeref(as.Lhs[0]) {
						return nil
					}
					if call, ok := ast.Unparen(as.Rhs[0]).(*ast.CallExpr); ok {
						if id, ok := call.Fun.(*ast.Ident); ok && id.Name == "append" && len(call.Args) > 0 && isDeref(call.Args[0]) {
							return []tsEvent{{kind: "append", node: n}}
						}
					}
					// *buffer = (*buffer)[:0] / make(...) / anything not built from the old content
					if sl, ok := ast.Unparen(as.Rhs[0]).(*ast.SliceExpr); ok {
						if sl.High != nil && isConstInt(info, sl.High, 0) {
							return []tsEvent{{kind: "reset", node: n}}
						}
						return nil
					}
					if !mentionsVar(info, as.Rhs[0], po) {
						return []tsEvent{{kind: "reset", node: n}}
					}
					return nil
				},
				step: func(st int, ev tsEvent) (int, string) {
					switch ev.kind {
					case "reset":
						return 1, ""
					case "append":
						if st == 0 {
							return 1, "appends to the caller's slice *" + po.Name() + " on a path where it has not been emptied: what the previous call left in the recycled buffer is kept in front of the new content"
						}
					}
					return st, ""
				}}
			res := ts.run()
			if len(res.errs) > 0 {
				s.Fail(nil, key, res.errs[0].pos, res.errs[0].msg)
			} else {
				s.Pass(nil, key, fd.Pos(), "the recycled slice is re-bound or truncated on every path before the first append")
			}
		}
	})
}

func runPR2(c *Ctx, s *Sink) {
	fd, p := c.FindFunc("pkg/obiapat", "_Pcr")
	if fd == nil {
		s.Undecided(nil, "pkg/obiapat._Pcr:siblings", 0, "function not found")
		return
	}
	info := p.TypesInfo
	// orientation blocks: the outer range loops over match lists whose body contains a nested range loop
	type block struct {
		outer, inner *ast.RangeStmt
		fm, rm       types.Object
	}
	var blocks []block
	ast.Inspect(fd.Body, func(n ast.Node) bool {
		or, ok := n.(*ast.RangeStmt)
		if !ok || or.Value == nil {
			return true
		}
		var inner *ast.RangeStmt
		ast.Inspect(or.Body, func(m ast.Node) bool {
			if ir, ok := m.(*ast.RangeStmt); ok && inner == nil && ir.Value != nil {
				inner = ir
			}
			return true
		})
		if inner == nil {
			return true
		}
		blocks = append(blocks, block{or, inner, rootObj(info, or.Value), rootObj(info, inner.Value)})
		return false
	})
	if len(blocks) != 2 {
		s.Undecided(nil, "pkg/obiapat._Pcr:siblings", fd.Pos(), fmt.Sprintf("%d orientation blocks found, expected 2", len(blocks)))
		return
	}
	// (idx) components read in conditions, through single-assignment locals
	profile := func(b block) string {
		defs := collectDefs(info, b.outer)
		var comps []string
		var visitCond func(e ast.Expr, depth int)
		visitCond = func(e ast.Expr, depth int) {
			ast.Inspect(e, func(n ast.Node) bool {
				switch x := n.(type) {
				case *ast.IndexExpr:
					o := rootObj(info, x.X)
					if v, ok := constInt(info, x.Index); ok && (o == b.fm || o == b.rm) {
						role := "first"
						if o == b.rm {
							role = "second"
						}
						comps = append(comps, fmt.Sprintf("%s[%d]", role, v))
					}
				case *ast.Ident:
					if depth < 2 {
						if ds := defs[info.ObjectOf(x)]; len(ds) >= 1 {
							// the innermost definition visible: all of them, the multiset is compared
							for _, d := range ds {
								if d != nil {
									visitCond(d, depth+1)
								}
							}
						}
					}
				}
				return true
			})
		}
		ast.Inspect(b.outer.Body, func(n ast.Node) bool {
			if ifs, ok := n.(*ast.IfStmt); ok {
				visitCond(ifs.Cond, 0)
			}
			return true
		})
		sort.Strings(comps)
		return strings.Join(comps, " ")
	}
	p1, p2 := profile(blocks[0]), profile(blocks[1])
	key := "pkg/obiapat._Pcr:siblings:guards"
	if p1 == p2 {
		s.Pass(nil, key, blocks[0].outer.Pos(), "both orientations test the same match components: "+p1)
	} else {
		s.Fail(nil, key, blocks[1].outer.Pos(), "the two orientations do not test the same components of their matches (forward: "+p1+" | reverse: "+p2+"): a site is accepted or rejected on one strand only, so reverse-complementing the template changes the set of amplicons")
	}
	// (len) must-define of the tested length in each inner iteration
	for bi, b := range blocks {
		key := fmt.Sprintf("pkg/obiapat._Pcr:orientation#%d:length", bi+1)
		// the variable compared with the bounds
		var lv types.Object
		var test *ast.IfStmt
		ast.Inspect(b.inner.Body, func(n ast.Node) bool {
			ifs, ok := n.(*ast.IfStmt)
			if !ok || test != nil {
				return true
			}
			mentionsBounds := false
			ast.Inspect(ifs.Cond, func(m ast.Node) bool {
				if call, ok := m.(*ast.CallExpr); ok {
					if sel, ok := call.Fun.(*ast.SelectorExpr); ok && (sel.Sel.Name == "MinLength" || sel.Sel.Name == "MaxLength") {
						mentionsBounds = true
					}
				}
				return true
			})
			if !mentionsBounds {
				return true
			}
			ast.Inspect(ifs.Cond, func(m ast.Node) bool {
				if be, ok := m.(*ast.BinaryExpr); ok && lv == nil {
					if id, ok := ast.Unparen(be.X).(*ast.Ident); ok {
						if v, ok := info.ObjectOf(id).(*types.Var); ok && !v.IsField() {
							if bt, ok := v.Type().Underlying().(*types.Basic); ok && bt.Info()&types.IsInteger != 0 {
								lv, test = v, ifs
							}
						}
					}
				}
				return true
			})
			return true
		})
		if lv == nil {
			s.Undecided(nil, key, b.inner.Pos(), "no test of the amplicon length against the bounds")
			continue
		}
		if lv.Pos() >= b.inner.Body.Pos() && lv.Pos() < b.inner.Body.End() {
			s.Pass(nil, key, test.Pos(), "the tested length is declared inside the iteration")
			continue
		}
		g := buildCFG(info, b.inner.Body)
		ts := &typestate{g: g, init: 0, info: info,
			events: func(n ast.Node) []tsEvent {
				var evs []tsEvent
				if n == ast.Node(test.Cond) {
					evs = append(evs, tsEvent{kind: "use", node: n})
				}
				if as, ok := n.(*ast.AssignStmt); ok {
					for _, l := range as.Lhs {
						if id, ok := ast.Unparen(l).(*ast.Ident); ok && info.ObjectOf(id) == lv {
							evs = append(evs, tsEvent{kind: "def", node: n})
						}
					}
				}
				return evs
			},
			step: func(st int, ev tsEvent) (int, string) {
				switch ev.kind {
				case "def":
					return 1, ""
				case "use":
					if st == 0 {
						return 0, "stale"
					}
				}
				return st, ""
			}}
		if res := ts.run(); len(res.errs) > 0 {
			s.Fail(nil, key, test.Pos(), "on some path of the iteration the amplicon length "+lv.Name()+" is tested without having been assigned for this pair of matches: it keeps the value computed for the previous pair, and a reverse site lying upstream of the forward site is accepted with it")
		} else {
			s.Pass(nil, key, test.Pos(), "the tested length is assigned on every path of the iteration before the test")
		}
	}
	_ = cfg.KindBody
}

func runFRLen(c *Ctx, s *Sink) {
	fd, p := c.FindFunc("pkg/obiapat", "(ApatPattern).FindAllIndex")
	key := "pkg/obiapat.(ApatPattern).FindAllIndex:hit-end"
	if fd == nil {
		s.Undecided(nil, key, 0, "function not found")
		return
	}
	info := p.TypesInfo
	defs := collectDefs(info, fd)
	// the composite literal appended to the result: {start, start + L, err}
	var L ast.Expr
	ast.Inspect(fd.Body, func(n ast.Node) bool {
		cl, ok := n.(*ast.CompositeLit)
		if !ok || len(cl.Elts) != 3 {
			return true
		}
		if be, ok := ast.Unparen(cl.Elts[1]).(*ast.BinaryExpr); ok && be.Op == token.ADD {
			if types.ExprString(be.X) == types.ExprString(cl.Elts[0]) {
				L = be.Y
			} else if types.ExprString(be.Y) == types.ExprString(cl.Elts[0]) {
				L = be.X
			}
		}
		return true
	})
	if L == nil {
		s.Undecided(nil, key, fd.Pos(), "no hit triple {start, start + length, errors} found")
		return
	}
	// origin through single-assignment locals and conversions
	var origin func(e ast.Expr, depth int) string
	origin = func(e ast.Expr, depth int) string {
		e = ast.Unparen(e)
		switch x := e.(type) {
		case *ast.Ident:
			if ds := defs[info.ObjectOf(x)]; len(ds) == 1 && ds[0] != nil && depth < 4 {
				return origin(ds[0], depth+1)
			}
		case *ast.CallExpr:
			if tv, ok := info.Types[x.Fun]; ok && tv.IsType() && len(x.Args) == 1 {
				return origin(x.Args[0], depth)
			}
			if f := callee(info, x); f != nil {
				return "call:" + fullName(f)
			}
			if id, ok := x.Fun.(*ast.Ident); ok {
				return "builtin:" + id.Name + "(" + types.ExprString(x.Args[0]) + ")"
			}
		case *ast.SelectorExpr:
			return "field:" + x.Sel.Name
		}
		return "expr:" + types.ExprString(e)
	}
	o := origin(L, 0)
	if o == "field:patlen" || strings.HasSuffix(o, "(ApatPattern).Len") {
		s.Pass(nil, key, L.Pos(), "hit end = start + number of positions of the compiled pattern ("+o+")")
	} else {
		s.Fail(nil, key, L.Pos(), "the length added to the start of a hit comes from "+o+", not from the number of positions of the compiled pattern: for a pattern with a bracket class, '#' or '!' every reported end is too large (and can lie beyond the sequence)")
	}
}

func runAL5(c *Ctx, s *Sink) {
	fd, p := c.FindFunc("pkg/obiseq", "(*BioSequence).ReverseComplement")
	key := "pkg/obiseq.(*BioSequence).ReverseComplement:link"
	if fd == nil {
		s.Undecided(nil, key, 0, "function not found")
	} else {
		info := p.TypesInfo
		// the link: the field of BioSequence whose type is *BioSequence (whatever its name)
		isLink := func(e ast.Expr) bool {
			sel, ok := ast.Unparen(e).(*ast.SelectorExpr)
			if !ok {
				return false
			}
			fv, ok := info.ObjectOf(sel.Sel).(*types.Var)
			if !ok || !fv.IsField() {
				return false
			}
			ptr, ok := fv.Type().(*types.Pointer)
			xt := info.TypeOf(sel.X)
			if xp, isPtr := xt.(*types.Pointer); isPtr {
				xt = xp.Elem()
			}
			return ok && namedTypeName(ptr.Elem()) == modPath+"/pkg/obiseq.BioSequence" && namedTypeName(xt) == modPath+"/pkg/obiseq.BioSequence"
		}
		// what ReverseComplement hands back: the receiver, a fresh copy of it, or nil — never an object remembered in a
		// field from an earlier call
		recv := info.ObjectOf(fd.Recv.List[0].Names[0])
		defs := collectDefsTuple(info, fd)
		var bad []string
		nret := 0
		var origin func(e ast.Expr, depth int) string
		origin = func(e ast.Expr, depth int) string {
			e = ast.Unparen(e)
			if depth > 6 {
				return "?"
			}
			if isLink(e) {
				return "link"
			}
			switch x := e.(type) {
			case *ast.Ident:
				if x.Name == "nil" {
					return "nil"
				}
				o := info.ObjectOf(x)
				worst := ""
				if o == recv {
					worst = "recv"
				}
				for _, d := range defs[o] {
					if d == nil {
						continue
					}
					if r := origin(d, depth+1); r == "link" || r == "?" {
						return r
					} else if worst == "" {
						worst = r
					}
				}
				if worst == "" {
					return "?"
				}
				return worst
			case *ast.CallExpr:
				f := callee(info, x)
				if sel, ok := ast.Unparen(x.Fun).(*ast.SelectorExpr); ok && f != nil && f.Pkg() == p.Types {
					if sig, ok := f.Type().(*types.Signature); ok && sig.Recv() != nil {
						if f.Name() == "Copy" {
							return "fresh"
						}
						// a method of the package returning its receiver (helper): judged by its receiver here
						return origin(sel.X, depth+1)
					}
				}
				if f != nil && f.Pkg() == p.Types && (strings.HasPrefix(f.Name(), "New") || strings.HasPrefix(f.Name(), "Make")) {
					return "fresh"
				}
				return "?"
			}
			return "?"
		}
		ast.Inspect(fd.Body, func(n ast.Node) bool {
			if _, isLit := n.(*ast.FuncLit); isLit {
				return false
			}
			if r, ok := n.(*ast.ReturnStmt); ok && len(r.Results) == 1 {
				nret++
				switch origin(r.Results[0], 0) {
				case "link":
					bad = append(bad, c.Pos(r.Pos())+": returns "+types.ExprString(r.Results[0]))
				case "?":
					bad = append(bad, c.Pos(r.Pos())+": origin of "+types.ExprString(r.Results[0])+" not established")
				}
			}
			return true
		})
		switch {
		case len(bad) > 0:
			s.Fail(nil, key, fd.Pos(), "ReverseComplement hands back an object remembered in a field of its receiver ("+strings.Join(bad, "; ")+"): nothing invalidates that link when either sequence is modified, reverse-complemented in place or recycled, so y := x.ReverseComplement(false) followed by any change of x or y makes y.ReverseComplement() return stale nucleotides, the in-place form leaves y untouched, and the result shares all its state with x")
		case nret == 0:
			s.Undecided(nil, key, fd.Pos(), "no return statement")
		default:
			s.Pass(nil, key, fd.Pos(), itoa(nret)+" return(s): the receiver, a fresh copy of it, or nil")
		}
	}
	// AL-6
	fd, p = c.FindFunc("pkg/obiseq", "(*BioSequence).Recycle")
	key = "pkg/obiseq.(*BioSequence).Recycle:no-propagation"
	if fd == nil {
		s.Undecided(nil, key, 0, "function not found")
		return
	}
	info := p.TypesInfo
	recv := info.ObjectOf(fd.Recv.List[0].Names[0])
	bad := ""
	ast.Inspect(fd.Body, func(n ast.Node) bool {
		if call, ok := n.(*ast.CallExpr); ok {
			if sel, ok := call.Fun.(*ast.SelectorExpr); ok && sel.Sel.Name == "Recycle" {
				if inner, ok := ast.Unparen(sel.X).(*ast.SelectorExpr); ok && rootObj(info, inner.X) == recv {
					bad = types.ExprString(sel.X)
				}
			}
		}
		return true
	})
	if bad != "" {
		s.Fail(nil, key, fd.Pos(), "Recycle() also recycles "+bad+", another sequence reached through a link of the receiver: recycling a derived object (a reverse complement, a mate) empties the source it was computed from while it is still in use")
	} else {
		s.Pass(nil, key, fd.Pos(), "Recycle() hands back only the receiver's own buffers")
	}
}

func runLXEOL(c *Ctx, s *Sink) {
	p := c.Pkg("pkg/obiformats")
	if p == nil {
		s.Undecided(nil, "pkg/obiformats", 0, "package not loaded")
		return
	}
	starts := map[string]byte{"EndOfLastFastqEntry": '@', "EndOfLastFastaEntry": '>'}
	for _, name := range []string{"EndOfLastFastaEntry", "EndOfLastFastqEntry"} {
		fd, _ := c.FindFunc("pkg/obiformats", name)
		key := "pkg/obiformats." + name + ":line-start"
		if fd == nil {
			s.Undecided(nil, key, 0, "function not found")
			continue
		}
		a := findAutomaton(c, p, fd)
		if a == nil {
			s.Undecided(nil, key, fd.Pos(), "no backward state machine recognised")
			continue
		}
		// states from which the record-start symbol is consumed: s --start--> t with t != s; then from t, the
		// bytes that lead to the accepting state must be end-of-line bytes only
		reach := map[int64]bool{a.init: true}
		work := []int64{a.init}
		trans := map[int64]map[int]int64{}
		for len(work) > 0 {
			st := work[0]
			work = work[1:]
			trans[st] = map[int]int64{}
			for b := 0; b < 256; b++ {
				nx, _, err := a.step(c, st, b)
				if err != nil {
					s.Undecided(nil, key, fd.Pos(), "transition function cannot be evaluated: "+err.Error())
					work = nil
					break
				}
				trans[st][b] = nx
				if !reach[nx] && nx < a.accept {
					reach[nx] = true
					work = append(work, nx)
				}
			}
		}
		var bad []string
		nchk := 0
		for st, row := range trans {
			for b, nx := range row {
				if nx >= a.accept && st < a.accept {
					nchk++
					if b != '\n' && b != '\r' {
						bad = append(bad, fmt.Sprintf("state %d accepts on byte %q", st, rune(b)))
					}
				}
			}
		}
		sort.Strings(bad)
		_ = starts
		switch {
		case nchk == 0:
			s.Undecided(nil, key, fd.Pos(), "no transition to the accepting state found")
		case len(bad) > 0:
			if len(bad) > 4 {
				bad = append(bad[:4], "…")
			}
			s.Fail(nil, key, fd.Pos(), "the splitter decides that a record starts although the byte before its start symbol is not an end of line ("+strings.Join(bad, "; ")+"): a title containing the start symbol after a blank is cut in two at a chunk boundary")
		default:
			s.Pass(nil, key, fd.Pos(), fmt.Sprintf("%d accepting transitions, all on end-of-line bytes", nchk))
		}
	}
}

func runJSD(c *Ctx, s *Sink) {
	n := 0
	c.EachFunc([]string{"pkg/obiformats"}, func(p *packages.Package, fd *ast.FuncDecl) {
		info := p.TypesInfo
		// functions that decode the annotation object of a title line and then set the definition from the remainder
		var rest types.Object
		ast.Inspect(fd.Body, func(nd ast.Node) bool {
			as, ok := nd.(*ast.AssignStmt)
			if !ok || len(as.Lhs) != 1 || len(as.Rhs) != 1 {
				return true
			}
			if call, ok := ast.Unparen(as.Rhs[0]).(*ast.CallExpr); ok && isCallTo(info, call, "pkg/obiformats._parse_json_header_") {
				rest = rootObj(info, as.Lhs[0])
			}
			return true
		})
		if rest == nil {
			return
		}
		var stack []ast.Node
		ast.Inspect(fd.Body, func(nd ast.Node) bool {
			if nd == nil {
				stack = stack[:len(stack)-1]
				return true
			}
			stack = append(stack, nd)
			call, ok := nd.(*ast.CallExpr)
			if !ok || len(call.Args) != 1 || rootObj(info, call.Args[0]) != rest {
				return true
			}
			sel, ok := call.Fun.(*ast.SelectorExpr)
			if !ok || sel.Sel.Name != "SetDefinition" {
				return true
			}
			n++
			key := funcName(p, fd) + ":definition-guard"
			guarded := false
			for _, anc := range stack {
				ifs, ok := anc.(*ast.IfStmt)
				if !ok || !(call.Pos() >= ifs.Body.Pos() && call.End() <= ifs.Body.End()) {
					continue
				}
				for _, cj := range conjuncts(ifs.Cond) {
					if b, ok := ast.Unparen(cj).(*ast.BinaryExpr); ok {
						if lc, ok := ast.Unparen(b.X).(*ast.CallExpr); ok {
							if id, ok := lc.Fun.(*ast.Ident); ok && id.Name == "len" && len(lc.Args) == 1 && rootObj(info, lc.Args[0]) == rest {
								if (b.Op == token.GTR && isConstInt(info, b.Y, 0)) || (b.Op == token.NEQ && isConstInt(info, b.Y, 0)) || (b.Op == token.GEQ && isConstInt(info, b.Y, 1)) {
									guarded = true
								}
							}
						}
						if b.Op == token.NEQ && rootObj(info, b.X) == rest {
							if lit, ok := ast.Unparen(b.Y).(*ast.BasicLit); ok && lit.Value == `""` {
								guarded = true
							}
						}
					}
				}
			}
			if guarded {
				s.Pass(nil, key, call.Pos(), "the definition is replaced only by a non-empty remainder")
			} else {
				s.Fail(nil, key, call.Pos(), "SetDefinition("+rest.Name()+") is executed when the remainder of the title is empty: the definition the annotation object has just restored is erased, and a definition does not survive the re-reading of the toolkit's own output")
			}
			return true
		})
	})
	if n == 0 {
		s.Undecided(nil, "pkg/obiformats:definition-guard", 0, "no title-line parser setting the definition from the remainder found")
	}
}

// consumesParam: the function started by the go statement reads batches from its ai-th parameter
// (Next/Get/Load/…): sharing it between goroutines is a race.  Pushing to a shared iterator is not.
// An unresolvable target counts as consuming.
func consumesParam(c *Ctx, info *types.Info, defs map[types.Object][]ast.Expr, g *ast.GoStmt, ai int) bool {
	var body *ast.BlockStmt
	var binfo *types.Info
	var po types.Object
	if lit := localClosure(info, defs, g.Call.Fun); lit != nil {
		params := flattenParams(lit.Type.Params)
		if ai < len(params) && params[ai] != nil {
			body, binfo, po = lit.Body, info, info.ObjectOf(params[ai])
		}
	} else if f := callee(info, g.Call); f != nil {
		if fd, p := c.DeclOf(f); fd != nil && fd.Body != nil {
			params := flattenParams(fd.Type.Params)
			if ai < len(params) && params[ai] != nil {
				body, binfo, po = fd.Body, p.TypesInfo, p.TypesInfo.ObjectOf(params[ai])
			}
		}
	}
	if body == nil {
		return true
	}
	consumes := false
	ast.Inspect(body, func(n ast.Node) bool {
		if call, ok := n.(*ast.CallExpr); ok {
			if sel, ok := call.Fun.(*ast.SelectorExpr); ok && rootObj(binfo, sel.X) == po {
				switch sel.Sel.Name {
				case "Next", "Get", "Load", "Consume", "Recycle", "Count", "PushBack":
					consumes = true
				}
			}
		}
		return true
	})
	return consumes
}

func init() {
	register(&Rule{
		ID: "FR-best", Props: []string{"C10"}, Min: 1,
		Doc: `no hit is dropped by the selection of non-overlapping best hits: in FilterBestMatch, starting from the initial value of the running best (an in-band sentinel, if any), every
feasible path through the loop body for a hit m (any position, error count within the pattern length) either stores m as the running best or keeps the previous best for output —
decided by path enumeration with linear arithmetic over the components of best and m; a sentinel that takes part in the overlap arithmetic makes the first hit beyond its value fall
through both branches.`,
		Run: runFRBest,
	})
}

func runFRBest(c *Ctx, s *Sink) {
	fd, p := c.FindFunc("pkg/obiapat", "(ApatPattern).FilterBestMatch")
	key := "pkg/obiapat.(ApatPattern).FilterBestMatch:first-hit"
	if fd == nil {
		s.Undecided(nil, key, 0, "function not found")
		return
	}
	info := p.TypesInfo
	// the loop over the hits and its value variable
	var loop *ast.RangeStmt
	ast.Inspect(fd.Body, func(n ast.Node) bool {
		if r, ok := n.(*ast.RangeStmt); ok && loop == nil && r.Value != nil {
			loop = r
		}
		return true
	})
	if loop == nil {
		s.Undecided(nil, key, fd.Pos(), "no loop over the hits")
		return
	}
	mv := rootObj(info, loop.Value)
	// the running best: an array variable assigned from m inside the loop
	var best types.Object
	ast.Inspect(loop.Body, func(n ast.Node) bool {
		if as, ok := n.(*ast.AssignStmt); ok && len(as.Lhs) == 1 && len(as.Rhs) == 1 && rootObj(info, as.Rhs[0]) == mv {
			if id, ok := ast.Unparen(as.Lhs[0]).(*ast.Ident); ok {
				best = info.ObjectOf(id)
			}
		}
		return true
	})
	if best == nil {
		s.Undecided(nil, key, loop.Pos(), "no running best assigned from the current hit")
		return
	}
	// initial value: composite literal of constants
	defs := collectDefs(info, fd)
	env := &linEnv{info: info, vars: map[types.Object]linForm{}, defs: defs, atoms: map[string]bool{}, lens: map[string]bool{}, elems: map[string]linForm{}}
	sentinel := false
	for _, d := range defs[best] {
		if cl, ok := ast.Unparen(d).(*ast.CompositeLit); ok && d.Pos() < loop.Pos() {
			sentinel = true
			for i, el := range cl.Elts {
				if v, ok := constInt(info, el); ok {
					env.elems[fmt.Sprintf("%s[%d]", best.Name(), i)] = lfConst(v)
				}
			}
		}
	}
	// boolean flags with a constant initial value (hasBest := false)
	ast.Inspect(loop.Body, func(n ast.Node) bool {
		if id, ok := n.(*ast.Ident); ok {
			if v, ok := info.ObjectOf(id).(*types.Var); ok {
				if b, ok := v.Type().Underlying().(*types.Basic); ok && b.Kind() == types.Bool && v.Pos() < loop.Pos() {
					if ds := defs[v]; len(ds) >= 1 && ds[0] != nil {
						if cid, ok := ast.Unparen(ds[0]).(*ast.Ident); ok && (cid.Name == "false" || cid.Name == "true") {
							val := int64(0)
							if cid.Name == "true" {
								val = 1
							}
							env.vars[v] = lfConst(val)
						}
					}
				}
			}
		}
		return true
	})
	// boolean / other locals tested in the body are left unconstrained; the hit: position >= 0, 0 <= errors <= 64
	mName := mv.Name()
	base := linSys{
		linLE(lfConst(0), lfAtom(mName+"[0]")),
		linLE(lfAtom(mName+"[0]"), lfAtom(mName+"[1]")),
		linLE(lfConst(0), lfAtom(mName+"[2]")),
		linLE(lfAtom(mName+"[2]"), lfConst(64)),
	}
	type outcome struct {
		kept bool
		sys  linSys
	}
	kept := map[*linEnv]bool{}
	final := linWalk([]linPath{{env: env, sys: base}}, loop.Body.List, func(lp linPath, st ast.Stmt) {
		if as, ok := st.(*ast.AssignStmt); ok && len(as.Lhs) == 1 && len(as.Rhs) == 1 {
			if rootObj(info, as.Lhs[0]) == best && rootObj(info, as.Rhs[0]) == mv {
				kept[lp.env] = true
			}
		}
	})
	// linWalk clones environments at branches: a path kept m iff best's elements equal m's at the end
	var lost []string
	n := 0
	for _, lp := range final {
		n++
		same := true
		for k := 0; k < 3; k++ {
			f, ok := lp.env.elems[fmt.Sprintf("%s[%d]", best.Name(), k)]
			if !ok || len(f.co) != 1 || f.co[fmt.Sprintf("%s[%d]", mName, k)] != 1 || f.c != 0 {
				same = false
			}
		}
		if same {
			continue
		}
		if lp.sys.infeasible() {
			continue
		}
		var cs []string
		for _, f := range lp.sys[len(base):] {
			cs = append(cs, f.String()+" <= 0")
		}
		lost = append(lost, "{"+strings.Join(cs, ", ")+"}")
	}
	_ = kept
	if len(lost) > 0 {
		s.Fail(nil, key, loop.Pos(), fmt.Sprintf("starting from the sentinel value of %s, a hit %s can traverse the loop body without becoming the running best under the path condition %s: a site located beyond the sentinel's value with no earlier site is never reported", best.Name(), mName, strings.Join(lost, " or ")))
	} else {
		s.Pass(nil, key, loop.Pos(), fmt.Sprintf("%d path(s) from the initial state (sentinel: %v): the first hit always becomes the running best", n, sentinel))
	}
}
