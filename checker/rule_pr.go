package main

// PR — primer-role consistency in the two orientations of the in-silico PCR (C11).

import (
	"fmt"
	"go/ast"
	"go/token"
	"go/types"
	"strings"
)

func init() {
	register(&Rule{
		ID: "PR", Props: []string{"C11"}, Min: 2,
		Doc: `primer roles in the two orientations: obiapat._Pcr contains the search twice (P1 = pattern of the first FindAllIndex, P2c = pattern of the nested one). For each
orientation block: (a) P1 and P2c come from opposite primers, P2c being the reverse complement set in the option setters; (b) every pattern length used inside the nested
match loops (amplicon length) is P1.Len(); (c) the amplicon bounds 'from' depend on the P1 match and 'to' on the P2c match of this block only; (d) the annotation stores are
role-correct: forward_* derive from the match of the forward primer and reverse_* from the match of the reverse primer (swapped in the reverse orientation), the match of the
complemented pattern is reverse-complemented, the reverse orientation reverse-complements the amplicon, and 'direction' names the orientation.`,
		Run: runPR,
	})
}

func runPR(c *Ctx, s *Sink) {
	fd, p := c.FindFunc("pkg/obiapat", "_Pcr")
	if fd == nil {
		s.Undecided(nil, "pkg/obiapat._Pcr", 0, "function not found")
		return
	}
	info := p.TypesInfo
	defs := collectDefs(info, fd)
	// provenance of a pattern variable: opt.pointer.<field>
	field := func(o types.Object) string {
		for _, d := range defs[o] {
			if sel, ok := ast.Unparen(d).(*ast.SelectorExpr); ok {
				return sel.Sel.Name
			}
		}
		return ""
	}
	// option setters: cfwd/crev = forward/reverse.ReverseComplement()
	complementOf := map[string]string{}
	c.EachFunc([]string{"pkg/obiapat"}, nil2(func(n ast.Node) {
		as, ok := n.(*ast.AssignStmt)
		if !ok || len(as.Rhs) != 1 || len(as.Lhs) < 1 {
			return
		}
		l, ok := ast.Unparen(as.Lhs[0]).(*ast.SelectorExpr)
		if !ok {
			return
		}
		call, ok := ast.Unparen(as.Rhs[0]).(*ast.CallExpr)
		if !ok {
			return
		}
		sel, ok := call.Fun.(*ast.SelectorExpr)
		if !ok || sel.Sel.Name != "ReverseComplement" {
			return
		}
		if src, ok := ast.Unparen(sel.X).(*ast.SelectorExpr); ok {
			complementOf[l.Sel.Name] = src.Sel.Name
		}
	}))
	// orientation blocks: top-level statements  X := P1.FindAllIndex(...) ; if ... { ... P2c.FindAllIndex ... for fm { for rm { … } } }
	type block struct {
		p1, p2c   types.Object
		ifs       *ast.IfStmt
		outer     *ast.RangeStmt
		fm, rm    types.Object
		index     int
	}
	var blocks []*block
	var cur *block
	for _, st := range fd.Body.List {
		if as, ok := st.(*ast.AssignStmt); ok && len(as.Rhs) == 1 {
			if call, ok := ast.Unparen(as.Rhs[0]).(*ast.CallExpr); ok {
				if sel, ok := call.Fun.(*ast.SelectorExpr); ok && sel.Sel.Name == "FindAllIndex" {
					cur = &block{p1: rootObj(info, sel.X), index: len(blocks) + 1}
					continue
				}
			}
		}
		if ifs, ok := st.(*ast.IfStmt); ok && cur != nil {
			cur.ifs = ifs
			ast.Inspect(ifs.Body, func(n ast.Node) bool {
				switch x := n.(type) {
				case *ast.AssignStmt:
					if len(x.Rhs) == 1 {
						if call, ok := ast.Unparen(x.Rhs[0]).(*ast.CallExpr); ok {
							if sel, ok := call.Fun.(*ast.SelectorExpr); ok && sel.Sel.Name == "FindAllIndex" && cur.p2c == nil {
								cur.p2c = rootObj(info, sel.X)
							}
						}
					}
				case *ast.RangeStmt:
					if cur.outer == nil {
						cur.outer = x
						if v, ok := x.Value.(*ast.Ident); ok {
							cur.fm = info.ObjectOf(v)
						}
					} else if cur.rm == nil && x.Pos() > cur.outer.Pos() && x.End() <= cur.outer.End() {
						if v, ok := x.Value.(*ast.Ident); ok {
							cur.rm = info.ObjectOf(v)
						}
					}
				}
				return true
			})
			blocks = append(blocks, cur)
			cur = nil
		}
	}
	if len(blocks) != 2 {
		s.Undecided(nil, "pkg/obiapat._Pcr", fd.Pos(), fmt.Sprintf("expected two orientation blocks, found %d", len(blocks)))
		return
	}
	for _, b := range blocks {
		key := fmt.Sprintf("pkg/obiapat._Pcr:orientation#%d", b.index)
		if b.p1 == nil || b.p2c == nil || b.outer == nil || b.fm == nil || b.rm == nil {
			s.Undecided(nil, key, b.ifs.Pos(), "block does not have the shape first search / nested search / two nested match loops")
			continue
		}
		f1, f2 := field(b.p1), field(b.p2c)
		var problems []string
		// (a)
		src2 := complementOf[f2]
		if src2 == "" {
			problems = append(problems, fmt.Sprintf("the second pattern %s (opt.pointer.%s) is not set as the reverse complement of a primer in the option setters", b.p2c.Name(), f2))
		} else if src2 == f1 {
			problems = append(problems, fmt.Sprintf("both searches of the block use the same primer (%s and its own complement)", f1))
		}
		orientation := f1 // "forward" or "reverse"
		// (b) pattern lengths inside the loops
		ast.Inspect(b.outer.Body, func(n ast.Node) bool {
			call, ok := n.(*ast.CallExpr)
			if !ok {
				return true
			}
			sel, ok := call.Fun.(*ast.SelectorExpr)
			if !ok || sel.Sel.Name != "Len" {
				return true
			}
			if tv, ok := info.Types[sel.X]; ok && strings.HasSuffix(namedTypeName(tv.Type), "/pkg/obiapat.ApatPattern") {
				if rootObj(info, sel.X) != b.p1 {
					problems = append(problems, fmt.Sprintf("%s: the amplicon length of the %s orientation uses %s.Len() although the pattern matched at the start of the amplicon is %s: with primers of different lengths min/max filtering differs between a template and its reverse complement", c.Pos(call.Pos()), orientation, types.ExprString(sel.X), b.p1.Name()))
				}
			}
			return true
		})
		// (c) from / to
		mentions := func(e ast.Expr) (fm, rm bool) {
			ast.Inspect(e, func(n ast.Node) bool {
				if id, ok := n.(*ast.Ident); ok {
					if info.ObjectOf(id) == b.fm {
						fm = true
					}
					if info.ObjectOf(id) == b.rm {
						rm = true
					}
				}
				return true
			})
			return
		}
		nfrom, nto := 0, 0
		// the bounds are the first two arguments of the Subsequence call that cuts the amplicon (whatever their names)
		var fromObj, toObj types.Object
		ast.Inspect(b.outer.Body, func(n ast.Node) bool {
			if call, ok := n.(*ast.CallExpr); ok && fromObj == nil {
				if sel, ok := call.Fun.(*ast.SelectorExpr); ok && sel.Sel.Name == "Subsequence" && len(call.Args) == 3 {
					f, t := rootObj(info, call.Args[0]), rootObj(info, call.Args[1])
					_, id0 := ast.Unparen(call.Args[0]).(*ast.Ident)
					_, id1 := ast.Unparen(call.Args[1]).(*ast.Ident)
					if f != nil && t != nil && id0 && id1 {
						fromObj, toObj = f, t
					}
				}
			}
			return true
		})
		isLenOrConst := func(e ast.Expr) bool {
			if _, isConst := constInt(info, e); isConst {
				return true
			}
			if call, ok := ast.Unparen(e).(*ast.CallExpr); ok {
				if sel, ok := call.Fun.(*ast.SelectorExpr); ok && sel.Sel.Name == "Len" {
					return true
				}
			}
			return false
		}
		judge := func(pos token.Pos, which types.Object, fmU, rmU bool) {
			switch which {
			case fromObj:
				nfrom++
				if !fmU || rmU {
					problems = append(problems, c.Pos(pos)+": the amplicon start is not computed from the first primer's match of this block only")
				}
			case toObj:
				nto++
				if !rmU || fmU {
					problems = append(problems, c.Pos(pos)+": the amplicon end is not computed from the second primer's match of this block only")
				}
			}
		}
		defsPR := collectDefs(info, fd)
		ast.Inspect(b.outer.Body, func(n ast.Node) bool {
			as, ok := n.(*ast.AssignStmt)
			if !ok || fromObj == nil {
				return true
			}
			// from, to[, ok] := helper(fm, rm, …): look at what the helper returns
			if len(as.Rhs) == 1 && len(as.Lhs) >= 2 {
				call, isCall := ast.Unparen(as.Rhs[0]).(*ast.CallExpr)
				if !isCall {
					return true
				}
				body, cinfo, bind := c.calleeSource(info, defsPR, call)
				if body == nil {
					return true
				}
				// result variables of the helper, by position
				var rets [][]types.Object
				ast.Inspect(body, func(k ast.Node) bool {
					if _, isLit := k.(*ast.FuncLit); isLit {
						return false
					}
					if r, ok := k.(*ast.ReturnStmt); ok && len(r.Results) == len(as.Lhs) {
						row := make([]types.Object, len(r.Results))
						for i, e := range r.Results {
							row[i] = rootObj(cinfo, e)
						}
						rets = append(rets, row)
					}
					return true
				})
				for li, l := range as.Lhs {
					which := rootObj(info, l)
					if which != fromObj && which != toObj {
						continue
					}
					fmU, rmU := false, false
					for _, row := range rets {
						rv := row[li]
						if rv == nil {
							continue
						}
						ast.Inspect(body, func(k ast.Node) bool {
							a2, ok := k.(*ast.AssignStmt)
							if !ok || len(a2.Lhs) != len(a2.Rhs) {
								return true
							}
							for i2, l2 := range a2.Lhs {
								if rootObj(cinfo, l2) != rv {
									continue
								}
								ast.Inspect(a2.Rhs[i2], func(m ast.Node) bool {
									if id, ok := m.(*ast.Ident); ok {
										if arg, ok := bind[cinfo.ObjectOf(id)]; ok && !isLenOrConst(arg) {
											f1, r1 := mentions(arg)
											fmU, rmU = fmU || f1, rmU || r1
										}
									}
									return true
								})
							}
							return true
						})
					}
					judge(as.Pos(), which, fmU, rmU)
				}
				return true
			}
			if len(as.Lhs) != 1 || len(as.Rhs) != 1 {
				return true
			}
			which := rootObj(info, as.Lhs[0])
			if _, isIdent := ast.Unparen(as.Lhs[0]).(*ast.Ident); !isIdent || (which != fromObj && which != toObj) {
				return true
			}
			if isLenOrConst(as.Rhs[0]) {
				return true
			}
			// a clamp: from = max(from, 0), to = min(to, seq.Len())
			if cl, ok := ast.Unparen(as.Rhs[0]).(*ast.CallExpr); ok {
				if id, ok := cl.Fun.(*ast.Ident); ok && (id.Name == "min" || id.Name == "max") {
					if _, isB := info.ObjectOf(id).(*types.Builtin); isB {
						clamp := true
						for _, a := range cl.Args {
							if !isLenOrConst(a) && rootObj(info, a) != which {
								clamp = false
							}
						}
						if clamp {
							return true
						}
					}
				}
			}
			fmU, rmU := mentions(as.Rhs[0])
			if (as.Tok == token.ADD_ASSIGN || as.Tok == token.SUB_ASSIGN) && !fmU && !rmU {
				return true // an adjustment by an amount that reads neither match (turns * seq.Len())
			}
			judge(as.Pos(), which, fmU, rmU)
			return true
		})
		if nfrom == 0 || nto == 0 {
			problems = append(problems, "amplicon bounds (the two first arguments of the Subsequence call) not found in the block")
		}
		// (d) annotation stores in order
		type src struct{ fm, rm, rc bool }
		vals := map[types.Object]src{}
		ann := map[string]src{}
		direction := ""
		ampliconRC := false
		var ordered []ast.Node
		ast.Inspect(b.outer.Body, func(n ast.Node) bool {
			switch n.(type) {
			case *ast.AssignStmt, *ast.ExprStmt:
				ordered = append(ordered, n)
			}
			return true
		})
		for _, n := range ordered {
			switch x := n.(type) {
			case *ast.ExprStmt:
				// match.ReverseComplement(true) as a statement
				if call, ok := x.X.(*ast.CallExpr); ok {
					if sel, ok := call.Fun.(*ast.SelectorExpr); ok && sel.Sel.Name == "ReverseComplement" {
						if o := rootObj(info, sel.X); o != nil {
							v := vals[o]
							v.rc = true
							vals[o] = v
						}
					}
				}
			case *ast.AssignStmt:
				if len(x.Rhs) != 1 {
					continue
				}
				rhs := ast.Unparen(x.Rhs[0])
				// annot["key"] = value
				if ix, ok := ast.Unparen(x.Lhs[0]).(*ast.IndexExpr); ok && len(x.Lhs) == 1 {
					if k, ok := constStringOf(info, ix.Index); ok {
						var v src
						if o := rootObj(info, rhs); o != nil {
							v = vals[o]
						}
						if call, ok := rhs.(*ast.CallExpr); ok {
							if sel, ok := call.Fun.(*ast.SelectorExpr); ok {
								if o := rootObj(info, sel.X); o != nil {
									v = vals[o]
								}
							}
						}
						ann[k] = v
						if k == "direction" {
							direction, _ = constStringOf(info, rhs)
						}
					}
					continue
				}
				lo := rootObj(info, x.Lhs[0])
				if lo == nil {
					continue
				}
				fmU, rmU := mentions(rhs)
				v := src{fm: fmU, rm: rmU}
				if call, ok := rhs.(*ast.CallExpr); ok {
					if sel, ok := call.Fun.(*ast.SelectorExpr); ok && sel.Sel.Name == "ReverseComplement" {
						if o := rootObj(info, sel.X); o != nil {
							v = vals[o]
							v.rc = true
							if o.Name() == "amplicon" {
								ampliconRC = true
							}
						}
					}
				}
				if !fmU && !rmU {
					if _, isRC := rhs.(*ast.CallExpr); !isRC {
						continue
					}
				}
				vals[lo] = v
			}
		}
		// expectations
		type want struct{ fm, rc bool }
		exp := map[string]want{}
		if orientation == "forward" {
			exp = map[string]want{"forward_match": {true, false}, "forward_error": {true, false}, "reverse_match": {false, true}, "reverse_error": {false, false}}
		} else {
			exp = map[string]want{"forward_match": {false, true}, "forward_error": {false, false}, "reverse_match": {true, false}, "reverse_error": {true, false}}
		}
		for k, w := range exp {
			got, ok := ann[k]
			if !ok {
				problems = append(problems, "annotation "+k+" is not set in the "+orientation+" orientation")
				continue
			}
			if got.fm != w.fm || got.rm != !w.fm {
				problems = append(problems, fmt.Sprintf("annotation %s of the %s orientation is taken from the wrong primer match", k, orientation))
			}
			if strings.HasSuffix(k, "_match") && got.rc != w.rc {
				problems = append(problems, fmt.Sprintf("annotation %s of the %s orientation: the match of the complemented pattern must be reverse-complemented, the other must not", k, orientation))
			}
		}
		if direction != orientation {
			problems = append(problems, fmt.Sprintf("direction annotation is %q in the %s orientation", direction, orientation))
		}
		if (orientation == "reverse") != ampliconRC {
			problems = append(problems, "the amplicon must be reverse-complemented in the reverse orientation and only there")
		}
		if len(problems) > 0 {
			s.Fail(nil, key, b.ifs.Pos(), problems[0], problems...)
		} else {
			s.Pass(nil, key, b.ifs.Pos(), "primer roles, amplicon length, bounds and annotations are consistent with the "+orientation+" orientation")
		}
	}
}

func constStringOf(info *types.Info, e ast.Expr) (string, bool) {
	if tv, ok := info.Types[ast.Unparen(e)]; ok && tv.Value != nil {
		s := tv.Value.ExactString()
		if len(s) >= 2 && s[0] == '"' {
			return s[1 : len(s)-1], true
		}
	}
	return "", false
}

var _ = token.NoPos
