package main

// GS — goroutine sharing: unsynchronised writes to shared state from
// goroutines that can have several live instances (C13, C05, C06, C09).

import (
	"fmt"
	"go/ast"
	"go/token"
	"go/types"
	"sort"
	"strings"

	"golang.org/x/tools/go/packages"
)

func init() {
	register(&Rule{
		ID: "GS", Props: []string{"C13", "C05", "C06", "C09"}, Min: 20,
		Doc: `no unsynchronised shared write from a multi-instance goroutine: for every go statement whose target can have two live instances (inside a loop, or the same
function value started by several go statements) each store in the target body and in the local closures it calls is classified by the provenance of its base:
a variable of the instance, the instance's own work item (value received from the work channel / iterator, element of a captured container indexed by the work item,
a per-instance parameter) is owned; a captured variable, or an object reached from a captured container through any other index, is shared. A shared store must be
inside a Lock…Unlock region, or be a sync/atomic call. One obligation per multi-instance goroutine body.`,
		Run: runGS,
	})
}

var gsScope = []string{"pkg/obiiter", "pkg/obiformats", "pkg/obichunk", "pkg/obiseq", "pkg/obitools", "pkg/obingslibrary", "pkg/obiapat", "pkg/obialign", "pkg/obikmer", "pkg/obilua"}

// reviewed exceptions: key -> reason
var gsExceptions = map[string]string{
}

func gsProps(p *packages.Package) []string {
	r := rel(p.PkgPath)
	switch {
	case r == "pkg/obitools/obiclean":
		return []string{"C13", "C09"}
	case r == "pkg/obichunk" || r == "pkg/obitools/obiuniq":
		return []string{"C06", "C05"}
	case r == "pkg/obitools/obitag" || r == "pkg/obitools/obitag2" || r == "pkg/obitools/obirefidx":
		return []string{"C09", "C05"}
	}
	return []string{"C05"}
}

type gsAnalysis struct {
	c     *Ctx
	p     *packages.Package
	info  *types.Info
	fd    *ast.FuncDecl
	lits  map[types.Object]*ast.FuncLit
	defs  map[types.Object][]ast.Expr
	rangeVar map[types.Object]*ast.RangeStmt
}

type gsWrite struct {
	pos    token.Pos
	target ast.Expr
	why    string
	stack  []ast.Node
}

func within(o types.Object, n ast.Node) bool {
	return o != nil && o.Pos() >= n.Pos() && o.Pos() < n.End()
}

func runGS(c *Ctx, s *Sink) {
	c.EachFunc(gsScope, func(p *packages.Package, fd *ast.FuncDecl) {
		info := p.TypesInfo
		a := &gsAnalysis{c: c, p: p, info: info, fd: fd, lits: localFuncLits(info, fd), defs: collectDefs(info, fd), rangeVar: map[types.Object]*ast.RangeStmt{}}
		ast.Inspect(fd.Body, func(n ast.Node) bool {
			if rs, ok := n.(*ast.RangeStmt); ok {
				for _, e := range []ast.Expr{rs.Key, rs.Value} {
					if id, ok := e.(*ast.Ident); ok {
						if o := info.ObjectOf(id); o != nil {
							a.rangeVar[o] = rs
						}
					}
				}
			}
			return true
		})
		// go statements and their targets
		type launch struct {
			stmt   *ast.GoStmt
			lit    *ast.FuncLit
			inLoop bool
		}
		var launches []launch
		var stack []ast.Node
		var walk func(n ast.Node)
		walk = func(n ast.Node) {
			if n == nil {
				return
			}
			stack = append(stack, n)
			defer func() { stack = stack[:len(stack)-1] }()
			if g, ok := n.(*ast.GoStmt); ok {
				var lit *ast.FuncLit
				switch f := ast.Unparen(g.Call.Fun).(type) {
				case *ast.FuncLit:
					lit = f
				case *ast.Ident:
					lit = a.lits[info.ObjectOf(f)]
				}
				if lit != nil {
					inLoop := false
					for _, anc := range stack {
						switch anc.(type) {
						case *ast.ForStmt, *ast.RangeStmt:
							inLoop = true
						}
					}
					// recursion: the go statement lies inside its own target
					if g.Pos() >= lit.Pos() && g.End() <= lit.End() {
						inLoop = true
					}
					launches = append(launches, launch{g, lit, inLoop})
				}
			}
			var children []ast.Node
			ast.Inspect(n, func(m ast.Node) bool {
				if m == nil || m == n {
					return m == n
				}
				children = append(children, m)
				return false
			})
			for _, ch := range children {
				walk(ch)
			}
		}
		walk(fd.Body)
		count := map[*ast.FuncLit]int{}
		multi := map[*ast.FuncLit]bool{}
		first := map[*ast.FuncLit]*ast.GoStmt{}
		for _, l := range launches {
			count[l.lit]++
			if l.inLoop || count[l.lit] > 1 {
				multi[l.lit] = true
			}
			if first[l.lit] == nil {
				first[l.lit] = l.stmt
			}
		}
		var lits []*ast.FuncLit
		for lit := range multi {
			lits = append(lits, lit)
		}
		sort.Slice(lits, func(i, j int) bool { return lits[i].Pos() < lits[j].Pos() })
		for k, lit := range lits {
			key := fmt.Sprintf("%s:goroutine#%d", funcName(p, fd), k+1)
			// parameters of the literal bound to a shared captured value at every go site
			sharedParams := map[types.Object]bool{}
			for _, l := range launches {
				if l.lit != lit {
					continue
				}
				params := flattenParams(lit.Type.Params)
				for i, arg := range l.stmt.Call.Args {
					if i >= len(params) || params[i] == nil {
						continue
					}
					if id, ok := ast.Unparen(arg).(*ast.Ident); ok && l.inLoop {
						o := info.ObjectOf(id)
						if o != nil && !a.isLoopVarOf(o, l.stmt) && isRefType(o.Type()) {
							sharedParams[info.ObjectOf(params[i])] = true
						}
					}
				}
			}
			all := a.sharedWrites(lit, sharedParams)
			props := gsProps(p)
			var writes []gsWrite
			excepted := 0
			for _, w := range all {
				if _, ok := gsExceptions[key+"|"+types.ExprString(w.target)]; ok {
					excepted++
					continue
				}
				writes = append(writes, w)
			}
			if len(writes) == 0 && excepted > 0 {
				s.Pass(props, key, first[lit].Pos(), fmt.Sprintf("every store is owned, locked or atomic, except %d tabled store(s) reviewed as harmless", excepted))
				continue
			}
			if len(writes) == 0 {
				s.Pass(props, key, first[lit].Pos(), "every store is to instance-owned state, locked, or atomic")
				continue
			}
			var path []string
			for _, w := range writes {
				path = append(path, fmt.Sprintf("%s: %s — %s", c.Pos(w.pos), types.ExprString(w.target), w.why))
			}
			s.Fail(props, key, writes[0].pos, fmt.Sprintf("goroutine started at %s can run as several instances and stores to shared state without synchronisation (%s): lost updates / data race under contention, results depend on scheduling",
				c.Pos(first[lit].Pos()), types.ExprString(writes[0].target)), path...)
		}
	})
}

func isRefType(t types.Type) bool {
	switch t.Underlying().(type) {
	case *types.Pointer, *types.Map, *types.Slice:
		return true
	}
	return false
}

func (a *gsAnalysis) isLoopVarOf(o types.Object, inner ast.Node) bool {
	if rs, ok := a.rangeVar[o]; ok {
		return inner.Pos() >= rs.Pos() && inner.End() <= rs.End()
	}
	// for i := ...; loop variable
	found := false
	ast.Inspect(a.fd.Body, func(n ast.Node) bool {
		if f, ok := n.(*ast.ForStmt); ok && f.Init != nil && inner.Pos() >= f.Pos() && inner.End() <= f.End() {
			if as, ok := f.Init.(*ast.AssignStmt); ok {
				for _, l := range as.Lhs {
					if id, ok := l.(*ast.Ident); ok && a.info.ObjectOf(id) == o {
						found = true
					}
				}
			}
		}
		return true
	})
	return found
}

// ownership of a value inside a goroutine body
const (
	ownOwned = iota
	ownShared
)

type gsEnv struct {
	busy   map[types.Object]bool
	a      *gsAnalysis
	root   *ast.FuncLit          // goroutine body
	scope  []ast.Node            // bodies considered instance-local (goroutine body + called closures)
	owned  map[types.Object]bool // explicit work items / per-instance values
	shared map[types.Object]bool // parameters aliasing shared values
	depth  int
}

func (e *gsEnv) local(o types.Object) bool {
	for _, sc := range e.scope {
		if within(o, sc) {
			return true
		}
	}
	return false
}

// classify an expression used as the base of a store.
func (e *gsEnv) classify(x ast.Expr, depth int) (int, string) {
	if depth > 6 {
		return ownShared, "provenance too deep"
	}
	x = ast.Unparen(x)
	switch t := x.(type) {
	case *ast.Ident:
		o := e.a.info.ObjectOf(t)
		if o == nil {
			return ownOwned, ""
		}
		if e.shared[o] {
			return ownShared, "parameter bound to the same captured value in every instance"
		}
		if e.owned[o] {
			return ownOwned, ""
		}
		if !e.local(o) {
			if _, isPkg := o.(*types.Var); isPkg && o.Parent() == o.Pkg().Scope() {
				return ownShared, "package-level variable"
			}
			return ownShared, "variable captured from the enclosing function"
		}
		// local: look at what it points to (only matters for reference types)
		if !isRefType(o.Type()) {
			return ownOwned, ""
		}
		// range variable over something
		if rs, ok := e.a.rangeVar[o]; ok {
			if v, ok := rs.Value.(*ast.Ident); ok && e.a.info.ObjectOf(v) == o {
				own, why := e.classify(rs.X, depth+1)
				if own == ownShared {
					return ownShared, "element of " + types.ExprString(rs.X) + " (" + why + ")"
				}
			}
			return ownOwned, ""
		}
		if e.busy == nil {
			e.busy = map[types.Object]bool{}
		}
		if e.busy[o] {
			return ownOwned, "" // self-referential definition (x = x[:n], x = append(x, …))
		}
		e.busy[o] = true
		defer delete(e.busy, o)
		ds := e.a.defs[o]
		for _, d := range ds {
			if d == nil {
				continue
			}
			if own, why := e.classifyValue(d, depth+1); own == ownShared {
				return ownShared, why
			}
		}
		return ownOwned, ""
	case *ast.SelectorExpr:
		// pkg.Var
		if id, ok := t.X.(*ast.Ident); ok {
			if _, isPkg := e.a.info.ObjectOf(id).(*types.PkgName); isPkg {
				return ownShared, "package-level variable"
			}
		}
		return e.classify(t.X, depth+1)
	case *ast.StarExpr:
		return e.classify(t.X, depth+1)
	case *ast.IndexExpr:
		own, why := e.classify(t.X, depth+1)
		if own == ownOwned {
			return ownOwned, ""
		}
		// shared container: owned only when indexed by the work item and not a map
		if tv, ok := e.a.info.Types[t.X]; ok {
			if _, isMap := tv.Type.Underlying().(*types.Map); isMap {
				return ownShared, "shared map (maps are not safe for concurrent writes): " + why
			}
		}
		if e.isWorkItem(t.Index) {
			return ownOwned, ""
		}
		return ownShared, "element of a shared container selected by an index that is not the instance's work item: " + why
	case *ast.CallExpr:
		return e.classifyValue(t, depth+1)
	case *ast.UnaryExpr:
		return e.classify(t.X, depth+1)
	case *ast.SliceExpr:
		return e.classify(t.X, depth+1)
	}
	return ownOwned, ""
}

// classifyValue: what a reference-typed local points to, from its defining expression.
func (e *gsEnv) classifyValue(d ast.Expr, depth int) (int, string) {
	d = ast.Unparen(d)
	switch t := d.(type) {
	case *ast.CallExpr:
		// results of calls are fresh or the instance's work item (Get, Clone, New, make...) unless a method on a shared receiver returning interior state
		if sel, ok := t.Fun.(*ast.SelectorExpr); ok {
			name := sel.Sel.Name
			if name == "Get" || name == "Clone" || name == "Copy" || name == "Split" || strings.HasPrefix(name, "New") || strings.HasPrefix(name, "Make") {
				return ownOwned, ""
			}
		}
		return ownOwned, ""
	case *ast.IndexExpr, *ast.SelectorExpr, *ast.StarExpr, *ast.Ident, *ast.SliceExpr:
		return e.classify(d, depth)
	case *ast.UnaryExpr:
		if t.Op == token.AND {
			return e.classify(t.X, depth)
		}
	}
	return ownOwned, ""
}

func (e *gsEnv) isWorkItem(idx ast.Expr) bool {
	id, ok := ast.Unparen(idx).(*ast.Ident)
	if !ok {
		return false
	}
	o := e.a.info.ObjectOf(id)
	if o == nil {
		return false
	}
	if e.owned[o] {
		return true
	}
	// range variable over a channel inside the instance
	if rs, ok := e.a.rangeVar[o]; ok && e.local(o) {
		if tv, ok := e.a.info.Types[rs.X]; ok {
			if _, isChan := tv.Type.Underlying().(*types.Chan); isChan {
				return true
			}
		}
	}
	// value received from a channel: i := <-ch
	for _, d := range e.a.defs[o] {
		if u, ok := ast.Unparen(d).(*ast.UnaryExpr); ok && u.Op == token.ARROW && e.local(o) {
			return true
		}
	}
	return false
}

// sharedWrites lists the unsynchronised shared stores of a goroutine body.
func (a *gsAnalysis) sharedWrites(lit *ast.FuncLit, sharedParams map[types.Object]bool) []gsWrite {
	env := &gsEnv{a: a, root: lit, scope: []ast.Node{lit}, owned: map[types.Object]bool{}, shared: sharedParams}
	// parameters of the goroutine literal are per-instance unless marked shared
	for _, p := range flattenParams(lit.Type.Params) {
		if p != nil {
			if o := a.info.ObjectOf(p); o != nil && !sharedParams[o] {
				env.owned[o] = true
			}
		}
	}
	var out []gsWrite
	visited := map[*ast.FuncLit]bool{lit: true}
	a.scan(env, lit.Body, &out, visited, 0)
	return out
}

func (a *gsAnalysis) scan(env *gsEnv, body ast.Node, out *[]gsWrite, visited map[*ast.FuncLit]bool, depth int) {
	var stack []ast.Node
	var walk func(n ast.Node)
	walk = func(n ast.Node) {
		if n == nil {
			return
		}
		stack = append(stack, n)
		defer func() { stack = stack[:len(stack)-1] }()
		switch x := n.(type) {
		case *ast.FuncLit:
			if x != env.root && n != body {
				// nested literal: not executed here unless called/launched; goroutines launched from here are analysed on their own
				return
			}
		case *ast.GoStmt:
			return
		case *ast.AssignStmt:
			if x.Tok != token.DEFINE {
				for _, l := range x.Lhs {
					a.store(env, l, x, stack, out)
				}
			} else {
				// := may still assign to existing captured variables
				for _, l := range x.Lhs {
					if id, ok := l.(*ast.Ident); ok && a.info.Defs[id] == nil && id.Name != "_" {
						a.store(env, l, x, stack, out)
					}
				}
			}
		case *ast.IncDecStmt:
			a.store(env, x.X, x, stack, out)
		case *ast.CallExpr:
			// a shared reference handed to a function that stores through it
			if cf := callee(a.info, x); cf != nil && !strings.HasPrefix(fullName(cf), "sync/atomic.") {
				wt := writeThrough(a.c)
				for i, arg := range x.Args {
					arg = ast.Unparen(arg)
					tv, ok := a.info.Types[arg]
					if !ok || !isRefType(tv.Type) {
						continue
					}
					inner := arg
					if u, ok := arg.(*ast.UnaryExpr); ok && u.Op == token.AND {
						inner = u.X
					}
					own, why := env.classify(inner, 0)
					if _, isIdent := ast.Unparen(inner).(*ast.Ident); !isIdent {
						own, why = env.classifyValue(inner, 0)
					}
					if own == ownShared && wt.writes(cf, i) && !a.synchronised(x, stack) {
						*out = append(*out, gsWrite{pos: x.Pos(), target: arg, why: "passed to " + cf.Name() + ", which stores through this parameter; " + why})
					}
				}
			}
			// local closure called from the instance: analyse its body with parameter binding
			if id, ok := ast.Unparen(x.Fun).(*ast.Ident); ok && depth < 2 {
				if callee := a.lits[a.info.ObjectOf(id)]; callee != nil && !visited[callee] {
					visited[callee] = true
					sub := &gsEnv{a: a, root: env.root, scope: append(append([]ast.Node{}, env.scope...), callee), owned: map[types.Object]bool{}, shared: map[types.Object]bool{}}
					for o := range env.owned {
						sub.owned[o] = true
					}
					for o := range env.shared {
						sub.shared[o] = true
					}
					params := flattenParams(callee.Type.Params)
					for i, arg := range x.Args {
						if i >= len(params) || params[i] == nil {
							continue
						}
						po := a.info.ObjectOf(params[i])
						if env.isWorkItem(arg) {
							sub.owned[po] = true
							continue
						}
						if isRefType(po.Type()) {
							if own, _ := env.classifyValue(arg, 0); own == ownShared {
								sub.shared[po] = true
								continue
							}
						}
						sub.owned[po] = true
					}
					// the callee body is part of the instance; stores inside it that happen under a lock held by the caller are not tracked
					a.scan(sub, callee.Body, out, visited, depth+1)
					delete(visited, callee)
				}
			}
		}
		var children []ast.Node
		ast.Inspect(n, func(m ast.Node) bool {
			if m == nil || m == n {
				return m == n
			}
			children = append(children, m)
			return false
		})
		for _, ch := range children {
			walk(ch)
		}
	}
	walk(body)
}

func (a *gsAnalysis) store(env *gsEnv, target ast.Expr, stmt ast.Node, stack []ast.Node, out *[]gsWrite) {
	target = ast.Unparen(target)
	if id, ok := target.(*ast.Ident); ok && id.Name == "_" {
		return
	}
	var own int
	var why string
	switch t := target.(type) {
	case *ast.Ident:
		o := a.info.ObjectOf(t)
		if o == nil || env.local(o) {
			return
		}
		own, why = ownShared, "variable captured from the enclosing function"
		if v, ok := o.(*types.Var); ok && v.Parent() == v.Pkg().Scope() {
			why = "package-level variable"
		}
	default:
		own, why = env.classify(target, 0)
		// the last step of the target is a field/element: classify its base
		switch tt := target.(type) {
		case *ast.SelectorExpr:
			own, why = env.classify(tt.X, 0)
		case *ast.StarExpr:
			own, why = env.classify(tt.X, 0)
		case *ast.IndexExpr:
			own, why = env.classify(tt, 0)
		}
	}
	if own == ownOwned {
		return
	}
	if a.synchronised(stmt, stack) {
		// the lock must be one that every instance writing this target takes: a lock shared by the
		// instances, or a lock that belongs to the object written (father.lock for father.SonCount).
		// A lock reached through the instance's own work item guards nothing that another instance writes.
		if lk := a.heldLock(stmt, stack); lk != nil {
			lockRoot := a.info.ObjectOf(rootIdent(lk))
			targetRoot := a.info.ObjectOf(rootIdent(target))
			if lockRoot != nil && targetRoot != nil && lockRoot != targetRoot {
				if lown, _ := env.classify(lk, 0); lown == ownOwned {
					*out = append(*out, gsWrite{pos: stmt.Pos(), target: target, why: why + "; written under " + types.ExprString(lk) + ".Lock(), a lock that belongs to this instance's own work item, not to the object written: two instances hold different locks"})
				}
			}
		}
		return
	}
	*out = append(*out, gsWrite{pos: stmt.Pos(), target: target, why: why, stack: nil})
}

// heldLock returns the receiver X of the X.Lock() that makes stmt synchronised (nil for AnnotationsLock
// or when not found).
func (a *gsAnalysis) heldLock(stmt ast.Node, stack []ast.Node) ast.Expr {
	for i := len(stack) - 1; i >= 0; i-- {
		var list []ast.Stmt
		switch b := stack[i].(type) {
		case *ast.BlockStmt:
			list = b.List
		case *ast.CaseClause:
			list = b.Body
		default:
			continue
		}
		idx := -1
		for j, st := range list {
			if stmt.Pos() >= st.Pos() && stmt.End() <= st.End() {
				idx = j
			}
		}
		if idx < 0 {
			continue
		}
		var held ast.Expr
		for j := 0; j < idx; j++ {
			es, ok := list[j].(*ast.ExprStmt)
			if !ok {
				continue
			}
			call, ok := es.X.(*ast.CallExpr)
			if !ok {
				continue
			}
			sel, ok := call.Fun.(*ast.SelectorExpr)
			if !ok {
				continue
			}
			switch sel.Sel.Name {
			case "Lock":
				held = sel.X
			case "Unlock":
				held = nil
			}
		}
		if held != nil {
			return held
		}
	}
	return nil
}

// synchronised: the statement lies between X.Lock() and X.Unlock() in one of
// its enclosing statement lists, or after a Lock with a deferred Unlock.
func (a *gsAnalysis) synchronised(stmt ast.Node, stack []ast.Node) bool {
	isLockCall := func(st ast.Stmt, names ...string) bool {
		var call *ast.CallExpr
		switch x := st.(type) {
		case *ast.ExprStmt:
			call, _ = x.X.(*ast.CallExpr)
		case *ast.DeferStmt:
			call = x.Call
		}
		if call == nil {
			return false
		}
		sel, ok := call.Fun.(*ast.SelectorExpr)
		if !ok {
			return false
		}
		for _, n := range names {
			if sel.Sel.Name == n {
				return true
			}
		}
		return false
	}
	for i := len(stack) - 1; i >= 0; i-- {
		var list []ast.Stmt
		switch b := stack[i].(type) {
		case *ast.BlockStmt:
			list = b.List
		case *ast.CaseClause:
			list = b.Body
		default:
			continue
		}
		// index of the statement containing stmt
		idx := -1
		for j, st := range list {
			if stmt.Pos() >= st.Pos() && stmt.End() <= st.End() {
				idx = j
			}
		}
		if idx < 0 {
			continue
		}
		locked := false
		for j := 0; j < idx; j++ {
			if _, isDefer := list[j].(*ast.DeferStmt); !isDefer && isLockCall(list[j], "Lock", "AnnotationsLock") {
				locked = true
			}
			if _, isDefer := list[j].(*ast.DeferStmt); !isDefer && isLockCall(list[j], "Unlock", "AnnotationsUnlock") {
				locked = false
			}
		}
		if locked {
			return true
		}
	}
	return false
}
