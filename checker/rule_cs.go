package main

// CS — sibling agreement in the C matcher: stacks emptied before a scan, fields carried over by the complement (C10, C11).

import (
	"fmt"
	"path/filepath"
	"sort"
	"strings"
)

func cDeclRefNames(n *cnode) []string {
	var out []string
	n.walk(func(m *cnode, _ []*cnode) {
		if m.Kind == "DeclRefExpr" && m.Ref != nil && m.Ref.Kind != "FunctionDecl" {
			out = append(out, m.Ref.Name)
		}
	})
	return out
}

func init() {
	register(&Rule{
		ID: "CS", Props: []string{"C10", "C11"}, Min: 4,
		Doc: `"the hits reported are those of this search": (1) in apat_search.c (clang AST) every search function that pushes results on a stack (PushiIn(v, …)) empties that stack before
(EmptyStacki(v[0])) — the three scanners are siblings and agree; a scanner that no longer empties the stack of the error counts reports the errors of the previous search of the same sequence
(priming sites with other mismatch counts). (2) in obiapat.c every field of the pattern that buildPattern sets on the pattern it builds (pattern->f = …) is set by complementPattern as well:
without maxerr the reverse-complemented primer tolerates no mismatch while the direct one does.`,
		Run: func(c *Ctx, s *Sink) {
			dir := filepath.Join(c.Repo, "pkg/obiapat")
			for _, fname := range []string{"ManberNoErr", "ManberSub", "ManberIndel"} {
				key := "pkg/obiapat/apat_search.c:" + fname + ":stacks-emptied-before-the-scan"
				fn, err := clangFunc(dir, "apat_search.c", fname)
				if err != nil {
					s.Undecided(nil, key, 0, err.Error())
					continue
				}
				pushed, emptied := map[string]bool{}, map[string]bool{}
				fn.walk(func(n *cnode, _ []*cnode) {
					if n.Kind != "CallExpr" || len(n.Inner) < 2 {
						return
					}
					name := ""
					n.Inner[0].walk(func(m *cnode, _ []*cnode) {
						if m.Kind == "DeclRefExpr" && m.Ref != nil && m.Ref.Kind == "FunctionDecl" {
							name = m.Ref.Name
						}
					})
					switch name {
					case "PushiIn":
						for _, v := range cDeclRefNames(n.Inner[1]) {
							pushed[v] = true
						}
					case "EmptyStacki":
						for _, v := range cDeclRefNames(n.Inner[1]) {
							emptied[v] = true
						}
					}
				})
				var missing []string
				for v := range pushed {
					if !emptied[v] {
						missing = append(missing, v)
					}
				}
				sort.Strings(missing)
				pos := fmt.Sprintf("pkg/obiapat/apat_search.c:%d", cLine(fn))
				switch {
				case len(pushed) == 0:
					o := s.add(Undecided, nil, key, 0, "no PushiIn call found")
					o.Pos = pos
				case len(missing) > 0:
					o := s.add(Violation, nil, key, 0, "results are pushed on "+strings.Join(missing, ", ")+", which is not emptied before the scan: the stack still holds what the previous search of the same sequence left — the positions come from this search, the error counts from the former one")
					o.Pos = pos
				default:
					o := s.add(Pass, nil, key, 0, fmt.Sprintf("%d result stacks, each emptied before the scan", len(pushed)))
					o.Pos = pos
				}
			}
			key := "pkg/obiapat/obiapat.c:complementPattern:fields-of-buildPattern-carried-over"
			fields := func(fname string) (map[string]bool, *cnode, error) {
				fn, err := clangFunc(dir, "obiapat.c", fname)
				if err != nil {
					return nil, nil, err
				}
				out := map[string]bool{}
				fn.walk(func(n *cnode, _ []*cnode) {
					if n.Kind == "BinaryOperator" && n.Op == "=" && len(n.Inner) == 2 {
						l := stripCasts(n.Inner[0])
						if l != nil && l.Kind == "MemberExpr" && l.Name != "" {
							for _, v := range cDeclRefNames(l) {
								if v == "pattern" {
									out[l.Name] = true
								}
							}
						}
					}
				})
				return out, fn, nil
			}
			fb, _, err1 := fields("buildPattern")
			fc, fnc, err2 := fields("complementPattern")
			if err1 != nil || err2 != nil {
				s.Undecided(nil, key, 0, fmt.Sprint(err1, err2))
				return
			}
			var missing []string
			for f := range fb {
				if !fc[f] {
					missing = append(missing, f)
				}
			}
			sort.Strings(missing)
			pos := fmt.Sprintf("pkg/obiapat/obiapat.c:%d", cLine(fnc))
			switch {
			case len(fb) < 3:
				o := s.add(Undecided, nil, key, 0, "fewer than three fields set by buildPattern found")
				o.Pos = pos
			case len(missing) > 0:
				o := s.add(Violation, nil, key, 0, "complementPattern does not set "+strings.Join(missing, ", ")+", which buildPattern sets: the structure comes from a calloc, the field is 0 — a reverse-complemented primer built with 2 mismatches allowed tolerates none, the amplicons whose reverse site holds a mismatch are lost on one strand")
				o.Pos = pos
			default:
				o := s.add(Pass, nil, key, 0, fmt.Sprintf("the %d fields buildPattern sets are set by complementPattern", len(fb)))
				o.Pos = pos
			}
		},
	})
}
