package main

// FE — a flat-file parser does not end normally inside an entry (C17, C01).

import (
	"fmt"
	"go/ast"
	"go/types"
	"sort"
	"strings"

	"golang.org/x/tools/go/packages"
)

func init() {
	register(&Rule{
		ID: "FE", Props: []string{"C17", "C01"}, Min: 3,
		Doc: `a truncated or foreign input is refused by the GenBank and EMBL readers as it is by the others: in pkg/obiformats, in the function literal returned by each …ChunkParser, the success return
that follows the loop over the lines (return <records>, nil) is preceded, after that loop, by a test that leaves with an error (a return whose last result is not nil, or a call ending the
program): the records are only emitted on their '//' line, so data ending inside an entry — a file cut anywhere, a compressed file whose magic number is damaged and which is therefore read as
text — otherwise give the records read so far, or none, with exit status 0 (obicount --embl on a 5-record file cut at 700 bytes: 2 records; on a .gz with one bit of its magic flipped: 0 record).
And every bufio.Scanner of the package has its Err() tested after its loop: Scan() stops silently on a line longer than its buffer.`,
		Run: runFE,
	})
}

func runFE(c *Ctx, s *Sink) {
	c.EachFunc([]string{"pkg/obiformats"}, func(p *packages.Package, fd *ast.FuncDecl) {
		info := p.TypesInfo
		// (2) scanners
		ast.Inspect(fd.Body, func(n ast.Node) bool {
			as, ok := n.(*ast.AssignStmt)
			if !ok || len(as.Lhs) != 1 || len(as.Rhs) != 1 {
				return true
			}
			call, ok := ast.Unparen(as.Rhs[0]).(*ast.CallExpr)
			if !ok {
				return true
			}
			if f := callee(info, call); f == nil || fullName(f) != "bufio.NewScanner" {
				return true
			}
			sc := rootObj(info, as.Lhs[0])
			key := funcName(p, fd) + ":" + sc.Name() + ".Err-tested"
			tested := false
			ast.Inspect(fd.Body, func(m ast.Node) bool {
				ifs, ok := m.(*ast.IfStmt)
				if !ok {
					return true
				}
				has := false
				chk := func(e ast.Node) {
					if e == nil {
						return
					}
					ast.Inspect(e, func(q ast.Node) bool {
						if c2, ok := q.(*ast.CallExpr); ok {
							if sel, ok := c2.Fun.(*ast.SelectorExpr); ok && sel.Sel.Name == "Err" && rootObj(info, sel.X) == sc {
								has = true
							}
						}
						return true
					})
				}
				chk(ifs.Init)
				chk(ifs.Cond)
				if has && leavesWithError(info, ifs.Body) {
					tested = true
				}
				return true
			})
			if tested {
				s.Pass(nil, key, as.Pos(), "the error of the scanner is tested after its loop and reported")
			} else {
				s.Fail(nil, key, as.Pos(), "Scan() returns false on a read error and on a line longer than the scanner's buffer (64 KiB) exactly as at the end of the data, and Err() is never looked at: the parser returns the records read so far as if the input were complete")
			}
			return true
		})
		// (1) chunk parsers
		if !strings.HasSuffix(fd.Name.Name, "ChunkParser") {
			return
		}
		var lit *ast.FuncLit
		ast.Inspect(fd.Body, func(n ast.Node) bool {
			if l, ok := n.(*ast.FuncLit); ok && lit == nil && l.Type.Results != nil && l.Type.Results.NumFields() == 2 {
				lit = l
			}
			return lit == nil
		})
		if lit == nil {
			return
		}
		// only the parsers that emit on an end-of-entry line
		emitsOnSlashes := false
		ast.Inspect(lit.Body, func(n ast.Node) bool {
			if bl, ok := n.(*ast.BasicLit); ok && bl.Value == `"//"` {
				emitsOnSlashes = true
			}
			return true
		})
		if !emitsOnSlashes {
			return
		}
		key := funcName(p, fd) + ":end-inside-an-entry-refused"
		// top-level statements of the literal: the last loop, then the final success return
		loopIdx, retIdx := -1, -1
		for i, st := range lit.Body.List {
			switch x := st.(type) {
			case *ast.ForStmt, *ast.RangeStmt:
				loopIdx = i
			case *ast.ReturnStmt:
				if len(x.Results) == 2 {
					if id, ok := ast.Unparen(x.Results[1]).(*ast.Ident); ok && id.Name == "nil" {
						retIdx = i
					}
				}
			}
		}
		if loopIdx < 0 || retIdx < loopIdx {
			s.Undecided(nil, key, lit.Pos(), "no line loop followed by a success return at the top level of the parser")
			return
		}
		guards := 0
		for _, st := range lit.Body.List[loopIdx+1 : retIdx] {
			ifs, ok := st.(*ast.IfStmt)
			if !ok {
				continue
			}
			// a test on the state of the parser: not on the scanner's error
			onScanner := false
			for _, e := range []ast.Node{ifs.Init, ifs.Cond} {
				if e == nil {
					continue
				}
				ast.Inspect(e, func(q ast.Node) bool {
					if c2, ok := q.(*ast.CallExpr); ok {
						if sel, ok := c2.Fun.(*ast.SelectorExpr); ok && sel.Sel.Name == "Err" {
							onScanner = true
						}
					}
					return true
				})
			}
			if !onScanner && leavesWithError(info, ifs.Body) {
				guards++
			}
		}
		if guards > 0 {
			s.Pass(nil, key, lit.Body.List[retIdx].Pos(), "after the line loop the state of the parser is tested and an input ending inside an entry is an error")
		} else {
			s.Fail(nil, key, lit.Body.List[retIdx].Pos(), "the parser returns normally whatever its state at the end of the data: the records are emitted on their '//' line only, so a file cut inside an entry loses it silently (5-record EMBL file cut at 700 bytes: obicount --embl says 2, exit 0) and bytes that are not a flat file at all — a .gz whose magic number has one bit flipped, hence read as text — are an empty input (0 record, exit 0)")
		}
	})
}

// leavesWithError: the block returns a non-nil last result, or calls a function that ends the program.
func leavesWithError(info *types.Info, b *ast.BlockStmt) bool {
	out := false
	ast.Inspect(b, func(n ast.Node) bool {
		switch x := n.(type) {
		case *ast.ReturnStmt:
			if len(x.Results) > 0 {
				if id, ok := ast.Unparen(x.Results[len(x.Results)-1]).(*ast.Ident); !ok || id.Name != "nil" {
					out = true
				}
			}
		case *ast.CallExpr:
			if linEndsProgram(info, x) {
				out = true
			}
		}
		return true
	})
	return out
}

func init() {
	register(&Rule{
		ID: "FE-2", Props: []string{"C01", "C17"}, Min: 2,
		Doc: `"the content of a record never depends on where a chunk boundary fell", for the record that ends a chunk: the FASTA and FASTQ chunk parsers are byte-driven state machines (switch state)
whose records are completed when the first byte of the next record is met; the statements after the byte loop complete the record pending at the end of the chunk. For every value the state
variable can hold (the constants of the case clauses and of the assignments), the statements after the loop are evaluated with that value (tests on the state folded; other tests explored both
ways): they must end in an error, complete a record (append to the result / store its qualities), or the value is the initial one or a state only entered in the block that completes a record. A
state left without any of these is a record in progress that is dropped silently: a record with an empty sequence was fatal in the middle of a chunk and vanished, exit 0, when it was the last
of a chunk (1012-record file: 1011 written) — and a plain file cut inside a title, a sequence or a separator line was read as complete.`,
		Run: runFE2,
	})
}

func runFE2(c *Ctx, s *Sink) {
	c.EachFunc([]string{"pkg/obiformats"}, func(p *packages.Package, fd *ast.FuncDecl) {
		if !strings.HasSuffix(fd.Name.Name, "ChunkParser") {
			return
		}
		info := p.TypesInfo
		var lit *ast.FuncLit
		ast.Inspect(fd.Body, func(n ast.Node) bool {
			if l, ok := n.(*ast.FuncLit); ok && lit == nil && l.Type.Results != nil && l.Type.Results.NumFields() == 2 {
				lit = l
			}
			return lit == nil
		})
		if lit == nil {
			return
		}
		// the byte loop: a top-level for whose body holds a switch on an integer variable
		var loop *ast.ForStmt
		var stateObj types.Object
		loopIdx := -1
		for i, st := range lit.Body.List {
			f, ok := st.(*ast.ForStmt)
			if !ok {
				continue
			}
			for _, bs := range f.Body.List {
				if sw, ok := bs.(*ast.SwitchStmt); ok && sw.Tag != nil {
					if o := rootObj(info, sw.Tag); o != nil {
						if b, ok := o.Type().Underlying().(*types.Basic); ok && b.Info()&types.IsInteger != 0 {
							loop, stateObj, loopIdx = f, o, i
						}
					}
				}
			}
		}
		if loop == nil {
			return // line-driven parser: rule FE
		}
		key := funcName(p, fd) + ":pending-record-completed-or-refused"
		// values of the state
		values := map[int64]bool{}
		completing := map[int64]bool{} // assigned in a block that completes a record
		var initial int64 = -1
		// what completes a record is what the statements after the loop do for the pending one: append it to the result
		// (FASTA) or store its qualities (FASTQ, where the record is created as soon as its sequence is read)
		callName := func(call *ast.CallExpr) string {
			if id, ok := call.Fun.(*ast.Ident); ok && id.Name == "append" {
				return "append"
			}
			if f := callee(info, call); f != nil {
				if strings.Contains(f.Name(), "storeSequenceQuality") {
					return "storeSequenceQuality"
				}
				// a helper of the package wrapping it (one level)
				if d, dp := c.DeclOf(f); d != nil && d.Body != nil && f.Pkg() != nil && rel(f.Pkg().Path()) == "pkg/obiformats" {
					wraps := false
					ast.Inspect(d.Body, func(m ast.Node) bool {
						if c2, ok := m.(*ast.CallExpr); ok {
							if g := callee(dp.TypesInfo, c2); g != nil && strings.Contains(g.Name(), "storeSequenceQuality") {
								wraps = true
							}
						}
						return true
					})
					if wraps {
						return "storeSequenceQuality"
					}
				}
			}
			return ""
		}
		completion := map[string]bool{}
		for _, st := range lit.Body.List[loopIdx+1:] {
			ast.Inspect(st, func(m ast.Node) bool {
				if call, ok := m.(*ast.CallExpr); ok {
					if nm := callName(call); nm != "" {
						completion[nm] = true
					}
				}
				return true
			})
		}
		if completion["append"] && len(completion) > 1 {
			delete(completion, "append")
		}
		completes := func(n ast.Node) bool {
			found := false
			ast.Inspect(n, func(m ast.Node) bool {
				if call, ok := m.(*ast.CallExpr); ok && completion[callName(call)] {
					found = true
				}
				return true
			})
			return found
		}
		ast.Inspect(lit.Body, func(n ast.Node) bool {
			switch x := n.(type) {
			case *ast.CaseClause:
				for _, e := range x.List {
					if v, ok := constInt(info, e); ok {
						values[v] = true
					}
				}
			case *ast.AssignStmt:
				for i, l := range x.Lhs {
					if rootObj(info, l) == stateObj && i < len(x.Rhs) {
						if v, ok := constInt(info, x.Rhs[i]); ok {
							values[v] = true
							if x.Tok.String() == ":=" && initial < 0 {
								initial = v
							}
						}
					}
				}
			case *ast.BlockStmt:
				if completes(x) {
					for _, st := range x.List {
						if as, ok := st.(*ast.AssignStmt); ok && len(as.Lhs) == 1 && rootObj(info, as.Lhs[0]) == stateObj {
							if v, ok := constInt(info, as.Rhs[0]); ok {
								completing[v] = true
							}
						}
					}
				}
			}
			return true
		})
		post := lit.Body.List[loopIdx+1:]
		var bad []string
		for v := range values {
			if v == initial || completing[v] {
				continue
			}
			if r := fsmEval(info, stateObj, v, post, completes); r == fsmSilent {
				bad = append(bad, fmt.Sprint(v))
			}
		}
		sort.Strings(bad)
		if len(bad) > 0 {
			s.Fail(nil, key, loop.End(), "when the data end in state "+strings.Join(bad, ", ")+" the statements after the byte loop neither complete the pending record nor refuse it: it is dropped silently — a record whose sequence is empty is fatal in the middle of a chunk and vanishes, exit 0, when it is the last of a chunk (same 1012 records: 1011 written or fatal according to the position of >EMPTY), and a plain file cut inside a record is read as complete")
		} else {
			s.Pass(nil, key, loop.End(), fmt.Sprintf("%d state values: each ends in an error or completes the pending record after the loop (initial %d and the states entered on completion excepted)", len(values), initial))
		}
	})
}

// directStmts: the statements of the block itself (nested blocks of if/for/switch excluded).
func directStmts(b *ast.BlockStmt) []ast.Stmt {
	var out []ast.Stmt
	for _, st := range b.List {
		switch st.(type) {
		case *ast.IfStmt, *ast.ForStmt, *ast.SwitchStmt, *ast.RangeStmt, *ast.BlockStmt:
		default:
			out = append(out, st)
		}
	}
	return out
}

const (
	fsmSilent   = iota
	fsmDone     // ends in an error
	fsmComplete // completes the pending record
)

// fsmEval evaluates a statement list for a known value of the state variable: fsmDone when every path ends in an error or
// completes a record before the list ends; fsmSilent when some path reaches the end (or a success return) without either.
func fsmEval(info *types.Info, state types.Object, v int64, list []ast.Stmt, completes func(ast.Node) bool) int {
	// tri-valued evaluation of a condition
	var ev func(e ast.Expr) int // 1 true, 0 false, -1 unknown
	ev = func(e ast.Expr) int {
		e = ast.Unparen(e)
		switch x := e.(type) {
		case *ast.BinaryExpr:
			switch x.Op.String() {
			case "&&":
				a, b := ev(x.X), ev(x.Y)
				if a == 0 || b == 0 {
					return 0
				}
				if a == 1 && b == 1 {
					return 1
				}
				return -1
			case "||":
				a, b := ev(x.X), ev(x.Y)
				if a == 1 || b == 1 {
					return 1
				}
				if a == 0 && b == 0 {
					return 0
				}
				return -1
			}
			l, r := x.X, x.Y
			op := x.Op.String()
			if rootObj(info, r) == state {
				l, r = r, l
				op = map[string]string{"<": ">", ">": "<", "<=": ">=", ">=": "<=", "==": "==", "!=": "!="}[op]
			}
			if id, ok := ast.Unparen(l).(*ast.Ident); !ok || info.ObjectOf(id) != state {
				return -1
			}
			k, ok := constInt(info, r)
			if !ok {
				return -1
			}
			b := false
			switch op {
			case "==":
				b = v == k
			case "!=":
				b = v != k
			case "<":
				b = v < k
			case "<=":
				b = v <= k
			case ">":
				b = v > k
			case ">=":
				b = v >= k
			default:
				return -1
			}
			if b {
				return 1
			}
			return 0
		case *ast.UnaryExpr:
			if x.Op.String() == "!" {
				switch ev(x.X) {
				case 1:
					return 0
				case 0:
					return 1
				}
			}
		}
		return -1
	}
	var run func(list []ast.Stmt) int // fsmDone / fsmSilent(falls through)
	run = func(list []ast.Stmt) int {
		for i, st := range list {
			switch x := st.(type) {
			case *ast.IfStmt:
				rest := list[i+1:]
				thenR := func() int {
					if r := run(x.Body.List); r != fsmSilent {
						return r
					}
					return run(rest)
				}
				elseR := func() int {
					switch el := x.Else.(type) {
					case *ast.BlockStmt:
						if r := run(el.List); r != fsmSilent {
							return r
						}
					case *ast.IfStmt:
						return run(append([]ast.Stmt{el}, rest...))
					}
					return run(rest)
				}
				switch ev(x.Cond) {
				case 1:
					return thenR()
				case 0:
					return elseR()
				default:
					t, e := thenR(), elseR()
					switch {
					case t == fsmComplete:
						// the record is completed unless a test that does not read the state says there is nothing to do
						// (an option, an emptiness test): the state itself is handled
						return fsmComplete
					case t != fsmSilent && e != fsmSilent:
						return e
					}
					return fsmSilent
				}
			case *ast.SwitchStmt:
				rest := list[i+1:]
				var chosen []ast.Stmt
				matched, unknown := false, false
				var deflt *ast.CaseClause
				for _, cl := range x.Body.List {
					cc := cl.(*ast.CaseClause)
					if cc.List == nil {
						deflt = cc
						continue
					}
					if matched {
						continue
					}
					for _, e := range cc.List {
						r := -1
						if x.Tag != nil {
							if rootObj(info, x.Tag) == state {
								if k, ok := constInt(info, e); ok {
									if k == v {
										r = 1
									} else {
										r = 0
									}
								}
							}
						} else {
							r = ev(e)
						}
						if r == 1 {
							matched, chosen = true, cc.Body
						}
						if r == -1 {
							unknown = true
						}
					}
				}
				if unknown {
					return fsmSilent
				}
				if !matched && deflt != nil {
					matched, chosen = true, deflt.Body
				}
				if matched {
					if r := run(chosen); r != fsmSilent {
						return r
					}
				}
				return run(rest)
			case *ast.ReturnStmt:
				if len(x.Results) > 0 {
					if id, ok := ast.Unparen(x.Results[len(x.Results)-1]).(*ast.Ident); !ok || id.Name != "nil" {
						return fsmDone
					}
				}
				return fsmSilent
			case *ast.BlockStmt:
				if r := run(x.List); r != fsmSilent {
					return r
				}
			default:
				ends := false
				ast.Inspect(st, func(m ast.Node) bool {
					if call, ok := m.(*ast.CallExpr); ok && linEndsProgram(info, call) {
						ends = true
					}
					return true
				})
				if ends {
					return fsmDone
				}
				if completes(st) {
					return fsmComplete
				}
			}
		}
		return fsmSilent
	}
	return run(list)
}
