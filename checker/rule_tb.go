package main

// TB — constant-table agreement with the IUPAC nucleotide nomenclature
// (C07 complement, C09 compatibility codes, C19 2-bit codes).

import (
	"fmt"
	"go/token"
	"sort"
	"strings"
)

// oracle: the IUPAC nomenclature
var iupacBases = map[byte]string{
	'a': "a", 'c': "c", 'g': "g", 't': "t", 'u': "t",
	'r': "ag", 'y': "ct", 's': "cg", 'w': "at", 'k': "gt", 'm': "ac",
	'b': "cgt", 'd': "agt", 'h': "act", 'v': "acg", 'n': "acgt",
}

var iupacComplement = map[byte]byte{
	'a': 't', 'c': 'g', 'g': 'c', 't': 'a', 'u': 'a',
	'r': 'y', 'y': 'r', 's': 's', 'w': 'w', 'k': 'm', 'm': 'k',
	'b': 'v', 'v': 'b', 'd': 'h', 'h': 'd', 'n': 'n',
}

func iupacLetters() []byte {
	var l []byte
	for k := range iupacBases {
		l = append(l, k)
	}
	sort.Slice(l, func(i, j int) bool { return l[i] < l[j] })
	return l
}

func init() {
	register(&Rule{
		ID: "TB-1", Props: []string{"C07"}, Min: 3,
		Doc: `the complement function is the IUPAC complement and an involution: the 256-entry decision table of obiseq.nucComplement is computed from its AST and the
_revcmpDNA literal (finite evaluation of a loop-free pure function); for every IUPAC letter in both cases the result is the lower-case IUPAC complement,
comp(comp(x)) = x for every letter but u, '.' and '-' are fixed, '[' and ']' are exchanged.`,
		Run: runTB1,
	})
	register(&Rule{
		ID: "TB-2", Props: []string{"C09"}, Min: 4,
		Doc: `the IUPAC compatibility tables are the IUPAC table: in obialign._iupac (LCS kernel) and _FourBitsBaseCode/_FourBitsBaseDecode the four bases have
distinct single bits, the code of every ambiguity letter is the union of the bits of its bases (u = t), non-IUPAC letters have code 0, decode(code(x)) = x, and
_samenuc — evaluated for all 256x256 byte pairs from its AST — equals 'same letter, or codes intersect' after case folding, is reflexive and symmetric, and is plain equality outside
letters (the oracle first asked 'codes intersect' alone, under which a letter that is no IUPAC code does not match itself: corrected after the second bug hunt, see DESIGN.md §8ter).`,
		Run: runTB2,
	})
	register(&Rule{
		ID: "TB-4", Props: []string{"C19"}, Min: 4,
		Doc: `2-bit code tables agree: obikmer.__single_base_code__ maps a,c,g,t/u to 0..3, the iupac map lists for every IUPAC letter exactly the codes of its bases,
decode inverts the code, revcompnuc is the IUPAC complement and complementing a base is 3 - code (which the reverse k-mer construction relies on).`,
		Run: runTB4,
	})
}

func runTB1(c *Ctx, s *Sink) {
	fd, p := c.FindFunc("pkg/obiseq", "nucComplement")
	if fd == nil {
		s.Undecided(nil, "pkg/obiseq.nucComplement", 0, "function not found")
		return
	}
	var comp [256]int
	for b := 0; b < 256; b++ {
		r, err := callPure(c, p, fd, int64(b))
		if err != nil || len(r) != 1 {
			s.Undecided(nil, "pkg/obiseq.nucComplement", fd.Pos(), fmt.Sprintf("cannot evaluate nucComplement(%d): %v", b, err))
			return
		}
		comp[b] = int(r[0].i)
	}
	var bad []string
	for _, l := range iupacLetters() {
		for _, x := range []byte{l, l - 32} {
			if comp[x] != int(iupacComplement[l]) {
				bad = append(bad, fmt.Sprintf("comp(%q)=%q, IUPAC says %q", x, rune(comp[x]), iupacComplement[l]))
			}
		}
	}
	key := "pkg/obiseq.nucComplement:iupac-complement"
	if len(bad) > 0 {
		s.Fail(nil, key, fd.Pos(), "the complement table disagrees with the IUPAC complement: "+strings.Join(bad, "; "))
	} else {
		s.Pass(nil, key, fd.Pos(), "16 IUPAC letters x 2 cases complemented as IUPAC prescribes")
	}
	bad = nil
	for _, l := range iupacLetters() {
		if l == 'u' {
			continue
		}
		if cc := comp[comp[l]]; cc != int(l) {
			bad = append(bad, fmt.Sprintf("comp(comp(%q))=%q", l, rune(cc)))
		}
	}
	key = "pkg/obiseq.nucComplement:involution"
	if len(bad) > 0 {
		s.Fail(nil, key, fd.Pos(), "complementing twice does not restore the symbol: "+strings.Join(bad, "; "))
	} else {
		s.Pass(nil, key, fd.Pos(), "comp∘comp is the identity on the IUPAC letters")
	}
	key = "pkg/obiseq.nucComplement:fixed-symbols"
	if comp['.'] == '.' && comp['-'] == '-' && comp['['] == ']' && comp[']'] == '[' {
		s.Pass(nil, key, fd.Pos(), "'.' and '-' fixed, '[' and ']' exchanged")
	} else {
		s.Fail(nil, key, fd.Pos(), fmt.Sprintf("gap/bracket symbols: comp('.')=%q comp('-')=%q comp('[')=%q comp(']')=%q", rune(comp['.']), rune(comp['-']), rune(comp['[']), rune(comp[']'])))
	}
}

// checkCodeTable: code(letter) for 'a'..'z'
func checkCodeTable(s *Sink, key string, pos token.Pos, code func(l byte) (int64, bool)) {
	bits := map[byte]int64{}
	var bad []string
	for _, b := range []byte("acgt") {
		v, ok := code(b)
		if !ok {
			s.Undecided(nil, key, pos, "table too short")
			return
		}
		bits[b] = v
		if v == 0 || v&(v-1) != 0 {
			bad = append(bad, fmt.Sprintf("code(%q)=%d is not a single bit", b, v))
		}
	}
	if bits['a'] == bits['c'] || bits['a'] == bits['g'] || bits['a'] == bits['t'] || bits['c'] == bits['g'] || bits['c'] == bits['t'] || bits['g'] == bits['t'] {
		bad = append(bad, "two bases share a bit")
	}
	for l := byte('a'); l <= 'z'; l++ {
		v, ok := code(l)
		if !ok {
			bad = append(bad, fmt.Sprintf("no entry for %q", l))
			continue
		}
		var want int64
		for _, b := range []byte(iupacBases[l]) {
			want |= bits[b]
		}
		if v != want {
			bad = append(bad, fmt.Sprintf("code(%q)=%d, IUPAC (%s) gives %d", l, v, orDash(iupacBases[l]), want))
		}
	}
	if len(bad) > 0 {
		s.Fail(nil, key, pos, "compatibility codes disagree with the IUPAC table: "+strings.Join(bad, "; "))
	} else {
		s.Pass(nil, key, pos, "bases are distinct single bits, every ambiguity code is the union of its bases, non-IUPAC letters are 0")
	}
}

func orDash(s string) string {
	if s == "" {
		return "not a nucleotide"
	}
	return s
}

func runTB2(c *Ctx, s *Sink) {
	p := c.Pkg("pkg/obialign")
	if p == nil {
		s.Undecided(nil, "pkg/obialign", 0, "package not loaded")
		return
	}
	iu, pos, err := constTable(p, "_iupac")
	if err != nil {
		s.Undecided(nil, "pkg/obialign._iupac", 0, err.Error())
	} else {
		checkCodeTable(s, "pkg/obialign._iupac:codes", pos, func(l byte) (int64, bool) {
			i := int(l - 'a')
			if i >= len(iu) {
				return 0, false
			}
			return iu[i], true
		})
	}
	fb, pos2, err := constTable(p, "_FourBitsBaseCode")
	if err != nil {
		s.Undecided(nil, "pkg/obialign._FourBitsBaseCode", 0, err.Error())
	} else {
		checkCodeTable(s, "pkg/obialign._FourBitsBaseCode:codes", pos2, func(l byte) (int64, bool) {
			i := int(l & 31)
			if i >= len(fb) {
				return 0, false
			}
			return fb[i], true
		})
		dec, pos3, err := constTable(p, "_FourBitsBaseDecode")
		if err != nil {
			s.Undecided(nil, "pkg/obialign._FourBitsBaseDecode", 0, err.Error())
		} else {
			var bad []string
			for _, l := range iupacLetters() {
				if l == 'u' {
					continue
				}
				cd := fb[l&31]
				if int(cd) >= len(dec) || dec[cd] != int64(l) {
					bad = append(bad, fmt.Sprintf("decode(code(%q)) != %q", l, l))
				}
			}
			key := "pkg/obialign._FourBitsBaseDecode:inverse"
			if len(bad) > 0 {
				s.Fail(nil, key, pos3, strings.Join(bad, "; "))
			} else {
				s.Pass(nil, key, pos3, "decode∘code is the identity on the IUPAC letters")
			}
		}
	}
	// _samenuc over all byte pairs
	fd, _ := c.FindFunc("pkg/obialign", "_samenuc")
	key := "pkg/obialign._samenuc:relation"
	if fd == nil || err != nil && iu == nil {
		s.Undecided(nil, key, 0, "_samenuc or its table not found")
		return
	}
	fold := func(b int) int {
		if b >= 'A' && b <= 'Z' {
			return b | 32
		}
		return b
	}
	var bad []string
	for a := 0; a < 256 && len(bad) < 5; a++ {
		for b := 0; b < 256; b++ {
			r, err := callPure(c, p, fd, int64(a), int64(b))
			if err != nil || len(r) != 1 {
				s.Undecided(nil, key, fd.Pos(), fmt.Sprintf("cannot evaluate _samenuc(%d,%d): %v", a, b, err))
				return
			}
			fa, fb2 := fold(a), fold(b)
			var want bool
			if fa >= 'a' && fa <= 'z' && fb2 >= 'a' && fb2 <= 'z' {
				// a letter matches itself even when it is no IUPAC code (code 0: x, i, …)
				want = fa == fb2 || iu[fa-'a']&iu[fb2-'a'] != 0
			} else {
				want = fa == fb2
			}
			if r[0].b != want {
				bad = append(bad, fmt.Sprintf("_samenuc(%q,%q)=%v, expected %v", rune(a), rune(b), r[0].b, want))
				break
			}
		}
	}
	if len(bad) > 0 {
		s.Fail(nil, key, fd.Pos(), "symbol comparison is not 'same letter, or IUPAC codes intersect, after case folding' (hence not reflexive, not symmetric or not case-insensitive): "+strings.Join(bad, "; "))
	} else {
		s.Pass(nil, key, fd.Pos(), "65536 byte pairs: equals 'same letter or codes intersect' after case folding (reflexive and symmetric), plain equality outside letters")
	}
}

func runTB4(c *Ctx, s *Sink) {
	p := c.Pkg("pkg/obikmer")
	if p == nil {
		s.Undecided(nil, "pkg/obikmer", 0, "package not loaded")
		return
	}
	want := map[byte]int64{'a': 0, 'c': 1, 'g': 2, 't': 3, 'u': 3}
	sb, pos, err := constTable(p, "__single_base_code__")
	key := "pkg/obikmer.__single_base_code__"
	if err != nil {
		s.Undecided(nil, key, 0, err.Error())
	} else {
		var bad []string
		for l, w := range want {
			if int(l&31) >= len(sb) || sb[l&31] != w {
				bad = append(bad, fmt.Sprintf("code(%q) != %d", l, w))
			}
		}
		sort.Strings(bad)
		if len(bad) > 0 {
			s.Fail(nil, key, pos, "2-bit base codes: "+strings.Join(bad, "; "))
		} else {
			s.Pass(nil, key, pos, "a,c,g,t/u -> 0,1,2,3")
		}
	}
	iu, pos, err := constMap(p, "iupac")
	key = "pkg/obikmer.iupac"
	if err != nil {
		s.Undecided(nil, key, 0, err.Error())
		return
	}
	var bad []string
	for _, l := range iupacLetters() {
		var w []int64
		for _, b := range []byte(iupacBases[l]) {
			w = append(w, want[b])
		}
		got := append([]int64(nil), iu[int64(l)]...)
		sort.Slice(got, func(i, j int) bool { return got[i] < got[j] })
		if fmt.Sprint(got) != fmt.Sprint(w) {
			bad = append(bad, fmt.Sprintf("iupac[%q]=%v, expected %v", l, got, w))
		}
	}
	if len(bad) > 0 {
		s.Fail(nil, key, pos, strings.Join(bad, "; "))
	} else {
		s.Pass(nil, key, pos, "every IUPAC letter lists exactly the codes of its bases")
	}
	rc, pos, err := constMap(p, "revcompnuc")
	key = "pkg/obikmer.revcompnuc"
	if err != nil {
		s.Undecided(nil, key, 0, err.Error())
	} else {
		bad = nil
		for _, l := range iupacLetters() {
			v := rc[int64(l)]
			if len(v) != 1 || v[0] != int64(iupacComplement[l]) {
				bad = append(bad, fmt.Sprintf("revcompnuc[%q]=%v, IUPAC says %q", l, v, iupacComplement[l]))
				continue
			}
			// complement = 3 - code on the code sets
			var a, b []int64
			for _, x := range iu[int64(l)] {
				a = append(a, 3-x)
			}
			b = append(b, iu[v[0]]...)
			sort.Slice(a, func(i, j int) bool { return a[i] < a[j] })
			sort.Slice(b, func(i, j int) bool { return b[i] < b[j] })
			if fmt.Sprint(a) != fmt.Sprint(b) {
				bad = append(bad, fmt.Sprintf("codes of complement(%q) are not 3-code", l))
			}
		}
		if len(bad) > 0 {
			s.Fail(nil, key, pos, strings.Join(bad, "; "))
		} else {
			s.Pass(nil, key, pos, "IUPAC complement; complementing a base is 3 - code")
		}
	}
	dc, pos, err := constMap(p, "decode")
	key = "pkg/obikmer.decode"
	if err != nil {
		s.Undecided(nil, key, 0, err.Error())
	} else {
		ok := true
		for _, l := range []byte("acgt") {
			v := dc[want[l]]
			if len(v) != 1 || v[0] != int64(l) {
				ok = false
			}
		}
		s.Check(ok, nil, key, pos, "decode inverts the 2-bit code", "decode does not invert the 2-bit code of a,c,g,t")
	}
}
