package main

// CG — the pattern checker refuses the adjacent modifiers the splitter cannot cut into positions (C10, C11).

import (
	"fmt"
	"go/ast"
	"go/token"
	"go/types"
	"path/filepath"
	"sort"
	"strings"

	"golang.org/x/tools/go/packages"
)

// cgDeref: k of *(p + k), *(p - k) or *p, for the pointer variable named p.
func cgDeref(n *cnode, p string) (int64, bool) {
	n = stripCasts(n)
	if n == nil || n.Kind != "UnaryOperator" || n.Op != "*" || len(n.Inner) != 1 {
		return 0, false
	}
	x := stripCasts(n.Inner[0])
	if x == nil {
		return 0, false
	}
	if cVarName(x) == p {
		return 0, true
	}
	if x.Kind == "BinaryOperator" && (x.Op == "+" || x.Op == "-") && len(x.Inner) == 2 && cVarName(x.Inner[0]) == p {
		if k, ok := cIntValue(x.Inner[1]); ok {
			if x.Op == "-" {
				k = -k
			}
			return k, true
		}
	}
	return 0, false
}

func cgChar(b int64) string {
	if b == 0 {
		return "end"
	}
	return string(rune(b))
}

func init() {
	register(&Rule{
		ID: "CG", Props: []string{"C10", "C11"}, Min: 1,
		Doc: `"matching the reverse-complemented pattern is equivalent to matching the pattern on the reverse-complemented sequence": a pattern is a list of positions, each ['!'] (symbol | '[' symbols ']') ['#'].
CheckPattern (apat_parse.c, clang AST) is the only gate before splitPattern/EncodePattern and ecoComplementPattern cut the text into positions, and those two cut a modifier that follows another
modifier differently: "AAC##CTT" is 7 positions for the encoder (the second '#' a position that matches nothing), 6 for the complement — the direct primer never matches, its reverse complement does;
"!!A" is accepted then kills the complement ("Error in pattern checking"); "A!" makes the splitter read past the end of the text. The refusals of CheckPattern are read as a table — in the clause of
character c, 'if (*(pat+k) == x) return 0' refuses the pair (c,x) for k = +1 and (x,c) for k = -1 — and must hold the pairs "!!", "!#", "##", "[]", '!' at the end, and '#' as first character
(tested before the loop). Each clause may refuse the pair from either side ('!#' in the clause of '!' or in that of '#').`,
		Run: func(c *Ctx, s *Sink) {
			dir := filepath.Join(c.Repo, "pkg/obiapat")
			key := "pkg/obiapat/apat_parse.c:CheckPattern:refuses-adjacent-modifiers"
			fn, err := clangFunc(dir, "apat_parse.c", "CheckPattern")
			if err != nil {
				s.Undecided(nil, key, 0, err.Error())
				return
			}
			pos := fmt.Sprintf("pkg/obiapat/apat_parse.c:%d", cLine(fn))
			// the pointer that walks the text: the variable the switch reads through '*'
			var sw *cnode
			ptr := ""
			fn.walk(func(n *cnode, _ []*cnode) {
				if sw == nil && n.Kind == "SwitchStmt" && len(n.Inner) >= 2 {
					cond := stripCasts(n.Inner[0])
					if cond != nil && cond.Kind == "UnaryOperator" && cond.Op == "*" && len(cond.Inner) == 1 {
						if v := cVarName(cond.Inner[0]); v != "" {
							sw, ptr = n, v
						}
					}
				}
			})
			if sw == nil {
				o := s.add(Undecided, nil, key, 0, "no switch on the current character (*p) found in CheckPattern")
				o.Pos = pos
				return
			}
			refused := map[string]bool{}
			// refusals of a condition in the clause of character cur (0: before the loop)
			var collect func(cond *cnode, cur int64)
			collect = func(cond *cnode, cur int64) {
				cond = stripCasts(cond)
				if cond == nil {
					return
				}
				switch {
				case cond.Kind == "BinaryOperator" && cond.Op == "||" && len(cond.Inner) == 2:
					collect(cond.Inner[0], cur)
					collect(cond.Inner[1], cur)
				case cond.Kind == "BinaryOperator" && cond.Op == "==" && len(cond.Inner) == 2:
					for i := 0; i < 2; i++ {
						k, ok := cgDeref(cond.Inner[i], ptr)
						x, ok2 := cIntValue(cond.Inner[1-i])
						if !ok || !ok2 {
							continue
						}
						switch {
						case k == 0 && cur == 0:
							refused["first:"+cgChar(x)] = true
						case k == 1 && cur != 0:
							refused[cgChar(cur)+cgChar(x)] = true
						case k == -1 && cur != 0:
							refused[cgChar(x)+cgChar(cur)] = true
						}
					}
				case cond.Kind == "UnaryOperator" && cond.Op == "!" && len(cond.Inner) == 1:
					if k, ok := cgDeref(cond.Inner[0], ptr); ok && k == 1 && cur != 0 {
						refused[cgChar(cur)+"end"] = true
					}
				}
			}
			returnsZero := func(n *cnode) bool {
				z := false
				n.walk(func(m *cnode, _ []*cnode) {
					if m.Kind == "ReturnStmt" && len(m.Inner) == 1 {
						if v, ok := cIntValue(m.Inner[0]); ok && v == 0 {
							z = true
						}
					}
				})
				return z
			}
			ifRefusal := func(n *cnode, cur int64) {
				n.walk(func(m *cnode, _ []*cnode) {
					if m.Kind == "IfStmt" && len(m.Inner) >= 2 && returnsZero(m.Inner[1]) {
						collect(m.Inner[0], cur)
					}
				})
			}
			// before the loop: the if statements of the function that are not inside the switch
			fn.walk(func(n *cnode, stack []*cnode) {
				if n.Kind != "IfStmt" || len(n.Inner) < 2 || !returnsZero(n.Inner[1]) {
					return
				}
				for _, a := range stack {
					if a == sw {
						return
					}
				}
				if n.Range.Begin.Offset < sw.Range.Begin.Offset || sw.Range.Begin.Offset == 0 {
					collect(n.Inner[0], 0)
				}
			})
			// the clauses: statements of the switch body, the current character given by the last case label
			body := sw.Inner[len(sw.Inner)-1]
			cur := int64(-1)
			clauses := 0
			for _, st := range body.Inner {
				n := st
				for n != nil && (n.Kind == "CaseStmt" || n.Kind == "DefaultStmt") {
					if n.Kind == "CaseStmt" && len(n.Inner) >= 2 {
						if v, ok := cIntValue(n.Inner[0]); ok {
							cur = v
							clauses++
						} else {
							cur = -1
						}
					} else {
						cur = -1
					}
					n = n.Inner[len(n.Inner)-1]
				}
				if n != nil && cur > 0 {
					ifRefusal(n, cur)
				}
			}
			want := []string{"!!", "!#", "##", "[]", "!end", "first:#"}
			var missing []string
			for _, w := range want {
				if !refused[w] {
					missing = append(missing, w)
				}
			}
			var have []string
			for k := range refused {
				have = append(have, k)
			}
			sort.Strings(have)
			switch {
			case clauses < 3:
				o := s.add(Undecided, nil, key, 0, "fewer than three character clauses found in the switch of CheckPattern")
				o.Pos = pos
			case len(missing) > 0:
				o := s.add(Violation, nil, key, 0, "CheckPattern accepts "+strings.Join(missing, ", ")+" (refused: "+strings.Join(have, " ")+"): the encoder and the complement cut such a text into different positions — \"AAC##CTT\" has 7 positions, its reverse complement 6: the direct primer matches nothing where its complement matches; \"!!A\" is accepted and its complement dies; a final '!' sends the splitter past the end of the text")
				o.Pos = pos
			default:
				o := s.add(Pass, nil, key, 0, "refused pairs: "+strings.Join(have, " "))
				o.Pos = pos
			}
		},
	})
}

func init() {
	register(&Rule{
		ID: "UT", Props: []string{"C10"}, Min: 1,
		Doc: `"its reported error count equals the edit distance between the pattern and that span": the span of an indel hit is re-aligned in Go against the compiled pattern (ApatPattern.accepts), which
turns a symbol of the sequence into its rank in the pattern table — symbol - 'a' — as the C encoder does (BASE_CODE, which CP holds to read u as t). Every function of pkg/obiapat (Go) that computes
such a rank from a byte reads u as t too: it assigns 't' to that byte under a test of it against 'u'. Otherwise the search finds the site of an RNA record (u matched as t) and the re-alignment counts every u
as a mismatch: AllMatches drops the site, BestMatch reports 3 errors for a budget of 1, obiannotate --pattern writes pattern_error:3 for the record and 1 for its DNA twin.`,
		Run: func(c *Ctx, s *Sink) {
			c.EachFunc([]string{"pkg/obiapat"}, func(p *packages.Package, fd *ast.FuncDecl) {
				if rel(p.PkgPath) != "pkg/obiapat" {
					return
				}
				info := p.TypesInfo
				n := 0
				var stack []ast.Node
				ast.Inspect(fd.Body, func(nd ast.Node) bool {
					if nd == nil {
						stack = stack[:len(stack)-1]
						return true
					}
					stack = append(stack, nd)
					b, ok := nd.(*ast.BinaryExpr)
					if !ok || b.Op != token.SUB {
						return true
					}
					if v, isC := constInt(info, b.Y); !isC || v != 'a' {
						return true
					}
					id, ok := ast.Unparen(b.X).(*ast.Ident)
					if !ok {
						return true
					}
					sym := info.ObjectOf(id)
					if sym == nil {
						return true
					}
					if bt, ok := sym.Type().Underlying().(*types.Basic); !ok || bt.Kind() != types.Uint8 {
						return true
					}
					// the innermost function holding the rank
					var scope ast.Node = fd.Body
					for k := len(stack) - 1; k >= 0; k-- {
						if l, ok := stack[k].(*ast.FuncLit); ok {
							scope = l.Body
							break
						}
					}
					n++
					key := fmt.Sprintf("%s:rank#%d:u-read-as-t", funcName(p, fd), n)
					reads := false
					ast.Inspect(scope, func(m ast.Node) bool {
						is, ok := m.(*ast.IfStmt)
						if !ok || is.Pos() > b.Pos() {
							return true
						}
						namesU := false
						ast.Inspect(is.Cond, func(q ast.Node) bool {
							if e, ok := q.(*ast.BinaryExpr); ok && e.Op == token.EQL {
								for i, side := range []ast.Expr{e.X, e.Y} {
									other := []ast.Expr{e.Y, e.X}[i]
									if sid, ok := ast.Unparen(side).(*ast.Ident); ok && info.ObjectOf(sid) == sym {
										if v, isC := constInt(info, other); isC && v == 'u' {
											namesU = true
										}
									}
								}
							}
							return true
						})
						if !namesU {
							return true
						}
						for _, st := range is.Body.List {
							if as, ok := st.(*ast.AssignStmt); ok && as.Tok == token.ASSIGN && len(as.Lhs) == 1 && len(as.Rhs) == 1 {
								if lid, ok := as.Lhs[0].(*ast.Ident); ok && info.ObjectOf(lid) == sym {
									if v, isC := constInt(info, as.Rhs[0]); isC && v == 't' {
										reads = true
									}
								}
							}
						}
						return true
					})
					if reads {
						s.Pass(nil, key, b.Pos(), "the symbol is read as t when it is u before its rank is taken")
					} else {
						s.Fail(nil, key, b.Pos(), "the rank of the symbol is taken as it is: u gets the rank 20, a bit no pattern position holds, while the C search reads u as t — the site of an RNA record is found by the automaton and lost (AllMatches) or reported with every u as an error (BestMatch: 3 errors for a budget of 1) by the re-alignment")
					}
					return true
				})
			})
		},
	})
}

func init() {
	register(&Rule{
		ID: "OBL", Props: []string{"C10"}, Min: 3,
		Doc: `"every reported span … its reported error count equals the edit distance between the pattern and that span": the C automaton honours the obligatory positions (#): no error on them. The Go
re-alignment of an indel hit (LocatePatternFunc fed by ApatPattern.accepts) works on the compiled pattern masked by PATMASK, which drops the obligatory bit: unless the Go side of pkg/obiapat reads that
information somewhere (the constant OBLIBIT or the field omask of the C pattern), the re-alignment may place an error on an obligatory position — the span and the error count reported contradict the
pattern (GGGCAATCCTGAGCCAG# reported on gggcaatcctgagccaT with 1 error, where the automaton found the occurrence with 2).`,
		Run: func(c *Ctx, s *Sink) {
			p := c.Pkg("pkg/obiapat")
			if p == nil {
				s.Undecided(nil, "pkg/obiapat", 0, "package not loaded")
				return
			}
			info := p.TypesInfo
			key := "pkg/obiapat.(ApatPattern).accepts:obligatory-positions-reach-the-re-alignment"
			var realign token.Pos
			reads := false
			for _, f := range p.Syntax {
				ast.Inspect(f, func(n ast.Node) bool {
					switch x := n.(type) {
					case *ast.CallExpr:
						if fn := callee(info, x); fn != nil && strings.HasPrefix(fn.Name(), "LocatePattern") && !realign.IsValid() {
							realign = x.Pos()
						}
					case *ast.Ident:
						if strings.Contains(x.Name, "OBLIBIT") {
							reads = true
						}
					case *ast.SelectorExpr:
						if x.Sel.Name == "omask" {
							reads = true
						}
					}
					return true
				})
			}
			// (2) every re-alignment is handed the obligatory positions; (3) the aligner consults them for the two errors that
			// touch a column (substitution, deletion) of each of its cell computations, and for the first row
			key2 := "pkg/obiapat:re-alignments-are-handed-the-obligatory-positions"
			calls, handed := 0, 0
			for _, f := range p.Syntax {
				ast.Inspect(f, func(n ast.Node) bool {
					if x, ok := n.(*ast.CallExpr); ok {
						if fn := callee(info, x); fn != nil && fn.Name() == "LocatePatternFunc" {
							calls++
							if sig, ok := fn.Type().(*types.Signature); ok && sig.Variadic() && len(x.Args) >= sig.Params().Len() {
								handed++
							}
						}
					}
					return true
				})
			}
			if calls > 0 {
				if handed == calls {
					s.Pass(nil, key2, realign, fmt.Sprintf("%d calls of LocatePatternFunc, each with the obligatory positions", calls))
				} else {
					s.Fail(nil, key2, realign, fmt.Sprintf("%d of the %d calls of LocatePatternFunc are not handed the obligatory positions of the pattern: the hit is re-aligned as if the pattern had none — a substitution or a deletion may land on a # position", calls-handed, calls))
				}
			}
			if fd, ap := c.FindFunc("pkg/obialign", "LocatePatternFunc"); fd != nil && fd.Type.Params != nil {
				ainfo := ap.TypesInfo
				key3 := "pkg/obialign.LocatePatternFunc:obligatory-positions-consulted-by-every-cell"
				params := flattenParams(fd.Type.Params)
				var sameObj, obligParam types.Object
				for _, prm := range params {
					if prm == nil {
						continue
					}
					o := ainfo.ObjectOf(prm)
					switch t := o.Type().Underlying().(type) {
					case *types.Signature:
						if t.Params().Len() == 2 {
							sameObj = o
						}
					case *types.Slice:
						if _, isSig := t.Elem().Underlying().(*types.Signature); isSig {
							obligParam = o
						}
					}
				}
				if sameObj != nil && obligParam != nil {
					// the local the variadic parameter is unpacked into (a func(int) bool variable assigned from it), or the parameter itself
					obligVars := map[types.Object]bool{}
					ast.Inspect(fd.Body, func(n ast.Node) bool {
						if as, ok := n.(*ast.AssignStmt); ok && len(as.Lhs) == 1 && len(as.Rhs) == 1 {
							if id, ok := as.Lhs[0].(*ast.Ident); ok {
								if o := ainfo.ObjectOf(id); o != nil {
									if sig, isSig := o.Type().Underlying().(*types.Signature); isSig && sig.Params().Len() == 1 {
										obligVars[o] = true
									}
								}
							}
						}
						return true
					})
					nsame, noblig := 0, 0
					ast.Inspect(fd.Body, func(n ast.Node) bool {
						if x, ok := n.(*ast.CallExpr); ok {
							if id, ok := ast.Unparen(x.Fun).(*ast.Ident); ok {
								o := ainfo.ObjectOf(id)
								if o == sameObj {
									nsame++
								}
								if obligVars[o] {
									noblig++
								}
							}
						}
						return true
					})
					switch {
					case nsame == 0:
						s.Undecided(nil, key3, fd.Pos(), "no call of the match function found in the aligner")
					case noblig >= 2*nsame+1:
						s.Pass(nil, key3, fd.Pos(), fmt.Sprintf("%d cell computations (calls of the match function), the obligatory positions consulted %d times (substitution and deletion of each, and the first row)", nsame, noblig))
					default:
						s.Fail(nil, key3, fd.Pos(), fmt.Sprintf("the aligner computes its cells in %d places and consults the obligatory positions %d times: each place has two errors that touch the column — a substitution and a deletion — and the first row deletes the head of the pattern: at least %d consultations are needed; with one missing, that error lands on a # position for free", nsame, noblig, 2*nsame+1))
					}
				}
			}
			switch {
			case !realign.IsValid():
				s.Pass(nil, key, 0, "the Go side does not re-align the hits")
			case reads:
				s.Pass(nil, key, realign, "the Go side reads the obligatory positions of the compiled pattern")
			default:
				s.Fail(nil, key, realign, "the hits of a pattern with indels are re-aligned in Go against the compiled pattern masked by PATMASK and nothing on the Go side reads the obligatory bit (OBLIBIT) or omask: the re-alignment may put an error on an obligatory position — obiannotate --pattern 'GGGCAATCCTGAGCCAG#' --pattern-error 2 --allows-indels reports pattern_match gggcaatcctgagccat, 1 error, on ttttgggcaatcctgagccattgcccc, where the automaton found the occurrence [4,23) with 2 errors")
			}
		},
	})
}

func init() {
	register(&Rule{
		ID: "LPR", Props: []string{"C10"}, Min: 1,
		Doc: `"its reported error count equals the edit distance between the pattern and that span": in the end-gap-free aligner LocatePatternFunc the first row — the pattern positions lying before the first
symbol of the fragment, which are deleted — is the left move of the recurrence applied from the corner: the cell of column j holds (j+1) times the cost of a gap, that cost being the constant the recurrence adds
for a gap (x := buffer[…] - 1). Read as an affine form of j, the value stored in the row -1 has the gap cost both as coefficient of j and as constant. With -j instead of -j-1 a pattern overhanging
the beginning of the fragment by k bases is charged k-1 errors: the reported count is below the edit distance of the reported span (a primer truncated by the start of the read).`,
		Run: func(c *Ctx, s *Sink) {
			fd, p := c.FindFunc("pkg/obialign", "LocatePatternFunc")
			key := "pkg/obialign.LocatePatternFunc:first-row-is-the-left-move-from-the-corner"
			if fd == nil {
				s.Undecided(nil, key, 0, "function not found")
				return
			}
			info := p.TypesInfo
			// the gap cost of the recurrence: x := buffer[…] - c  (the smallest such constant met: 1)
			gap := int64(0)
			ast.Inspect(fd.Body, func(n ast.Node) bool {
				if as, ok := n.(*ast.AssignStmt); ok && as.Tok == token.DEFINE && len(as.Lhs) == 1 && len(as.Rhs) == 1 {
					if _, ok := as.Lhs[0].(*ast.Ident); ok && gap == 0 {
						if b, ok := ast.Unparen(as.Rhs[0]).(*ast.BinaryExpr); ok && b.Op == token.SUB {
							if v, isC := constInt(info, b.Y); isC {
								if _, isIx := ast.Unparen(b.X).(*ast.IndexExpr); isIx {
									gap = -v
								}
							}
						}
					}
				}
				return true
			})
			if gap == 0 {
				s.Undecided(nil, key, fd.Pos(), "the cost of a left move (left := buffer[…] - c) was not found")
				return
			}
			// the first row: inside a for loop over j, an assignment buffer[idx] = <affine in j> that is not a constant
			var found bool
			ast.Inspect(fd.Body, func(n ast.Node) bool {
				fs, ok := n.(*ast.ForStmt)
				var loopVar types.Object
				var body *ast.BlockStmt
				if ok {
					if init, ok := fs.Init.(*ast.AssignStmt); ok && len(init.Lhs) == 1 {
						if id, ok := init.Lhs[0].(*ast.Ident); ok {
							loopVar = info.ObjectOf(id)
						}
					}
					body = fs.Body
				} else if rs, ok := n.(*ast.RangeStmt); ok && rs.Key != nil && rs.Value == nil {
					if id, ok := rs.Key.(*ast.Ident); ok {
						loopVar = info.ObjectOf(id)
					}
					body = rs.Body
				}
				if loopVar == nil || body == nil || found {
					return true
				}
				ast.Inspect(body, func(m ast.Node) bool {
					as, ok := m.(*ast.AssignStmt)
					if !ok || as.Tok != token.ASSIGN || len(as.Lhs) != 1 || len(as.Rhs) != 1 || found {
						return true
					}
					if _, isIx := as.Lhs[0].(*ast.IndexExpr); !isIx || !mentionsVar(info, as.Rhs[0], loopVar) {
						return true
					}
					if t := info.TypeOf(as.Rhs[0]); t == nil || t.String() != "int" {
						return true
					}
					// value at j = 0 and j = 1 by substitution
					eval := func(j int64) (int64, bool) {
						var ev func(e ast.Expr) (int64, bool)
						ev = func(e ast.Expr) (int64, bool) {
							e = ast.Unparen(e)
							if v, isC := constInt(info, e); isC {
								return v, true
							}
							switch x := e.(type) {
							case *ast.Ident:
								if info.ObjectOf(x) == loopVar {
									return j, true
								}
							case *ast.UnaryExpr:
								if v, ok := ev(x.X); ok {
									switch x.Op {
									case token.SUB:
										return -v, true
									case token.ADD:
										return v, true
									}
								}
							case *ast.BinaryExpr:
								a, ok1 := ev(x.X)
								b, ok2 := ev(x.Y)
								if ok1 && ok2 {
									switch x.Op {
									case token.ADD:
										return a + b, true
									case token.SUB:
										return a - b, true
									case token.MUL:
										return a * b, true
									}
								}
							}
							return 0, false
						}
						return ev(as.Rhs[0])
					}
					v0, ok0 := eval(0)
					v1, ok1 := eval(1)
					if !ok0 || !ok1 {
						return true
					}
					found = true
					if v0 == gap && v1 == 2*gap {
						s.Pass(nil, key, as.Pos(), fmt.Sprintf("column j of the first row holds (j+1) gaps of cost %d (%s)", gap, types.ExprString(as.Rhs[0])))
					} else {
						s.Fail(nil, key, as.Pos(), fmt.Sprintf("the first row stores %s: %d for the column 0 and %d for the column 1, where the recurrence charges %d for each pattern position deleted before the fragment (%d and %d): a pattern overhanging the beginning of the fragment by k bases is charged k-1 errors — the reported count is below the edit distance of the reported span", types.ExprString(as.Rhs[0]), v0, v1, gap, gap, 2*gap))
					}
					return true
				})
				return true
			})
			if !found {
				s.Undecided(nil, key, fd.Pos(), "the initialisation of the first row (a store affine in the loop variable) was not found")
			}
		},
	})
}
