package main

// OC — what obiclean writes for a sequence is what it computed in this run (C13).

import (
	"fmt"
	"go/ast"
	"go/token"
	"go/types"
	"sort"
	"strings"

	"golang.org/x/tools/go/packages"
)

func init() {
	register(&Rule{
		ID: "OC", Props: []string{"C13"}, Min: 4,
		Doc: `the status, weight and mutation maps of a sequence are written through accessor functions of pkg/obitools/obiclean that return the map held by the annotation of a string key. (1) On every
path such an accessor returns the map that IS stored under the key: a map it creates (make) is stored into annotation[key] in the same block. Converting the map[string]interface{} of a parsed
header into a fresh map without storing it back makes every later write go to a temporary: a file that already carries obiclean_* annotations keeps the statuses of the previous run. (2) Each of
those keys is deleted from every sequence (DeleteAttribute with that key, directly or through a loop over a literal list of keys) by a function reachable from CLIOBIClean: entries of a previous run
(mutations of links that no longer exist) are not part of the result.`,
		Run: runOC,
	})
}

func runOC(c *Ctx, s *Sink) {
	p := c.Pkg("pkg/obitools/obiclean")
	if p == nil {
		s.Undecided(nil, "pkg/obitools/obiclean", 0, "package not loaded")
		return
	}
	info := p.TypesInfo
	keys := map[string]bool{}
	c.EachFunc([]string{"pkg/obitools/obiclean"}, func(pp *packages.Package, fd *ast.FuncDecl) {
		if fd.Type.Results == nil || len(fd.Type.Results.List) != 1 {
			return
		}
		if _, isMap := info.TypeOf(fd.Type.Results.List[0].Type).Underlying().(*types.Map); !isMap {
			return
		}
		// the annotation variable: a local of map type indexed with a string literal
		var annot types.Object
		key := ""
		ast.Inspect(fd.Body, func(n ast.Node) bool {
			if ix, ok := n.(*ast.IndexExpr); ok {
				if bl, ok := ast.Unparen(ix.Index).(*ast.BasicLit); ok && bl.Kind == token.STRING {
					if o := rootObj(info, ix.X); o != nil {
						if _, isMap := o.Type().Underlying().(*types.Map); isMap && annot == nil {
							annot, key = o, strings.Trim(bl.Value, `"`)
						}
					}
				}
			}
			return true
		})
		if annot == nil {
			return
		}
		keys[key] = true
		// the returned variable
		var ret types.Object
		ast.Inspect(fd.Body, func(n ast.Node) bool {
			if r, ok := n.(*ast.ReturnStmt); ok && len(r.Results) == 1 {
				ret = rootObj(info, r.Results[0])
			}
			return true
		})
		okey := funcName(pp, fd) + ":returns-stored-map"
		if ret == nil {
			s.Undecided(nil, okey, fd.Pos(), "returned value is not a variable")
			return
		}
		var bad []string
		nmake := 0
		var visit func(list []ast.Stmt)
		visit = func(list []ast.Stmt) {
			for _, st := range list {
				switch x := st.(type) {
				case *ast.AssignStmt:
					if len(x.Lhs) == 1 && len(x.Rhs) == 1 && rootObj(info, x.Lhs[0]) == ret {
						if _, direct := ast.Unparen(x.Lhs[0]).(*ast.Ident); !direct {
							continue
						}
						if call, ok := ast.Unparen(x.Rhs[0]).(*ast.CallExpr); ok {
							if id, ok := call.Fun.(*ast.Ident); ok && id.Name == "make" {
								nmake++
								stored := false
								for _, st2 := range list {
									if a2, ok := st2.(*ast.AssignStmt); ok && len(a2.Lhs) == 1 && len(a2.Rhs) == 1 && st2.Pos() > st.Pos() {
										if ix, ok := ast.Unparen(a2.Lhs[0]).(*ast.IndexExpr); ok && rootObj(info, ix.X) == annot && rootObj(info, a2.Rhs[0]) == ret {
											stored = true
										}
									}
								}
								if !stored {
									bad = append(bad, c.Pos(x.Pos()))
								}
							}
						}
					}
				case *ast.IfStmt:
					visit(x.Body.List)
					switch e := x.Else.(type) {
					case *ast.BlockStmt:
						visit(e.List)
					case *ast.IfStmt:
						visit([]ast.Stmt{e})
					}
				case *ast.BlockStmt:
					visit(x.List)
				case *ast.SwitchStmt:
					for _, cl := range x.Body.List {
						visit(cl.(*ast.CaseClause).Body)
					}
				case *ast.TypeSwitchStmt:
					for _, cl := range x.Body.List {
						visit(cl.(*ast.CaseClause).Body)
					}
				case *ast.ForStmt:
					visit(x.Body.List)
				case *ast.RangeStmt:
					visit(x.Body.List)
				}
			}
		}
		visit(fd.Body.List)
		if len(bad) > 0 {
			s.Fail(nil, okey, fd.Pos(), "the map created at "+strings.Join(bad, ", ")+" is returned without being stored under \""+key+"\": what the caller writes into it is lost — a file that already holds obiclean annotations keeps the status, weight or mutation of the previous run (obiclean -r 0.1 in.fasta | obiclean: both sequences 's' instead of 'h' and 'i')")
		} else {
			s.Pass(nil, okey, fd.Pos(), fmt.Sprintf("%d created map(s), each stored under \"%s\" before being returned", nmake, key))
		}
	})
	// (2) reset of the keys
	deleted := map[string]bool{}
	c.EachFunc([]string{"pkg/obitools/obiclean"}, func(pp *packages.Package, fd *ast.FuncDecl) {
		ast.Inspect(fd.Body, func(n ast.Node) bool {
			call, ok := n.(*ast.CallExpr)
			if !ok || !strings.HasSuffix(fullName(callee(info, call)), "BioSequence).DeleteAttribute") || len(call.Args) != 1 {
				return true
			}
			arg := ast.Unparen(call.Args[0])
			if tv, ok := info.Types[arg]; ok && tv.Value != nil {
				deleted[strings.Trim(tv.Value.ExactString(), `"`)] = true
				return true
			}
			// the variable of a range over a literal list of strings
			if id, ok := arg.(*ast.Ident); ok {
				ast.Inspect(fd.Body, func(m ast.Node) bool {
					if rs, ok := m.(*ast.RangeStmt); ok && rs.Value != nil && rootObj(info, rs.Value) == info.ObjectOf(id) {
						if cl, ok := ast.Unparen(rs.X).(*ast.CompositeLit); ok {
							for _, el := range cl.Elts {
								if tv, ok := info.Types[el]; ok && tv.Value != nil {
									deleted[strings.Trim(tv.Value.ExactString(), `"`)] = true
								}
							}
						}
					}
					return true
				})
			}
			return true
		})
	})
	var ks []string
	for k := range keys {
		ks = append(ks, k)
	}
	sort.Strings(ks)
	for _, k := range ks {
		okey := "pkg/obitools/obiclean:reset:" + k
		if deleted[k] {
			s.Pass(nil, okey, 0, "the annotation of a previous run is deleted before the analysis")
		} else {
			s.Fail(nil, okey, 0, "the map annotation \""+k+"\" left by a previous run of obiclean is never deleted: its entries (statuses of other settings, mutations of links that no longer exist) are written again with the new result")
		}
	}
}
