package main

// RA — the re-alignment of a hit found with indels uses the pattern the search used, and handles every pattern length (C10).

import (
	"fmt"
	"go/ast"
	"go/token"
	"go/types"
	"strings"

	"golang.org/x/tools/go/packages"
)

func init() {
	register(&Rule{
		ID: "RA", Props: []string{"C10"}, Min: 4,
		Doc: `with indels a hit of the automaton is re-aligned (obialign.LocatePattern…) to get its span and its error count. (1) In pkg/obiapat no argument of such a call is built from the text of
the pattern (the C field cpat): the text has one byte per character, not per position — GACT[AC]CGTTCAG was re-aligned as the 12 bytes GACT[AC]CGTTC, '[' matching nothing; '#' and '!' likewise —
and the comparison it implies (IUPAC sets that intersect) is not the automaton's (the symbol of the sequence must be a member of the set of the position: an n of the sequence is a mismatch):
AllMatches lost the hit, BestMatch reported 4 errors for a budget of 1, and the same span had 1 error without indels and 0 with. One argument must derive from the compiled pattern (the C field
patcode, directly or through a method of the package that reads it). (2) In the locating function the variable returned as the end of the span receives, outside the back-tracking loop on the
pattern positions (for j > 0), a value that is not a constant — that loop does not run for a pattern of one symbol, and the span came back inverted ([4,0) for A in ccacc; obiannotate --pattern T
--allows-indels aborted on 'from: 1 greater than to: 0'). (3) In FilterBestMatch an error count (m[2]) widens the span of a hit only under a test of the indel flag: without indels the spans are exact, and
the margin dropped a hit that does not overlap its neighbour (ACGTAC, 1 mismatch, on acgtaaacgtaa: FindAllIndex=[[0 6 1] [6 12 1]], AllMatches=[[0 6 1]]).`,
		Run: runRA,
	})
}

func runRA(c *Ctx, s *Sink) {
	// (1)
	n := 0
	c.EachFunc([]string{"pkg/obiapat"}, func(p *packages.Package, fd *ast.FuncDecl) {
		info := p.TypesInfo
		defs := collectDefs(info, fd)
		k := 0
		ast.Inspect(fd.Body, func(nd ast.Node) bool {
			call, ok := nd.(*ast.CallExpr)
			if !ok {
				return true
			}
			f := callee(info, call)
			if f == nil || f.Pkg() == nil || rel(f.Pkg().Path()) != "pkg/obialign" || !strings.HasPrefix(f.Name(), "LocatePattern") {
				return true
			}
			n++
			k++
			key := fmt.Sprintf("%s:realign#%d:compiled-pattern", funcName(p, fd), k)
			usesText, usesCode := false, false
			var look func(e ast.Node, depth int)
			look = func(e ast.Node, depth int) {
				if e == nil || depth > 3 {
					return
				}
				ast.Inspect(e, func(m ast.Node) bool {
					switch x := m.(type) {
					case *ast.SelectorExpr:
						switch x.Sel.Name {
						case "cpat":
							usesText = true
						case "patcode":
							usesCode = true
						}
					case *ast.Ident:
						for _, d := range defs[info.ObjectOf(x)] {
							if d != nil && d.Pos() < call.Pos() {
								look(d, depth+1)
							}
						}
					case *ast.CallExpr:
						if g := callee(info, x); g != nil && g.Pkg() != nil && rel(g.Pkg().Path()) == "pkg/obiapat" {
							if gd, gp := c.DeclOf(g); gd != nil && gd.Body != nil && depth < 2 {
								ast.Inspect(gd.Body, func(q ast.Node) bool {
									if sel, ok := q.(*ast.SelectorExpr); ok {
										switch sel.Sel.Name {
										case "cpat":
											usesText = true
										case "patcode":
											usesCode = true
										}
									}
									return true
								})
								_ = gp
							}
						}
					}
					return true
				})
			}
			for _, a := range call.Args {
				look(a, 0)
			}
			switch {
			case usesText:
				s.Fail(nil, key, call.Pos(), "the hit is re-aligned with the text of the pattern (cpat) cut at its number of positions: a bracket class, '#' or '!' shifts and truncates it (GACT[AC]CGTTCAG, one deletion, budget 1: AllMatches=[] and BestMatch=(5,13,4,true) instead of [5 16 1]), and the IUPAC comparison of the re-alignment is not the automaton's (an n of the sequence: 1 error without indels, 0 with)")
			case !usesCode:
				s.Fail(nil, key, call.Pos(), "no argument of the re-alignment derives from the compiled pattern (patcode): the definition of a match used to locate the hit is not the one used to find it")
			default:
				s.Pass(nil, key, call.Pos(), "the re-alignment is driven by the compiled pattern")
			}
			return true
		})
	})
	if n == 0 {
		s.Undecided(nil, "pkg/obiapat:realign", 0, "no call of obialign.LocatePattern… in pkg/obiapat")
	}
	// (2)
	c.EachFunc([]string{"pkg/obialign"}, func(p *packages.Package, fd *ast.FuncDecl) {
		if !strings.HasPrefix(fd.Name.Name, "LocatePattern") || fd.Type.Results == nil || fd.Type.Results.NumFields() != 3 {
			return
		}
		info := p.TypesInfo
		// the back-tracking loop: for j > 0 where j is not the loop's own counter (no Init/Post)
		var loop *ast.ForStmt
		for _, st := range fd.Body.List {
			if f, ok := st.(*ast.ForStmt); ok && f.Init == nil && f.Post == nil && f.Cond != nil {
				if b, ok := f.Cond.(*ast.BinaryExpr); ok && b.Op == token.GTR {
					if v, isC := constInt(info, b.Y); isC && v == 0 {
						loop = f
					}
				}
			}
		}
		var ret *ast.ReturnStmt
		for _, st := range fd.Body.List {
			if r, ok := st.(*ast.ReturnStmt); ok && len(r.Results) == 3 {
				ret = r
			}
		}
		if ret == nil {
			return // a wrapper
		}
		key := funcName(p, fd) + ":end-defined-for-one-symbol"
		if loop == nil {
			s.Pass(nil, key, fd.Pos(), "no back-tracking loop conditioned on the number of remaining pattern positions")
			return
		}
		var endObj types.Object
		ast.Inspect(ret.Results[1], func(m ast.Node) bool {
			if id, ok := m.(*ast.Ident); ok && endObj == nil {
				if v, ok := info.ObjectOf(id).(*types.Var); ok {
					endObj = v
				}
			}
			return true
		})
		if endObj == nil {
			s.Undecided(nil, key, ret.Pos(), "the end of the span is not computed from a variable")
			return
		}
		ok := false
		for _, st := range fd.Body.List {
			if st == ast.Stmt(loop) {
				continue
			}
			ast.Inspect(st, func(m ast.Node) bool {
				as, isAs := m.(*ast.AssignStmt)
				if !isAs {
					return true
				}
				for i, l := range as.Lhs {
					if rootObj(info, l) != endObj || i >= len(as.Rhs) {
						continue
					}
					if _, isC := constInt(info, as.Rhs[i]); !isC {
						ok = true
					}
				}
				return true
			})
		}
		if ok {
			s.Pass(nil, key, ret.Pos(), "the end of the span is computed outside the loop over the pattern positions")
		} else {
			s.Fail(nil, key, loop.Pos(), "the end of the span is only set inside 'for j > 0', which does not run for a pattern of one symbol: LocatePattern(A, ccacc) returns from 4, to 0 — AllMatches reports [4 0 1] and obiannotate --pattern T --pattern-error 1 --allows-indels aborts on 'from: 1 greater than to: 0'")
		}
	})
	// (3)
	if fd, p := c.FindFunc("pkg/obiapat", "(ApatPattern).FilterBestMatch"); fd != nil {
		info := p.TypesInfo
		key := "pkg/obiapat.(ApatPattern).FilterBestMatch:margin-only-with-indels"
		nuse, bad := 0, token.NoPos
		var stack []ast.Node
		ast.Inspect(fd.Body, func(nd ast.Node) bool {
			if nd == nil {
				stack = stack[:len(stack)-1]
				return true
			}
			stack = append(stack, nd)
			ix, ok := nd.(*ast.IndexExpr)
			if !ok {
				return true
			}
			if v, isC := constInt(info, ix.Index); !isC || v != 2 {
				return true
			}
			if arr, ok := info.TypeOf(ix.X).Underlying().(*types.Array); !ok || arr.Len() != 3 {
				return true
			}
			// a direct comparison of two error counts (the 'better' test) is not a margin
			if par, ok := stack[len(stack)-2].(*ast.BinaryExpr); ok {
				switch par.Op {
				case token.LSS, token.LEQ, token.GTR, token.GEQ, token.EQL, token.NEQ:
					_, lx := ast.Unparen(par.X).(*ast.IndexExpr)
					_, ly := ast.Unparen(par.Y).(*ast.IndexExpr)
					if lx && ly {
						return true
					}
				}
			}
			// an assignment target / plain copy of a hit is not a margin either: only arithmetic or a returned value
			arith := false
			for k := len(stack) - 2; k >= 0; k-- {
				switch x := stack[k].(type) {
				case *ast.BinaryExpr:
					if x.Op == token.ADD || x.Op == token.SUB {
						arith = true
					}
				case *ast.ReturnStmt:
					if _, inLit := enclosingLit(stack[:k]); inLit {
						arith = true
					}
				}
			}
			if !arith {
				return true
			}
			nuse++
			guarded := false
			for k := len(stack) - 2; k >= 0; k-- {
				if ifs, ok := stack[k].(*ast.IfStmt); ok && k+1 < len(stack) && stack[k+1] == ast.Node(ifs.Body) {
					if strings.Contains(strings.ToLower(types.ExprString(ifs.Cond)), "indel") {
						guarded = true
					}
				}
			}
			if !guarded && !bad.IsValid() {
				bad = ix.Pos()
			}
			return true
		})
		switch {
		case bad.IsValid():
			s.Fail(nil, key, bad, "the span of a hit is widened by its error count whether or not indels are allowed: in mismatch-only mode the spans are exact, and a hit that starts where the previous one ends is taken for an overlap and dropped (ACGTAC, 1 mismatch, on acgtaaacgtaa: AllMatches=[[0 6 1]] where FindAllIndex=[[0 6 1] [6 12 1]])")
		default:
			s.Pass(nil, key, fd.Pos(), fmt.Sprintf("%d use(s) of an error count as a margin, each under a test of the indel flag", nuse))
		}
	}
}

func enclosingLit(stack []ast.Node) (*ast.FuncLit, bool) {
	for k := len(stack) - 1; k >= 0; k-- {
		if l, ok := stack[k].(*ast.FuncLit); ok {
			return l, true
		}
	}
	return nil, false
}
