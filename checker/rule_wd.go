package main

// WD — a file written by the pipeline is complete before it is read back (C06: on-disk mode).
//
// ISequenceChunkOnDisk writes each chunk to a file through WriterDispatcher and
// reads the files back as soon as WriterDispatcher returns.  The chain that
// makes this safe is checked link by link:
//  WD-1 : in every writer that hands its chunks to WriteSeqFileChunk and returns
//         a pass-through iterator, the goroutine that closes that iterator
//         closes the chunk channel first, then waits for the completion signal
//         of the chunk writer, and only then closes the iterator;
//  WD-2 : in WriteSeqFileChunk that signal is raised after writer.Close() (and
//         after the last Write) on the path of the writing goroutine;
//  WD-3 : in WriterDispatcher every job drains the iterator returned by the
//         formatter before it calls Done, and the function returns after Wait;
//  WD-4 : in ISequenceChunkOnDisk the files are listed and read after the call
//         to WriterDispatcher.

import (
	"fmt"
	"go/ast"
	"go/token"
	"go/types"
	"strings"

	"golang.org/x/tools/go/packages"
)

func init() {
	register(&Rule{
		ID: "WD", Props: []string{"C06"}, Min: 5,
		Doc: `written before read back: (1) a writer built on WriteSeqFileChunk closes its pass-through iterator only after it closed the chunk channel and received the chunk writer's
completion signal; (2) WriteSeqFileChunk raises that signal after the last Write and after Close; (3) each WriterDispatcher job drains the formatter's iterator before Done and the
dispatcher returns after Wait; (4) ISequenceChunkOnDisk lists and reads the chunk files after WriterDispatcher returned. Otherwise the on-disk dereplication reads truncated or empty
chunk files on some schedules: records are lost silently or an empty batch panics.`,
		Run: runWD,
	})
}

func runWD(c *Ctx, s *Sink) {
	// WD-2
	fd, p := c.FindFunc("pkg/obiformats", "WriteSeqFileChunk")
	key2 := "pkg/obiformats.WriteSeqFileChunk:signal-after-close"
	var signalType types.Type
	if fd == nil {
		s.Undecided(nil, key2, 0, "function not found")
	} else {
		info := p.TypesInfo
		res := fd.Type.Results
		nres := 0
		if res != nil {
			for _, f := range res.List {
				k := len(f.Names)
				if k == 0 {
					k = 1
				}
				nres += k
			}
		}
		if nres < 2 {
			s.Fail(nil, key2, fd.Pos(), "WriteSeqFileChunk returns only the chunk channel: nothing tells its caller when the chunks have been written and the file closed, so no consumer can wait for the file to be complete")
		} else {
			signalType = info.TypeOf(res.List[len(res.List)-1].Type)
			// the goroutine: order of Write / Close / signal (close(ch) or Done())
			var lit *ast.BlockStmt
			wdDefs0 := collectDefs(info, fd)
			ast.Inspect(fd.Body, func(n ast.Node) bool {
				if g, ok := n.(*ast.GoStmt); ok && lit == nil {
					if body, binfo := c.goTarget(info, wdDefs0, g); body != nil {
						lit, info = body, binfo
					}
				}
				return true
			})
			if lit == nil {
				s.Undecided(nil, key2, fd.Pos(), "no writing goroutine")
			} else {
				var lastWrite, closePos, sigPos token.Pos
				wdDefs := collectDefs(info, fd)
				for _, st := range lit.List {
					ast.Inspect(st, func(n ast.Node) bool {
						call, ok := n.(*ast.CallExpr)
						if !ok {
							return true
						}
						// a helper that receives the sink and writes to it
						if body, cinfo, bind := c.calleeSource(info, wdDefs, call); body != nil {
							for po, arg := range bind {
								if tv, ok := info.Types[arg]; ok && sinkTypes[sinkTypeName(tv.Type)] {
									ast.Inspect(body, func(k ast.Node) bool {
										if c2, ok := k.(*ast.CallExpr); ok {
											if s2, ok := c2.Fun.(*ast.SelectorExpr); ok && rootObj(cinfo, s2.X) == po {
												switch s2.Sel.Name {
												case "Write":
													lastWrite = call.Pos()
												case "Close":
													closePos = call.Pos()
												}
											}
										}
										return true
									})
								}
							}
						}
						if sel, ok := call.Fun.(*ast.SelectorExpr); ok {
							if tv, ok := info.Types[sel.X]; ok && sinkTypes[sinkTypeName(tv.Type)] {
								switch sel.Sel.Name {
								case "Write":
									lastWrite = call.Pos()
								case "Close":
									closePos = call.Pos()
								}
							}
						}
						return true
					})
					// signal: top-level statement close(x) / x.Done() with x of the signal's type
					if es, ok := st.(*ast.ExprStmt); ok {
						if call, ok := es.X.(*ast.CallExpr); ok {
							if id, ok := call.Fun.(*ast.Ident); ok && id.Name == "close" && len(call.Args) == 1 {
								if _, isChan := info.TypeOf(call.Args[0]).Underlying().(*types.Chan); isChan {
									sigPos = call.Pos()
								}
							}
							if sel, ok := call.Fun.(*ast.SelectorExpr); ok && sel.Sel.Name == "Done" && isWaitGroup(info.TypeOf(sel.X)) {
								sigPos = call.Pos()
							}
						}
					}
				}
				switch {
				case sigPos == token.NoPos:
					s.Fail(nil, key2, lit.Pos(), "the writing goroutine never raises the completion signal as a last top-level statement")
				case closePos == token.NoPos || lastWrite == token.NoPos:
					s.Undecided(nil, key2, lit.Pos(), "Write or Close on the output not found")
				case sigPos < closePos || sigPos < lastWrite:
					s.Fail(nil, key2, sigPos, "the completion signal is raised before the last Write / before Close: the file may still be incomplete when the waiter is released")
				default:
					s.Pass(nil, key2, sigPos, "signal raised after the last Write and after Close")
				}
			}
		}
	}
	// WD-1
	c.EachFunc([]string{"pkg/obiformats"}, func(p *packages.Package, fd *ast.FuncDecl) {
		info := p.TypesInfo
		var chunkObj, sigObj types.Object
		ast.Inspect(fd.Body, func(n ast.Node) bool {
			as, ok := n.(*ast.AssignStmt)
			if !ok || len(as.Rhs) != 1 {
				return true
			}
			call, ok := ast.Unparen(as.Rhs[0]).(*ast.CallExpr)
			if !ok || !isCallTo(info, call, "pkg/obiformats.WriteSeqFileChunk") {
				return true
			}
			if id, ok := as.Lhs[0].(*ast.Ident); ok {
				chunkObj = info.ObjectOf(id)
			}
			if len(as.Lhs) > 1 {
				if id, ok := as.Lhs[1].(*ast.Ident); ok && id.Name != "_" {
					sigObj = info.ObjectOf(id)
				}
			}
			return true
		})
		if chunkObj == nil {
			return
		}
		fname := funcName(p, fd)
		key := fname + ":close-after-written"
		// the returned iterator
		var iterObj types.Object
		ast.Inspect(fd.Body, func(n ast.Node) bool {
			if r, ok := n.(*ast.ReturnStmt); ok && len(r.Results) > 0 {
				if id, ok := ast.Unparen(r.Results[0]).(*ast.Ident); ok && id.Name != "nil" {
					if o := info.ObjectOf(id); o != nil && strings.HasSuffix(types.TypeString(o.Type(), nil), "obiiter.IBioSequence") {
						iterObj = o
					}
				}
			}
			return true
		})
		if iterObj == nil {
			return // does not return a pass-through iterator
		}
		// the closer goroutine: the literal that closes iterObj
		found := false
		ast.Inspect(fd.Body, func(n ast.Node) bool {
			lit, ok := n.(*ast.FuncLit)
			if !ok || found {
				return true
			}
			var closeChunk, waitSig, closeIter token.Pos
			for _, st := range lit.Body.List {
				ast.Inspect(st, func(m ast.Node) bool {
					switch x := m.(type) {
					case *ast.CallExpr:
						if id, ok := x.Fun.(*ast.Ident); ok && id.Name == "close" && len(x.Args) == 1 && rootObj(info, x.Args[0]) == chunkObj {
							closeChunk = x.Pos()
						}
						if sel, ok := x.Fun.(*ast.SelectorExpr); ok && rootObj(info, sel.X) == iterObj && (sel.Sel.Name == "Close" || sel.Sel.Name == "WaitAndClose") {
							if closeIter == token.NoPos {
								closeIter = x.Pos()
							}
						}
						if sel, ok := x.Fun.(*ast.SelectorExpr); ok && sigObj != nil && rootObj(info, sel.X) == sigObj && sel.Sel.Name == "Wait" {
							waitSig = x.Pos()
						}
					case *ast.UnaryExpr:
						if x.Op == token.ARROW && sigObj != nil && rootObj(info, x.X) == sigObj {
							waitSig = x.Pos()
						}
					}
					return true
				})
			}
			if closeIter == token.NoPos {
				return true
			}
			found = true
			switch {
			case closeChunk == token.NoPos:
				s.Fail(nil, key, lit.Pos(), "the goroutine that closes the returned iterator never closes the chunk channel")
			case closeChunk > closeIter:
				s.Fail(nil, key, closeIter, fmt.Sprintf("the returned iterator is closed (%s) before the chunk channel is (%s): its consumer sees the end of the data while chunks are still waiting to be written and the file is not closed — a consumer that reads the file back (on-disk dereplication) gets a truncated or empty file on some schedules", c.Pos(closeIter), c.Pos(closeChunk)))
			case sigObj == nil || waitSig == token.NoPos || waitSig < closeChunk || waitSig > closeIter:
				s.Fail(nil, key, closeIter, "the returned iterator is closed without waiting, between close(chunk channel) and Close(), for the chunk writer's completion signal: the file may not be flushed and closed when the consumer sees the end of the data")
			default:
				s.Pass(nil, key, closeIter, "close(chunks) → wait for the chunk writer → close the iterator")
			}
			return true
		})
		if !found {
			s.Undecided(nil, key, fd.Pos(), "no goroutine closing the returned iterator was found")
		}
	})
	_ = signalType
	// WD-3
	fd, p = c.FindFunc("pkg/obiformats", "WriterDispatcher")
	key3 := "pkg/obiformats.WriterDispatcher:drain-before-done"
	if fd == nil {
		s.Undecided(nil, key3, 0, "function not found")
	} else {
		info := p.TypesInfo
		// job literal: the one that calls the formatter parameter
		var formater types.Object
		for _, f := range fd.Type.Params.List {
			for _, id := range f.Names {
				if _, ok := info.TypeOf(f.Type).Underlying().(*types.Signature); ok {
					formater = info.ObjectOf(id)
				}
			}
		}
		ok3 := false
		msg := "no job calling the formatter found"
		ast.Inspect(fd.Body, func(n ast.Node) bool {
			lit, ok := n.(*ast.FuncLit)
			if !ok {
				return true
			}
			var outObj types.Object
			var callPos, drainPos, donePos token.Pos
			for _, st := range lit.Body.List {
				if as, ok := st.(*ast.AssignStmt); ok && len(as.Rhs) == 1 {
					if call, ok := as.Rhs[0].(*ast.CallExpr); ok {
						if id, ok := call.Fun.(*ast.Ident); ok && info.ObjectOf(id) == formater {
							if oid, ok := as.Lhs[0].(*ast.Ident); ok {
								outObj = info.ObjectOf(oid)
								callPos = call.Pos()
							}
						}
					}
				}
				if es, ok := st.(*ast.ExprStmt); ok {
					if call, ok := es.X.(*ast.CallExpr); ok {
						if sel, ok := call.Fun.(*ast.SelectorExpr); ok {
							if outObj != nil && rootObj(info, sel.X) == outObj && (sel.Sel.Name == "Recycle" || sel.Sel.Name == "Consume") {
								drainPos = call.Pos()
							}
							if sel.Sel.Name == "Done" && isWaitGroup(info.TypeOf(sel.X)) {
								donePos = call.Pos()
							}
						}
					}
				}
			}
			if callPos == token.NoPos {
				return true
			}
			switch {
			case drainPos == token.NoPos:
				msg = "the job does not drain the iterator returned by the formatter: Done() is signalled while the file is being written"
			case donePos == token.NoPos || donePos < drainPos:
				msg = "the job calls Done() before the formatter's iterator is drained"
			default:
				ok3 = true
			}
			return false
		})
		// Wait is the last statement
		last := fd.Body.List[len(fd.Body.List)-1]
		waitLast := false
		if es, ok := last.(*ast.ExprStmt); ok {
			if call, ok := es.X.(*ast.CallExpr); ok {
				if sel, ok := call.Fun.(*ast.SelectorExpr); ok && sel.Sel.Name == "Wait" && isWaitGroup(info.TypeOf(sel.X)) {
					waitLast = true
				}
			}
		}
		switch {
		case !ok3:
			s.Fail(nil, key3, fd.Pos(), msg)
		case !waitLast:
			s.Fail(nil, key3, fd.Pos(), "WriterDispatcher does not end with Wait(): it returns while jobs are still writing")
		default:
			s.Pass(nil, key3, fd.Pos(), "each job drains the formatter's iterator before Done; the dispatcher returns after Wait")
		}
	}
	// WD-4
	fd, p = c.FindFunc("pkg/obichunk", "ISequenceChunkOnDisk")
	key4 := "pkg/obichunk.ISequenceChunkOnDisk:read-after-dispatch"
	if fd == nil {
		s.Undecided(nil, key4, 0, "function not found")
	} else {
		info := p.TypesInfo
		var dispPos, firstRead token.Pos
		for _, st := range fd.Body.List {
			if es, ok := st.(*ast.ExprStmt); ok {
				if call, ok := es.X.(*ast.CallExpr); ok && isCallTo(info, call, "pkg/obiformats.WriterDispatcher") {
					dispPos = call.Pos()
				}
			}
		}
		ast.Inspect(fd.Body, func(n ast.Node) bool {
			if call, ok := n.(*ast.CallExpr); ok {
				if isCallTo(info, call, "pkg/obiformats.ReadSequencesFromFile") || isCallTo(info, call, "pkg/obichunk.find") {
					if firstRead == token.NoPos || call.Pos() < firstRead {
						firstRead = call.Pos()
					}
				}
			}
			return true
		})
		switch {
		case dispPos == token.NoPos:
			s.Fail(nil, key4, fd.Pos(), "WriterDispatcher is not called as a top-level (blocking) statement of ISequenceChunkOnDisk: the files are read while they are written")
		case firstRead == token.NoPos:
			s.Undecided(nil, key4, fd.Pos(), "no read of the chunk files found")
		case firstRead < dispPos:
			s.Fail(nil, key4, firstRead, "chunk files are listed or read before WriterDispatcher has returned")
		default:
			s.Pass(nil, key4, dispPos, "chunk files listed and read after the blocking call of WriterDispatcher")
		}
	}
}

func init() {
	register(&Rule{
		ID: "WD-5", Props: []string{"C04", "C06", "C18"}, Min: 2,
		Doc: `the sibling of WD-1 for the writers that have their own writing goroutine (WriteJSON, WriteCSV): in the goroutine that ends the iterator the function returns (a call of WaitAndClose on
it), that call comes after the chunk channel is closed (close(ch)) and after the writing goroutine has been waited for (a Wait on the WaitGroup it signals): ended first, a consumer that
drains the iterator finds the destination empty and not closed (0 bytes for JSON and CSV, where FASTA is complete) — the repair 3239e12 reordered the FASTA and FASTQ writers only.`,
		Run: func(c *Ctx, s *Sink) {
			c.EachFunc([]string{"pkg/obiformats"}, func(p *packages.Package, fd *ast.FuncDecl) {
				if rel(p.PkgPath) != "pkg/obiformats" || !strings.HasPrefix(fd.Name.Name, "Write") {
					return
				}
				info := p.TypesInfo
				ast.Inspect(fd.Body, func(nd ast.Node) bool {
					g, ok := nd.(*ast.GoStmt)
					if !ok {
						return true
					}
					lit, ok := g.Call.Fun.(*ast.FuncLit)
					if !ok {
						// go f(), f a local variable bound to one function literal
						if id, isId := g.Call.Fun.(*ast.Ident); isId {
							lit = localFuncLits(info, fd.Body)[info.ObjectOf(id)]
						}
						if lit == nil {
							return true
						}
					}
					var wac, cl, wt token.Pos
					ast.Inspect(lit.Body, func(m ast.Node) bool {
						call, ok := m.(*ast.CallExpr)
						if !ok {
							return true
						}
						if id, ok := call.Fun.(*ast.Ident); ok && id.Name == "close" && !cl.IsValid() {
							cl = call.Pos()
						}
						fn := fullName(callee(info, call))
						if strings.HasSuffix(fn, "/pkg/obiiter.(IBioSequence).WaitAndClose") && !wac.IsValid() {
							wac = call.Pos()
						}
						if fn == "sync.(WaitGroup).Wait" && !wt.IsValid() {
							wt = call.Pos()
						}
						return true
					})
					if !wac.IsValid() || !cl.IsValid() || !wt.IsValid() {
						return true
					}
					key := funcName(p, fd) + ":iterator-ended-after-the-file-is-written"
					if cl < wac && wt < wac {
						s.Pass(nil, key, wac, "the iterator is ended after the chunk channel is closed and the writing goroutine has finished")
					} else {
						s.Fail(nil, key, wac, "the returned iterator is ended before the chunks are all written and the destination closed: a consumer that drains it finds 0 bytes in the destination (JSON, CSV) where the FASTA writer's is complete and closed")
					}
					return true
				})
			})
		},
	})
}
