package main

// W-3 — separator/emptiness coherence in the JSON writer (C04).

import (
	"fmt"
	"go/ast"
	"go/constant"
	"go/token"
	"go/types"
	"strings"

	"golang.org/x/tools/go/packages"
)

func init() {
	register(&Rule{
		ID: "W-3", Props: []string{"C04"}, Min: 1,
		Doc: `separator coherence: a write of a constant separator (',' …) to the output sink that is guarded by a condition must be guarded by "payload has been emitted before
and the current payload is not empty": the guard (with its enclosing guards) must not depend on the batch number or on the re-sequencer counter, must read a variable that is
updated in the same block after the payload write (so it counts emitted payloads), and an enclosing condition must test that the payload is non-empty (len(…) > 0).
A separator driven by the batch number yields ',\n,\n' or a leading ',' as soon as a batch is empty.`,
		Run: runW3,
	})
}

func constSeparator(info *types.Info, e ast.Expr) (string, bool) {
	e = ast.Unparen(e)
	if call, ok := e.(*ast.CallExpr); ok && len(call.Args) == 1 {
		if tv, ok := info.Types[call.Fun]; ok && tv.IsType() {
			e = ast.Unparen(call.Args[0])
		}
	}
	tv, ok := info.Types[e]
	if !ok || tv.Value == nil || tv.Value.Kind() != constant.String {
		return "", false
	}
	s := constant.StringVal(tv.Value)
	if !strings.Contains(s, ",") {
		return "", false
	}
	for _, r := range s {
		if r != ',' && r != '\n' && r != ' ' && r != '\t' && r != '\r' {
			return "", false
		}
	}
	return s, true
}

func runW3(c *Ctx, s *Sink) {
	reseqCounters := map[types.Object]bool{}
	for _, r := range allReseq(c) {
		reseqCounters[r.next] = true
	}
	c.EachFunc([]string{"pkg/obiformats"}, func(p *packages.Package, fd *ast.FuncDecl) {
		if !weScope(c, p, fd) {
			return
		}
		info := p.TypesInfo
		defs := collectDefs(info, fd)
		n := 0
		var stack []ast.Node
		var visit func(nd ast.Node)
		visit = func(nd ast.Node) {
			if nd == nil {
				return
			}
			stack = append(stack, nd)
			defer func() { stack = stack[:len(stack)-1] }()
			if ifs, ok := nd.(*ast.IfStmt); ok && len(ifs.Body.List) == 1 && ifs.Else == nil {
				if es, ok := ifs.Body.List[0].(*ast.ExprStmt); ok {
					if call, ok := es.X.(*ast.CallExpr); ok && len(call.Args) == 1 {
						if _, ok := constSeparator(info, call.Args[0]); ok {
							// in-memory sinks are formatters, not the output stream
							inMem := false
							if sel, ok := call.Fun.(*ast.SelectorExpr); ok && inMemorySink(info, defs, sel.X) {
								inMem = true
							}
							if sel, ok := call.Fun.(*ast.SelectorExpr); ok {
								if tv, ok := info.Types[sel.X]; ok {
									switch sinkTypeName(tv.Type) {
									case "bytes.Buffer", "strings.Builder":
										inMem = true
									}
								}
							}
							if !inMem {
								n++
								key := fmt.Sprintf("%s:separator#%d", funcName(p, fd), n)
								msg := w3Check(info, fd, stack, ifs, reseqCounters)
								if msg == "" {
									s.Pass(nil, key, ifs.Pos(), "separator guarded by 'a payload was already emitted' inside a non-emptiness test of the current payload; independent of the batch number")
								} else {
									s.Fail(nil, key, ifs.Pos(), msg)
								}
							}
						}
					}
				}
			}
			var children []ast.Node
			ast.Inspect(nd, func(m ast.Node) bool {
				if m == nil || m == nd {
					return m == nd
				}
				children = append(children, m)
				return false
			})
			for _, ch := range children {
				visit(ch)
			}
		}
		visit(fd.Body)
	})
}

func w3Check(info *types.Info, fd *ast.FuncDecl, stack []ast.Node, ifs *ast.IfStmt, counters map[types.Object]bool) string {
	// all guards: the separator's own condition and the enclosing if conditions up to the function literal
	guards := []ast.Expr{ifs.Cond}
	var enclosingBlock *ast.BlockStmt
	for i := len(stack) - 2; i >= 0; i-- {
		if _, ok := stack[i].(*ast.FuncLit); ok {
			break
		}
		if b, ok := stack[i].(*ast.BlockStmt); ok && enclosingBlock == nil {
			enclosingBlock = b
		}
		if outer, ok := stack[i].(*ast.IfStmt); ok {
			guards = append(guards, outer.Cond)
		}
	}
	mentionsOrder := false
	for _, g := range guards {
		ast.Inspect(g, func(n ast.Node) bool {
			switch x := n.(type) {
			case *ast.SelectorExpr:
				if strings.EqualFold(x.Sel.Name, "order") {
					mentionsOrder = true
				}
			case *ast.Ident:
				if counters[info.ObjectOf(x)] {
					mentionsOrder = true
				}
			}
			return true
		})
	}
	if mentionsOrder {
		return "the separator is driven by the batch number: an empty batch (or an empty first batch) produces a dangling or leading ',' and the output is not a valid JSON array"
	}
	// a variable of the own condition updated after the payload write in the same block
	tracked := false
	var condVars []types.Object
	_ = condVars
	ast.Inspect(ifs.Cond, func(n ast.Node) bool {
		switch x := n.(type) {
		case *ast.SelectorExpr:
			// a field of a local struct variable (state.nwritten)
			if o := refObj(info, x); o != nil {
				condVars = append(condVars, o)
				return false
			}
		case *ast.Ident:
			if v, ok := info.ObjectOf(x).(*types.Var); ok && !v.IsField() {
				condVars = append(condVars, v)
			}
		}
		return true
	})
	if enclosingBlock != nil {
		after := false
		for _, st := range enclosingBlock.List {
			if st == ast.Stmt(ifs) {
				after = true
				continue
			}
			if !after {
				continue
			}
			switch x := st.(type) {
			case *ast.IncDecStmt:
				for _, v := range condVars {
					if (rootObj(info, x.X) == v || refObj(info, x.X) == v) && x.Tok == token.INC {
						tracked = true
					}
				}
			case *ast.AssignStmt:
				for _, l := range x.Lhs {
					for _, v := range condVars {
						if rootObj(info, l) == v || refObj(info, l) == v {
							tracked = true
						}
					}
				}
			}
		}
	}
	if !tracked {
		return "the separator's guard does not read a variable that is updated after each payload write in the same block: it cannot know whether something was already emitted"
	}
	nonEmpty := false
	for _, g := range guards[1:] {
		ast.Inspect(g, func(n ast.Node) bool {
			if b, ok := n.(*ast.BinaryExpr); ok && (b.Op == token.GTR || b.Op == token.NEQ) {
				if call, ok := ast.Unparen(b.X).(*ast.CallExpr); ok {
					if id, ok := call.Fun.(*ast.Ident); ok && id.Name == "len" {
						nonEmpty = true
					}
				}
			}
			return true
		})
	}
	if !nonEmpty {
		return "the separator and the payload write are not inside a test that the payload is non-empty: an empty batch writes a separator for nothing"
	}
	return ""
}
