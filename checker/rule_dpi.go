package main

// DP-imp — the statistics maps a merge exempts from the clean-up are the ones it merged (C06).

import (
	"go/ast"
	"go/token"
	"strings"
)

func init() {
	register(&Rule{
		ID: "DP-imp", Props: []string{"C06"}, Min: 1,
		Doc: `obiuniq must not depend on the order of its input, also for records that were already dereplicated. In pkg/obiseq.(*BioSequence).Merge the annotations whose key starts with the
statistics prefix (merged_) are exempted from the clean-up that drops differing values; the loop that merges the statistics maps must therefore cover every such key either record holds, not only the
requested ones: the function collects, under a positive test of that prefix on the keys of an annotation map, the names it then merges. Otherwise the merged_<k> map of an attribute that is not
requested again is kept from whichever record comes first (counts are summed, the map is not: {A:3} or {B:5} for a class of count 8, depending on the input order).`,
		Run: func(c *Ctx, s *Sink) {
			fd, p := c.FindFunc("pkg/obiseq", "(*BioSequence).Merge")
			key := "pkg/obiseq.(*BioSequence).Merge:unrequested-statistics-merged"
			if fd == nil {
				s.Undecided(nil, key, 0, "function not found")
				return
			}
			info := p.TypesInfo
			isPrefixTest := func(e ast.Expr) (positive bool, found bool) {
				neg := false
				for {
					e = ast.Unparen(e)
					if u, ok := e.(*ast.UnaryExpr); ok && u.Op == token.NOT {
						neg = !neg
						e = u.X
						continue
					}
					break
				}
				call, ok := e.(*ast.CallExpr)
				if !ok {
					return false, false
				}
				f := callee(info, call)
				if f == nil || f.Pkg() == nil || f.Pkg().Path() != "strings" {
					return false, false
				}
				switch f.Name() {
				case "HasPrefix", "CutPrefix":
					return !neg, true
				}
				return false, false
			}
			exempts, collects := false, false
			ast.Inspect(fd.Body, func(n ast.Node) bool {
				ifs, ok := n.(*ast.IfStmt)
				if !ok {
					return true
				}
				// `if !HasPrefix(k, prefix) {clean-up}` exempts; `if name, ok := CutPrefix(k, prefix); ok {…}` or `if HasPrefix(…) {…}` collects
				if pos, found := isPrefixTest(ifs.Cond); found {
					if pos {
						collects = true
					} else {
						exempts = true
					}
				}
				if as, ok := ifs.Init.(*ast.AssignStmt); ok && len(as.Rhs) == 1 {
					if _, found := isPrefixTest(as.Rhs[0]); found {
						if id, ok := ast.Unparen(ifs.Cond).(*ast.Ident); ok && len(as.Lhs) == 2 && rootObj(info, as.Lhs[1]) == info.ObjectOf(id) {
							collects = true
						}
					}
				}
				return true
			})
			switch {
			case !exempts:
				s.Pass(nil, key, fd.Pos(), "no annotation is exempted from the clean-up by its prefix")
			case collects:
				s.Pass(nil, key, fd.Pos(), "the statistics maps present in the records are collected by their prefix and merged with the requested ones")
			default:
				s.Fail(nil, key, fd.Pos(), "annotations starting with the statistics prefix escape the clean-up of differing values but only the requested statistics are merged: the merged_<k> map of an attribute not requested again is kept from the first record of the class — obiuniq on records {count 3, merged_sample {A:3}} and {count 5, merged_sample {B:5}} gives merged_sample {A:3} or {B:5} for a count of 8 depending on the input order")
			}
			_ = strings.TrimSpace
			// DP-eq: the values of the category attributes are compared the way the classifier compares them
			key = "pkg/obiseq.(*BioSequence).Merge:category-equality-as-classifier"
			// does the classifier of the package normalise values with fmt.Sprint?
			normalises := false
			if cfd, cp := c.FindFunc("pkg/obiseq", "AnnotationClassifier"); cfd != nil {
				ast.Inspect(cfd.Body, func(n ast.Node) bool {
					if call, ok := n.(*ast.CallExpr); ok {
						if f := callee(cp.TypesInfo, call); f != nil && f.Pkg() != nil && f.Pkg().Path() == "fmt" && f.Name() == "Sprint" {
							normalises = true
						}
					}
					return true
				})
			}
			if !normalises {
				s.Pass(nil, key, fd.Pos(), "the classifier does not normalise the values it compares")
				return
			}
			// in Merge: an `if` whose body deletes from the annotations and whose condition compares two values with !=
			nsite, bad := 0, 0
			ast.Inspect(fd.Body, func(n ast.Node) bool {
				ifs, ok := n.(*ast.IfStmt)
				if !ok {
					return true
				}
				deletes := false
				for _, st := range ifs.Body.List {
					if es, ok := st.(*ast.ExprStmt); ok {
						if call, ok := es.X.(*ast.CallExpr); ok {
							if id, ok := call.Fun.(*ast.Ident); ok && id.Name == "delete" {
								deletes = true
							}
						}
					}
				}
				if !deletes {
					return true
				}
				rawNeq, sprint := false, false
				ast.Inspect(ifs.Cond, func(m ast.Node) bool {
					switch x := m.(type) {
					case *ast.BinaryExpr:
						if x.Op == token.NEQ {
							_, lid := ast.Unparen(x.X).(*ast.Ident)
							_, rid := ast.Unparen(x.Y).(*ast.Ident)
							if lid && rid {
								rawNeq = true
							}
						}
					case *ast.CallExpr:
						if f := callee(info, x); f != nil && f.Pkg() != nil && f.Pkg().Path() == "fmt" && f.Name() == "Sprint" {
							sprint = true
						}
					}
					return true
				})
				if rawNeq {
					nsite++
					if !sprint {
						bad++
					}
				}
				return true
			})
			switch {
			case nsite == 0:
				s.Undecided(nil, key, fd.Pos(), "no comparison of two annotation values guarding a delete")
			case bad > 0:
				s.Fail(nil, key, fd.Pos(), "the classifier groups the records on the written form of the category values (fmt.Sprint) while Merge compares the raw values: 1 and \"1\" fall in the same class, differ for Merge, and the category attribute is deleted — two output records end up with the same key, and a second obiuniq merges them (the command is not idempotent)")
			default:
				s.Pass(nil, key, fd.Pos(), "values equal for the classifier are equal for the merge")
			}
		},
	})
}
