package main

// DP-imp — the statistics maps a merge exempts from the clean-up are the ones it merged (C06).

import (
	"fmt"
	"go/ast"
	"go/token"
	"go/types"
	"strings"
)

func init() {
	register(&Rule{
		ID: "DP-imp", Props: []string{"C06"}, Min: 3,
		Doc: `obiuniq must not depend on the order of its input, also for records that were already dereplicated. In pkg/obiseq.(*BioSequence).Merge the annotations whose key starts with the
statistics prefix (merged_) are exempted from the clean-up that drops differing values; the loop that merges the statistics maps must therefore cover every such key either record holds, not only the
requested ones: the function collects, under a positive test of that prefix on the keys of an annotation map, the names it then merges. Otherwise the merged_<k> map of an attribute that is not
requested again is kept from whichever record comes first (counts are summed, the map is not: {A:3} or {B:5} for a class of count 8, depending on the input order). And where a class is folded
record by record ((BioSequenceSlice).Merge), that set is computed over the whole class before the first pairwise merge (a call receiving the whole slice and returning the descriptions).`,
		Run: func(c *Ctx, s *Sink) {
			fd, p := c.FindFunc("pkg/obiseq", "(*BioSequence).Merge")
			key := "pkg/obiseq.(*BioSequence).Merge:unrequested-statistics-merged"
			if fd == nil {
				s.Undecided(nil, key, 0, "function not found")
				return
			}
			info := p.TypesInfo
			isPrefixTest := func(e ast.Expr) (positive bool, found bool) {
				neg := false
				for {
					e = ast.Unparen(e)
					if u, ok := e.(*ast.UnaryExpr); ok && u.Op == token.NOT {
						neg = !neg
						e = u.X
						continue
					}
					break
				}
				call, ok := e.(*ast.CallExpr)
				if !ok {
					return false, false
				}
				f := callee(info, call)
				if f == nil || f.Pkg() == nil || f.Pkg().Path() != "strings" {
					return false, false
				}
				switch f.Name() {
				case "HasPrefix", "CutPrefix":
					return !neg, true
				}
				return false, false
			}
			exempts, collects := false, false
			// the function itself and the functions of the package it calls (the collection may be a helper)
			bodies := []ast.Node{fd.Body}
			ast.Inspect(fd.Body, func(n ast.Node) bool {
				if call, ok := n.(*ast.CallExpr); ok {
					if f := callee(info, call); f != nil && f.Pkg() != nil && rel(f.Pkg().Path()) == "pkg/obiseq" {
						if d, dp := c.DeclOf(f); d != nil && d.Body != nil && dp == p && d != fd {
							bodies = append(bodies, d.Body)
						}
					}
				}
				return true
			})
			for _, body := range bodies {
				ast.Inspect(body, func(n ast.Node) bool {
					ifs, ok := n.(*ast.IfStmt)
					if !ok {
						return true
					}
					// `if !HasPrefix(k, prefix) {clean-up}` exempts; `if name, ok := CutPrefix(k, prefix); ok {…}` or `if HasPrefix(…) {…}` collects
					if pos, found := isPrefixTest(ifs.Cond); found {
						if pos {
							collects = true
						} else {
							exempts = true
						}
					}
					if as, ok := ifs.Init.(*ast.AssignStmt); ok && len(as.Rhs) == 1 {
						if _, found := isPrefixTest(as.Rhs[0]); found {
							if id, ok := ast.Unparen(ifs.Cond).(*ast.Ident); ok && len(as.Lhs) == 2 && rootObj(info, as.Lhs[1]) == info.ObjectOf(id) {
								collects = true
							}
						}
					}
					return true
				})
			}
			// the fold over a class: the set of statistics is computed on the whole class before the first pairwise merge
			if sfd, sp := c.FindFunc("pkg/obiseq", "(BioSequenceSlice).Merge"); sfd != nil {
				sinfo := sp.TypesInfo
				k2 := "pkg/obiseq.(BioSequenceSlice).Merge:statistics-of-the-whole-class"
				var loop ast.Node
				ast.Inspect(sfd.Body, func(n ast.Node) bool {
					var lbody *ast.BlockStmt
					switch x := n.(type) {
					case *ast.RangeStmt:
						lbody = x.Body
					case *ast.ForStmt:
						lbody = x.Body
					}
					if r := n; lbody != nil && loop == nil {
						pair := false
						ast.Inspect(lbody, func(m ast.Node) bool {
							if call, ok := m.(*ast.CallExpr); ok {
								if f := callee(sinfo, call); f != nil && f.Name() == "Merge" {
									pair = true
								}
							}
							return true
						})
						if pair {
							loop = r
						}
					}
					return true
				})
				if loop == nil {
					s.Undecided(nil, k2, sfd.Pos(), "no fold of pairwise merges")
				} else {
					recv := sinfo.ObjectOf(sfd.Recv.List[0].Names[0])
					whole := false
					ast.Inspect(sfd.Body, func(n ast.Node) bool {
						call, ok := n.(*ast.CallExpr)
						if !ok || call.Pos() > loop.Pos() {
							return true
						}
						// a call given the whole receiver (sequences... or sequences) whose result has the type of the descriptions
						if t := sinfo.TypeOf(call); t == nil || !strings.HasSuffix(t.String(), "StatsOnDescriptions") {
							return true
						}
						for _, a := range call.Args {
							if id, ok := ast.Unparen(a).(*ast.Ident); ok && sinfo.ObjectOf(id) == recv {
								whole = true
							}
						}
						return true
					})
					if exempts && !whole {
						s.Fail(nil, k2, loop.Pos(), "the class is folded record by record and the statistics maps not requested again are discovered on the two records of each step only: the map carried by the third record is started after the attributes of the first two have been dropped — {sample:a}, {sample:b}, {count 3, merged_sample {c:3}} gives merged_sample {NA:2, c:3} in this order and {a:1, b:1, c:3} when the third record comes first")
					} else {
						s.Pass(nil, k2, loop.Pos(), "the statistics maps held by the records are collected over the whole class before the fold")
					}
				}
			}
			switch {
			case !exempts:
				s.Pass(nil, key, fd.Pos(), "no annotation is exempted from the clean-up by its prefix")
			case collects:
				s.Pass(nil, key, fd.Pos(), "the statistics maps present in the records are collected by their prefix and merged with the requested ones")
			default:
				s.Fail(nil, key, fd.Pos(), "annotations starting with the statistics prefix escape the clean-up of differing values but only the requested statistics are merged: the merged_<k> map of an attribute not requested again is kept from the first record of the class — obiuniq on records {count 3, merged_sample {A:3}} and {count 5, merged_sample {B:5}} gives merged_sample {A:3} or {B:5} for a count of 8 depending on the input order")
			}
			_ = strings.TrimSpace
			// DP-eq: the values of the category attributes are compared the way the classifier compares them
			key = "pkg/obiseq.(*BioSequence).Merge:category-equality-as-classifier"
			// the function through which the classifier of the package turns a value into the text it classifies on
			// (fmt.Sprint, or a helper of the package): the callee of 'val = F(value)'
			normalises := false
			normName := map[string]bool{}
			if cfd, cp := c.FindFunc("pkg/obiseq", "AnnotationClassifier"); cfd != nil {
				ast.Inspect(cfd.Body, func(n ast.Node) bool {
					as, ok := n.(*ast.AssignStmt)
					if !ok || len(as.Rhs) != 1 {
						return true
					}
					if call, ok := ast.Unparen(as.Rhs[0]).(*ast.CallExpr); ok && len(call.Args) == 1 {
						if f := callee(cp.TypesInfo, call); f != nil && f.Pkg() != nil {
							if t, ok := cp.TypesInfo.TypeOf(call).(*types.Basic); ok && t.Kind() == types.String {
								if _, isIface := cp.TypesInfo.TypeOf(call.Args[0]).Underlying().(*types.Interface); isIface {
									normalises = true
									normName[fullName(f)] = true
								}
							}
						}
					}
					return true
				})
			}
			if !normalises {
				s.Pass(nil, key, fd.Pos(), "the classifier does not normalise the values it compares")
				return
			}
			// in Merge: an `if` whose body deletes from the annotations and whose condition compares two values with !=
			nsite, bad := 0, 0
			ast.Inspect(fd.Body, func(n ast.Node) bool {
				ifs, ok := n.(*ast.IfStmt)
				if !ok {
					return true
				}
				deletes := false
				for _, st := range ifs.Body.List {
					if es, ok := st.(*ast.ExprStmt); ok {
						if call, ok := es.X.(*ast.CallExpr); ok {
							if id, ok := call.Fun.(*ast.Ident); ok && id.Name == "delete" {
								deletes = true
							}
						}
					}
				}
				if !deletes {
					return true
				}
				rawNeq, sprint := false, false
				ast.Inspect(ifs.Cond, func(m ast.Node) bool {
					switch x := m.(type) {
					case *ast.BinaryExpr:
						if x.Op == token.NEQ {
							_, lid := ast.Unparen(x.X).(*ast.Ident)
							_, rid := ast.Unparen(x.Y).(*ast.Ident)
							if lid && rid {
								rawNeq = true
							}
						}
					case *ast.CallExpr:
						if f := callee(info, x); f != nil && normName[fullName(f)] {
							sprint = true
						}
					}
					return true
				})
				if rawNeq {
					nsite++
					if !sprint {
						bad++
					}
				}
				return true
			})
			switch {
			case nsite == 0:
				s.Undecided(nil, key, fd.Pos(), "no comparison of two annotation values guarding a delete")
			case bad > 0:
				s.Fail(nil, key, fd.Pos(), "the classifier groups the records on the text of the category values (the function it calls on them) while Merge compares the raw values, or their text by another function: 1 and \"1\" fall in the same class, differ for Merge, and the category attribute is deleted — two output records end up with the same key, and a second obiuniq merges them (the command is not idempotent)")
			default:
				s.Pass(nil, key, fd.Pos(), "values equal for the classifier are equal for the merge")
			}
		},
	})
}

func init() {
	register(&Rule{
		ID: "CTX", Props: []string{"C06"}, Min: 2,
		Doc: `"independent of in-memory or on-disk mode", "exactly one record per distinct key": the key of a class is the text of its category values, and the on-disk mode writes the records to
temporary files and reads them back. The function through which the classifiers of pkg/obiseq turn a value into that text (the callee of 'val = F(value)' in AnnotationClassifier) must give the
text that is written: (1) in its type switch the clause for string does not return the value as it is — the writers replace each byte that is not valid UTF-8 by U+FFFD, so "for\xeat" and
"for\xe8t" (Latin-1) are one key once written and two in memory: obiuniq --in-memory -c sample printed two records with the same key and a merged map with twice the same entry, the default mode
one record; (2) it has a clause for float64 that does not go through fmt.Sprint — %v writes 2759204.0 as 2.759204e+06 where an int and the writers give 2759204.`,
		Run: func(c *Ctx, s *Sink) {
			cfd, cp := c.FindFunc("pkg/obiseq", "AnnotationClassifier")
			if cfd == nil {
				s.Undecided(nil, "pkg/obiseq.AnnotationClassifier:text", 0, "function not found")
				return
			}
			var norm *types.Func
			ast.Inspect(cfd.Body, func(n ast.Node) bool {
				as, ok := n.(*ast.AssignStmt)
				if !ok || len(as.Rhs) != 1 {
					return true
				}
				if call, ok := ast.Unparen(as.Rhs[0]).(*ast.CallExpr); ok && len(call.Args) == 1 {
					if f := callee(cp.TypesInfo, call); f != nil && f.Pkg() != nil {
						if _, isIface := cp.TypesInfo.TypeOf(call.Args[0]).Underlying().(*types.Interface); isIface {
							norm = f
						}
					}
				}
				return true
			})
			k1, k2 := "pkg/obiseq:category-text:string-as-written", "pkg/obiseq:category-text:float-as-written"
			if norm == nil {
				s.Undecided(nil, k1, cfd.Pos(), "the classifier does not turn its values into a text through a function")
				return
			}
			nd, np := c.DeclOf(norm)
			if nd == nil {
				// fmt.Sprint and the like: raw strings, %v floats
				s.Fail(nil, k1, cfd.Pos(), "the text of a category value is "+fullName(norm)+"(value), or the value itself for a string: bytes that are not valid UTF-8 are compared as they are in memory and as U+FFFD once written")
				s.Fail(nil, k2, cfd.Pos(), "the text of a category value is "+fullName(norm)+"(value): a float64 holding 2759204 gives 2.759204e+06, an int and the writers give 2759204 — two records with the same key")
				return
			}
			info := np.TypesInfo
			strOK, fltOK, fltSeen := true, false, false
			ast.Inspect(nd.Body, func(n ast.Node) bool {
				cc, ok := n.(*ast.CaseClause)
				if !ok {
					return true
				}
				for _, te := range cc.List {
					switch types.ExprString(te) {
					case "string":
						for _, st := range cc.Body {
							if r, ok := st.(*ast.ReturnStmt); ok && len(r.Results) == 1 {
								if _, isId := ast.Unparen(r.Results[0]).(*ast.Ident); isId {
									strOK = false
								}
							}
						}
					case "float64":
						fltSeen, fltOK = true, true
						for _, st := range cc.Body {
							ast.Inspect(st, func(m ast.Node) bool {
								if call, ok := m.(*ast.CallExpr); ok {
									if f := callee(info, call); f != nil && f.Pkg() != nil && f.Pkg().Path() == "fmt" {
										fltOK = false
									}
								}
								return true
							})
						}
					}
				}
				return true
			})
			if strOK {
				s.Pass(nil, k1, nd.Pos(), "a string goes through a function before being the key")
			} else {
				s.Fail(nil, k1, nd.Pos(), "a string is its own text: bytes that are not valid UTF-8 are compared as they are in memory and as U+FFFD once written to the temporary files or to the output — for\\xeat and for\\xe8t are two classes printed under one key in memory and one class on disk")
			}
			if fltSeen && fltOK {
				s.Pass(nil, k2, nd.Pos(), "an integral float64 gives the text of the integer")
			} else {
				s.Fail(nil, k2, nd.Pos(), "a float64 is written by fmt: 2759204 held as a float64 gives 2.759204e+06, held as an int or written by the writers 2759204 — obiuniq --in-memory -c taxid outputs two records with the same key")
			}
		},
	})
}

func init() {
	register(&Rule{
		ID: "CTX-2", Props: []string{"C06"}, Min: 3,
		Doc: `the statistics maps and the merge use the text the classifiers use, for every kind of value. In pkg/obiseq.(*BioSequence).StatsPlusOne (1) the key under which a value is counted is not
produced by a function of package fmt (fmt.Sprint(int(v)) of a float64 >= 2^63 is -9223372036854775808: -m s pooled 1e19 and 2e19 under that key while -c s kept them apart); (2) the value is not
looked up under a test of HasAnnotation() of the record: GetAttribute also answers for the identifier, the sequence and the like of a record without any annotation, and obiuniq -m id filed such
records under NA (merged_id {"NA":2,"a":1}, another map for the reversed input). In Merge (3) every comparison of two annotation values that guards a delete goes through the classifiers'
normaliser, the branch of the non-scalar values included (reflect.DeepEqual alone deleted the category attribute of a class whose members hold the same value under two Go types).`,
		Run: func(c *Ctx, s *Sink) {
			fd, p := c.FindFunc("pkg/obiseq", "(*BioSequence).StatsPlusOne")
			if fd == nil {
				s.Undecided(nil, "pkg/obiseq.(*BioSequence).StatsPlusOne", 0, "function not found")
				return
			}
			info := p.TypesInfo
			key := "pkg/obiseq.(*BioSequence).StatsPlusOne:key-text-not-by-fmt"
			bad := token.NoPos
			ast.Inspect(fd.Body, func(n ast.Node) bool {
				as, ok := n.(*ast.AssignStmt)
				if !ok || len(as.Rhs) != 1 {
					return true
				}
				if b, ok := info.TypeOf(as.Lhs[0]).(*types.Basic); !ok || b.Kind() != types.String {
					return true
				}
				if call, ok := ast.Unparen(as.Rhs[0]).(*ast.CallExpr); ok {
					if f := callee(info, call); f != nil && f.Pkg() != nil && f.Pkg().Path() == "fmt" && !bad.IsValid() {
						bad = call.Pos()
					}
				}
				return true
			})
			if bad.IsValid() {
				s.Fail(nil, key, bad, "the key of the statistics map is written by fmt (fmt.Sprint(int(v)) for a float64): another text than the one the classifiers give to the same value — 1e19 and 2e19 are both counted under -9223372036854775808 by -m while -c classifies them as 1e+19 and 2e+19")
			} else {
				s.Pass(nil, key, fd.Pos(), "the key of the statistics map never comes from package fmt")
			}
			key = "pkg/obiseq.(*BioSequence).StatsPlusOne:lookup-not-under-HasAnnotation"
			bad = token.NoPos
			ast.Inspect(fd.Body, func(n ast.Node) bool {
				ifs, ok := n.(*ast.IfStmt)
				if !ok || !strings.Contains(types.ExprString(ifs.Cond), "HasAnnotation()") {
					return true
				}
				ast.Inspect(ifs.Body, func(m ast.Node) bool {
					if call, ok := m.(*ast.CallExpr); ok {
						if f := callee(info, call); f != nil && f.Name() == "GetAttribute" && !bad.IsValid() {
							bad = call.Pos()
						}
					}
					return true
				})
				return true
			})
			if bad.IsValid() {
				s.Fail(nil, key, bad, "the value is looked up only when the record has annotations, although GetAttribute answers for id, sequence … without any: obiuniq -m id on three records without annotation gives merged_id {\"NA\":2,\"a\":1} ({\"NA\":2,\"c\":1} for the reversed input) instead of {a:1,b:1,c:1}")
			} else {
				s.Pass(nil, key, fd.Pos(), "the value is looked up whatever the record holds")
			}
			// (3)
			mfd, mp := c.FindFunc("pkg/obiseq", "(*BioSequence).Merge")
			key = "pkg/obiseq.(*BioSequence).Merge:every-delete-guard-normalised"
			if mfd == nil {
				s.Undecided(nil, key, 0, "Merge not found")
				return
			}
			minfo := mp.TypesInfo
			nsite := 0
			bad = token.NoPos
			ast.Inspect(mfd.Body, func(n ast.Node) bool {
				ifs, ok := n.(*ast.IfStmt)
				if !ok {
					return true
				}
				deletes := false
				for _, st := range ifs.Body.List {
					if es, ok := st.(*ast.ExprStmt); ok {
						if call, ok := es.X.(*ast.CallExpr); ok {
							if id, ok := call.Fun.(*ast.Ident); ok && id.Name == "delete" {
								deletes = true
							}
						}
					}
				}
				if !deletes {
					return true
				}
				// a comparison of two values: != between identifiers, or reflect.DeepEqual
				compares, normalised := false, false
				ast.Inspect(ifs.Cond, func(m ast.Node) bool {
					switch x := m.(type) {
					case *ast.BinaryExpr:
						if x.Op == token.NEQ {
							_, l := ast.Unparen(x.X).(*ast.Ident)
							_, r := ast.Unparen(x.Y).(*ast.Ident)
							if l && r {
								compares = true
							}
						}
					case *ast.CallExpr:
						if f := callee(minfo, x); f != nil {
							if fullName(f) == "reflect.DeepEqual" {
								compares = true
							}
							if f.Pkg() != nil && rel(f.Pkg().Path()) == "pkg/obiseq" && len(x.Args) == 1 {
								normalised = true
							}
						}
					}
					return true
				})
				if compares {
					nsite++
					if !normalised && !bad.IsValid() {
						bad = ifs.Pos()
					}
				}
				return true
			})
			switch {
			case nsite == 0:
				s.Undecided(nil, key, mfd.Pos(), "no comparison of two annotation values guarding a delete")
			case bad.IsValid():
				s.Fail(nil, key, bad, "a comparison of two annotation values deletes the attribute without consulting the text the classifiers compare: tag_count read from an OBI title (map[string]int) and from a JSON title (map[string]interface{}) are one class for -c tag_count and differ for reflect.DeepEqual — the merged record loses its category attribute in memory and keeps it on disk")
			default:
				s.Pass(nil, key, mfd.Pos(), fmt.Sprintf("%d comparison(s) guarding a delete, each through the classifiers' text", nsite))
			}
		},
	})
}
