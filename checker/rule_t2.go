package main

// T2 — the two-stage search of obitag2 (C15).

import (
	"fmt"
	"go/ast"
	"go/types"
	"golang.org/x/tools/go/packages"
	"strings"
)

func init() {
	register(&Rule{
		ID: "T2", Props: []string{"C15"}, Min: 2,
		Doc: `"the same answer as comparing the query with every reference": in obitag2.Identify (1) every call of the search (FindClosests) is given the whole reference database — the fields of the
database structure holding a part of it (cluster heads, one family) are named Clusters…, Famil…; the whole is Full… — and (2) no answer is taken from a table indexed by the bytes of the query
(a map whose key is the sequence converted to a string): byte equality is not the matching of the alignment (an n, or u for t, in a reference is at distance 0 too), so the ties are lost. Both
are how obitag2 is built today (a heuristic in two stages): they are recorded as known findings, construct by construct; any further restricted search is reported.`,
		Run: func(c *Ctx, s *Sink) {
			fd, p := c.FindFunc("pkg/obitools/obitag2", "Identify")
			if fd == nil {
				s.Undecided(nil, "pkg/obitools/obitag2.Identify", 0, "function not found")
				return
			}
			info := p.TypesInfo
			n := 0
			ast.Inspect(fd.Body, func(nd ast.Node) bool {
				call, ok := nd.(*ast.CallExpr)
				if !ok {
					return true
				}
				f := callee(info, call)
				if f == nil || f.Name() != "FindClosests" || len(call.Args) < 2 {
					return true
				}
				n++
				key := fmt.Sprintf("pkg/obitools/obitag2.Identify:search#%d:whole-database", n)
				src := types.ExprString(call.Args[1])
				part := ""
				ast.Inspect(call.Args[1], func(m ast.Node) bool {
					if sel, ok := m.(*ast.SelectorExpr); ok {
						nm := sel.Sel.Name
						if strings.HasPrefix(nm, "Cluster") || strings.HasPrefix(nm, "Famil") {
							part = nm
						}
					}
					return true
				})
				if part != "" {
					s.Fail(nil, key, call.Pos(), "the query is compared with "+src+" only: a reference that is neither a cluster head nor in the family proposed by the heads is never compared with it, whatever its distance — three references H1 (3 differences, family Famone), M (1 difference, family Famtwo), H2 (head of M's cluster, 7 differences): obitag2 answers H1 / Genone alpha, obitag answers M / Gentwo beta; 130 of 400 random queries differ from the exhaustive answer, 2 are assigned outside the lineage of their best reference")
				} else {
					s.Pass(nil, key, call.Pos(), "searched in "+src)
				}
				return true
			})
			key := "pkg/obitools/obitag2.Identify:exact-shortcut-by-bytes"
			found := false
			ast.Inspect(fd.Body, func(nd ast.Node) bool {
				ix, ok := nd.(*ast.IndexExpr)
				if !ok {
					return true
				}
				if _, isMap := info.TypeOf(ix.X).Underlying().(*types.Map); !isMap {
					return true
				}
				txt := types.ExprString(ix.Index)
				if strings.Contains(txt, "Sequence()") {
					found = true
					s.Fail(nil, key, ix.Pos(), "the answer is taken from a table indexed by the bytes of the query, without any search: a reference equal to the query up to an ambiguity code (distance 0 for the alignment) is not in the group — A = X (species 111), B = X with one n (species 211), query X: obitag2 answers species 111 'exact match', obitag and obitag2 without the shortcut answer the order (2 matches)")
				}
				return true
			})
			if !found {
				s.Pass(nil, key, fd.Pos(), "no table indexed by the bytes of the query")
			}
		},
	})
}

func init() {
	register(&Rule{
		ID: "T2-idx", Props: []string{"C15"}, Min: 1,
		Doc: `"the index built for a reference maps each recorded distance to the LCA of all references within that distance": obitag reads that index in the attribute obitag_ref_index. In
pkg/obitools every call of SetOBITagRefIndex stores an index computed by IndexSequence over a set of references that is not a selection made in the same function (a slice filled by append under
a condition): obireffamidx indexed the cluster heads only and stored the result in obitag_ref_index, so obitag run on its output ignored every reference that is not a head — two genera of a
family one substitution apart: species instead of family.`,
		Run: func(c *Ctx, s *Sink) {
			n := 0
			c.EachFunc([]string{"pkg/obitools"}, func(p *packages.Package, fd *ast.FuncDecl) {
				info := p.TypesInfo
				defs := collectDefs(info, fd)
				// slices filled by append under a condition
				selected := map[types.Object]bool{}
				var stack []ast.Node
				ast.Inspect(fd.Body, func(nd ast.Node) bool {
					if nd == nil {
						stack = stack[:len(stack)-1]
						return true
					}
					stack = append(stack, nd)
					as, ok := nd.(*ast.AssignStmt)
					if !ok || len(as.Lhs) != 1 || len(as.Rhs) != 1 {
						return true
					}
					call, ok := ast.Unparen(as.Rhs[0]).(*ast.CallExpr)
					if !ok {
						return true
					}
					if id, ok := call.Fun.(*ast.Ident); !ok || id.Name != "append" {
						return true
					}
					for k := len(stack) - 2; k >= 0; k-- {
						if _, isIf := stack[k].(*ast.IfStmt); isIf {
							if o := rootObj(info, as.Lhs[0]); o != nil {
								selected[o] = true
							}
						}
					}
					return true
				})
				ast.Inspect(fd.Body, func(nd ast.Node) bool {
					call, ok := nd.(*ast.CallExpr)
					if !ok || len(call.Args) != 1 {
						return true
					}
					f := callee(info, call)
					if f == nil || f.Name() != "SetOBITagRefIndex" {
						return true
					}
					n++
					key := fmt.Sprintf("%s:SetOBITagRefIndex#%d:index-over-all-references", funcName(p, fd), n)
					var src *ast.CallExpr
					if id, ok := ast.Unparen(call.Args[0]).(*ast.Ident); ok {
						for _, d := range defs[info.ObjectOf(id)] {
							if cl, ok := ast.Unparen(d).(*ast.CallExpr); ok {
								if g := callee(info, cl); g != nil && g.Name() == "IndexSequence" {
									src = cl
								}
							}
						}
					}
					switch {
					case src == nil || len(src.Args) < 2:
						s.Pass(nil, key, call.Pos(), "the index stored does not come from IndexSequence in this function")
					case selected[rootObj(info, src.Args[1])]:
						s.Fail(nil, key, call.Pos(), "the index stored in obitag_ref_index was computed over "+types.ExprString(src.Args[1])+", a selection of the references made in this function: obitag reads it as the index over all the references and ignores the others — obireffamidx | obitag assigns a query to species 30 where obitag alone and obirefidx | obitag say family 10")
					default:
						s.Pass(nil, key, call.Pos(), "the index is computed over "+types.ExprString(src.Args[1]))
					}
					return true
				})
			})
		},
	})
}
