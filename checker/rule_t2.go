package main

// T2 — the two-stage search of obitag2 (C15).

import (
	"fmt"
	"go/ast"
	"go/types"
	"strings"
)

func init() {
	register(&Rule{
		ID: "T2", Props: []string{"C15"}, Min: 2,
		Doc: `"the same answer as comparing the query with every reference": in obitag2.Identify (1) every call of the search (FindClosests) is given the whole reference database — the fields of the
database structure holding a part of it (cluster heads, one family) are named Clusters…, Famil…; the whole is Full… — and (2) no answer is taken from a table indexed by the bytes of the query
(a map whose key is the sequence converted to a string): byte equality is not the matching of the alignment (an n, or u for t, in a reference is at distance 0 too), so the ties are lost. Both
are how obitag2 is built today (a heuristic in two stages): they are recorded as known findings, construct by construct; any further restricted search is reported.`,
		Run: func(c *Ctx, s *Sink) {
			fd, p := c.FindFunc("pkg/obitools/obitag2", "Identify")
			if fd == nil {
				s.Undecided(nil, "pkg/obitools/obitag2.Identify", 0, "function not found")
				return
			}
			info := p.TypesInfo
			n := 0
			ast.Inspect(fd.Body, func(nd ast.Node) bool {
				call, ok := nd.(*ast.CallExpr)
				if !ok {
					return true
				}
				f := callee(info, call)
				if f == nil || f.Name() != "FindClosests" || len(call.Args) < 2 {
					return true
				}
				n++
				key := fmt.Sprintf("pkg/obitools/obitag2.Identify:search#%d:whole-database", n)
				src := types.ExprString(call.Args[1])
				part := ""
				ast.Inspect(call.Args[1], func(m ast.Node) bool {
					if sel, ok := m.(*ast.SelectorExpr); ok {
						nm := sel.Sel.Name
						if strings.HasPrefix(nm, "Cluster") || strings.HasPrefix(nm, "Famil") {
							part = nm
						}
					}
					return true
				})
				if part != "" {
					s.Fail(nil, key, call.Pos(), "the query is compared with "+src+" only: a reference that is neither a cluster head nor in the family proposed by the heads is never compared with it, whatever its distance — three references H1 (3 differences, family Famone), M (1 difference, family Famtwo), H2 (head of M's cluster, 7 differences): obitag2 answers H1 / Genone alpha, obitag answers M / Gentwo beta; 130 of 400 random queries differ from the exhaustive answer, 2 are assigned outside the lineage of their best reference")
				} else {
					s.Pass(nil, key, call.Pos(), "searched in "+src)
				}
				return true
			})
			key := "pkg/obitools/obitag2.Identify:exact-shortcut-by-bytes"
			found := false
			ast.Inspect(fd.Body, func(nd ast.Node) bool {
				ix, ok := nd.(*ast.IndexExpr)
				if !ok {
					return true
				}
				if _, isMap := info.TypeOf(ix.X).Underlying().(*types.Map); !isMap {
					return true
				}
				txt := types.ExprString(ix.Index)
				if strings.Contains(txt, "Sequence()") {
					found = true
					s.Fail(nil, key, ix.Pos(), "the answer is taken from a table indexed by the bytes of the query, without any search: a reference equal to the query up to an ambiguity code (distance 0 for the alignment) is not in the group — A = X (species 111), B = X with one n (species 211), query X: obitag2 answers species 111 'exact match', obitag and obitag2 without the shortcut answer the order (2 matches)")
				}
				return true
			})
			if !found {
				s.Pass(nil, key, fd.Pos(), "no table indexed by the bytes of the query")
			}
		},
	})
}
