package main

// LC — the packed cells of the LCS kernel cannot overflow, and its roles are symmetric (C09).

import (
	"fmt"
	"go/ast"
	"go/constant"
	"go/token"
	"go/types"
	"strings"
)

func init() {
	register(&Rule{
		ID: "LC", Props: []string{"C09", "C15"}, Min: 3,
		Doc: `the LCS kernel packs (score, path length) in two fields of wsize bits and ranks cells by comparing the packed words. (1) The path length given to the 'not available' and 'out of band'
sentinels (second argument of encodeValues in their initialisers) is at most 2^(wsize-1): a sentinel keeps room for the increments applied to it. (2) The kernel refuses, before filling the matrix,
pairs whose lengths add up to that sentinel length or more (a comparison of a sum of the two lengths with a constant not larger than it, in a branch that ends the call): longer real paths would rank
after the sentinel — with the former sentinel of 30000 a leading gap of 40000 gave an alignment of 30010 columns for a sequence of 40010 — and the 16-bit fields wrapped at 65535 columns, a sequence
compared with itself giving 'not found'. (3) Symmetry: when the end gaps are free only those of the sequence playing the longest are; the entry point either evaluates both assignments of the roles
under a condition on equal lengths, or chooses the roles by content — otherwise EGF(aac,aga) = (2,3) and EGF(aga,aac) = (2,4).`,
		Run: runLC,
	})
}

func runLC(c *Ctx, s *Sink) {
	p := c.Pkg("pkg/obialign")
	if p == nil {
		s.Undecided(nil, "pkg/obialign", 0, "package not loaded")
		return
	}
	info := p.TypesInfo
	constVal := func(name string) (int64, bool) {
		if k, ok := p.Types.Scope().Lookup(name).(*types.Const); ok {
			return constant.Int64Val(k.Val())
		}
		return 0, false
	}
	wsize, okW := constVal("wsize")
	// sentinels: package variables initialised with encodeValues(_, L, _)
	var sentinel int64 = -1
	nsent := 0
	for _, f := range p.Syntax {
		for _, d := range f.Decls {
			gd, ok := d.(*ast.GenDecl)
			if !ok || gd.Tok != token.VAR {
				continue
			}
			for _, sp := range gd.Specs {
				vs := sp.(*ast.ValueSpec)
				for _, v := range vs.Values {
					call, ok := ast.Unparen(v).(*ast.CallExpr)
					if !ok || len(call.Args) != 3 || !strings.HasSuffix(fullName(callee(info, call)), "/pkg/obialign.encodeValues") {
						continue
					}
					if l, ok := constInt(info, call.Args[1]); ok && l > 0 {
						nsent++
						if sentinel < 0 || l < sentinel {
							sentinel = l
						}
					}
				}
			}
		}
	}
	key := "pkg/obialign:sentinel-within-field"
	switch {
	case !okW || sentinel < 0:
		s.Undecided(nil, key, 0, "wsize or the sentinel cells not found")
	case wsize < 2 || wsize > 31 || sentinel > (int64(1)<<(wsize-1)):
		s.Fail(nil, key, 0, fmt.Sprintf("sentinel path length %d with fields of %d bits: the sentinel is not below half the capacity of the field", sentinel, wsize))
	default:
		s.Pass(nil, key, 0, fmt.Sprintf("%d sentinel cells, path length %d <= 2^%d", nsent, sentinel, wsize-1))
	}
	fd, _ := c.FindFunc("pkg/obialign", "fastLCSEGFScoreByte")
	entry, _ := c.FindFunc("pkg/obialign", "FastLCSEGFScoreByte")
	if fd == nil {
		fd = entry
	}
	key = "pkg/obialign.FastLCSEGFScoreByte:length-guard"
	if fd == nil {
		s.Undecided(nil, key, 0, "kernel not found")
		return
	}
	// (2) a guard on the sum of the two lengths
	guard := false
	defs := collectDefs(info, fd)
	isLenOfParam := func(e ast.Expr) bool {
		e = ast.Unparen(e)
		if id, ok := e.(*ast.Ident); ok {
			ds := defs[info.ObjectOf(id)]
			if len(ds) >= 1 && ds[0] != nil {
				e = ast.Unparen(ds[0])
			}
		}
		call, ok := e.(*ast.CallExpr)
		if !ok {
			return false
		}
		id, ok := call.Fun.(*ast.Ident)
		return ok && id.Name == "len"
	}
	for _, st := range fd.Body.List {
		ifs, ok := st.(*ast.IfStmt)
		if !ok {
			continue
		}
		b, ok := ast.Unparen(ifs.Cond).(*ast.BinaryExpr)
		if !ok || (b.Op != token.GEQ && b.Op != token.GTR) {
			continue
		}
		sum, ok := ast.Unparen(b.X).(*ast.BinaryExpr)
		if !ok || sum.Op != token.ADD || !isLenOfParam(sum.X) || !isLenOfParam(sum.Y) {
			continue
		}
		k, ok := constInt(info, b.Y)
		if !ok || sentinel < 0 || k > sentinel {
			continue
		}
		ends := false
		ast.Inspect(ifs.Body, func(m ast.Node) bool {
			switch x := m.(type) {
			case *ast.ReturnStmt:
				ends = true
			case *ast.CallExpr:
				if fn := callee(info, x); fn != nil && (strings.HasPrefix(fn.Name(), "Panic") || strings.HasPrefix(fn.Name(), "Fatal")) {
					ends = true
				}
			}
			return true
		})
		// the guard precedes every loop
		if ends {
			guard = true
		}
		break
	}
	if guard {
		s.Pass(nil, key, fd.Pos(), "pairs whose lengths add up to the sentinel path length are refused before the matrix is filled")
	} else {
		s.Fail(nil, key, fd.Pos(), fmt.Sprintf("nothing bounds the lengths of the sequences against the %d-bit fields and the sentinel path length %d: beyond them a real path ranks after the 'not available' cell (a^40000 c^10 against c^10 returns an alignment of 30010 columns) and the fields wrap (a sequence of 70000 bases compared with itself: not found)", wsize, sentinel))
	}
	// (2b) the default bound (no bound requested) is derived from the longest sequence: it is computed after the exchange
	// that makes the first operand the longest
	key = "pkg/obialign.FastLCSEGFScoreByte:default-bound-after-swap"
	var swapPos, defPos token.Pos
	var boundParam types.Object
	for _, id := range flattenParams(fd.Type.Params) {
		if id != nil {
			if bt, ok := info.ObjectOf(id).Type().Underlying().(*types.Basic); ok && bt.Kind() == types.Int && boundParam == nil {
				boundParam = info.ObjectOf(id)
			}
		}
	}
	for _, st := range fd.Body.List {
		ifs, ok := st.(*ast.IfStmt)
		if !ok {
			continue
		}
		for _, bs := range ifs.Body.List {
			as, ok := bs.(*ast.AssignStmt)
			if !ok {
				continue
			}
			if len(as.Lhs) == 2 && len(as.Rhs) == 2 && types.ExprString(as.Lhs[0]) == types.ExprString(as.Rhs[1]) && types.ExprString(as.Lhs[1]) == types.ExprString(as.Rhs[0]) && swapPos == token.NoPos {
				swapPos = ifs.Pos()
			}
			if len(as.Lhs) == 1 && boundParam != nil && rootObj(info, as.Lhs[0]) == boundParam {
				if b, ok := ast.Unparen(ifs.Cond).(*ast.BinaryExpr); ok && b.Op == token.EQL && rootObj(info, b.X) == boundParam {
					if v, isC := constInt(info, b.Y); isC && v == -1 {
						defPos = ifs.Pos()
					}
				}
			}
		}
	}
	switch {
	case swapPos == token.NoPos || defPos == token.NoPos:
		s.Undecided(nil, key, fd.Pos(), "the exchange of the operands or the default of the bound was not found among the top-level statements of the kernel")
	case defPos < swapPos:
		s.Fail(nil, key, defPos, "the bound used when none is requested is computed from the length of the first operand before the operands are exchanged: when the first argument is the shortest the 'no limit' bound is twice the shortest length, and a pair differing by more than that is answered 'not found' although no bound was given")
	default:
		s.Pass(nil, key, defPos, "the default bound is derived from the longest sequence (computed after the exchange)")
	}
	// (3) roles
	key = "pkg/obialign.FastLCSEGFScoreByte:roles-symmetric"
	if entry == nil {
		s.Undecided(nil, key, 0, "entry point not found")
		return
	}
	symmetric := false
	// idiom A: two calls of one kernel with the two first arguments exchanged
	type sig struct{ a, b string }
	calls := map[string][]sig{}
	ast.Inspect(entry.Body, func(n ast.Node) bool {
		if call, ok := n.(*ast.CallExpr); ok && len(call.Args) >= 2 {
			if f := callee(info, call); f != nil && f.Pkg() == p.Types {
				calls[f.Name()] = append(calls[f.Name()], sig{types.ExprString(call.Args[0]), types.ExprString(call.Args[1])})
			}
		}
		return true
	})
	for _, cs := range calls {
		for i := range cs {
			for j := range cs {
				if i != j && cs[i].a == cs[j].b && cs[i].b == cs[j].a && cs[i].a != cs[i].b {
					symmetric = true
				}
			}
		}
	}
	// idiom B: the swap condition compares the contents
	ast.Inspect(entry.Body, func(n ast.Node) bool {
		if ifs, ok := n.(*ast.IfStmt); ok {
			swaps := false
			for _, st := range ifs.Body.List {
				if as, ok := st.(*ast.AssignStmt); ok && len(as.Lhs) == 2 && len(as.Rhs) == 2 && types.ExprString(as.Lhs[0]) == types.ExprString(as.Rhs[1]) && types.ExprString(as.Lhs[1]) == types.ExprString(as.Rhs[0]) {
					swaps = true
				}
			}
			if swaps {
				ast.Inspect(ifs.Cond, func(m ast.Node) bool {
					if call, ok := m.(*ast.CallExpr); ok {
						if fn := callee(info, call); fn != nil && fn.Pkg() != nil && fn.Pkg().Path() == "bytes" && fn.Name() == "Compare" {
							symmetric = true
						}
					}
					return true
				})
			}
		}
		return true
	})
	if symmetric {
		s.Pass(nil, key, entry.Pos(), "between sequences of equal length both assignments of the roles are evaluated (or the roles are chosen by content)")
	} else {
		s.Fail(nil, key, entry.Pos(), "the sequences are exchanged only when the first is the shortest: with equal lengths the first argument plays the longest, whose end gaps alone are free — FastLCSEGFScore(aac,aga) = (2,3) and FastLCSEGFScore(aga,aac) = (2,4)")
	}
}
