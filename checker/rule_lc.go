package main

// LC — the packed cells of the LCS kernel cannot overflow, and its roles are symmetric (C09).

import (
	"fmt"
	"go/ast"
	"go/constant"
	"go/token"
	"go/types"
	"strings"

	"golang.org/x/tools/go/packages"
)

func init() {
	register(&Rule{
		ID: "LC", Props: []string{"C09", "C15"}, Min: 3,
		Doc: `the LCS kernel packs (score, path length) in two fields of wsize bits and ranks cells by comparing the packed words. (1) The path length given to the 'not available' and 'out of band'
sentinels (second argument of encodeValues in their initialisers) is at most 2^(wsize-1): a sentinel keeps room for the increments applied to it. (2) The kernel refuses, before filling the matrix,
pairs whose lengths add up to that sentinel length or more (a comparison of a sum of the two lengths with a constant not larger than it, in a branch that ends the call): longer real paths would rank
after the sentinel — with the former sentinel of 30000 a leading gap of 40000 gave an alignment of 30010 columns for a sequence of 40010 — and the 16-bit fields wrapped at 65535 columns, a sequence
compared with itself giving 'not found'. (3) Symmetry: when the end gaps are free only those of the sequence playing the longest are; the entry point either evaluates both assignments of the roles
under a condition on equal lengths, or chooses the roles by content — otherwise EGF(aac,aga) = (2,3) and EGF(aga,aac) = (2,4).`,
		Run: runLC,
	})
}

func runLC(c *Ctx, s *Sink) {
	p := c.Pkg("pkg/obialign")
	if p == nil {
		s.Undecided(nil, "pkg/obialign", 0, "package not loaded")
		return
	}
	info := p.TypesInfo
	constVal := func(name string) (int64, bool) {
		if k, ok := p.Types.Scope().Lookup(name).(*types.Const); ok {
			return constant.Int64Val(k.Val())
		}
		return 0, false
	}
	wsize, okW := constVal("wsize")
	// sentinels: package variables initialised with encodeValues(_, L, _)
	var sentinel int64 = -1
	nsent := 0
	for _, f := range p.Syntax {
		for _, d := range f.Decls {
			gd, ok := d.(*ast.GenDecl)
			if !ok || gd.Tok != token.VAR {
				continue
			}
			for _, sp := range gd.Specs {
				vs := sp.(*ast.ValueSpec)
				for _, v := range vs.Values {
					call, ok := ast.Unparen(v).(*ast.CallExpr)
					if !ok || len(call.Args) != 3 || !strings.HasSuffix(fullName(callee(info, call)), "/pkg/obialign.encodeValues") {
						continue
					}
					if l, ok := constInt(info, call.Args[1]); ok && l > 0 {
						nsent++
						if sentinel < 0 || l < sentinel {
							sentinel = l
						}
					}
				}
			}
		}
	}
	key := "pkg/obialign:sentinel-within-field"
	switch {
	case !okW || sentinel < 0:
		s.Undecided(nil, key, 0, "wsize or the sentinel cells not found")
	case wsize < 2 || wsize > 31 || sentinel > (int64(1)<<(wsize-1)):
		s.Fail(nil, key, 0, fmt.Sprintf("sentinel path length %d with fields of %d bits: the sentinel is not below half the capacity of the field", sentinel, wsize))
	default:
		s.Pass(nil, key, 0, fmt.Sprintf("%d sentinel cells, path length %d <= 2^%d", nsent, sentinel, wsize-1))
	}
	fd, _ := c.FindFunc("pkg/obialign", "fastLCSEGFScoreByte")
	entry, _ := c.FindFunc("pkg/obialign", "FastLCSEGFScoreByte")
	if fd == nil {
		fd = entry
	}
	key = "pkg/obialign.FastLCSEGFScoreByte:length-guard"
	if fd == nil {
		s.Undecided(nil, key, 0, "kernel not found")
		return
	}
	// (2) a guard on the sum of the two lengths
	guard := false
	defs := collectDefs(info, fd)
	isLenOfParam := func(e ast.Expr) bool {
		e = ast.Unparen(e)
		if id, ok := e.(*ast.Ident); ok {
			ds := defs[info.ObjectOf(id)]
			if len(ds) >= 1 && ds[0] != nil {
				e = ast.Unparen(ds[0])
			}
		}
		call, ok := e.(*ast.CallExpr)
		if !ok {
			return false
		}
		id, ok := call.Fun.(*ast.Ident)
		return ok && id.Name == "len"
	}
	for _, st := range fd.Body.List {
		ifs, ok := st.(*ast.IfStmt)
		if !ok {
			continue
		}
		b, ok := ast.Unparen(ifs.Cond).(*ast.BinaryExpr)
		if !ok || (b.Op != token.GEQ && b.Op != token.GTR) {
			continue
		}
		sum, ok := ast.Unparen(b.X).(*ast.BinaryExpr)
		if !ok || sum.Op != token.ADD || !isLenOfParam(sum.X) || !isLenOfParam(sum.Y) {
			continue
		}
		k, ok := constInt(info, b.Y)
		if !ok || sentinel < 0 || k > sentinel {
			continue
		}
		ends := false
		ast.Inspect(ifs.Body, func(m ast.Node) bool {
			switch x := m.(type) {
			case *ast.ReturnStmt:
				ends = true
			case *ast.CallExpr:
				if fn := callee(info, x); fn != nil && (strings.HasPrefix(fn.Name(), "Panic") || strings.HasPrefix(fn.Name(), "Fatal")) {
					ends = true
				}
			}
			return true
		})
		// the guard precedes every loop
		if ends {
			guard = true
		}
		break
	}
	if guard {
		s.Pass(nil, key, fd.Pos(), "pairs whose lengths add up to the sentinel path length are refused before the matrix is filled")
	} else {
		s.Fail(nil, key, fd.Pos(), fmt.Sprintf("nothing bounds the lengths of the sequences against the %d-bit fields and the sentinel path length %d: beyond them a real path ranks after the 'not available' cell (a^40000 c^10 against c^10 returns an alignment of 30010 columns) and the fields wrap (a sequence of 70000 bases compared with itself: not found)", wsize, sentinel))
	}
	// (2b) the default bound (no bound requested) is derived from the longest sequence: it is computed after the exchange
	// that makes the first operand the longest
	key = "pkg/obialign.FastLCSEGFScoreByte:default-bound-after-swap"
	var swapPos, defPos token.Pos
	var boundParam types.Object
	for _, id := range flattenParams(fd.Type.Params) {
		if id != nil {
			if bt, ok := info.ObjectOf(id).Type().Underlying().(*types.Basic); ok && bt.Kind() == types.Int && boundParam == nil {
				boundParam = info.ObjectOf(id)
			}
		}
	}
	for _, st := range fd.Body.List {
		ifs, ok := st.(*ast.IfStmt)
		if !ok {
			continue
		}
		for _, bs := range ifs.Body.List {
			as, ok := bs.(*ast.AssignStmt)
			if !ok {
				continue
			}
			if len(as.Lhs) == 2 && len(as.Rhs) == 2 && types.ExprString(as.Lhs[0]) == types.ExprString(as.Rhs[1]) && types.ExprString(as.Lhs[1]) == types.ExprString(as.Rhs[0]) && swapPos == token.NoPos {
				swapPos = ifs.Pos()
			}
			if len(as.Lhs) == 1 && boundParam != nil && rootObj(info, as.Lhs[0]) == boundParam {
				if b, ok := ast.Unparen(ifs.Cond).(*ast.BinaryExpr); ok && b.Op == token.EQL && rootObj(info, b.X) == boundParam {
					if v, isC := constInt(info, b.Y); isC && v == -1 {
						defPos = ifs.Pos()
					}
				}
			}
		}
	}
	switch {
	case swapPos == token.NoPos || defPos == token.NoPos:
		s.Undecided(nil, key, fd.Pos(), "the exchange of the operands or the default of the bound was not found among the top-level statements of the kernel")
	case defPos < swapPos:
		s.Fail(nil, key, defPos, "the bound used when none is requested is computed from the length of the first operand before the operands are exchanged: when the first argument is the shortest the 'no limit' bound is twice the shortest length, and a pair differing by more than that is answered 'not found' although no bound was given")
	default:
		s.Pass(nil, key, defPos, "the default bound is derived from the longest sequence (computed after the exchange)")
	}
	// (3) roles
	key = "pkg/obialign.FastLCSEGFScoreByte:roles-symmetric"
	if entry == nil {
		s.Undecided(nil, key, 0, "entry point not found")
		return
	}
	symmetric := false
	// idiom A: two calls of one kernel with the two first arguments exchanged
	type sig struct{ a, b string }
	calls := map[string][]sig{}
	ast.Inspect(entry.Body, func(n ast.Node) bool {
		if call, ok := n.(*ast.CallExpr); ok && len(call.Args) >= 2 {
			if f := callee(info, call); f != nil && f.Pkg() == p.Types {
				calls[f.Name()] = append(calls[f.Name()], sig{types.ExprString(call.Args[0]), types.ExprString(call.Args[1])})
			}
		}
		return true
	})
	for _, cs := range calls {
		for i := range cs {
			for j := range cs {
				if i != j && cs[i].a == cs[j].b && cs[i].b == cs[j].a && cs[i].a != cs[i].b {
					symmetric = true
				}
			}
		}
	}
	// idiom B: the swap condition compares the contents
	ast.Inspect(entry.Body, func(n ast.Node) bool {
		if ifs, ok := n.(*ast.IfStmt); ok {
			swaps := false
			for _, st := range ifs.Body.List {
				if as, ok := st.(*ast.AssignStmt); ok && len(as.Lhs) == 2 && len(as.Rhs) == 2 && types.ExprString(as.Lhs[0]) == types.ExprString(as.Rhs[1]) && types.ExprString(as.Lhs[1]) == types.ExprString(as.Rhs[0]) {
					swaps = true
				}
			}
			if swaps {
				ast.Inspect(ifs.Cond, func(m ast.Node) bool {
					if call, ok := m.(*ast.CallExpr); ok {
						if fn := callee(info, call); fn != nil && fn.Pkg() != nil && fn.Pkg().Path() == "bytes" && fn.Name() == "Compare" {
							symmetric = true
						}
					}
					return true
				})
			}
		}
		return true
	})
	if symmetric {
		s.Pass(nil, key, entry.Pos(), "between sequences of equal length both assignments of the roles are evaluated (or the roles are chosen by content)")
	} else {
		s.Fail(nil, key, entry.Pos(), "the sequences are exchanged only when the first is the shortest: with equal lengths the first argument plays the longest, whose end gaps alone are free — FastLCSEGFScore(aac,aga) = (2,3) and FastLCSEGFScore(aga,aac) = (2,4)")
	}
}

func init() {
	register(&Rule{
		ID: "LC-2", Props: []string{"C09", "C13"}, Min: 2,
		Doc: `"for all error bounds -1, 0, 1, …": the banded LCS kernel sizes its two rows from the bound. (1) In the kernel (the function of pkg/obialign that allocates the rows: make([]uint64, k·width))
the width of a row is, on every path to that allocation, at most 8·(lA + lB) + 16 — by linear arithmetic over the statements that precede it (length swap, default bound, end-gap-free
adjustment followed), lengths being non-negative: no alignment of the two sequences has more than lA + lB differences, so a larger bound must be brought back to that. Without it the rows take
192 bytes per unit of the bound whatever the sequences — obiclean -d 2000000000 on three 32-mers asks for 192 GB (out of memory), and above 2^60 the products wrap and the first store indexes
a 3-word buffer at ~bound (index out of range) — where -d 64 gives the three records. (2) In the symbol comparison of the kernel (_samenuc) two letters that are the same letter match: the
function holds a test of equality of its two arguments on the path of letters — the table gives the code 0 to the letters that are no IUPAC code (x, i, …) and 0 & 0 matched nothing, so a
sequence holding an x was at distance 1 of itself and obiclean missed the links of such reads.`,
		Run: func(c *Ctx, s *Sink) {
			fd, p := c.FindFunc("pkg/obialign", "fastLCSEGFScoreByte")
			key := "pkg/obialign.fastLCSEGFScoreByte:band-bounded-by-the-lengths"
			if fd == nil {
				s.Undecided(nil, key, 0, "kernel not found")
			} else {
				info := p.TypesInfo
				// the allocation of the rows
				var alloc *ast.CallExpr
				var allocStmt ast.Stmt
				for _, st := range fd.Body.List {
					ast.Inspect(st, func(n ast.Node) bool {
						if call, ok := n.(*ast.CallExpr); ok && alloc == nil {
							if id, ok := call.Fun.(*ast.Ident); ok && id.Name == "make" && len(call.Args) >= 2 {
								if t := info.TypeOf(call.Args[0]); t != nil && strings.HasSuffix(t.String(), "[]uint64") {
									alloc, allocStmt = call, st
								}
							}
						}
						return true
					})
				}
				// the variable the rows are sliced with: the non constant factor of the size
				var width ast.Expr
				if alloc != nil {
					ast.Inspect(alloc.Args[1], func(n ast.Node) bool {
						if id, ok := n.(*ast.Ident); ok && width == nil {
							if _, isC := constInt(info, id); !isC {
								width = id
							}
						}
						return true
					})
				} else {
					// the rows may be carved by a helper of the package: the argument bound to the parameter that sizes its allocation
					for _, st := range fd.Body.List {
						ast.Inspect(st, func(n ast.Node) bool {
							call, ok := n.(*ast.CallExpr)
							if !ok || alloc != nil {
								return true
							}
							f := callee(info, call)
							if f == nil || f.Pkg() == nil || rel(f.Pkg().Path()) != "pkg/obialign" {
								return true
							}
							d, dp := c.DeclOf(f)
							if d == nil || d.Body == nil {
								return true
							}
							hps := flattenParams(d.Type.Params)
							ast.Inspect(d.Body, func(m ast.Node) bool {
								mk, ok := m.(*ast.CallExpr)
								if !ok {
									return true
								}
								if id, ok := mk.Fun.(*ast.Ident); !ok || id.Name != "make" || len(mk.Args) < 2 {
									return true
								}
								if t := dp.TypesInfo.TypeOf(mk.Args[0]); t == nil || !strings.HasSuffix(t.String(), "[]uint64") {
									return true
								}
								ast.Inspect(mk.Args[1], func(q ast.Node) bool {
									if id, ok := q.(*ast.Ident); ok {
										for k, hp := range hps {
											if hp != nil && dp.TypesInfo.ObjectOf(hp) == dp.TypesInfo.ObjectOf(id) && k < len(call.Args) && alloc == nil {
												alloc, allocStmt, width = call, st, call.Args[k]
											}
										}
									}
									return true
								})
								return true
							})
							return true
						})
					}
				}
				if alloc == nil {
					s.Undecided(nil, key, fd.Pos(), "no allocation of the rows")
				} else {
					var pre []ast.Stmt
					for _, st := range fd.Body.List {
						if st == allocStmt {
							break
						}
						pre = append(pre, st)
					}
					env := &linEnv{info: info, vars: map[types.Object]linForm{}, defs: map[types.Object][]ast.Expr{}, atoms: map[string]bool{}, lens: map[string]bool{}, elems: map[string]linForm{}}
					paths := linWalk([]linPath{{env: env}}, pre, func(linPath, ast.Stmt) {})
					ps := flattenParams(fd.Type.Params)
					ok, n := width != nil && len(ps) >= 2, 0
					why := ""
					for _, pth := range paths {
						n++
						pth.env.cur = pth.sys
						w, ok1 := pth.env.form(width, 0)
						la := lfAtom("|" + ps[0].Name + "|")
						lb := lfAtom("|" + ps[1].Name + "|")
						pth.env.atoms["|"+ps[0].Name+"|"], pth.env.lens["|"+ps[0].Name+"|"] = true, true
						pth.env.atoms["|"+ps[1].Name+"|"], pth.env.lens["|"+ps[1].Name+"|"] = true, true
						bound := la.add(lb, 1).scale(8).add(lfConst(16), 1)
						if !ok1 || !pth.known().entails(linLE(w, bound)) {
							ok = false
							if ok1 {
								why = "width = " + w.String()
							}
						}
					}
					switch {
					case n == 0:
						s.Undecided(nil, key, alloc.Pos(), "the allocation is not reached by the path enumeration")
					case ok:
						s.Pass(nil, key, alloc.Pos(), fmt.Sprintf("width <= 8·(lA+lB)+16 on the %d paths to the allocation", n))
					default:
						s.Fail(nil, key, alloc.Pos(), "the width of the rows follows the error bound without limit ("+why+"): 192 bytes per unit of the bound whatever the sequences — two identical 10-mers with maxError = 2^20 take 100 MB of scratch memory, obiclean -d 2000000000 on three 32-mers runs out of memory (192 GB asked), and above 2^60 the products wrap and the first store is out of range; a bound larger than lA + lB asks nothing more than lA + lB")
					}
				}
			}
			// (2)
			key = "pkg/obialign._samenuc:a-letter-matches-itself"
			sfd, sp := c.FindFunc("pkg/obialign", "_samenuc")
			if sfd == nil {
				s.Undecided(nil, key, 0, "function not found")
				return
			}
			sinfo := sp.TypesInfo
			ps := flattenParams(sfd.Type.Params)
			if len(ps) < 2 {
				s.Undecided(nil, key, sfd.Pos(), "two parameters expected")
				return
			}
			a, b := sinfo.ObjectOf(ps[0]), sinfo.ObjectOf(ps[1])
			// every return that consults the table (an & of two table entries) also accepts a == b
			bad := token.NoPos
			ast.Inspect(sfd.Body, func(n ast.Node) bool {
				r, ok := n.(*ast.ReturnStmt)
				if !ok || len(r.Results) != 1 {
					return true
				}
				usesTable, hasEq := false, false
				ast.Inspect(r.Results[0], func(m ast.Node) bool {
					if be, ok := m.(*ast.BinaryExpr); ok {
						if be.Op == token.AND {
							usesTable = true
						}
						if be.Op == token.EQL {
							x, y := rootObj(sinfo, be.X), rootObj(sinfo, be.Y)
							if (x == a && y == b) || (x == b && y == a) {
								hasEq = true
							}
						}
					}
					return true
				})
				if usesTable && !hasEq && !bad.IsValid() {
					bad = r.Pos()
				}
				return true
			})
			if bad.IsValid() {
				s.Fail(nil, key, bad, "two letters are compared through the table of IUPAC codes only: the letters that are no IUPAC code (e f i j l o p q x z) have the code 0 and 0 & 0 matches nothing, not even the letter itself — acgtxacgt against itself gives LCS (8,9) instead of (9,9), and obiclean -d 2 does not link a father and a son two substitutions apart as soon as both hold an x (status s / s instead of h / i)")
			} else {
				s.Pass(nil, key, sfd.Pos(), "a letter matches itself whatever its code")
			}
		},
	})
}

func init() {
	register(&Rule{
		ID: "LC-3", Props: []string{"C09", "C13"}, Min: 2,
		Doc: `the banded LCS kernel visits the even and the odd anti-diagonals in two copies of the same cell computation; the value of a cell of the first row (i == 0) or of the first column (j == 0) is
a function of (i, j, endgapfree) and not of the parity of its diagonal. In pkg/obialign.FastLCSEGFScoreByte the clauses 'case i == 0' and 'case j == 0' of the two switch statements assign, for
endgapfree true and false, the same expressions to the same variables (the clauses are evaluated: assignments, and if/else on endgapfree in either polarity). A first column initialised with
encodeValues(0, j, …) instead of (0, i, …) on the odd diagonals only gives a wrong LCS when the shorter sequence starts with three symbols absent from the other.`,
		Run: func(c *Ctx, s *Sink) {
			// the kernel: the function of the package that holds the two cell computations (today fastLCSEGFScoreByte, behind its exported wrapper)
			var fd *ast.FuncDecl
			var p *packages.Package
			c.EachFunc([]string{"pkg/obialign"}, func(p2 *packages.Package, fd2 *ast.FuncDecl) {
				if !strings.Contains(fd2.Name.Name, "LCS") {
					return
				}
				n := 0
				ast.Inspect(fd2.Body, func(m ast.Node) bool {
					if sw, ok := m.(*ast.SwitchStmt); ok && sw.Tag == nil {
						for _, st := range sw.Body.List {
							if cc := st.(*ast.CaseClause); len(cc.List) == 1 && types.ExprString(cc.List[0]) == "i == 0" {
								n++
							}
						}
					}
					return true
				})
				if n >= 1 && fd == nil {
					fd, p = fd2, p2
				}
			})
			if fd == nil {
				s.Undecided(nil, "pkg/obialign:LCS-kernel", 0, "no function of pkg/obialign with a 'case i == 0' boundary clause")
				return
			}
			info := p.TypesInfo
			// the switches with a clause i == 0 and a clause j == 0
			type clauses struct{ byVar map[string]*ast.CaseClause }
			var found []clauses
			ast.Inspect(fd.Body, func(n ast.Node) bool {
				sw, ok := n.(*ast.SwitchStmt)
				if !ok || sw.Tag != nil {
					return true
				}
				cl := clauses{map[string]*ast.CaseClause{}}
				for _, st := range sw.Body.List {
					cc := st.(*ast.CaseClause)
					if len(cc.List) != 1 {
						continue
					}
					if b, ok := ast.Unparen(cc.List[0]).(*ast.BinaryExpr); ok && b.Op == token.EQL {
						if id, ok := ast.Unparen(b.X).(*ast.Ident); ok {
							if v, isC := constInt(info, b.Y); isC && v == 0 && (id.Name == "i" || id.Name == "j") {
								cl.byVar[id.Name] = cc
							}
						}
					}
				}
				if len(cl.byVar) == 2 {
					found = append(found, cl)
				}
				return true
			})
			if len(found) < 2 {
				s.Undecided(nil, funcName(p, fd)+":halves", fd.Pos(), fmt.Sprintf("%d cell computations with the two boundary clauses found, 2 expected", len(found)))
				return
			}
			// evaluation of a clause for one value of endgapfree
			var eval func(list []ast.Stmt, egf bool, env map[string]string) bool
			eval = func(list []ast.Stmt, egf bool, env map[string]string) bool {
				for _, st := range list {
					switch y := st.(type) {
					case *ast.AssignStmt:
						if len(y.Lhs) != len(y.Rhs) {
							return false
						}
						for k := range y.Lhs {
							env[types.ExprString(y.Lhs[k])] = types.ExprString(y.Rhs[k])
						}
					case *ast.IfStmt:
						if y.Init != nil {
							return false
						}
						cond := ast.Unparen(y.Cond)
						neg := false
						if u, ok := cond.(*ast.UnaryExpr); ok && u.Op == token.NOT {
							neg, cond = true, ast.Unparen(u.X)
						}
						id, ok := cond.(*ast.Ident)
						if !ok || id.Name != "endgapfree" {
							return false
						}
						take := egf != neg
						if take {
							if !eval(y.Body.List, egf, env) {
								return false
							}
						} else if y.Else != nil {
							switch e := y.Else.(type) {
							case *ast.BlockStmt:
								if !eval(e.List, egf, env) {
									return false
								}
							case *ast.IfStmt:
								if !eval([]ast.Stmt{e}, egf, env) {
									return false
								}
							}
						}
					case *ast.EmptyStmt:
					default:
						return false
					}
				}
				return true
			}
			for _, v := range []string{"i", "j"} {
				key := funcName(p, fd) + ":boundary(" + v + "==0):halves-agree"
				ref := found[0].byVar[v]
				ok, why := true, ""
				for _, other := range found[1:] {
					for _, egf := range []bool{false, true} {
						e1, e2 := map[string]string{}, map[string]string{}
						u1 := eval(ref.Body, egf, e1)
						u2 := eval(other.byVar[v].Body, egf, e2)
						if !u1 || !u2 {
							// not a shape the evaluator knows: the texts must be the same
							t1, t2 := "", ""
							for _, st := range ref.Body {
								t1 += nodeString(c.Fset, st) + "\n"
							}
							for _, st := range other.byVar[v].Body {
								t2 += nodeString(c.Fset, st) + "\n"
							}
							if t1 != t2 {
								ok, why = false, "the two clauses differ (and are not plain assignments under tests of endgapfree)"
							}
							continue
						}
						for k, x := range e1 {
							if e2[k] != x {
								ok, why = false, fmt.Sprintf("with endgapfree=%v one copy gives %s = %s, the other %s", egf, k, x, e2[k])
							}
						}
						if len(e1) != len(e2) {
							ok, why = false, "the two copies do not assign the same variables"
						}
					}
				}
				if ok {
					s.Pass(nil, key, ref.Pos(), "the even and the odd diagonals initialise the boundary with the same expressions, for both values of endgapfree")
				} else {
					s.Fail(nil, key, found[1].byVar[v].Pos(), "the boundary cell is not the same function of (i, j) on the even and on the odd diagonals: "+why+" — the LCS of two sequences whose shorter one starts with three symbols absent from the other is wrong on one parity only")
				}
			}
		},
	})
}
