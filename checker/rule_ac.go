package main

// AC — loops over the fixed-size 4-mer tables cover the whole table (C15, C19).
// PB-pair — the two parallel result lists of FindClosests are reset and filled together (C15).

import (
	"fmt"
	"go/ast"
	"go/token"
	"go/types"

	"golang.org/x/tools/go/packages"
)

func init() {
	register(&Rule{
		ID: "AC", Props: []string{"C15", "C19", "C05"}, Min: 3,
		Doc: `table loops cover the whole table: in pkg/obikmer every counting loop 'for i := 0; i < K; i++' whose body indexes a fixed-size array [N]T (or a pointer to one:
the 256-entry 4-mer tables), or a slice made with the constant length N in the same function (the per-worker 4-mer position index), with i must have K == N or K == len(array): a smaller bound silently ignores the last 4-mers (TTTT), so the shared-4-mer counts the prefilters
rely on are under-estimated and qualifying references are pruned.`,
		Run: runAC,
	})
	register(&Rule{
		ID: "PB-pair", Props: []string{"C15"}, Min: 2,
		Doc: `parallel result lists stay parallel: in FindClosests the list of best references and the list of their indexes (both returned) are truncated in the same
statement list and appended to in the same statement list; resetting only one leaves stale worse candidates in the other, so the references reported (and the taxon derived
from them) are not the minimal-distance ones.`,
		Run: runPBPair,
	})
}

func arrayLen(t types.Type) (int64, bool) {
	if p, ok := t.Underlying().(*types.Pointer); ok {
		t = p.Elem()
	}
	if a, ok := t.Underlying().(*types.Array); ok {
		return a.Len(), true
	}
	return 0, false
}

func runAC(c *Ctx, s *Sink) {
	c.EachFunc([]string{"pkg/obikmer"}, func(p *packages.Package, fd *ast.FuncDecl) {
		info := p.TypesInfo
		n := 0
		ast.Inspect(fd.Body, func(nd ast.Node) bool {
			// `for i := range table` / `for i, v := range table` visits every entry by construction
			if rs, ok := nd.(*ast.RangeStmt); ok {
				if tv, ok := info.Types[rs.X]; ok {
					if l, isArr := arrayLen(tv.Type); isArr {
						n++
						s.Pass(nil, fmt.Sprintf("%s:tableloop#%d", funcName(p, fd), n), rs.Pos(), fmt.Sprintf("range over %s covers all %d entries", types.ExprString(rs.X), l))
					}
				}
				return true
			}
			f, ok := nd.(*ast.ForStmt)
			if !ok || f.Cond == nil || f.Init == nil {
				return true
			}
			cb, ok := ast.Unparen(f.Cond).(*ast.BinaryExpr)
			if !ok || (cb.Op != token.LSS && cb.Op != token.LEQ) {
				return true
			}
			iv, ok := ast.Unparen(cb.X).(*ast.Ident)
			if !ok {
				return true
			}
			ivo := info.ObjectOf(iv)
			init, ok := f.Init.(*ast.AssignStmt)
			if !ok || len(init.Rhs) != 1 || !isConstInt(info, init.Rhs[0], 0) {
				return true
			}
			// arrays indexed by the induction variable
			var N int64 = -1
			var arrName string
			ast.Inspect(f.Body, func(m ast.Node) bool {
				if ix, ok := m.(*ast.IndexExpr); ok {
					if id, ok := ast.Unparen(ix.Index).(*ast.Ident); ok && info.ObjectOf(id) == ivo {
						if tv, ok := info.Types[ix.X]; ok {
							if l, isArr := arrayLen(tv.Type); isArr {
								N, arrName = l, types.ExprString(ix.X)
							}
						}
					}
				}
				return true
			})
			if N < 0 {
				// a slice whose length is fixed by a make(T, K) with constant K in this function
				ast.Inspect(f.Body, func(m ast.Node) bool {
					if ix, ok := m.(*ast.IndexExpr); ok && N < 0 {
						if id, ok := ast.Unparen(ix.Index).(*ast.Ident); ok && info.ObjectOf(id) == ivo {
							if tv, ok := info.Types[ix.X]; ok {
								if _, isSlice := tv.Type.Underlying().(*types.Slice); isSlice {
									if k, ok := constMakeLen(info, fd, tv.Type); ok {
										N, arrName = k, types.ExprString(ix.X)
									}
								}
							}
						}
					}
					return true
				})
			}
			if N < 0 {
				return true
			}
			n++
			key := fmt.Sprintf("%s:tableloop#%d", funcName(p, fd), n)
			covered := false
			if K, ok := constInt(info, cb.Y); ok {
				if (cb.Op == token.LSS && K == N) || (cb.Op == token.LEQ && K == N-1) {
					covered = true
				}
				if !covered && K < N && cb.Op == token.LSS && N-K <= 4 {
					// the cells the loop leaves out may be handled one by one: every table indexed by the induction
					// variable in the loop is then read with each of the remaining constant indexes in the function
					tables := map[string]bool{}
					ast.Inspect(f.Body, func(m ast.Node) bool {
						if ix, ok := m.(*ast.IndexExpr); ok {
							if id, ok := ast.Unparen(ix.Index).(*ast.Ident); ok && info.ObjectOf(id) == ivo {
								tables[types.ExprString(ix.X)] = true
							}
						}
						return true
					})
					explicit := true
					for t := range tables {
						for idx := K; idx < N; idx++ {
							found := false
							ast.Inspect(fd.Body, func(m ast.Node) bool {
								if ix, ok := m.(*ast.IndexExpr); ok && types.ExprString(ix.X) == t {
									if v, ok := constInt(info, ix.Index); ok && v == idx {
										found = true
									}
								}
								return true
							})
							if !found {
								explicit = false
							}
						}
					}
					if explicit && len(tables) > 0 {
						s.Pass(nil, key, f.Pos(), fmt.Sprintf("the loop covers the first %d entries of %s, the remaining %d are read one by one in the function", K, arrName, N-K))
						return true
					}
				}
				if !covered {
					s.Fail(nil, key, f.Pos(), fmt.Sprintf("the loop visits %d entries of %s, which has %d: the last 4-mer code(s) are never counted", K, arrName, N))
					return true
				}
			} else if call, ok := ast.Unparen(cb.Y).(*ast.CallExpr); ok {
				if id, ok := call.Fun.(*ast.Ident); ok && id.Name == "len" && cb.Op == token.LSS {
					covered = true
				}
			}
			if covered {
				s.Pass(nil, key, f.Pos(), fmt.Sprintf("covers all %d entries of %s", N, arrName))
			} else {
				s.Undecided(nil, key, f.Pos(), "loop bound over a fixed-size table is neither a constant nor len()")
			}
			return true
		})
	})
}

func runPBPair(c *Ctx, s *Sink) {
	for _, pkg := range []string{"pkg/obitools/obitag", "pkg/obitools/obitag2"} {
		fd, p := c.FindFunc(pkg, "FindClosests")
		key := pkg + ".FindClosests:bests/bestidxs"
		if fd == nil {
			s.Undecided(nil, key, 0, "function not found")
			continue
		}
		info := p.TypesInfo
		// the two returned slice variables that are appended to in one statement list
		returned := map[types.Object]bool{}
		ast.Inspect(fd.Body, func(n ast.Node) bool {
			if r, ok := n.(*ast.ReturnStmt); ok {
				for _, e := range r.Results {
					if o := rootObj(info, e); o != nil {
						if _, isSlice := o.Type().Underlying().(*types.Slice); isSlice {
							returned[o] = true
						}
					}
				}
			}
			return true
		})
		// per statement list: which returned slices are truncated / appended
		type ev struct{ trunc, app map[types.Object]bool }
		var lists []ev
		var bad []string
		ast.Inspect(fd.Body, func(n ast.Node) bool {
			blk, ok := n.(*ast.BlockStmt)
			if !ok {
				return true
			}
			e := ev{map[types.Object]bool{}, map[types.Object]bool{}}
			for _, st := range blk.List {
				as, ok := st.(*ast.AssignStmt)
				if !ok || len(as.Lhs) != 1 || len(as.Rhs) != 1 {
					continue
				}
				o := rootObj(info, as.Lhs[0])
				if !returned[o] {
					continue
				}
				switch r := ast.Unparen(as.Rhs[0]).(type) {
				case *ast.SliceExpr:
					if rootObj(info, r.X) == o {
						e.trunc[o] = true
					}
				case *ast.CallExpr:
					if id, ok := r.Fun.(*ast.Ident); ok && id.Name == "append" && len(r.Args) > 0 && rootObj(info, r.Args[0]) == o {
						e.app[o] = true
					}
				}
			}
			if len(e.trunc)+len(e.app) > 0 {
				lists = append(lists, e)
			}
			return true
		})
		pair := map[types.Object]bool{}
		for _, e := range lists {
			for o := range e.app {
				pair[o] = true
			}
			for o := range e.trunc {
				pair[o] = true
			}
		}
		if len(pair) != 2 {
			s.Undecided(nil, key, fd.Pos(), fmt.Sprintf("expected two parallel result lists, found %d", len(pair)))
			continue
		}
		for _, e := range lists {
			if len(e.trunc) == 1 {
				for o := range e.trunc {
					bad = append(bad, "a better candidate resets "+o.Name()+" only")
				}
			}
			if len(e.app) == 1 {
				for o := range e.app {
					bad = append(bad, "a candidate is appended to "+o.Name()+" only")
				}
			}
		}
		if len(bad) > 0 {
			s.Fail(nil, key, fd.Pos(), "the list of best references and the list of their indexes get out of step ("+bad[0]+"): stale worse candidates are reported as best matches")
		} else {
			s.Pass(nil, key, fd.Pos(), "both result lists are truncated together and appended together")
		}
	}
}

// constMakeLen: the function contains make(T, K) with a constant K for exactly this slice type T, and
// every such make uses the same K.
func constMakeLen(info *types.Info, fd *ast.FuncDecl, t types.Type) (int64, bool) {
	var k int64 = -1
	ok := true
	ast.Inspect(fd.Body, func(n ast.Node) bool {
		call, isCall := n.(*ast.CallExpr)
		if !isCall || len(call.Args) < 2 {
			return true
		}
		if id, isId := call.Fun.(*ast.Ident); !isId || id.Name != "make" {
			return true
		}
		if !types.Identical(info.TypeOf(call.Args[0]), t) {
			return true
		}
		v, isConst := constInt(info, call.Args[1])
		if !isConst {
			ok = false
			return true
		}
		if k >= 0 && v != k {
			ok = false
		}
		k = v
		return true
	})
	return k, ok && k > 0
}
