package main

// GS-closure: a stateful closure (a function value whose literal captures
// variables of its factory and writes them) shared by several goroutine
// instances is shared mutable state; and stateful objects that are not safe
// for concurrent use (BioSequenceClassifier) must be cloned per instance.

import (
	"fmt"
	"go/ast"
	"go/token"
	"go/types"
	"strings"

	"golang.org/x/tools/go/packages"
)

func init() {
	register(&Rule{
		ID: "GS-C", Props: []string{"C05", "C01", "C06", "C13"}, Min: 3,
		Doc: `no stateful function value or non-thread-safe object is shared by goroutine instances: at every go statement that can start several instances (in a loop, or the
same target started several times) each function-typed value handed to the instances (argument, or captured variable called in the target) is resolved to the function literal
its factory returns; if that literal writes variables captured from the factory (assignment, ++, element store, mutating method such as bytes.Buffer.Write/Reset) the value must
be created per instance. Values of type *obiseq.BioSequenceClassifier (a set of closures over a private code table) must reach each instance through Clone() or a constructor
call, never as the same variable.`,
		Run: runGSC,
	})
}

// statefulLit: captured variables of the factory written inside the literal.
func statefulLit(c *Ctx, p *packages.Package, factory *ast.FuncDecl, lit *ast.FuncLit) []string {
	info := p.TypesInfo
	var out []string
	seen := map[types.Object]bool{}
	captured := func(e ast.Expr) types.Object {
		o := rootObj(info, e)
		if o == nil {
			if id := rootIdent(e); id != nil {
				o = info.ObjectOf(id)
			}
		}
		if o == nil {
			return nil
		}
		if _, isVar := o.(*types.Var); !isVar {
			return nil
		}
		if within(o, lit) || !within(o, factory) {
			return nil
		}
		return o
	}
	add := func(o types.Object, how string) {
		if o != nil && !seen[o] {
			seen[o] = true
			out = append(out, o.Name()+" ("+how+")")
		}
	}
	// a literal that holds a lock for its whole body is synchronised
	if len(lit.Body.List) >= 2 {
		if deferLocked(&ast.FuncDecl{Body: lit.Body}) {
			return nil
		}
	}
	ast.Inspect(lit.Body, func(n ast.Node) bool {
		switch x := n.(type) {
		case *ast.AssignStmt:
			if x.Tok != token.DEFINE {
				for _, l := range x.Lhs {
					add(captured(l), "assigned")
				}
			}
		case *ast.IncDecStmt:
			add(captured(x.X), "incremented")
		case *ast.CallExpr:
			if sel, ok := x.Fun.(*ast.SelectorExpr); ok {
				if o := captured(sel.X); o != nil {
					tn := sinkTypeName(o.Type())
					mut := false
					switch tn {
					case "bytes.Buffer", "strings.Builder", "bufio.Writer":
						switch sel.Sel.Name {
						case "Write", "WriteByte", "WriteString", "WriteRune", "Reset", "Grow", "Truncate", "ReadFrom":
							mut = true
						}
					}
					if mut {
						add(o, "mutated through "+sel.Sel.Name+"()")
					}
				}
			}
		}
		return true
	})
	return out
}

// returnedLit: the function literal a factory returns (directly or through a local).
func returnedLit(p *packages.Package, fd *ast.FuncDecl) *ast.FuncLit {
	info := p.TypesInfo
	lits := localFuncLits(info, fd)
	var lit *ast.FuncLit
	ast.Inspect(fd.Body, func(n ast.Node) bool {
		if _, ok := n.(*ast.FuncLit); ok {
			return false
		}
		if r, ok := n.(*ast.ReturnStmt); ok {
			for _, e := range r.Results {
				switch x := ast.Unparen(e).(type) {
				case *ast.FuncLit:
					lit = x
				case *ast.Ident:
					if l := lits[info.ObjectOf(x)]; l != nil {
						lit = l
					}
				}
			}
		}
		return true
	})
	return lit
}

const classifierType = modPath + "/pkg/obiseq.BioSequenceClassifier"

func runGSC(c *Ctx, s *Sink) {
	c.EachFunc(gsScope, func(p *packages.Package, fd *ast.FuncDecl) {
		info := p.TypesInfo
		lits := localFuncLits(info, fd)
		defs := collectDefs(info, fd)
		a := &gsAnalysis{c: c, p: p, info: info, fd: fd, lits: lits, defs: defs, rangeVar: map[types.Object]*ast.RangeStmt{}}
		ast.Inspect(fd.Body, func(n ast.Node) bool {
			if rs, ok := n.(*ast.RangeStmt); ok {
				for _, e := range []ast.Expr{rs.Key, rs.Value} {
					if id, ok := e.(*ast.Ident); ok {
						if o := info.ObjectOf(id); o != nil {
							a.rangeVar[o] = rs
						}
					}
				}
			}
			return true
		})
		type site struct {
			g      *ast.GoStmt
			inLoop bool
		}
		var sites []site
		var stack []ast.Node
		var walk func(n ast.Node)
		walk = func(n ast.Node) {
			if n == nil {
				return
			}
			stack = append(stack, n)
			defer func() { stack = stack[:len(stack)-1] }()
			if g, ok := n.(*ast.GoStmt); ok {
				inLoop := false
				for _, anc := range stack {
					switch anc.(type) {
					case *ast.ForStmt, *ast.RangeStmt:
						inLoop = true
					}
				}
				sites = append(sites, site{g, inLoop})
			}
			var children []ast.Node
			ast.Inspect(n, func(m ast.Node) bool {
				if m == nil || m == n {
					return m == n
				}
				children = append(children, m)
				return false
			})
			for _, ch := range children {
				walk(ch)
			}
		}
		walk(fd.Body)
		// targets started more than once
		targetCount := map[string]int{}
		targetKey := func(g *ast.GoStmt) string {
			switch f := ast.Unparen(g.Call.Fun).(type) {
			case *ast.Ident:
				return "id:" + f.Name
			case *ast.SelectorExpr:
				return "sel:" + types.ExprString(f)
			case *ast.FuncLit:
				return fmt.Sprintf("lit:%d", f.Pos())
			}
			return "?"
		}
		for _, st := range sites {
			targetCount[targetKey(st.g)]++
		}
		fname := funcName(p, fd)
		reported := map[string]bool{}
		for _, st := range sites {
			multi := st.inLoop || targetCount[targetKey(st.g)] > 1
			if !multi {
				continue
			}
			// shared values: identifier arguments that are not loop variables, and free variables used in a literal target
			var shared []*ast.Ident
			for _, arg := range st.g.Call.Args {
				if id, ok := ast.Unparen(arg).(*ast.Ident); ok {
					if o := info.ObjectOf(id); o != nil && !a.isLoopVarOf(o, st.g) {
						shared = append(shared, id)
					}
				}
			}
			var lit *ast.FuncLit
			switch f := ast.Unparen(st.g.Call.Fun).(type) {
			case *ast.FuncLit:
				lit = f
			case *ast.Ident:
				lit = lits[info.ObjectOf(f)]
			}
			if lit != nil {
				ast.Inspect(lit.Body, func(m ast.Node) bool {
					if id, ok := m.(*ast.Ident); ok {
						if o, isVar := info.Uses[id].(*types.Var); isVar && !within(o, lit) && within(o, fd) {
							shared = append(shared, id)
						}
					}
					return true
				})
			}
			for _, id := range shared {
				o := info.ObjectOf(id)
				if o == nil {
					continue
				}
				key := fmt.Sprintf("%s:shared:%s", fname, o.Name())
				if reported[key] {
					continue
				}
				// (1) non-thread-safe object types
				if strings.HasSuffix(sinkTypeName(o.Type()), "/pkg/obiseq.BioSequenceClassifier") {
					// a variable defined once outside any loop, used by several instances
					reported[key] = true
					// the same variable may legitimately go to ONE instance when the others get Clone(): count instances receiving this very variable
					n := 0
					for _, s2 := range sites {
						uses := false
						for _, arg := range s2.g.Call.Args {
							if aid, ok := ast.Unparen(arg).(*ast.Ident); ok && info.ObjectOf(aid) == o {
								uses = true
							}
						}
						if uses {
							if s2.inLoop {
								n += 2
							} else {
								n++
							}
						}
					}
					if n > 1 {
						s.Fail(nil, key, id.Pos(), fmt.Sprintf("the classifier %s (closures over a private, unsynchronised code table; Reset() empties it) is handed to several goroutine instances: one worker's Reset/Code corrupts the codes of another, records are merged or split at random", o.Name()))
					} else {
						s.Pass(nil, key, id.Pos(), "the classifier variable reaches a single instance; the others receive Clone()/a new classifier")
					}
					continue
				}
				// (2) function values
				if _, isSig := o.Type().Underlying().(*types.Signature); !isSig {
					continue
				}
				ds := defs[o]
				if len(ds) != 1 || ds[0] == nil {
					continue
				}
				var flit *ast.FuncLit
				var factory *ast.FuncDecl
				var fp *packages.Package
				switch d := ast.Unparen(ds[0]).(type) {
				case *ast.CallExpr:
					if fn := callee(info, d); fn != nil {
						factory, fp = c.DeclOf(fn)
						if factory != nil && factory.Body != nil {
							flit = returnedLit(fp, factory)
						}
					}
				}
				if flit == nil {
					continue
				}
				reported[key] = true
				state := statefulLit(c, fp, factory, flit)
				if len(state) > 0 {
					s.Fail(nil, key, id.Pos(), fmt.Sprintf("the function value %s is built once by %s and shared by every goroutine instance, but its literal writes variables captured from the factory (%s): concurrent calls overwrite each other's working state (records corrupted under load, only with more than one worker)", o.Name(), factory.Name.Name, strings.Join(state, ", ")))
				} else {
					s.Pass(nil, key, id.Pos(), "shared function value from "+factory.Name.Name+" is stateless (its literal writes no variable captured from the factory)")
				}
			}
		}
	})
}
