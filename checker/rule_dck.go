package main

// DCK — the generic copy of an annotation value leaves no reference kind shared (C07).

import (
	"go/ast"
	"go/types"
	"sort"
	"strings"

	"golang.org/x/tools/go/packages"
)

func init() {
	register(&Rule{
		ID: "DCK", Props: []string{"C07", "C05"}, Min: 1,
		Doc: `"copies … share no mutable state with their source": the annotations are copied value by value by a function of pkg/obiutils that hands its argument back unchanged (return v) when there is
nothing to copy. Before that identity return, the function tests — directly (reflect…Kind() == reflect.K, case reflect.K) or through the kind predicates of the package (IsAMap, IsASlice: their
bodies are read) — BOTH reference kinds an attribute can hold, Map and Slice, in conditions whose branch returns something else: the type switch only knows map[string]interface{} and
[]interface{}, what a JSON header decodes into; the maps built in the process (StatsOnValues of merged_*, map[string]int of pairing_mismatches) are typed. With the map test dropped, Copy,
Subsequence and ReverseComplement share them with their source: updating the copy's merged_sample changes the source's.`,
		Run: func(c *Ctx, s *Sink) {
			c.EachFunc([]string{"pkg/obiutils"}, func(p *packages.Package, fd *ast.FuncDecl) {
				info := p.TypesInfo
				params := flattenParams(fd.Type.Params)
				if len(params) != 1 || params[0] == nil || fd.Type.Results == nil || len(fd.Type.Results.List) != 1 {
					return
				}
				po := info.ObjectOf(params[0])
				if _, isI := po.Type().Underlying().(*types.Interface); !isI {
					return
				}
				if _, isI := info.TypeOf(fd.Type.Results.List[0].Type).Underlying().(*types.Interface); !isI {
					return
				}
				// a copier: it calls itself or a deep-copy library, and has an identity return
				copier := false
				var identity *ast.ReturnStmt
				ast.Inspect(fd.Body, func(n ast.Node) bool {
					switch y := n.(type) {
					case *ast.CallExpr:
						fn := callee(info, y)
						if fn != nil && (fn == info.Defs[fd.Name] || strings.Contains(fullName(fn), "deepcopy")) {
							copier = true
						}
					case *ast.ReturnStmt:
						if len(y.Results) == 1 {
							if id, ok := ast.Unparen(y.Results[0]).(*ast.Ident); ok && info.ObjectOf(id) == po {
								identity = y
							}
						}
					}
					return true
				})
				if !copier || identity == nil {
					return
				}
				// kinds named by an expression
				var kindsOf func(e ast.Node, depth int) map[string]bool
				kindsOf = func(e ast.Node, depth int) map[string]bool {
					out := map[string]bool{}
					ast.Inspect(e, func(n ast.Node) bool {
						switch y := n.(type) {
						case *ast.SelectorExpr:
							if o := info.Uses[y.Sel]; o != nil && o.Pkg() != nil && o.Pkg().Path() == "reflect" {
								if _, isC := o.(*types.Const); isC {
									out[y.Sel.Name] = true
								}
							}
						case *ast.CallExpr:
							if fn := callee(info, y); fn != nil && fn.Pkg() == p.Types && depth < 2 {
								if d, _ := c.DeclOf(fn); d != nil && d.Body != nil {
									for k := range kindsOf(d.Body, depth+1) {
										out[k] = true
									}
								}
							}
						}
						return true
					})
					return out
				}
				tested := map[string]bool{}
				returnsOther := func(b ast.Node) bool {
					r := false
					ast.Inspect(b, func(n ast.Node) bool {
						if ret, ok := n.(*ast.ReturnStmt); ok && len(ret.Results) == 1 {
							if id, ok := ast.Unparen(ret.Results[0]).(*ast.Ident); !ok || info.ObjectOf(id) != po {
								r = true
							}
						}
						return true
					})
					return r
				}
				ast.Inspect(fd.Body, func(n ast.Node) bool {
					if n == nil || n.Pos() >= identity.Pos() {
						return n != nil && n.Pos() < identity.Pos()
					}
					switch y := n.(type) {
					case *ast.IfStmt:
						if returnsOther(y.Body) {
							for k := range kindsOf(y.Cond, 0) {
								tested[k] = true
							}
						}
					case *ast.CaseClause:
						if returnsOther(y) {
							for _, e := range y.List {
								for k := range kindsOf(e, 0) {
									tested[k] = true
								}
							}
						}
					}
					return true
				})
				key := funcName(p, fd) + ":identity-return:no-reference-kind-left"
				var missing []string
				for _, k := range []string{"Map", "Slice"} {
					if !tested[k] {
						missing = append(missing, k)
					}
				}
				sort.Strings(missing)
				if len(missing) == 0 {
					s.Pass(nil, key, identity.Pos(), "maps and slices of every type are copied before the value is handed back as it is")
				} else {
					s.Fail(nil, key, identity.Pos(), "a value of kind "+strings.Join(missing, ", ")+" that is not one of the types listed by the type switch reaches the identity return: the typed maps built in the process (merged_* statistics, pairing_mismatches) are then shared by a Copy, a Subsequence or a ReverseComplement and their source — after c := s.Copy(); c.StatsPlusOne(…) the source's merged_sample is map[A:1 B:1] instead of map[A:1]; Merge(inplace=false) adds the counts to its receiver")
				}
			})
		},
	})
}
