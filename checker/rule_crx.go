package main

// CRX, ZM, SL — the same bytes are recognised whatever the way they arrive (C01, C17).

import (
	"fmt"
	"go/ast"
	"go/constant"
	"go/token"
	"go/types"
	"regexp/syntax"
	"strings"

	"golang.org/x/tools/go/packages"
)

// crCanEnd: the expression can match a text ending with a carriage return (or be empty before one that does).
func crAccepts(re *syntax.Regexp) bool {
	switch re.Op {
	case syntax.OpAnyChar, syntax.OpAnyCharNotNL:
		return true
	case syntax.OpCharClass:
		for i := 0; i+1 < len(re.Rune); i += 2 {
			if re.Rune[i] <= '\r' && '\r' <= re.Rune[i+1] {
				return true
			}
		}
		return false
	case syntax.OpLiteral:
		return len(re.Rune) > 0 && re.Rune[len(re.Rune)-1] == '\r'
	case syntax.OpStar, syntax.OpPlus, syntax.OpQuest, syntax.OpRepeat, syntax.OpCapture:
		return crAccepts(re.Sub[0])
	case syntax.OpAlternate:
		for _, s := range re.Sub {
			if crAccepts(s) {
				return true
			}
		}
	case syntax.OpConcat:
		if len(re.Sub) > 0 {
			return crAccepts(re.Sub[len(re.Sub)-1])
		}
	}
	return false
}

// crCheck returns the number of line feeds of the pattern and whether each of them may be preceded by a carriage return.
func crCheck(re *syntax.Regexp) (n int, ok bool) {
	ok = true
	var walk func(r *syntax.Regexp, prev *syntax.Regexp)
	walk = func(r *syntax.Regexp, prev *syntax.Regexp) {
		switch r.Op {
		case syntax.OpLiteral:
			for i, c := range r.Rune {
				if c != '\n' {
					continue
				}
				n++
				if i > 0 {
					if r.Rune[i-1] != '\r' {
						ok = false
					}
				} else if prev == nil || !crAccepts(prev) {
					ok = false
				}
			}
		case syntax.OpConcat:
			var p *syntax.Regexp = prev
			for _, s := range r.Sub {
				walk(s, p)
				p = s
			}
		default:
			for _, s := range r.Sub {
				walk(s, nil)
			}
		}
	}
	walk(re, nil)
	return
}

func init() {
	register(&Rule{
		ID: "CRX", Props: []string{"C01"}, Min: 1,
		Doc: `"for every well-formed input … line folding, CR/LF": the format of a file is recognised whatever its line ends. Every constant pattern handed to regexp.Match / MustCompile in
pkg/obiformats is parsed (regexp/syntax) and each line feed of the pattern follows something that accepts a carriage return — \r?, ., a class holding \r: the title of a GenBank release file was
matched with " *\n", so the same file with CR LF line ends was "text/plain … not yet implemented", exit 1, while its entries alone, or --genbank, were read.`,
		Run: func(c *Ctx, s *Sink) {
			for _, p := range c.sortedPkgs() {
				if !strings.HasSuffix(p.PkgPath, "/pkg/obiformats") {
					continue
				}
				info := p.TypesInfo
				n := 0
				for _, f := range p.Syntax {
					if strings.HasSuffix(c.Fset.Position(f.Pos()).Filename, "_test.go") {
						continue
					}
					ast.Inspect(f, func(nd ast.Node) bool {
						call, ok := nd.(*ast.CallExpr)
						if !ok || len(call.Args) < 1 {
							return true
						}
						switch fullName(callee(info, call)) {
						case "regexp.Match", "regexp.MatchString", "regexp.MustCompile", "regexp.Compile":
						default:
							return true
						}
						tv, ok := info.Types[call.Args[0]]
						if !ok || tv.Value == nil || tv.Value.Kind() != constant.String {
							return true
						}
						pat := constant.StringVal(tv.Value)
						re, err := syntax.Parse(pat, syntax.Perl)
						if err != nil {
							s.Undecided(nil, fmt.Sprintf("pkg/obiformats:pattern %q", pat), call.Pos(), "the pattern does not parse: "+err.Error())
							return true
						}
						lf, good := crCheck(re)
						if lf == 0 {
							return true
						}
						n++
						key := fmt.Sprintf("pkg/obiformats:pattern %q:line-feeds-accept-CR", pat)
						if good {
							s.Pass(nil, key, call.Pos(), fmt.Sprintf("%d line feed(s), each may be preceded by a carriage return", lf))
						} else {
							s.Fail(nil, key, call.Pos(), "a line feed of the pattern must directly follow the text: the same file with CR LF line ends is not recognised — a GenBank release file (title line 'GBPRI1.SEQ  Genetic Sequence Data Bank') is read with LF and refused with CR LF (\"guessed format text/plain … not yet implemented\", exit 1), although its entries alone, or --genbank, are read")
						}
						return true
					})
				}
			}
		},
	})

	register(&Rule{
		ID: "ZM", Props: []string{"C01", "C17"}, Min: 1,
		Doc: `"whatever the way the bytes arrive (… compressed stream)": the zstd format has two kinds of frames and a stream may start with either. The function of pkg/obiformats that recognises a zstd
stream (the one comparing the magic 28 B5 2F FD) also compares the three fixed bytes 2A 4D 18 of the skippable-frame magic 0x184D2A5? (or that integer): pzstd always starts its output with a
skippable frame — the file, which the decoder used by the toolkit reads, was "application/octet-stream … not yet implemented".`,
		Run: func(c *Ctx, s *Sink) {
			c.EachFunc([]string{"pkg/obiformats"}, func(p *packages.Package, fd *ast.FuncDecl) {
				info := p.TypesInfo
				consts := map[int64]bool{}
				ast.Inspect(fd.Body, func(n ast.Node) bool {
					if e, ok := n.(ast.Expr); ok {
						if v, isC := constInt(info, e); isC {
							consts[v] = true
						}
					}
					return true
				})
				if !(consts[0x28] && consts[0xB5] && consts[0x2f] && consts[0xfd]) {
					return
				}
				key := funcName(p, fd) + ":skippable-frame-magic"
				if consts[0x2A] && consts[0x4D] && consts[0x18] || consts[0x184D2A50] {
					s.Pass(nil, key, fd.Pos(), "both magic numbers of the zstd format are compared")
				} else {
					s.Fail(nil, key, fd.Pos(), "only the magic number of a data frame (28 B5 2F FD) is recognised: a zstd stream starting with a skippable frame (50 2A 4D 18 …, what pzstd writes) is handed still compressed to the format sniffer — \"guessed format application/octet-stream which is not yet implemented\", no record, although zstd.NewReader decodes it")
				}
			})
		},
	})

	register(&Rule{
		ID: "SL", Props: []string{"C01"}, Min: 1,
		Doc: `"whatever the way the bytes arrive (regular file, stdin/pipe …)": a file name that is a link is followed by the kernel. In pkg/obitools/obiconvert a failure of filepath.EvalSymlinks — which resolves
the TEXT of the link — ends the function only for a directory: the return lies under a test of IsDir() of what os.Stat (which follows any link) says. /dev/fd/63 (obiconvert <(zcat x.gz)) and
/dev/stdin are links to "pipe:[inode]": "Cannot open file /dev/fd/63: lstat /proc/…/fd/pipe:[…]: no such file or directory", exit 1, while --paired-with <(…) and obiconvert < file read it.`,
		Run: func(c *Ctx, s *Sink) {
			c.EachFunc([]string{"pkg/obitools/obiconvert"}, func(p *packages.Package, fd *ast.FuncDecl) {
				info := p.TypesInfo
				n := 0
				var stack []ast.Node
				// error variables of EvalSymlinks calls
				errVars := map[types.Object]token.Pos{}
				ast.Inspect(fd.Body, func(nd ast.Node) bool {
					if as, ok := nd.(*ast.AssignStmt); ok && len(as.Rhs) == 1 && len(as.Lhs) == 2 {
						if call, ok := as.Rhs[0].(*ast.CallExpr); ok && fullName(callee(info, call)) == "path/filepath.EvalSymlinks" {
							if o := rootObj(info, as.Lhs[1]); o != nil {
								errVars[o] = call.Pos()
							}
						}
					}
					return true
				})
				if len(errVars) == 0 {
					return
				}
				bad := token.NoPos
				ast.Inspect(fd.Body, func(nd ast.Node) bool {
					if nd == nil {
						stack = stack[:len(stack)-1]
						return true
					}
					stack = append(stack, nd)
					ret, ok := nd.(*ast.ReturnStmt)
					if !ok {
						return true
					}
					// enclosing conditions
					tested, isDir := false, false
					for k := len(stack) - 2; k >= 0; k-- {
						is, ok := stack[k].(*ast.IfStmt)
						if !ok {
							continue
						}
						inElse := k+1 < len(stack) && is.Else != nil && stack[k+1] == ast.Node(is.Else)
						ast.Inspect(is.Cond, func(m ast.Node) bool {
							switch y := m.(type) {
							case *ast.BinaryExpr:
								if o := rootObj(info, y.X); o != nil {
									if pos, ok := errVars[o]; ok && pos < ret.Pos() && (y.Op == token.NEQ && !inElse || y.Op == token.EQL && inElse) {
										tested = true
									}
								}
							case *ast.CallExpr:
								if sel, ok := y.Fun.(*ast.SelectorExpr); ok && sel.Sel.Name == "IsDir" && !inElse {
									isDir = true
								}
							}
							return true
						})
					}
					if tested {
						n++
						if !isDir && !bad.IsValid() {
							bad = ret.Pos()
						}
					}
					return true
				})
				key := funcName(p, fd) + ":EvalSymlinks:failure-ends-for-a-directory-only"
				if bad.IsValid() {
					s.Fail(nil, key, bad, "the function gives up when the text of a link cannot be resolved: /dev/fd/N (process substitution) and /dev/stdin on a pipe are links to pipe:[inode] — obiconvert <(cat s.fastq): \"Cannot open file /dev/fd/63: lstat /proc/5207/fd/pipe:[10085789]: no such file or directory\", exit 1, no record; the same bytes from a file, from the standard input or through --paired-with <(…) are read")
				} else {
					s.Pass(nil, key, fd.Pos(), fmt.Sprintf("%d return(s) after a failure of EvalSymlinks, all for a directory", n))
				}
			})
		},
	})
}

func init() {
	register(&Rule{
		ID: "CRT", Props: []string{"C01"}, Min: 1,
		Doc: `"whatever the position of the cuts … CR/LF": the chunk reader removes the line ends left at the end of a chunk before it hands the chunk to a parser; with CR LF files the carriage return goes with
the line feed. In pkg/obiformats.ReadSeqFileChunk, what trims the tail of the buffer names both bytes: a constant cutset given to a Trim function holds '\r' whenever it holds '\n', and a
condition comparing a byte of the buffer with '\n' compares it with '\r' in the same expression. Trimmed of LF only, a chunk of a CR LF GenBank file ends with a lone CR, which the flat-file
parser takes for a line of its own.`,
		Run: func(c *Ctx, s *Sink) {
			fd0, p := c.FindFunc("pkg/obiformats", "ReadSeqFileChunk")
			if fd0 == nil {
				s.Undecided(nil, "pkg/obiformats.ReadSeqFileChunk:line-ends", 0, "function not found")
				return
			}
			info := p.TypesInfo
			n := 0
			// the chunk reader and the helpers of its file
			file := c.Fset.Position(fd0.Pos()).Filename
			for _, f := range p.Syntax {
				if c.Fset.Position(f.Pos()).Filename != file {
					continue
				}
				for _, d := range f.Decls {
					fd, isF := d.(*ast.FuncDecl)
					if !isF || fd.Body == nil {
						continue
					}
					crtFunc(c, s, info, fd, &n)
				}
			}
		},
	})
}

func crtFunc(c *Ctx, s *Sink, info *types.Info, fd *ast.FuncDecl, np *int) {
	{
		{
			n := *np
			defer func() { *np = n }()
			isChar := func(e ast.Expr, ch int64) bool {
				v, ok := constInt(info, e)
				return ok && v == ch
			}
			var outer []ast.Expr
			ast.Inspect(fd.Body, func(nd ast.Node) bool {
				switch y := nd.(type) {
				case *ast.CallExpr:
					fn := fullName(callee(info, y))
					if strings.HasPrefix(fn, "bytes.Trim") || strings.HasPrefix(fn, "strings.Trim") {
						for _, a := range y.Args[1:] {
							if tv, ok := info.Types[a]; ok && tv.Value != nil && tv.Value.Kind() == constant.String {
								set := constant.StringVal(tv.Value)
								if strings.Contains(set, "\n") {
									n++
									key := fmt.Sprintf("pkg/obiformats.ReadSeqFileChunk:trim#%d:CR-goes-with-LF", n)
									if strings.Contains(set, "\r") {
										s.Pass(nil, key, y.Pos(), "the cutset holds both bytes of a line end")
									} else {
										s.Fail(nil, key, y.Pos(), "the tail of the chunk is trimmed of line feeds only: a chunk of a CR LF file ends with a lone carriage return — a GenBank/EMBL file with CR LF line ends cut after an entry gives the parser a last line holding CR alone")
									}
								}
							}
						}
					}
				case *ast.ForStmt:
					if y.Cond != nil {
						outer = append(outer, y.Cond)
					}
				case *ast.IfStmt:
					outer = append(outer, y.Cond)
				}
				return true
			})
			for _, cond := range outer {
				lf, cr := false, false
				ast.Inspect(cond, func(m ast.Node) bool {
					if b, ok := m.(*ast.BinaryExpr); ok && (b.Op == token.EQL || b.Op == token.NEQ) {
						if isChar(b.X, '\n') || isChar(b.Y, '\n') {
							lf = true
						}
						if isChar(b.X, '\r') || isChar(b.Y, '\r') {
							cr = true
						}
					}
					return true
				})
				if !lf {
					continue
				}
				n++
				key := fmt.Sprintf("pkg/obiformats.ReadSeqFileChunk:trim#%d:CR-goes-with-LF", n)
				if cr {
					s.Pass(nil, key, cond.Pos(), "the condition names both bytes of a line end")
				} else {
					s.Fail(nil, key, cond.Pos(), "the tail of the chunk is trimmed of line feeds only: a chunk of a CR LF file ends with a lone carriage return")
				}
			}
		}
	}
}
