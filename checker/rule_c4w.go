package main

// C4W — the ambiguity test of the 4-mer counter looks at the whole window (C15).

import (
	"fmt"
	"go/ast"
	"go/token"
	"go/types"
)

func init() {
	register(&Rule{
		ID: "C4W", Props: []string{"C15"}, Min: 1,
		Doc: `"the candidate filter never discards a reference that could be among the best": the 4-mer counts give an upper bound of the shared windows only if every window holding an ambiguity code
is counted as able to match anything. In obikmer.Count4Mer the window is W symbols wide, W being the number of 2-bit codes the rolled word holds (the size of its type divided by the shift); the
counting starts at 'i >= W-1', the counter of symbols read since the last ambiguity code starts at W or more, and the window is filed as ambiguous under 'lastamb < W' — the three constants are
read from the source and compared with W. With 'lastamb < 3' a window whose FIRST symbol is a code is filed under a plain word (the code read as a), Common4Mer undercounts by one and
FindClosests stops one candidate too early: [ref0] instead of [ref0 ref1].`,
		Run: func(c *Ctx, s *Sink) {
			fd, p := c.FindFunc("pkg/obikmer", "Count4Mer")
			key := "pkg/obikmer.Count4Mer:ambiguity-window-is-the-word"
			if fd == nil {
				s.Undecided(nil, key, 0, "function not found")
				return
			}
			info := p.TypesInfo
			// the rolled word: x <<= k
			var word types.Object
			shift := int64(0)
			ast.Inspect(fd.Body, func(n ast.Node) bool {
				if as, ok := n.(*ast.AssignStmt); ok && as.Tok == token.SHL_ASSIGN && len(as.Lhs) == 1 && word == nil {
					if v, isC := constInt(info, as.Rhs[0]); isC && v > 0 {
						word, shift = rootObj(info, as.Lhs[0]), v
					}
				}
				return true
			})
			if word == nil {
				s.Undecided(nil, key, fd.Pos(), "no rolled word (x <<= k) found")
				return
			}
			bt, ok := word.Type().Underlying().(*types.Basic)
			bits := map[types.BasicKind]int64{types.Uint8: 8, types.Uint16: 16, types.Uint32: 32, types.Uint64: 64, types.Int8: 8, types.Int16: 16, types.Int32: 32, types.Int64: 64}
			if !ok || bits[bt.Kind()] == 0 {
				s.Undecided(nil, key, fd.Pos(), "the rolled word has no fixed size")
				return
			}
			w := bits[bt.Kind()] / shift
			// the counter: the variable reset to 0 in one branch of an if and incremented in the other
			var counter types.Object
			ast.Inspect(fd.Body, func(n ast.Node) bool {
				is, ok := n.(*ast.IfStmt)
				if !ok || is.Else == nil || counter != nil {
					return true
				}
				// in either order of the two branches
				find := func(a, b ast.Node) types.Object {
					var zeroed, incd types.Object
					ast.Inspect(a, func(m ast.Node) bool {
						if as, ok := m.(*ast.AssignStmt); ok && as.Tok == token.ASSIGN && len(as.Lhs) == 1 {
							if v, isC := constInt(info, as.Rhs[0]); isC && v == 0 {
								zeroed = rootObj(info, as.Lhs[0])
							}
						}
						return true
					})
					ast.Inspect(b, func(m ast.Node) bool {
						if inc, ok := m.(*ast.IncDecStmt); ok && inc.Tok == token.INC {
							incd = rootObj(info, inc.X)
						}
						return true
					})
					if zeroed != nil && zeroed == incd {
						return zeroed
					}
					return nil
				}
				if o := find(is.Body, is.Else); o != nil {
					counter = o
				} else if o := find(is.Else, is.Body); o != nil {
					counter = o
				}
				return true
			})
			if counter == nil {
				s.Undecided(nil, key, fd.Pos(), "no counter of symbols since the last ambiguity code (reset in one branch, incremented in the other)")
				return
			}
			var problems []string
			found := 0
			// initial value
			ast.Inspect(fd.Body, func(n ast.Node) bool {
				if as, ok := n.(*ast.AssignStmt); ok && as.Tok == token.DEFINE && len(as.Lhs) == 1 && rootObj(info, as.Lhs[0]) == counter {
					if v, isC := constInt(info, as.Rhs[0]); isC {
						found++
						if v < w {
							problems = append(problems, fmt.Sprintf("%s starts at %d, below the %d symbols of a window: the first windows of a sequence are filed as ambiguous", counter.Name(), v, w))
						}
					}
				}
				if b, ok := n.(*ast.BinaryExpr); ok {
					if rootObj(info, b.X) == counter {
						if v, isC := constInt(info, b.Y); isC && (b.Op == token.LSS || b.Op == token.GEQ) {
							found++
							if v != w {
								problems = append(problems, fmt.Sprintf("the window is tested with %s %s %d although it holds %d symbols: a window whose first symbol is an ambiguity code is filed under a plain word", counter.Name(), b.Op, v, w))
							}
						}
						if v, isC := constInt(info, b.Y); isC && (b.Op == token.LEQ || b.Op == token.GTR) {
							found++
							if v != w-1 {
								problems = append(problems, fmt.Sprintf("the window is tested with %s %s %d although it holds %d symbols", counter.Name(), b.Op, v, w))
							}
						}
					}
				}
				return true
			})
			if found < 2 {
				s.Undecided(nil, key, fd.Pos(), "the initial value and the test of the counter are not both found")
				return
			}
			if len(problems) > 0 {
				s.Fail(nil, key, fd.Pos(), problems[0]+" — Common4Mer then undercounts the windows two sequences may share and FindClosests drops a tied best reference ([ref0] where the exhaustive comparison gives [ref0 ref1])")
			} else {
				s.Pass(nil, key, fd.Pos(), fmt.Sprintf("the word holds %d symbols and the counter is tested against %d", w, w))
			}
		},
	})
}

func init() {
	register(&Rule{
		ID: "A4", Props: []string{"C19", "C15"}, Min: 2,
		Doc: `"4-mer tables count exactly the 4-mer occurrences": Encode4mer spells an ambiguity code as an a (a byte has no room for anything else), so whoever files or counts the words it returns must
leave out the windows holding such a code. In pkg/obikmer every function that consumes the result of Encode4mer — or the packed word of its own loop, as Count4Mer does — refers to the table of the
ambiguity codes (__is_ambiguous__), itself or through the package helper that hands it the words: Index4mer and FastShiftFourMer did not, cgtcnnnnnnnngatc was indexed with five occurrences of aaaa and
one of caaa, two reads holding a run of n each were placed run against run (27 fake hits against the 17 real ones) and obipairing --fast-absolute assembled them there.`,
		Run: func(c *Ctx, s *Sink) {
			p := c.Pkg("pkg/obikmer")
			if p == nil {
				s.Undecided(nil, "pkg/obikmer", 0, "package not loaded")
				return
			}
			info := p.TypesInfo
			refsAmb := map[string]bool{}
			callsEnc := map[string]*ast.FuncDecl{}
			calls := map[string][]string{}
			for _, f := range p.Syntax {
				for _, d := range f.Decls {
					fd, ok := d.(*ast.FuncDecl)
					if !ok || fd.Body == nil {
						continue
					}
					name := fd.Name.Name
					ast.Inspect(fd.Body, func(n ast.Node) bool {
						switch y := n.(type) {
						case *ast.Ident:
							if y.Name == "__is_ambiguous__" {
								refsAmb[name] = true
							}
						case *ast.CallExpr:
							if fn := callee(info, y); fn != nil && fn.Pkg() == p.Types {
								calls[name] = append(calls[name], fn.Name())
								if fn.Name() == "Encode4mer" {
									callsEnc[name] = fd
								}
							}
						}
						return true
					})
				}
			}
			// consumers: the functions that reach Encode4mer
			reaches := map[string]bool{}
			changed := true
			for k := range callsEnc {
				reaches[k] = true
			}
			for changed {
				changed = false
				for f, cs := range calls {
					if reaches[f] {
						continue
					}
					for _, g := range cs {
						if reaches[g] {
							reaches[f] = true
							changed = true
						}
					}
				}
			}
			for f := range reaches {
				fd, _ := c.FindFunc("pkg/obikmer", f)
				if fd == nil {
					continue
				}
				key := "pkg/obikmer." + f + ":ambiguous-windows-left-out"
				ok := refsAmb[f]
				for _, g := range calls[f] {
					if refsAmb[g] && reaches[g] {
						ok = true
					}
				}
				if ok {
					s.Pass(nil, key, fd.Pos(), "the words are taken under the test of the ambiguity codes (here or in the helper that hands them over)")
				} else {
					s.Fail(nil, key, fd.Pos(), "the words of Encode4mer are filed as they come: a window holding an ambiguity code counts as an occurrence of the word it spells with a in its place — cgtcnnnnnnnngatc is indexed with 5 occurrences of aaaa; two reads holding each a run of n are aligned run against run by FastShiftFourMer")
				}
			}
		},
	})
}
