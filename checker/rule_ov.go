package main

// OV — a boolean option acts through its value (C02).

import (
	"go/ast"
	"go/token"
	"strings"
)

func init() {
	register(&Rule{
		ID: "OV", Props: []string{"C02", "C01"}, Min: 1,
		Doc: `"the same quality scores … for every input/output quality offset": an option that was given the value false must not act. In pkg/obioptions the option processing does not test
options.Called(name) for a name declared with Bool / BoolVar: go-getoptions marks a boolean option as called as soon as a value is supplied for it — --solexa=false, or OBISOLEXA=false in the
environment — so the Solexa decoding was switched ON by asking for it to be off, and a FASTQ file the toolkit had written with the scores 20,40,10,0,93 came back as 93,9,93,93,62, exit 0.
Exempt: help and version (actions that end the program, not settings).`,
		Run: func(c *Ctx, s *Sink) {
			p := c.Pkg("pkg/obioptions")
			if p == nil {
				s.Undecided(nil, "pkg/obioptions", 0, "package not loaded")
				return
			}
			info := p.TypesInfo
			boolOpts := map[string]bool{}
			for _, f := range p.Syntax {
				ast.Inspect(f, func(n ast.Node) bool {
					call, ok := n.(*ast.CallExpr)
					if !ok {
						return true
					}
					sel, ok := call.Fun.(*ast.SelectorExpr)
					if !ok {
						return true
					}
					idx := -1
					switch sel.Sel.Name {
					case "Bool":
						idx = 0
					case "BoolVar":
						idx = 1
					}
					if idx >= 0 && idx < len(call.Args) {
						if tv, ok := info.Types[call.Args[idx]]; ok && tv.Value != nil {
							boolOpts[strings.Trim(tv.Value.ExactString(), `"`)] = true
						}
					}
					return true
				})
			}
			exempt := map[string]bool{"help": true, "version": true}
			n := 0
			for _, f := range p.Syntax {
				ast.Inspect(f, func(nd ast.Node) bool {
					call, ok := nd.(*ast.CallExpr)
					if !ok || len(call.Args) != 1 {
						return true
					}
					sel, ok := call.Fun.(*ast.SelectorExpr)
					if !ok || sel.Sel.Name != "Called" {
						return true
					}
					tv, ok := info.Types[call.Args[0]]
					if !ok || tv.Value == nil {
						return true
					}
					name := strings.Trim(tv.Value.ExactString(), `"`)
					if !boolOpts[name] || exempt[name] {
						return true
					}
					n++
					s.Fail(nil, "pkg/obioptions:Called("+name+")", call.Pos(), "the boolean option --"+name+" acts as soon as it is named, whatever its value: --"+name+"=false (or its environment variable set to false) switches it on — OBISOLEXA=false decodes the qualities as Solexa: a FASTQ file written by the toolkit comes back with other scores (5I+!~ read as ~*~~_), exit 0")
					return true
				})
			}
			if n == 0 {
				s.Pass(nil, "pkg/obioptions:boolean-options-by-value", token.NoPos, "no boolean setting is tested through Called()")
			}
		},
	})
}
