package main

// UR — a recycled sequence is dead (C05: "recycling of sequence buffers never
// alters a record that is still to be output"; C07: derived objects share no
// state with a recycled source).
//
// Recycle() hands the byte slices and the annotation map of a sequence back to
// the shared pools, where the next GetSlice/GetAnnotation of any goroutine
// picks them up.  For every variable v on which Recycle() is called directly:
//   UR-use    : no path from v.Recycle() reaches a read of v before v is
//               reassigned (or the loop that declares it starts its next turn);
//   UR-escape : no path reaches v.Recycle() after v was stored somewhere that
//               outlives the statement (appended, pushed, sent, stored in a field,
//               element or map, returned) — the record would travel on with
//               buffers that now belong to the pool.

import (
	"go/ast"
	"go/token"
	"go/types"
	"strings"

	"golang.org/x/tools/go/cfg"
	"golang.org/x/tools/go/packages"
)

func init() {
	register(&Rule{
		ID: "UR", Props: []string{"C05", "C07"}, Min: 5,
		Doc: `recycled means dead: for every variable on which (*BioSequence).Recycle() is called (not deferred), typestate over go/cfg shows that no path reads the variable after the call
before it is reassigned or its declaring loop iterates, and that no path recycles it after it escaped (append, Push, channel send, store into a field / element / map, return):
the pools hand the recycled slices and annotation map to the next caller, so a record still to be output would be overwritten by another goroutine's data.`,
		Run: runUR,
	})
}

// urSummary: parameter index -> index of the bool parameter guarding the recycle (-1: unconditional or other guard).
type urSummary map[int]int

// urSummaries: functions that call Recycle() on one of their parameters (directly, or by handing it to such a function).
func urSummaries(c *Ctx) map[*types.Func]urSummary {
	sums := map[*types.Func]urSummary{}
	for iter := 0; iter < 3; iter++ {
		c.EachFunc([]string{"pkg"}, func(p *packages.Package, fd *ast.FuncDecl) {
			info := p.TypesInfo
			fobj, _ := info.Defs[fd.Name].(*types.Func)
			if fobj == nil {
				return
			}
			params := flattenParams(fd.Type.Params)
			pidx := map[types.Object]int{}
			for i, id := range params {
				if id != nil {
					pidx[info.ObjectOf(id)] = i
				}
			}
			var stack []ast.Node
			ast.Inspect(fd.Body, func(n ast.Node) bool {
				if n == nil {
					stack = stack[:len(stack)-1]
					return true
				}
				stack = append(stack, n)
				switch n.(type) {
				case *ast.FuncLit, *ast.DeferStmt:
					stack = stack[:len(stack)-1]
					return false
				}
				call, ok := n.(*ast.CallExpr)
				if !ok {
					return true
				}
				guard := func() int {
					for k := len(stack) - 2; k >= 0; k-- {
						if ifs, ok := stack[k].(*ast.IfStmt); ok && stack[k+1] == ast.Node(ifs.Body) {
							if id, ok := ast.Unparen(ifs.Cond).(*ast.Ident); ok {
								if gi, ok := pidx[info.ObjectOf(id)]; ok {
									return gi
								}
							}
						}
					}
					return -1
				}
				record := func(o types.Object) {
					if i, ok := pidx[o]; ok {
						if sums[fobj] == nil {
							sums[fobj] = urSummary{}
						}
						if _, seen := sums[fobj][i]; !seen {
							sums[fobj][i] = guard()
						}
					}
				}
				if sel, ok := call.Fun.(*ast.SelectorExpr); ok && sel.Sel.Name == "Recycle" && len(call.Args) == 0 {
					if f := callee(info, call); f != nil && strings.HasSuffix(fullName(f), "/pkg/obiseq.(BioSequence).Recycle") {
						if id, ok := ast.Unparen(sel.X).(*ast.Ident); ok {
							record(info.ObjectOf(id))
						}
					}
					return true
				}
				if f := callee(info, call); f != nil {
					if sm, ok := sums[f]; ok {
						for ai, gi := range sm {
							if ai < len(call.Args) {
								if gi >= 0 && gi < len(call.Args) {
									if tv, ok := info.Types[call.Args[gi]]; ok && tv.Value != nil && tv.Value.String() == "false" {
										continue
									}
								}
								if id, ok := ast.Unparen(call.Args[ai]).(*ast.Ident); ok {
									record(info.ObjectOf(id))
								}
							}
						}
					}
				}
				return true
			})
		})
	}
	return sums
}

func runUR(c *Ctx, s *Sink) {
	sums := urSummaries(c)
	// recycledByCall: the identifiers (objects) a call may recycle
	recycledByCall := func(info *types.Info, call *ast.CallExpr) []types.Object {
		f := callee(info, call)
		if f == nil {
			return nil
		}
		sm, ok := sums[f]
		if !ok {
			return nil
		}
		var out []types.Object
		for ai, gi := range sm {
			if ai >= len(call.Args) {
				continue
			}
			if gi >= 0 && gi < len(call.Args) {
				if tv, ok := info.Types[call.Args[gi]]; ok && tv.Value != nil && tv.Value.String() == "false" {
					continue
				}
			}
			if id, ok := ast.Unparen(call.Args[ai]).(*ast.Ident); ok {
				if o := info.ObjectOf(id); o != nil {
					out = append(out, o)
				}
			}
		}
		return out
	}
	c.EachFunc([]string{"pkg"}, func(p *packages.Package, fd *ast.FuncDecl) {
		info := p.TypesInfo
		// bodies: the declaration and every function literal
		var bodies []*ast.BlockStmt
		bodies = append(bodies, fd.Body)
		ast.Inspect(fd.Body, func(n ast.Node) bool {
			if lit, ok := n.(*ast.FuncLit); ok {
				bodies = append(bodies, lit.Body)
			}
			return true
		})
		fname := funcName(p, fd)
		for bi, body := range bodies {
			// variables recycled directly in this body (not in nested literals, not deferred)
			vars := map[types.Object]token.Pos{}
			var scan func(n ast.Node)
			scan = func(n ast.Node) {
				ast.Inspect(n, func(m ast.Node) bool {
					switch x := m.(type) {
					case *ast.FuncLit:
						return false
					case *ast.DeferStmt:
						return false
					case *ast.CallExpr:
						for _, o := range recycledByCall(info, x) {
							if _, isParam := o.(*types.Var); isParam {
								if _, seen := vars[o]; !seen {
									vars[o] = x.Pos()
								}
							}
						}
						if sel, ok := x.Fun.(*ast.SelectorExpr); ok && sel.Sel.Name == "Recycle" && len(x.Args) == 0 {
							if id, ok := ast.Unparen(sel.X).(*ast.Ident); ok {
								if f := callee(info, x); f != nil && strings.HasSuffix(fullName(f), "/pkg/obiseq.(BioSequence).Recycle") {
									if o := info.ObjectOf(id); o != nil {
										if _, seen := vars[o]; !seen {
											vars[o] = x.Pos()
										}
									}
								}
							}
						}
					}
					return true
				})
			}
			scan(body)
			if len(vars) == 0 {
				continue
			}
			g := buildCFG(info, body)
			for v, firstPos := range vars {
				key := fname + ":recycle:" + v.Name()
				if bi > 0 {
					key = fname + ":func#" + itoaSigned(int64(bi))[1:] + ":recycle:" + v.Name()
				}
				const (live, dead, escaped = 0, 1, 2)
				// the loop (if any) whose range clause declares v
				var declLoop ast.Stmt
				ast.Inspect(body, func(n ast.Node) bool {
					if r, ok := n.(*ast.RangeStmt); ok {
						for _, e := range []ast.Expr{r.Key, r.Value} {
							if id, ok := e.(*ast.Ident); ok && info.ObjectOf(id) == v {
								declLoop = r
							}
						}
					}
					return true
				})
				ts := &typestate{g: g, init: live, info: info,
					events: func(n ast.Node) []tsEvent {
						var evs []tsEvent
						if _, ok := n.(*ast.DeferStmt); ok {
							return nil
						}
						// assignment to v: the uses on the right-hand side come first
						assignsV := false
						if as, ok := n.(*ast.AssignStmt); ok {
							for _, l := range as.Lhs {
								if id, ok := ast.Unparen(l).(*ast.Ident); ok && info.ObjectOf(id) == v {
									assignsV = true
								}
							}
						}
						skip := map[*ast.Ident]bool{}
						visitEval(n, func(m ast.Node) {
							switch x := m.(type) {
							case *ast.CallExpr:
								if sel, ok := x.Fun.(*ast.SelectorExpr); ok {
									if id, ok := ast.Unparen(sel.X).(*ast.Ident); ok && info.ObjectOf(id) == v && sel.Sel.Name == "Recycle" {
										skip[id] = true
										evs = append(evs, tsEvent{kind: "recycle", node: m})
										return
									}
								}
								for _, o := range recycledByCall(info, x) {
									if o == v {
										for _, a := range x.Args {
											if id, ok := ast.Unparen(a).(*ast.Ident); ok && info.ObjectOf(id) == v {
												skip[id] = true
											}
										}
										evs = append(evs, tsEvent{kind: "recycle", node: m})
										return
									}
								}
								// escapes through a call: append(x, v), X.Push(...v...), MakeBioSequenceBatch(..., v)
								for _, a := range x.Args {
									if id, ok := ast.Unparen(a).(*ast.Ident); ok && info.ObjectOf(id) == v {
										if fid, ok := x.Fun.(*ast.Ident); ok && fid.Name == "append" {
											evs = append(evs, tsEvent{kind: "escape", node: m, aux: "appended to " + types.ExprString(x.Args[0])})
										}
									}
								}
							case *ast.SendStmt:
								if id, ok := ast.Unparen(x.Value).(*ast.Ident); ok && info.ObjectOf(id) == v {
									evs = append(evs, tsEvent{kind: "escape", node: m, aux: "sent on a channel"})
								}
							case *ast.ReturnStmt:
								for _, r := range x.Results {
									if id, ok := ast.Unparen(r).(*ast.Ident); ok && info.ObjectOf(id) == v {
										evs = append(evs, tsEvent{kind: "use", node: m})
									}
								}
							case *ast.AssignStmt:
								for i, l := range x.Lhs {
									if i < len(x.Rhs) {
										if id, ok := ast.Unparen(x.Rhs[i]).(*ast.Ident); ok && info.ObjectOf(id) == v {
											switch ast.Unparen(l).(type) {
											case *ast.SelectorExpr, *ast.IndexExpr, *ast.StarExpr:
												evs = append(evs, tsEvent{kind: "escape", node: m, aux: "stored in " + types.ExprString(l)})
											}
										}
									}
								}
							case *ast.Ident:
								if info.ObjectOf(x) == v && !skip[x] && info.Defs[x] == nil {
									// a plain read (the left-hand side of an assignment to v is not a read)
									isLhs := false
									if as, ok := n.(*ast.AssignStmt); ok {
										for _, l := range as.Lhs {
											if ast.Unparen(l) == ast.Expr(x) {
												isLhs = true
											}
										}
									}
									if !isLhs {
										evs = append(evs, tsEvent{kind: "use", node: m})
									}
								}
							}
						})
						// the receiver ident of Recycle was visited as an Ident before the call node in evaluation order: drop those uses
						var out []tsEvent
						for _, e := range evs {
							if e.kind == "use" {
								if id, ok := e.node.(*ast.Ident); ok && skip[id] {
									continue
								}
							}
							out = append(out, e)
						}
						if assignsV {
							out = append(out, tsEvent{kind: "assign", node: n})
						}
						return out
					},
					step: func(st int, ev tsEvent) (int, string) {
						switch ev.kind {
						case "recycle":
							if st == escaped {
								return dead, v.Name() + " is recycled after it was " + ev.auxString(st) + ": the record travels on with buffers that now belong to the pool and will be overwritten by the next sequence that takes them"
							}
							return dead, ""
						case "use":
							if st == dead {
								return dead, v.Name() + " is read after " + v.Name() + ".Recycle(): its slices and annotation map have been handed back to the pools"
							}
						case "escape":
							if st == dead {
								return dead, v.Name() + " is handed on after " + v.Name() + ".Recycle()"
							}
							return escaped, ""
						case "assign":
							return live, ""
						}
						return st, ""
					},
					edge: func(b *cfg.Block, succ int, st int) int {
						if declLoop != nil && b.Kind == cfg.KindRangeLoop && b.Stmt == declLoop {
							return live // next turn: a new element
						}
						return st
					}}
				res := ts.run()
				if len(res.errs) > 0 {
					s.Fail(nil, key, res.errs[0].pos, res.errs[0].msg)
				} else {
					s.Pass(nil, key, firstPos, "never read after Recycle(), never recycled after escaping")
				}
			}
		}
	})
}

func (e tsEvent) auxString(int) string {
	if s, ok := e.aux.(string); ok {
		return s
	}
	return "handed on"
}
