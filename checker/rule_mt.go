package main

// MT — the format sniffer sees what was read, all of it, and tries the record formats before CSV (C01, C02).

import (
	"go/ast"
	"go/constant"
	"go/types"
	"golang.org/x/tools/go/packages"
	"strings"
)

func init() {
	register(&Rule{
		ID: "MT", Props: []string{"C01", "C02", "C17"}, Min: 5,
		Doc: `the format of an input is decided on the bytes that were read and does not depend on the length of the first record or on quote characters in it: in pkg/obiformats.OBIMimeTypeGuesser
(1) the argument of mimetype.Detect is the buffer sliced to the count returned by the read (not the whole buffer, whose tail is zero bytes); (2) mimetype.SetLimit is called, in the function, with
0 or with a constant not smaller than the buffer — the library otherwise hands only 3072 bytes to the detectors, and the FASTQ detector needs the whole first record: a FASTQ file the toolkit wrote
whose first read is longer than ~3 kb is refused as text/plain while the same bytes are accepted on stdin; (3) for every parent type the CSV detector (the one driving encoding/csv) is registered
before the FASTA and FASTQ detectors — Extend prepends, so it is tried after them: a FASTQ record whose JSON title holds ,"b" and whose quality line ends with '"' otherwise reads as two-field CSV rows;
(4) the CSV detector is not registered under application/octet-stream (what is not a text): a compressed file whose magic number is damaged is binary data, and the lenient detector took 2% of
them for a table; (5) the FASTQ detector reads the size of its window (its second parameter): with the three-line pattern alone, a first record longer than the window can never be recognised.`,
		Run: runMT,
	})
}

func runMT(c *Ctx, s *Sink) {
	// the function that calls mimetype.Detect (clauses 1 and 2) and the one that registers the detectors (clause 3) are
	// found by what they call, wherever the code was moved
	base := "pkg/obiformats.OBIMimeTypeGuesser"
	var fd, fdExt *ast.FuncDecl
	var p, pExt *packages.Package
	c.EachFunc([]string{"pkg/obiformats"}, func(pp *packages.Package, d *ast.FuncDecl) {
		ast.Inspect(d.Body, func(n ast.Node) bool {
			if call, ok := n.(*ast.CallExpr); ok {
				if f := callee(pp.TypesInfo, call); f != nil && f.Pkg() != nil && strings.HasSuffix(f.Pkg().Path(), "gabriel-vasile/mimetype") {
					switch f.Name() {
					case "Detect":
						fd, p = d, pp
					case "Extend":
						fdExt, pExt = d, pp
					}
				}
			}
			return true
		})
	})
	if fd == nil || fdExt == nil {
		s.Undecided(nil, base, 0, "no function of pkg/obiformats calls mimetype.Detect / registers detectors")
		return
	}
	info := p.TypesInfo
	defs := collectDefsTuple(info, fd)
	isMime := func(call *ast.CallExpr, name string) bool {
		f := callee(info, call)
		return f != nil && f.Pkg() != nil && strings.HasSuffix(f.Pkg().Path(), "gabriel-vasile/mimetype") && f.Name() == name
	}
	// the buffer: the []byte made with a constant size that is given to Detect
	var detect *ast.CallExpr
	var limits []*ast.CallExpr
	type ext struct {
		parent string
		det    types.Object
		pos    int
	}
	var exts []ext
	n := 0
	scan := func(nd ast.Node) bool {
		call, ok := nd.(*ast.CallExpr)
		if !ok {
			return true
		}
		switch {
		case isMime(call, "Detect"):
			detect = call
		case isMime(call, "SetLimit"):
			limits = append(limits, call)
		case isMime(call, "Extend") && len(call.Args) >= 2:
			n++
			parent := "root"
			if sel, ok := ast.Unparen(call.Fun).(*ast.SelectorExpr); ok {
				if lk, ok := ast.Unparen(sel.X).(*ast.CallExpr); ok && isMime(lk, "Lookup") && len(lk.Args) == 1 {
					parent = types.ExprString(lk.Args[0])
				}
			}
			exts = append(exts, ext{parent, rootObj(pExt.TypesInfo, call.Args[0]), n})
		}
		return true
	}
	ast.Inspect(fd.Body, scan)
	if fdExt != fd {
		ast.Inspect(fdExt.Body, scan)
	}
	key := base + ":detect-on-read-bytes"
	var bufObj types.Object
	bufSize := int64(-1)
	if detect == nil || len(detect.Args) != 1 {
		s.Undecided(nil, key, fd.Pos(), "no call of mimetype.Detect")
	} else {
		arg := ast.Unparen(detect.Args[0])
		if sl0, ok := arg.(*ast.SliceExpr); ok {
			bufObj = rootObj(info, sl0.X)
		} else {
			bufObj = rootObj(info, arg)
		}
		if bufObj != nil {
			for _, d := range defs[bufObj] {
				if mk, ok := ast.Unparen(d).(*ast.CallExpr); ok && len(mk.Args) >= 2 {
					if id, ok := mk.Fun.(*ast.Ident); ok && id.Name == "make" {
						if tv, ok := info.Types[mk.Args[1]]; ok && tv.Value != nil {
							bufSize, _ = constant.Int64Val(tv.Value)
						}
					}
				}
			}
		}
		sl, isSlice := arg.(*ast.SliceExpr)
		switch {
		case !isSlice || sl.High == nil:
			s.Fail(nil, key, detect.Pos(), "mimetype.Detect receives the whole buffer, not the part filled by the read: the detectors also see the zero bytes behind a short input")
		default:
			// High must be the count returned by a read into the same buffer
			okCount := false
			if id, ok := ast.Unparen(sl.High).(*ast.Ident); ok {
				for _, d := range defs[info.ObjectOf(id)] {
					if rc, ok := ast.Unparen(d).(*ast.CallExpr); ok {
						for _, a := range rc.Args {
							if rootObj(info, a) == bufObj {
								okCount = true
							}
						}
					}
				}
			}
			if okCount {
				s.Pass(nil, key, detect.Pos(), "Detect is given the buffer sliced to the count returned by the read")
			} else {
				s.Fail(nil, key, detect.Pos(), "the upper bound of the slice given to Detect is not the count returned by the read into that buffer")
			}
		}
	}
	key = base + ":detect-limit"
	okLimit := false
	for _, l := range limits {
		if tv, ok := info.Types[l.Args[0]]; ok && tv.Value != nil {
			if v, exact := constant.Int64Val(tv.Value); exact && (v == 0 || (bufSize > 0 && v >= bufSize)) {
				okLimit = true
			}
		}
	}
	switch {
	case detect == nil:
		s.Undecided(nil, key, fd.Pos(), "no call of mimetype.Detect")
	case okLimit:
		s.Pass(nil, key, limits[0].Pos(), "the detection limit covers the whole buffer")
	default:
		s.Fail(nil, key, detect.Pos(), "mimetype.SetLimit is not called with 0 or with the size of the buffer: only the first 3072 bytes reach the detectors, and the FASTQ detector needs the title, the whole sequence and the '+' of the first record — a FASTQ file whose first read is longer than ~3 kb is refused (text/plain) as a file and accepted on stdin")
	}
	key = base + ":csv-tried-last"
	// the csv detector: the local function literal that calls encoding/csv
	var csvObj types.Object
	recordDet := map[types.Object]bool{}
	defsExt := collectDefsTuple(pExt.TypesInfo, fdExt)
	for o, ds := range defsExt {
		for _, d := range ds {
			lit, ok := ast.Unparen(d).(*ast.FuncLit)
			if !ok {
				continue
			}
			usesCSV, usesMarker := false, false
			ast.Inspect(lit.Body, func(m ast.Node) bool {
				if call, ok := m.(*ast.CallExpr); ok {
					if f := callee(info, call); f != nil && f.Pkg() != nil && f.Pkg().Path() == "encoding/csv" {
						usesCSV = true
					}
				}
				if bl, ok := m.(*ast.BasicLit); ok && (strings.HasPrefix(bl.Value, "\"^>") || strings.HasPrefix(bl.Value, "\"^@")) {
					usesMarker = true
				}
				return true
			})
			if usesCSV {
				csvObj = o
			}
			if usesMarker {
				recordDet[o] = true
			}
		}
	}
	switch {
	case csvObj == nil || len(recordDet) == 0:
		s.Undecided(nil, key, fd.Pos(), "CSV or FASTA/FASTQ detector literal not identified")
	default:
		bad := ""
		parents := map[string]bool{}
		for _, e := range exts {
			parents[e.parent] = true
		}
		for par := range parents {
			csvPos := -1
			for _, e := range exts {
				if e.parent == par && e.det == csvObj {
					csvPos = e.pos
				}
			}
			if csvPos < 0 {
				continue
			}
			for _, e := range exts {
				if e.parent == par && recordDet[e.det] && e.pos < csvPos {
					bad = par
				}
			}
		}
		// (5) the FASTQ detector does not need the whole first record in its window
		key5 := base + ":fastq-detector-window"
		var fqLit *ast.FuncLit
		for o, ds := range defsExt {
			for _, d := range ds {
				if lit, ok := ast.Unparen(d).(*ast.FuncLit); ok && recordDet[o] {
					isFq := false
					ast.Inspect(lit.Body, func(m ast.Node) bool {
						if bl, ok := m.(*ast.BasicLit); ok && strings.HasPrefix(bl.Value, "\"^@") {
							isFq = true
						}
						return true
					})
					if isFq {
						fqLit = lit
					}
				}
			}
		}
		if fqLit == nil || len(fqLit.Type.Params.List) == 0 {
			s.Undecided(nil, key5, fd.Pos(), "FASTQ detector literal not identified")
		} else {
			// its second parameter (the size of the window) is read
			ps := flattenParams(fqLit.Type.Params)
			usesLimit := false
			if len(ps) >= 2 && ps[1] != nil {
				lim := pExt.TypesInfo.ObjectOf(ps[1])
				ast.Inspect(fqLit.Body, func(m ast.Node) bool {
					if id, ok := m.(*ast.Ident); ok && pExt.TypesInfo.Uses[id] == lim {
						usesLimit = true
					}
					return true
				})
			}
			if usesLimit {
				s.Pass(nil, key5, fqLit.Pos(), "the detector knows when its window is full and then accepts a first record that goes beyond it")
			} else {
				s.Fail(nil, key5, fqLit.Pos(), "the FASTQ detector only knows the pattern title line / sequence line / '+', all three inside its window, and never looks at the size of the window: a FASTQ file the toolkit wrote whose first record is longer than the 1 MiB read for the detection (3 reads of 1.1 Mb) is refused as text/plain, from a file and from stdin, while --fastq reads it back byte-identical")
			}
		}
		// (4) binary data are not tried as CSV
		key4 := base + ":csv-not-for-binary"
		binCSV := false
		for _, e := range exts {
			if e.det == csvObj && strings.Contains(e.parent, "octet-stream") {
				binCSV = true
			}
		}
		if binCSV {
			s.Fail(nil, key4, fd.Pos(), "the CSV detector is also registered under application/octet-stream, the type of what is not a text: it only asks for two lines with the same number (>1) of comma-separated fields, which about 2% of the 0.3–1.5 kB gzip/bzip2/xz files with one bit of their magic number flipped satisfy — they are read as CSV, a record without sequence is invented and obicount, obisummary, obicsv, obiconvert --json-output exit 0")
		} else {
			s.Pass(nil, key4, fd.Pos(), "the CSV detector is registered for text only")
		}
		if bad != "" {
			s.Fail(nil, key, fd.Pos(), "under "+bad+" the CSV detector is registered after the FASTA/FASTQ detectors; Extend prepends, so CSV is tried first: a FASTQ the toolkit wrote, whose JSON title holds ,\"b\" and whose quality line ends with '\"' (Phred 1), is read as two-field CSV rows (text/csv) and the read-back aborts")
		} else {
			s.Pass(nil, key, fd.Pos(), "the CSV detector is registered first, hence tried after the record formats")
		}
	}
}
