package main

// PWL, CSP — the second search covers every first match; the C result stacks are read after the search (C11, C10).

import (
	"fmt"
	"go/ast"
	"go/token"
	"go/types"
	"strings"

	"golang.org/x/tools/go/packages"
)

func init() {
	register(&Rule{
		ID: "PWL", Props: []string{"C11"}, Min: 2,
		Doc: `"every amplicon the primers define is reported, the same on both strands": in obiapat._Pcr the second primer is searched in a window that starts at the first match of the first primer
(begin := M[0][0]) and, when a maximum length is set, ends at a distance computed from a match of M: that match is the LAST one, M[len(M)-1] (the matches come sorted by position), so that the
window covers the amplicons of every first match. Computed from M[0], all the amplicons of one orientation but the first are lost when two sites lie more than the maximum length apart, while the other
strand of the same template reports them all.`,
		Run: func(c *Ctx, s *Sink) {
			fd, p := c.FindFunc("pkg/obiapat", "_Pcr")
			if fd == nil {
				s.Undecided(nil, "pkg/obiapat._Pcr:window", 0, "function not found")
				return
			}
			info := p.TypesInfo
			n := 0
			var visit func(list []ast.Stmt)
			visit = func(list []ast.Stmt) {
				// begin := M[0][0] in this block
				var m types.Object
				var beginObj types.Object
				for _, st := range list {
					if as, ok := st.(*ast.AssignStmt); ok && len(as.Lhs) == 1 && len(as.Rhs) == 1 {
						if ix, ok := ast.Unparen(as.Rhs[0]).(*ast.IndexExpr); ok {
							if ix2, ok := ast.Unparen(ix.X).(*ast.IndexExpr); ok {
								v1, c1 := constInt(info, ix.Index)
								v2, c2 := constInt(info, ix2.Index)
								if c1 && c2 && v1 == 0 && v2 == 0 && m == nil {
									m = rootObj(info, ix2.X)
									beginObj = rootObj(info, as.Lhs[0])
								}
							}
						}
					}
					if m == nil || beginObj == nil {
						continue
					}
					// later assignments, in this block or in an if of it, whose right side indexes M
					ast.Inspect(st, func(nd ast.Node) bool {
						as, ok := nd.(*ast.AssignStmt)
						if !ok || len(as.Lhs) != 1 || len(as.Rhs) != 1 || rootObj(info, as.Lhs[0]) == beginObj {
							return true
						}
						var idx []ast.Expr
						ast.Inspect(as.Rhs[0], func(q ast.Node) bool {
							if ix, ok := q.(*ast.IndexExpr); ok {
								if ix2, ok := ast.Unparen(ix.X).(*ast.IndexExpr); ok && rootObj(info, ix2.X) == m {
									if _, isId := ast.Unparen(ix2.X).(*ast.Ident); isId {
										idx = append(idx, ix2.Index)
									}
								}
							}
							return true
						})
						if len(idx) == 0 {
							return true
						}
						n++
						key := fmt.Sprintf("pkg/obiapat._Pcr:window#%d:reaches-the-last-first-match", n)
						ok2 := true
						for _, e := range idx {
							// len(M) - 1
							b, isB := ast.Unparen(e).(*ast.BinaryExpr)
							good := false
							if isB && b.Op == token.SUB {
								if v, isC := constInt(info, b.Y); isC && v == 1 {
									if call, ok := ast.Unparen(b.X).(*ast.CallExpr); ok && len(call.Args) == 1 {
										if id, ok := call.Fun.(*ast.Ident); ok && id.Name == "len" && rootObj(info, call.Args[0]) == m {
											good = true
										}
									}
								}
							}
							if !good {
								ok2 = false
							}
						}
						if ok2 {
							s.Pass(nil, key, as.Pos(), "the end of the window is computed from the last match of the first primer")
						} else {
							s.Fail(nil, key, as.Pos(), "the window searched for the second primer is computed from another match of the first primer than the last one: with --max-length set and two sites of one orientation further apart than that, only the first amplicon is reported — the reverse complement of the same template gives 2 amplicons on one strand and 1 on the other")
						}
						return true
					})
				}
				for _, st := range list {
					ast.Inspect(st, func(nd ast.Node) bool {
						if b, ok := nd.(*ast.BlockStmt); ok {
							visit(b.List)
							return false
						}
						return true
					})
				}
			}
			visit(fd.Body.List)
		},
	})

	register(&Rule{
		ID: "CSP", Props: []string{"C10", "C11"}, Min: 1,
		Doc: `"the positions reported are those of the matches": the C search stores its hits in stacks that grow by realloc, which may move them. In pkg/obiapat, in a function that runs the search
(C.ManberAll, seen through cgo's closure), the addresses of the result stacks of the sequence (the val field of hitpos[·] / hiterr[·]) are read AFTER that call: read before, they point to
the freed block as soon as a search returns more hits than the stacks held (5 hits: 4→8 slots moves the block with glibc) — the count is right, positions and error counts are garbage.`,
		Run: func(c *Ctx, s *Sink) {
			c.EachFunc([]string{"pkg/obiapat"}, func(p *packages.Package, fd *ast.FuncDecl) {
				info := p.TypesInfo
				search := token.NoPos
				ast.Inspect(fd.Body, func(n ast.Node) bool {
					if call, ok := n.(*ast.CallExpr); ok {
						if id, ok := call.Fun.(*ast.Ident); ok && strings.Contains(id.Name, "_Cfunc_ManberAll") && !search.IsValid() {
							search = call.Pos()
						}
						if sel, ok := call.Fun.(*ast.SelectorExpr); ok && sel.Sel.Name == "ManberAll" && !search.IsValid() {
							search = call.Pos()
						}
					}
					return true
				})
				if !search.IsValid() {
					return
				}
				n := 0
				early := token.NoPos
				ast.Inspect(fd.Body, func(nd ast.Node) bool {
					sel, ok := nd.(*ast.SelectorExpr)
					if !ok || sel.Sel.Name != "val" {
						return true
					}
					src := types.ExprString(sel.X)
					if !strings.Contains(src, "hitpos") && !strings.Contains(src, "hiterr") {
						return true
					}
					n++
					if sel.Pos() < search && !early.IsValid() {
						early = sel.Pos()
					}
					return true
				})
				if n == 0 {
					return
				}
				key := funcName(p, fd) + ":result-stacks:read-after-the-search"
				_ = info
				if early.IsValid() {
					s.Fail(nil, key, early, "the address of a result stack is taken before the search that may reallocate it: with 5 hits or more on a sequence whose stacks are still small, the positions and error counts copied afterwards come from the freed block (use after free): the number of hits is right, their positions are not")
				} else {
					s.Pass(nil, key, search, fmt.Sprintf("%d reads of the stack addresses, all after the search", n))
				}
			})
		},
	})
}
