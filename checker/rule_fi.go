package main

// FI — a float read from a file becomes an int only when it fits (C02).

import (
	"fmt"
	"go/ast"
	"go/token"
	"go/types"
	"strings"

	"golang.org/x/tools/go/packages"
)

func init() {
	register(&Rule{
		ID: "FI", Props: []string{"C02"}, Min: 2,
		Doc: `"numbers compared by value": the parsers hold an integral number as an int. In pkg/obiformats a conversion int(x) (or int64) of a float64 x lies under a condition that bounds the
magnitude of x (a comparison of x, or of math.Abs(x), with something, in an enclosing if, or a helper whose name says so): the conversion of a float64 beyond the range of int is
implementation-defined in Go (on amd64 it gives the most negative integer): 1e19 written in a JSON header came back as -9223372036854775808.`,
		Run: func(c *Ctx, s *Sink) {
			c.EachFunc([]string{"pkg/obiformats"}, func(p *packages.Package, fd *ast.FuncDecl) {
				info := p.TypesInfo
				n := 0
				var stack []ast.Node
				ast.Inspect(fd.Body, func(nd ast.Node) bool {
					if nd == nil {
						stack = stack[:len(stack)-1]
						return true
					}
					stack = append(stack, nd)
					call, ok := nd.(*ast.CallExpr)
					if !ok || len(call.Args) != 1 {
						return true
					}
					tv, ok := info.Types[call.Fun]
					if !ok || !tv.IsType() {
						return true
					}
					if b, ok := tv.Type.Underlying().(*types.Basic); !ok || b.Info()&types.IsInteger == 0 {
						return true
					}
					at := info.TypeOf(call.Args[0])
					if at == nil {
						return true
					}
					if b, ok := at.Underlying().(*types.Basic); !ok || b.Info()&types.IsFloat == 0 {
						return true
					}
					if _, isConst := info.Types[call.Args[0]]; isConst && info.Types[call.Args[0]].Value != nil {
						return true
					}
					n++
					key := fmt.Sprintf("%s:int(float)#%d:magnitude-bounded", funcName(p, fd), n)
					x := rootObj(info, call.Args[0])
					xtxt := types.ExprString(call.Args[0])
					bounded := false
					signed := false
					for k := len(stack) - 2; k >= 0; k-- {
						var cond ast.Expr
						switch y := stack[k].(type) {
						case *ast.IfStmt:
							if k+1 < len(stack) && stack[k+1] == ast.Node(y.Body) {
								cond = y.Cond
							}
						case *ast.BinaryExpr:
							if y.Op == token.LAND && call.Pos() >= y.Y.Pos() {
								cond = y.X
							}
						}
						if cond == nil {
							continue
						}
						ast.Inspect(cond, func(m ast.Node) bool {
							if c2, ok := m.(*ast.CallExpr); ok && len(c2.Args) >= 1 {
								switch fullName(callee(info, c2)) {
								case "math.Signbit", "math.Copysign", "math.Float64bits":
									if x != nil && rootObj(info, c2.Args[len(c2.Args)-1]) == x || rootObj(info, c2.Args[0]) == x && x != nil {
										signed = true
									}
								}
							}
							b, ok := m.(*ast.BinaryExpr)
							if !ok {
								return true
							}
							switch b.Op {
							case token.LSS, token.LEQ, token.GTR, token.GEQ:
							default:
								return true
							}
							for _, side := range []ast.Expr{b.X, b.Y} {
								if x != nil && rootObj(info, side) == x {
									bounded = true
								}
								if strings.Contains(types.ExprString(side), "Abs("+xtxt+")") {
									bounded = true
								}
							}
							return true
						})
					}
					if bounded {
						s.Pass(nil, key, call.Pos(), "the conversion lies under a comparison bounding the magnitude of the number")
					} else {
						s.Fail(nil, key, call.Pos(), "a float64 read from the file is converted to an integer whatever its magnitude: beyond the range of int the result is implementation-defined (amd64: the most negative integer) — {\"n\":1e19} is read back as -9223372036854775808")
					}
					keyZ := fmt.Sprintf("%s:int(float)#%d:negative-zero-kept", funcName(p, fd), n)
					if signed {
						s.Pass(nil, keyZ, call.Pos(), "the condition of the conversion looks at the sign bit of the number: -0 stays a float")
					} else {
						s.Fail(nil, keyZ, call.Pos(), "-0.0 is integral and small, so it is converted: int(-0.0) is 0 and the sign the writer had printed is lost — obiannotate -S 'x=-0.0' writes {\"x\":-0}, obiconvert of that file writes {\"x\":0}: write-after-read is not a fixed point (the nested [-0] of the same record is kept)")
					}
					return true
				})
			})
		},
	})
}
