package main

// LW7 — the derived ordering predicates agree with Cmp (C20).
//
// LessThan, GreaterThan, LessThanOrEqual, GreaterThanOrEqual and Equals of the
// fixed-precision types are written in terms of Cmp and of each other.  Their
// bodies are evaluated over the three possible outcomes of the comparison of
// the two operands (u < v, u = v, u > v): Cmp yields -1, 0, 1 (its limb order is
// LW4's business), a call of another predicate is evaluated recursively (operands
// swapped when receiver and argument are), and the resulting truth table must be
// the one the name promises.

import (
	"fmt"
	"go/ast"
	"go/token"
	"go/types"
	"strings"

	"golang.org/x/tools/go/packages"
)

func init() {
	register(&Rule{
		ID: "LW7", Props: []string{"C20"}, Min: 8,
		Doc: `derived ordering predicates: the body of every LessThan / LessThanOrEqual / GreaterThan / GreaterThanOrEqual / Equals of Uint64, Uint128, Uint256 that is written in terms of Cmp
or of the other predicates is evaluated over the three outcomes {u<v, u=v, u>v} and yields exactly the truth table of its name (a predicate negating the wrong sibling is wrong only
for equal operands).`,
		Run: runLW7,
	})
}

var lw7Want = map[string][3]bool{ // index 0: u<v, 1: u=v, 2: u>v
	"LessThan":           {true, false, false},
	"LessThanOrEqual":    {true, true, false},
	"GreaterThan":        {false, false, true},
	"GreaterThanOrEqual": {false, true, true},
	"Equals":             {false, true, false},
}

func runLW7(c *Ctx, s *Sink) {
	p := c.Pkg("pkg/obifp")
	if p == nil {
		s.Undecided(nil, "pkg/obifp", 0, "package not loaded")
		return
	}
	info := p.TypesInfo
	// methods by receiver type and name
	decls := map[string]*ast.FuncDecl{}
	c.EachFunc([]string{"pkg/obifp"}, func(_ *packages.Package, fd *ast.FuncDecl) {
		if fd.Recv != nil {
			decls[recvTypeName(fd.Recv.List[0].Type)+"."+fd.Name.Name] = fd
		}
	})
	type val struct {
		isBool bool
		b      bool
		i      int
		ok     bool
	}
	var evalPred func(typ, name string, rel int, depth int) (bool, bool)
	var eval func(typ string, fd *ast.FuncDecl, e ast.Expr, rel int, depth int) val
	eval = func(typ string, fd *ast.FuncDecl, e ast.Expr, rel int, depth int) val {
		e = ast.Unparen(e)
		if v, ok := constInt(info, e); ok {
			return val{i: int(v), ok: true}
		}
		recv := info.ObjectOf(fd.Recv.List[0].Names[0])
		params := flattenParams(fd.Type.Params)
		var arg types.Object
		if len(params) == 1 && params[0] != nil {
			arg = info.ObjectOf(params[0])
		}
		switch x := e.(type) {
		case *ast.UnaryExpr:
			if x.Op == token.NOT {
				v := eval(typ, fd, x.X, rel, depth)
				return val{isBool: true, b: !v.b, ok: v.ok && v.isBool}
			}
			if x.Op == token.SUB {
				v := eval(typ, fd, x.X, rel, depth)
				return val{i: -v.i, ok: v.ok && !v.isBool}
			}
		case *ast.BinaryExpr:
			l, r := eval(typ, fd, x.X, rel, depth), eval(typ, fd, x.Y, rel, depth)
			if !l.ok || !r.ok {
				return val{}
			}
			switch x.Op {
			case token.LAND:
				return val{isBool: true, b: l.b && r.b, ok: true}
			case token.LOR:
				return val{isBool: true, b: l.b || r.b, ok: true}
			case token.LSS:
				return val{isBool: true, b: l.i < r.i, ok: true}
			case token.LEQ:
				return val{isBool: true, b: l.i <= r.i, ok: true}
			case token.GTR:
				return val{isBool: true, b: l.i > r.i, ok: true}
			case token.GEQ:
				return val{isBool: true, b: l.i >= r.i, ok: true}
			case token.EQL:
				if l.isBool {
					return val{isBool: true, b: l.b == r.b, ok: true}
				}
				return val{isBool: true, b: l.i == r.i, ok: true}
			case token.NEQ:
				if l.isBool {
					return val{isBool: true, b: l.b != r.b, ok: true}
				}
				return val{isBool: true, b: l.i != r.i, ok: true}
			}
		case *ast.CallExpr:
			sel, ok := x.Fun.(*ast.SelectorExpr)
			if !ok || len(x.Args) != 1 {
				return val{}
			}
			ro, ao := rootObj(info, sel.X), rootObj(info, x.Args[0])
			r := rel
			switch {
			case ro == recv && ao == arg:
			case ro == arg && ao == recv:
				r = 2 - rel
			default:
				return val{}
			}
			if sel.Sel.Name == "Cmp" {
				return val{i: r - 1, ok: true}
			}
			if _, known := lw7Want[sel.Sel.Name]; known && depth < 6 {
				b, ok := evalPred(typ, sel.Sel.Name, r, depth+1)
				return val{isBool: true, b: b, ok: ok}
			}
		}
		return val{}
	}
	evalPred = func(typ, name string, rel int, depth int) (bool, bool) {
		fd := decls[typ+"."+name]
		if fd == nil || fd.Body == nil || len(fd.Body.List) != 1 || len(fd.Recv.List[0].Names) == 0 {
			return false, false
		}
		ret, ok := fd.Body.List[0].(*ast.ReturnStmt)
		if !ok || len(ret.Results) != 1 {
			return false, false
		}
		v := eval(typ, fd, ret.Results[0], rel, depth)
		return v.b, v.ok && v.isBool
	}
	// Cmp: every case comparing a limb of the receiver with the same limb of the argument returns a value of the matching sign
	for _, typ := range []string{"Uint64", "Uint128", "Uint256"} {
		fd := decls[typ+".Cmp"]
		if fd == nil || len(fd.Recv.List[0].Names) == 0 {
			continue
		}
		key := fmt.Sprintf("pkg/obifp.(%s).Cmp:sign", typ)
		recv := info.ObjectOf(fd.Recv.List[0].Names[0])
		var bad []string
		n := 0
		check := func(cond ast.Expr, body []ast.Stmt) {
			b, ok := ast.Unparen(cond).(*ast.BinaryExpr)
			if !ok || (b.Op != token.GTR && b.Op != token.LSS) || len(body) == 0 {
				return
			}
			ret, ok := body[len(body)-1].(*ast.ReturnStmt)
			if !ok || len(ret.Results) != 1 {
				return
			}
			v, ok := constInt(info, ret.Results[0])
			if !ok {
				return
			}
			lx, okx := ast.Unparen(b.X).(*ast.SelectorExpr)
			ly, oky := ast.Unparen(b.Y).(*ast.SelectorExpr)
			if !okx || !oky || lx.Sel.Name != ly.Sel.Name {
				return
			}
			n++
			recvLeft := rootObj(info, lx.X) == recv
			greater := (b.Op == token.GTR) == recvLeft // receiver limb greater
			if (greater && v <= 0) || (!greater && v >= 0) {
				bad = append(bad, fmt.Sprintf("%s returns %d", types.ExprString(cond), v))
			}
		}
		ast.Inspect(fd.Body, func(nd ast.Node) bool {
			switch x := nd.(type) {
			case *ast.CaseClause:
				for _, e := range x.List {
					check(e, x.Body)
				}
			case *ast.IfStmt:
				check(x.Cond, x.Body.List)
			}
			return true
		})
		if n == 0 {
			continue
		}
		if len(bad) > 0 {
			s.Fail(nil, key, fd.Pos(), "Cmp returns a value of the wrong sign: "+strings.Join(bad, "; ")+": every predicate derived from Cmp is inverted for those operands")
		} else {
			s.Pass(nil, key, fd.Pos(), fmt.Sprintf("%d limb comparisons, each returning the sign of the comparison", n))
		}
	}
	for _, typ := range []string{"Uint64", "Uint128", "Uint256"} {
		for _, name := range []string{"LessThan", "LessThanOrEqual", "GreaterThan", "GreaterThanOrEqual", "Equals"} {
			fd := decls[typ+"."+name]
			if fd == nil {
				continue
			}
			key := fmt.Sprintf("pkg/obifp.(%s).%s:truth-table", typ, name)
			var got [3]bool
			decided := true
			for rel := 0; rel < 3; rel++ {
				b, ok := evalPred(typ, name, rel, 0)
				if !ok {
					decided = false
				}
				got[rel] = b
			}
			if !decided {
				continue // written directly on the limbs: LW4 checks the limb order
			}
			want := lw7Want[name]
			if got == want {
				s.Pass(nil, key, fd.Pos(), "true exactly for "+lw7Desc(want))
			} else {
				var wrong []string
				for rel, nm := range []string{"u < v", "u = v", "u > v"} {
					if got[rel] != want[rel] {
						wrong = append(wrong, fmt.Sprintf("answers %v for %s", got[rel], nm))
					}
				}
				s.Fail(nil, key, fd.Pos(), name+" "+strings.Join(wrong, ", ")+": it is defined through the wrong sibling predicate")
			}
		}
	}
}

func lw7Desc(t [3]bool) string {
	var parts []string
	for i, nm := range []string{"u < v", "u = v", "u > v"} {
		if t[i] {
			parts = append(parts, nm)
		}
	}
	return strings.Join(parts, ", ")
}
