package main

// KM-6, KQ — the De Bruijn graph is only built for k-mers it can hold; the k-mer index counts what it says (C19).

import (
	"fmt"
	"go/ast"
	"go/token"
	"go/types"
	"strings"

	"golang.org/x/tools/go/packages"
)

func init() {
	register(&Rule{
		ID: "KM-6", Props: []string{"C19"}, Min: 2,
		Doc: `a k-mer of the De Bruijn graph is a 64 bit word, two bits per symbol: for k > 32 the mask is all ones and the three 'previous symbol' constants are 0 — the nodes are 32-mers, most of
them look like heads, and DecodeNode invents k − 32 leading a's. (1) obikmer.MakeDeBruijnGraph reaches the construction of the graph only with 1 <= kmersize <= 32 (a guard ending the program,
followed by linear arithmetic on the paths that remain). (2) Every call of MakeDeBruijnGraph in the module is reached only with an argument shown to be at most 32 on the path (the enclosing
tests and the tests preceding it in the loop that increases k): obiconsensus estimates k from the longest repeat of the reads and increments it while the graph has a cycle, without any
bound — three identical reads holding a 31 nt segment twice gave, flagged obiconsensus_consensus:true, 'aaaaaaaaaaaaaaaaaaaaaaaaatgcgctaacttcg…' (k = 54).`,
		Run: runKM6,
	})
	register(&Rule{
		ID: "KQ", Props: []string{"C19"}, Min: 1,
		Doc: `KmerMap.Query answers, for each indexed sequence, the number of canonical k-mers of the query it holds, the query excepted: in the function every store into the result map is an
increment by one (not the copy of a running counter, which counted the first k-mer of each group twice: a reference sharing ONE 30-mer passed --min-shared-kmers 2) and lies under a test that the
sequence counted is not the query (the last group of the sorted candidates escaped that test: a sequence matched itself or not according to its address).`,
		Run: runKQ,
	})
}

func runKM6(c *Ctx, s *Sink) {
	const maxK = 32
	fd, p := c.FindFunc("pkg/obikmer", "MakeDeBruijnGraph")
	key := "pkg/obikmer.MakeDeBruijnGraph:kmer-size-within-the-word"
	if fd == nil {
		s.Undecided(nil, key, 0, "function not found")
	} else {
		info := p.TypesInfo
		ps := flattenParams(fd.Type.Params)
		// the statement building the graph: the first one holding a composite literal
		var pre []ast.Stmt
		var build ast.Stmt
		for _, st := range fd.Body.List {
			has := false
			ast.Inspect(st, func(n ast.Node) bool {
				if _, ok := n.(*ast.CompositeLit); ok {
					has = true
				}
				return true
			})
			if has {
				build = st
				break
			}
			pre = append(pre, st)
		}
		if build == nil || len(ps) == 0 {
			s.Undecided(nil, key, fd.Pos(), "construction of the graph not found")
		} else {
			env := &linEnv{info: info, vars: map[types.Object]linForm{}, defs: map[types.Object][]ast.Expr{}, atoms: map[string]bool{}, lens: map[string]bool{}, elems: map[string]linForm{}}
			paths := linWalk([]linPath{{env: env}}, pre, func(linPath, ast.Stmt) {})
			var kid *ast.Ident
			ast.Inspect(build, func(n ast.Node) bool {
				if id, ok := n.(*ast.Ident); ok && info.Uses[id] == info.ObjectOf(ps[0]) && kid == nil {
					kid = id
				}
				return true
			})
			ok := kid != nil && len(paths) > 0
			for _, pth := range paths {
				pth.env.cur = pth.sys
				k, okk := pth.env.form(kid, 0)
				if !okk || !pth.known().entails(linLE(k, lfConst(maxK))) || !pth.known().entails(linLE(lfConst(1), k)) {
					ok = false
				}
			}
			if ok {
				s.Pass(nil, key, build.Pos(), "the graph is only built for 1 <= kmersize <= 32")
			} else {
				s.Fail(nil, key, build.Pos(), "the graph is built whatever the k-mer size: for k >= 33 the mask is all ones and the 'previous symbol' constants are 0 — Push keeps the last 32 bases of each window, Previouses never sees a predecessor starting with c, g or t (7 heads for a path graph), DecodeNode invents k − 32 leading a's")
			}
		}
	}
	// (2) call sites
	n := 0
	c.EachFunc([]string{"pkg", "cmd"}, func(p *packages.Package, fd *ast.FuncDecl) {
		info := p.TypesInfo
		var calls []*ast.CallExpr
		ast.Inspect(fd.Body, func(nd ast.Node) bool {
			if call, ok := nd.(*ast.CallExpr); ok && strings.HasSuffix(fullName(callee(info, call)), "/pkg/obikmer.MakeDeBruijnGraph") && len(call.Args) == 1 {
				calls = append(calls, call)
			}
			return true
		})
		for _, call := range calls {
			if _, isC := constInt(info, call.Args[0]); isC {
				continue
			}
			n++
			key := fmt.Sprintf("%s:MakeDeBruijnGraph#%d:argument-within-the-word", funcName(p, fd), n)
			env := &linEnv{info: info, vars: map[types.Object]linForm{}, defs: map[types.Object][]ast.Expr{}, atoms: map[string]bool{}, lens: map[string]bool{}, elems: map[string]linForm{}}
			reached, ok := 0, true
			linWalk([]linPath{{env: env}}, fd.Body.List, func(pth linPath, st ast.Stmt) {
				if _, isFor := st.(*ast.ForStmt); isFor {
					return
				}
				found := false
				ast.Inspect(st, func(m ast.Node) bool {
					if m == ast.Node(call) {
						found = true
					}
					return true
				})
				if !found {
					return
				}
				reached++
				pth.env.cur = pth.sys
				k, okk := pth.env.form(call.Args[0], 0)
				if !okk || !pth.known().entails(linLE(k, lfConst(maxK))) {
					ok = false
				}
			})
			switch {
			case reached == 0:
				s.Undecided(nil, key, call.Pos(), "the call is not reached by the path enumeration")
			case ok:
				s.Pass(nil, key, call.Pos(), "the k-mer size handed to the graph is at most 32 on every path")
			default:
				s.Fail(nil, key, call.Pos(), "the k-mer size handed to the graph has no upper bound on some path: obiconsensus takes k = longest repeat of the reads + 1 and increments it while the graph has a cycle — three identical reads of 131 nt holding a 31 nt segment twice: k = 54, consensus 'aaaaaaaaaaaaaaaaaaaaaaaaatgcgctaacttcgatttgcttaattatag' flagged obiconsensus_consensus:true; --kmer-size 35 is accepted too")
			}
		}
	})
	_ = token.NoPos
}

func runKQ(c *Ctx, s *Sink) {
	var fd *ast.FuncDecl
	var p *packages.Package
	c.EachFunc([]string{"pkg/obikmer"}, func(pp *packages.Package, d *ast.FuncDecl) {
		if d.Name.Name == "Query" && d.Recv != nil {
			fd, p = d, pp
		}
	})
	key := "pkg/obikmer.(*KmerMap).Query:counts-by-one-query-excluded"
	if fd == nil {
		s.Undecided(nil, key, 0, "method not found")
		return
	}
	info := p.TypesInfo
	ps := flattenParams(fd.Type.Params)
	if len(ps) == 0 {
		s.Undecided(nil, key, fd.Pos(), "no query parameter")
		return
	}
	query := info.ObjectOf(ps[0])
	// the result map: the variable returned
	var res types.Object
	ast.Inspect(fd.Body, func(n ast.Node) bool {
		if r, ok := n.(*ast.ReturnStmt); ok && len(r.Results) == 1 {
			res = rootObj(info, r.Results[0])
		}
		return true
	})
	if res == nil {
		s.Undecided(nil, key, fd.Pos(), "result not a variable")
		return
	}
	nstore := 0
	var bad []string
	var stack []ast.Node
	ast.Inspect(fd.Body, func(n ast.Node) bool {
		if n == nil {
			stack = stack[:len(stack)-1]
			return true
		}
		stack = append(stack, n)
		var lhs ast.Expr
		inc := false
		switch x := n.(type) {
		case *ast.IncDecStmt:
			lhs, inc = x.X, x.Tok == token.INC
		case *ast.AssignStmt:
			if len(x.Lhs) == 1 && len(x.Rhs) == 1 {
				lhs = x.Lhs[0]
				if v, isC := constInt(info, x.Rhs[0]); x.Tok == token.ADD_ASSIGN && isC && v == 1 {
					inc = true
				}
			}
		}
		ix, ok := lhs.(*ast.IndexExpr)
		if !ok || rootObj(info, ix.X) != res {
			return true
		}
		nstore++
		if !inc {
			bad = append(bad, c.Pos(n.Pos())+": the count is copied from a running counter")
		}
		guarded := false
		for k := len(stack) - 2; k >= 0; k-- {
			if ifs, ok := stack[k].(*ast.IfStmt); ok && k+1 < len(stack) && stack[k+1] == ast.Node(ifs.Body) {
				ast.Inspect(ifs.Cond, func(m ast.Node) bool {
					if b, ok := m.(*ast.BinaryExpr); ok && b.Op == token.NEQ {
						if rootObj(info, b.X) == query || rootObj(info, b.Y) == query {
							guarded = true
						}
					}
					return true
				})
			}
		}
		if !guarded {
			bad = append(bad, c.Pos(n.Pos())+": stored without a test that the sequence counted is not the query")
		}
		return true
	})
	switch {
	case nstore == 0:
		s.Undecided(nil, key, fd.Pos(), "no store into the result")
	case len(bad) > 0:
		s.Fail(nil, key, fd.Pos(), strings.Join(bad, "; ")+" — a read sharing exactly 1 canonical k-mer with a reference is reported with 2 (it passes --min-shared-kmers 2), one sharing 85 with 86; with --self a sequence is, or is not, among its own matches according to the address it was allocated at (ref3 / twin_of_ref3: counts (2,1) in one run, (1,2) in the next)")
	default:
		s.Pass(nil, key, fd.Pos(), fmt.Sprintf("%d store(s): increments by one, the query excluded", nstore))
	}
}

func init() {
	register(&Rule{
		ID: "KQ-2", Props: []string{"C19"}, Min: 1,
		Doc: `the bound on the occurrences of a k-mer means the same thing where the index is filled and where it is purged: in pkg/obikmer, Push admits a further occurrence while len(list) OP1 bound
and NewKmerMap deletes the k-mers with len(list) OP2 bound; a k-mer at exactly the bound must not be both admitted and deleted: with '<=' in Push the purge must be '>' (not '>='), with '<'
it must be '>='. With <= and >= , --max-kmers M removed the k-mers occurring exactly M times (--max-kmers 1 emptied the index).`,
		Run: func(c *Ctx, s *Sink) {
			key := "pkg/obikmer:max-occurrences-admit-vs-purge"
			var admit, purge token.Token
			var at token.Pos
			c.EachFunc([]string{"pkg/obikmer"}, func(p *packages.Package, fd *ast.FuncDecl) {
				info := p.TypesInfo
				ast.Inspect(fd.Body, func(n ast.Node) bool {
					ifs, ok := n.(*ast.IfStmt)
					if !ok {
						return true
					}
					var cmp *ast.BinaryExpr
					ast.Inspect(ifs.Cond, func(m ast.Node) bool {
						if b, ok := m.(*ast.BinaryExpr); ok {
							switch b.Op {
							case token.LSS, token.LEQ, token.GTR, token.GEQ:
								if call, ok := ast.Unparen(b.X).(*ast.CallExpr); ok {
									if id, ok := call.Fun.(*ast.Ident); ok && id.Name == "len" {
										if o := rootObj(info, b.Y); o != nil && strings.Contains(strings.ToLower(o.Name()), "maxocc") {
											cmp = b
										}
									}
								}
							}
						}
						return true
					})
					if cmp == nil {
						return true
					}
					appends, deletes := false, false
					ast.Inspect(ifs.Body, func(m ast.Node) bool {
						if call, ok := m.(*ast.CallExpr); ok {
							if id, ok := call.Fun.(*ast.Ident); ok {
								switch id.Name {
								case "append":
									appends = true
								case "delete":
									deletes = true
								}
							}
						}
						return true
					})
					if appends {
						admit = cmp.Op
					}
					if deletes {
						purge, at = cmp.Op, cmp.Pos()
					}
					return true
				})
			})
			switch {
			case admit == token.ILLEGAL || purge == token.ILLEGAL:
				s.Pass(nil, key, 0, "no pair of admission / purge tests on the number of occurrences")
			case (admit == token.LEQ && purge == token.GTR) || (admit == token.LSS && purge == token.GEQ):
				s.Pass(nil, key, at, "the purge removes exactly the k-mers that went beyond the bound")
			default:
				s.Fail(nil, key, at, fmt.Sprintf("a k-mer occurring exactly 'bound' times is admitted by Push (len %s bound) and deleted by the purge (len %s bound): --max-kmers M drops the k-mers present M times, --max-kmers 1 empties the index", admit, purge))
			}
		},
	})
	register(&Rule{
		ID: "UC", Props: []string{"C19", "C20"}, Min: 1,
		Doc: `an option value is not turned into an unsigned number before it is known not to be negative: in pkg/obitools, a conversion uint(v) / uint64(v) of a package-level integer variable (the
variables the options are bound to) lies in a function that ends the program when v is below a non-negative constant. CLIKmerSize() returned uint(_KmerSize) unchecked: --kmer-size=-2 became
2^64−2 and the k-mer index died on an arithmetic panic or on makeslice.`,
		Run: func(c *Ctx, s *Sink) {
			c.EachFunc([]string{"pkg/obitools"}, func(p *packages.Package, fd *ast.FuncDecl) {
				info := p.TypesInfo
				n := 0
				ast.Inspect(fd.Body, func(nd ast.Node) bool {
					call, ok := nd.(*ast.CallExpr)
					if !ok || len(call.Args) != 1 {
						return true
					}
					tv, ok := info.Types[call.Fun]
					if !ok || !tv.IsType() {
						return true
					}
					if b, ok := tv.Type.Underlying().(*types.Basic); !ok || b.Info()&types.IsUnsigned == 0 {
						return true
					}
					id, ok := ast.Unparen(call.Args[0]).(*ast.Ident)
					if !ok {
						return true
					}
					v, ok := info.ObjectOf(id).(*types.Var)
					if !ok || v.Parent() != v.Pkg().Scope() {
						return true
					}
					if b, ok := v.Type().Underlying().(*types.Basic); !ok || b.Info()&types.IsInteger == 0 || b.Info()&types.IsUnsigned != 0 {
						return true
					}
					n++
					key := fmt.Sprintf("%s:uint(%s)#%d:not-negative", funcName(p, fd), v.Name(), n)
					guarded := false
					ast.Inspect(fd.Body, func(m ast.Node) bool {
						ifs, ok := m.(*ast.IfStmt)
						if !ok || ifs.Pos() > call.Pos() {
							return true
						}
						b, ok := ast.Unparen(ifs.Cond).(*ast.BinaryExpr)
						if !ok || (b.Op != token.LSS && b.Op != token.LEQ) || rootObj(info, b.X) != v {
							return true
						}
						if k, isC := constInt(info, b.Y); !isC || k < 0 {
							return true
						}
						ast.Inspect(ifs.Body, func(q ast.Node) bool {
							if c2, ok := q.(*ast.CallExpr); ok && linEndsProgram(info, c2) {
								guarded = true
							}
							return true
						})
						return true
					})
					if guarded {
						s.Pass(nil, key, call.Pos(), "a negative value ends the program before the conversion")
					} else {
						s.Fail(nil, key, call.Pos(), "the option variable "+v.Name()+" is converted to an unsigned number unchecked: a negative value becomes a huge one — --kmer-size=-2 ends on 'Uint128 underflow at Sub' and a goroutine dump, --kmer-size=-9223372036854775792 on makeslice")
					}
					return true
				})
			})
		},
	})
}
