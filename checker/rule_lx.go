package main

// LX — lexical agreement of the chunk splitters and the chunk parsers (C01, C02).

import (
	"fmt"
	"go/ast"
	"go/token"
	"go/types"
	"sort"
	"strings"

	"golang.org/x/tools/go/packages"
)

func init() {
	register(&Rule{
		ID: "LX-T", Props: []string{"C01", "C02"}, Min: 3,
		Doc: `splitter automata handle every byte explicitly: the record splitters handed to ReadSeqFileChunk (EndOfLastFastaEntry, EndOfLastFastqEntry,
EndOfLastFlatFileEntry) scan the buffer backwards with a small state machine. Its transition function — the loop body, evaluated from the AST for every reachable state and
all 256 byte values (finite evaluation of loop-free code, no parser is run) — must assign the state in every partial-match state: a byte that is silently ignored there lets the
pattern match across arbitrary text (a '>' in the middle of a title line taken for a record start), so where a chunk is cut changes the records.`,
		Run: runLXT,
	})
	register(&Rule{
		ID: "LX-A", Props: []string{"C01", "C02"}, Min: 3,
		Doc: `splitter and parsers agree on the sequence alphabet: the byte sets accepted as sequence symbols by the FASTQ splitter (states looking at the sequence line),
the FASTA parser and the FASTQ parser — obtained by evaluating their guards for all 256 bytes — are equal after case folding and contain the IUPAC letters plus '-', '.', '[',
']' (the alphabet the writers emit). A splitter that accepts fewer symbols than the parser cuts a chunk inside a record.`,
		Run: runLXA,
	})
}

type automaton struct {
	p        *packages.Package
	fd       *ast.FuncDecl
	loop     *ast.ForStmt
	state    types.Object
	accept   int64 // loop runs while state < accept
	init     int64
	buffer   types.Object
	locals   map[types.Object]bool
}

func findAutomaton(c *Ctx, p *packages.Package, fd *ast.FuncDecl) *automaton {
	info := p.TypesInfo
	var a *automaton
	ast.Inspect(fd.Body, func(n ast.Node) bool {
		f, ok := n.(*ast.ForStmt)
		if !ok || f.Cond == nil || a != nil {
			return true
		}
		// condition contains  state < K
		ast.Inspect(f.Cond, func(m ast.Node) bool {
			b, ok := m.(*ast.BinaryExpr)
			if !ok || b.Op != token.LSS {
				return true
			}
			id, ok := ast.Unparen(b.X).(*ast.Ident)
			k, okc := constInt(info, b.Y)
			if ok && okc && id.Name != "i" {
				a = &automaton{p: p, fd: fd, loop: f, state: info.ObjectOf(id), accept: k}
			}
			return true
		})
		return true
	})
	if a == nil {
		return nil
	}
	params := flattenParams(fd.Type.Params)
	if len(params) > 0 && params[0] != nil {
		a.buffer = info.ObjectOf(params[0])
	}
	if v, ok := counterInit(info, fd, a.state, false, nil); ok {
		a.init = int64(v)
	}
	return a
}

// step evaluates the loop body for (state, byte); returns the new state and whether the state was assigned.
func (a *automaton) step(c *Ctx, st int64, b int) (int64, bool, error) {
	info := a.p.TypesInfo
	env := map[types.Object]cevalue{}
	// every integer local of the function gets a neutral value
	ast.Inspect(a.fd, func(n ast.Node) bool {
		if id, ok := n.(*ast.Ident); ok {
			if v, ok := info.ObjectOf(id).(*types.Var); ok && !v.IsField() {
				if bt, ok := v.Type().Underlying().(*types.Basic); ok && bt.Info()&types.IsInteger != 0 {
					if _, set := env[v]; !set {
						env[v] = cevalue{i: 1000}
					}
				}
			}
		}
		return true
	})
	env[a.state] = cevalue{i: st}
	hook := func(ix *ast.IndexExpr) (int64, bool) {
		if rootObj(info, ix.X) == a.buffer {
			return int64(b), true
		}
		return 0, false
	}
	assigned, err := evalStmts(c, a.p, a.loop.Body.List, env, hook)
	if err != nil {
		return 0, false, err
	}
	return env[a.state].i, assigned[a.state], nil
}

// states in which a run of arbitrary bytes is part of the record grammar
var lxFreeText = map[string]map[int64]string{
	"EndOfLastFastqEntry": {5: "scanning the title line backwards for its leading '@': any byte may occur in a title; an end of line resets, '@' must then be preceded by an end of line (state 6)"},
}

var splitterNames = []string{"EndOfLastFastaEntry", "EndOfLastFastqEntry", "EndOfLastFlatFileEntry"}

func runLXT(c *Ctx, s *Sink) {
	for _, name := range splitterNames {
		fd, p := c.FindFunc("pkg/obiformats", name)
		key := "pkg/obiformats." + name
		if fd == nil {
			s.Undecided(nil, key, 0, "splitter not found")
			continue
		}
		a := findAutomaton(c, p, fd)
		if a == nil {
			s.Undecided(nil, key, fd.Pos(), "no 'for … state < K' scanning loop found")
			continue
		}
		// explore reachable states
		seen := map[int64]bool{a.init: true}
		work := []int64{a.init}
		type hole struct {
			st int64
			bs []int
		}
		var holes []hole
		evalErr := ""
		ntrans := 0
		for len(work) > 0 && evalErr == "" {
			st := work[0]
			work = work[1:]
			if st >= a.accept {
				continue
			}
			var silent []int
			for b := 0; b < 256; b++ {
				ns, assigned, err := a.step(c, st, b)
				if err != nil {
					evalErr = err.Error()
					break
				}
				ntrans++
				if _, free := lxFreeText[name][st]; free {
					// tabled free-text state
				} else if !assigned && st != a.init {
					silent = append(silent, b)
				}
				if !seen[ns] && len(seen) < 32 {
					seen[ns] = true
					work = append(work, ns)
				}
			}
			if len(silent) > 0 {
				holes = append(holes, hole{st, silent})
			}
		}
		if evalErr != "" {
			s.Undecided(nil, key, a.loop.Pos(), "cannot evaluate the transition function: "+evalErr)
			continue
		}
		if len(holes) > 0 {
			var parts []string
			for _, h := range holes {
				ex := h.bs[0]
				for _, b := range h.bs {
					if b >= 'a' && b <= 'z' {
						ex = b
						break
					}
				}
				parts = append(parts, fmt.Sprintf("state %d ignores %d byte values (e.g. %q)", h.st, len(h.bs), rune(ex)))
			}
			s.Fail(nil, key, a.loop.Pos(), "in a partial-match state the splitter silently skips bytes instead of resetting or progressing: the record-start pattern matches across arbitrary text, so a chunk can be cut inside a record — "+strings.Join(parts, "; "))
			continue
		}
		var sts []string
		for st := range seen {
			sts = append(sts, fmt.Sprint(st))
		}
		sort.Strings(sts)
		s.Pass(nil, key, a.loop.Pos(), fmt.Sprintf("%d transitions evaluated over states {%s}: every byte is handled explicitly in every partial-match state", ntrans, strings.Join(sts, ",")))
	}
}

// symbolGuard: the set of bytes for which the given expression is true with C bound to the byte.
func byteSet(c *Ctx, p *packages.Package, fd *ast.FuncDecl, cond ast.Expr, cvar types.Object, fold bool) ([256]bool, error) {
	var out [256]bool
	for b := 0; b < 256; b++ {
		v := int64(b)
		if fold && b >= 'A' && b <= 'Z' {
			v = int64(b) + 'a' - 'A'
		}
		env := map[types.Object]cevalue{cvar: {i: v}}
		e := &ceval{p: p, info: p.TypesInfo, env: env, c: c}
		r := e.expr(cond)
		if e.err != nil {
			return out, e.err
		}
		out[b] = r.b
	}
	return out, nil
}

// symbol guards: if-conditions mentioning C and the four punctuation symbols
func findSymbolGuards(p *packages.Package, fd *ast.FuncDecl) (conds []ast.Expr, cvar types.Object, folded []bool) {
	info := p.TypesInfo
	ast.Inspect(fd.Body, func(n ast.Node) bool {
		ifs, ok := n.(*ast.IfStmt)
		if !ok {
			return true
		}
		txt := types.ExprString(ifs.Cond)
		if strings.Contains(txt, "'['") && strings.Contains(txt, "']'") && strings.Contains(txt, "'-'") {
			conds = append(conds, ifs.Cond)
			ast.Inspect(ifs.Cond, func(m ast.Node) bool {
				if id, ok := m.(*ast.Ident); ok && id.Name == "C" {
					cvar = info.ObjectOf(id)
				}
				return true
			})
			// case folding statement before the guard in the same block: if C >= 'A' && C <= 'Z' { C = C + 'a' - 'A' }
			f := false
			ast.Inspect(fd.Body, func(m ast.Node) bool {
				if blk, ok := m.(*ast.BlockStmt); ok {
					for i, st := range blk.List {
						if st == ast.Stmt(ifs) && i > 0 {
							if prev, ok := blk.List[i-1].(*ast.IfStmt); ok && strings.Contains(types.ExprString(prev.Cond), "'A'") {
								f = true
							}
						}
					}
				}
				return true
			})
			folded = append(folded, f)
		}
		return true
	})
	return
}

func runLXA(c *Ctx, s *Sink) {
	type src struct{ pkg, fn string }
	sources := []src{{"pkg/obiformats", "EndOfLastFastqEntry"}, {"pkg/obiformats", "FastaChunkParser"}, {"pkg/obiformats", "FastqChunkParser"}}
	var ref *[256]bool
	refName := ""
	required := "abcdghkmnrstuvwy-.[]"
	for _, sc := range sources {
		fd, p := c.FindFunc(sc.pkg, sc.fn)
		if fd == nil {
			s.Undecided(nil, sc.pkg+"."+sc.fn, 0, "function not found")
			continue
		}
		conds, cvar, folded := findSymbolGuards(p, fd)
		if len(conds) == 0 || cvar == nil {
			s.Undecided(nil, sc.pkg+"."+sc.fn+":alphabet", fd.Pos(), "no sequence-symbol guard found")
			continue
		}
		for i, cond := range conds {
			key := fmt.Sprintf("%s.%s:alphabet#%d", sc.pkg, sc.fn, i+1)
			set, err := byteSet(c, p, fd, cond, cvar, folded[i])
			if err != nil {
				s.Undecided(nil, key, cond.Pos(), "cannot evaluate the guard: "+err.Error())
				continue
			}
			var missing []string
			for _, r := range required {
				if !set[byte(r)] || (r >= 'a' && r <= 'z' && !set[byte(r)-32]) {
					missing = append(missing, string(r))
				}
			}
			if len(missing) > 0 {
				s.Fail(nil, key, cond.Pos(), "the sequence-symbol guard rejects symbols of the alphabet the writers emit: "+strings.Join(missing, " "))
				continue
			}
			if ref == nil {
				cp := set
				ref, refName = &cp, sc.fn
				s.Pass(nil, key, cond.Pos(), "accepts both cases of every letter plus - . [ ] (reference set)")
				continue
			}
			var diff []string
			for b := 0; b < 256; b++ {
				if set[b] != ref[b] {
					diff = append(diff, fmt.Sprintf("%q", rune(b)))
				}
			}
			if len(diff) > 0 {
				s.Fail(nil, key, cond.Pos(), fmt.Sprintf("accepts a different symbol set than %s (differs on %s): a record can be split where the parser would continue", refName, strings.Join(diff[:minInt(len(diff), 8)], " ")))
			} else {
				s.Pass(nil, key, cond.Pos(), "same symbol set as "+refName)
			}
		}
	}
}

func minInt(a, b int) int {
	if a < b {
		return a
	}
	return b
}
