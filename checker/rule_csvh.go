package main

// CSVH, CO — the CSV writer and reader agree; obicsv writes where it is told (C02, C18).

import (
	"go/ast"
	"go/constant"
	"go/token"
	"strings"

	"golang.org/x/tools/go/packages"
)

func init() {
	register(&Rule{
		ID: "CSVH", Props: []string{"C02"}, Min: 3,
		Doc: `"any set of records … once written by the toolkit is read back as the same records": the names of the columns are a table shared by the CSV writer and the CSV reader. Every column name the reader
treats specially (the case labels of the switch over the header in _ParseCsvFile: id, sequence, qualities) is one the writer prints in CSVHeader: the writer called the column "quality", so
the scores written by obicsv -q came back as a text annotation {"quality":"IIII"} of a record without scores.`,
		Run: func(c *Ctx, s *Sink) {
			written := map[string]bool{}
			fdH, pH := c.FindFunc("pkg/obiformats", "CSVHeader")
			if fdH == nil {
				s.Undecided(nil, "pkg/obiformats.CSVHeader", 0, "function not found")
				return
			}
			ast.Inspect(fdH.Body, func(n ast.Node) bool {
				if bl, ok := n.(*ast.BasicLit); ok && bl.Kind == token.STRING {
					if tv, ok := pH.TypesInfo.Types[bl]; ok && tv.Value != nil {
						written[constant.StringVal(tv.Value)] = true
					}
				}
				return true
			})
			c.EachFunc([]string{"pkg/obiformats"}, func(p *packages.Package, fd *ast.FuncDecl) {
				if !strings.Contains(strings.ToLower(fd.Name.Name), "csv") || fd == fdH {
					return
				}
				info := p.TypesInfo
				// a reader of sequence records (the NGS filter file is another kind of CSV file)
				builds := false
				ast.Inspect(fd.Body, func(n ast.Node) bool {
					if call, ok := n.(*ast.CallExpr); ok && strings.HasSuffix(fullName(callee(info, call)), "/pkg/obiseq.(BioSequence).SetSequence") {
						builds = true
					}
					return true
				})
				if !builds {
					return
				}
				ast.Inspect(fd.Body, func(n ast.Node) bool {
					sw, ok := n.(*ast.SwitchStmt)
					if !ok || sw.Tag == nil {
						return true
					}
					// a switch over the elements of the header
					o := rootObj(info, sw.Tag)
					if o == nil || !strings.Contains(strings.ToLower(o.Name()), "col") && !strings.Contains(strings.ToLower(o.Name()), "name") {
						return true
					}
					for _, cl := range sw.Body.List {
						cc := cl.(*ast.CaseClause)
						for _, e := range cc.List {
							tv, ok := info.Types[e]
							if !ok || tv.Value == nil || tv.Value.Kind() != constant.String {
								continue
							}
							name := constant.StringVal(tv.Value)
							key := funcName(p, fd) + ":column " + name + ":written-under-that-name"
							if written[name] {
								s.Pass(nil, key, e.Pos(), "CSVHeader prints that name")
							} else {
								s.Fail(nil, key, e.Pos(), "the reader treats the column \""+name+"\" specially but the writer never prints that name: obicsv -i -s -q writes id,sequence,quality and obiconvert of that file gives a record without scores holding the annotation {\"quality\":\"IIII\"}")
							}
						}
					}
					return true
				})
			})
		},
	})

	register(&Rule{
		ID: "CO", Props: []string{"C18", "C16"}, Min: 1,
		Doc: `"cmd -o /dev/full must fail": the output named with --out receives the result. Every function of pkg/obitools that chooses between a …ToStdout writer and its …ToFile sibling of pkg/obiformats reads
obiconvert.CLIOutPutFileName() (directly, or the file name is a parameter of the function and all its callers in pkg/ and cmd/ give one): obicsv.CLIWriteCSV looked at its variadic argument only and main
gave none, so obicsv -o res.csv wrote the table on the standard output, never created res.csv, and obicsv -o /dev/full exited 0.`,
		Run: func(c *Ctx, s *Sink) {
			c.EachFunc([]string{"pkg/obitools"}, func(p *packages.Package, fd *ast.FuncDecl) {
				info := p.TypesInfo
				var toStdout *ast.CallExpr
				toFile, readsOut := false, false
				ast.Inspect(fd.Body, func(n ast.Node) bool {
					call, ok := n.(*ast.CallExpr)
					if !ok {
						return true
					}
					fn := fullName(callee(info, call))
					switch {
					case strings.Contains(fn, "/pkg/obiformats.") && strings.HasSuffix(fn, "ToStdout"):
						if toStdout == nil {
							toStdout = call
						}
					case strings.Contains(fn, "/pkg/obiformats.") && strings.HasSuffix(fn, "ToFile"):
						toFile = true
					case strings.HasSuffix(fn, "/pkg/obitools/obiconvert.CLIOutPutFileName"):
						readsOut = true
					}
					return true
				})
				if toStdout == nil || !toFile {
					return
				}
				key := funcName(p, fd) + ":stdout-or-file:--out-decides"
				if readsOut {
					s.Pass(nil, key, toStdout.Pos(), "the choice reads the name given with --out")
				} else {
					s.Fail(nil, key, toStdout.Pos(), "the function chooses between the standard output and a file without looking at --out: obicsv -o res.csv writes the table on the standard output and never creates res.csv; obicsv -o /dev/full exits 0 (obiconvert -o /dev/full: no space left on device, exit 1)")
				}
			})
		},
	})
}
