package main

// CSVH, CO — the CSV writer and reader agree; obicsv writes where it is told (C02, C18).

import (
	"go/ast"
	"go/constant"
	"go/token"
	"strings"

	"golang.org/x/tools/go/packages"
)

func init() {
	register(&Rule{
		ID: "CSVH", Props: []string{"C02"}, Min: 3,
		Doc: `"any set of records … once written by the toolkit is read back as the same records": the names of the columns are a table shared by the CSV writer and the CSV reader. Every column name the reader
treats specially (the case labels of the switch over the header in _ParseCsvFile: id, sequence, qualities) is one the writer prints in CSVHeader: the writer called the column "quality", so
the scores written by obicsv -q came back as a text annotation {"quality":"IIII"} of a record without scores.`,
		Run: func(c *Ctx, s *Sink) {
			written := map[string]bool{}
			fdH, pH := c.FindFunc("pkg/obiformats", "CSVHeader")
			if fdH == nil {
				s.Undecided(nil, "pkg/obiformats.CSVHeader", 0, "function not found")
				return
			}
			ast.Inspect(fdH.Body, func(n ast.Node) bool {
				if bl, ok := n.(*ast.BasicLit); ok && bl.Kind == token.STRING {
					if tv, ok := pH.TypesInfo.Types[bl]; ok && tv.Value != nil {
						written[constant.StringVal(tv.Value)] = true
					}
				}
				return true
			})
			c.EachFunc([]string{"pkg/obiformats"}, func(p *packages.Package, fd *ast.FuncDecl) {
				if !strings.Contains(strings.ToLower(fd.Name.Name), "csv") || fd == fdH {
					return
				}
				info := p.TypesInfo
				// a reader of sequence records (the NGS filter file is another kind of CSV file)
				builds := false
				ast.Inspect(fd.Body, func(n ast.Node) bool {
					if call, ok := n.(*ast.CallExpr); ok && strings.HasSuffix(fullName(callee(info, call)), "/pkg/obiseq.(BioSequence).SetSequence") {
						builds = true
					}
					return true
				})
				if !builds {
					return
				}
				ast.Inspect(fd.Body, func(n ast.Node) bool {
					sw, ok := n.(*ast.SwitchStmt)
					if !ok || sw.Tag == nil {
						return true
					}
					// a switch over the elements of the header
					o := rootObj(info, sw.Tag)
					if o == nil || !strings.Contains(strings.ToLower(o.Name()), "col") && !strings.Contains(strings.ToLower(o.Name()), "name") {
						return true
					}
					for _, cl := range sw.Body.List {
						cc := cl.(*ast.CaseClause)
						for _, e := range cc.List {
							tv, ok := info.Types[e]
							if !ok || tv.Value == nil || tv.Value.Kind() != constant.String {
								continue
							}
							name := constant.StringVal(tv.Value)
							key := funcName(p, fd) + ":column " + name + ":written-under-that-name"
							if written[name] {
								s.Pass(nil, key, e.Pos(), "CSVHeader prints that name")
							} else {
								s.Fail(nil, key, e.Pos(), "the reader treats the column \""+name+"\" specially but the writer never prints that name: obicsv -i -s -q writes id,sequence,quality and obiconvert of that file gives a record without scores holding the annotation {\"quality\":\"IIII\"}")
							}
						}
					}
					return true
				})
			})
		},
	})

	register(&Rule{
		ID: "CO", Props: []string{"C18", "C16"}, Min: 1,
		Doc: `"cmd -o /dev/full must fail": the output named with --out receives the result. Every function of pkg/obitools that chooses between a …ToStdout writer and its …ToFile sibling of pkg/obiformats reads
obiconvert.CLIOutPutFileName() (directly, or the file name is a parameter of the function and all its callers in pkg/ and cmd/ give one): obicsv.CLIWriteCSV looked at its variadic argument only and main
gave none, so obicsv -o res.csv wrote the table on the standard output, never created res.csv, and obicsv -o /dev/full exited 0.`,
		Run: func(c *Ctx, s *Sink) {
			c.EachFunc([]string{"pkg/obitools"}, func(p *packages.Package, fd *ast.FuncDecl) {
				info := p.TypesInfo
				var toStdout *ast.CallExpr
				toFile, readsOut := false, false
				ast.Inspect(fd.Body, func(n ast.Node) bool {
					call, ok := n.(*ast.CallExpr)
					if !ok {
						return true
					}
					fn := fullName(callee(info, call))
					switch {
					case strings.Contains(fn, "/pkg/obiformats.") && strings.HasSuffix(fn, "ToStdout"):
						if toStdout == nil {
							toStdout = call
						}
					case strings.Contains(fn, "/pkg/obiformats.") && strings.HasSuffix(fn, "ToFile"):
						toFile = true
					case strings.HasSuffix(fn, "/pkg/obitools/obiconvert.CLIOutPutFileName"):
						readsOut = true
					}
					return true
				})
				if toStdout == nil || !toFile {
					return
				}
				key := funcName(p, fd) + ":stdout-or-file:--out-decides"
				if readsOut {
					s.Pass(nil, key, toStdout.Pos(), "the choice reads the name given with --out")
				} else {
					s.Fail(nil, key, toStdout.Pos(), "the function chooses between the standard output and a file without looking at --out: obicsv -o res.csv writes the table on the standard output and never creates res.csv; obicsv -o /dev/full exits 0 (obiconvert -o /dev/full: no space left on device, exit 1)")
				}
			})
		},
	})
}

func init() {
	register(&Rule{
		ID: "CSVC", Props: []string{"C03", "C02"}, Min: 2,
		Doc: `"no record is lost between reader and writer": the CSV writer (encoding/csv) never quotes a cell because it starts with '#'. In pkg/obiformats the readers of CSV sequence files — the parser of
the records and the detector of the format sniffer: the functions building a csv.Reader whose name does not say NGS filter or ecoPCR (those formats do have comment lines) — set no Comment
character: with Comment = '#' the record >#b2 written by obicsv came back as nothing — obiconvert of that CSV file gave 2 records of 3, exit 0, no warning.`,
		Run: func(c *Ctx, s *Sink) {
			c.EachFunc([]string{"pkg/obiformats"}, func(p *packages.Package, fd *ast.FuncDecl) {
				if rel(p.PkgPath) != "pkg/obiformats" {
					return
				}
				low := strings.ToLower(fd.Name.Name)
				if strings.Contains(low, "ngsfilter") || strings.Contains(low, "ecopcr") || strings.HasPrefix(low, "_read") && strings.Contains(low, "ngs") {
					return
				}
				info := p.TypesInfo
				builds := false
				var bad token.Pos
				ast.Inspect(fd.Body, func(n ast.Node) bool {
					switch y := n.(type) {
					case *ast.CallExpr:
						if fullName(callee(info, y)) == "encoding/csv.NewReader" {
							builds = true
						}
					case *ast.AssignStmt:
						for _, l := range y.Lhs {
							if sel, ok := ast.Unparen(l).(*ast.SelectorExpr); ok && sel.Sel.Name == "Comment" {
								if t := info.TypeOf(sel.X); t != nil && strings.HasSuffix(t.String(), "encoding/csv.Reader") {
									bad = y.Pos()
								}
							}
						}
					}
					return true
				})
				if !builds {
					return
				}
				key := funcName(p, fd) + ":csv-reader:no-comment-character"
				if bad.IsValid() {
					s.Fail(nil, key, bad, "the reader of CSV sequence files takes the lines starting with '#' for comments, and the writer does not quote such a cell: the record whose identifier is #b2, written by obicsv, is dropped when the file is read back (2 records of 3, exit 0, no warning)")
				} else {
					s.Pass(nil, key, fd.Pos(), "every line of the file is a record")
				}
			})
		},
	})
}

func init() {
	register(&Rule{
		ID: "TID", Props: []string{"C06", "C02", "C04"}, Min: 2,
		Doc: `"well-formed FASTA/FASTQ", "read back as the same records", "the in-memory and on-disk modes of obiuniq give the same records": on a title line the identifier ends at the first blank. In the
functions of pkg/obiformats that print a title line (they write '>' or '@' followed by the identifier), the identifier is not printed as seq.Id() returns it: it goes through a function of the
package that removes the blanks (it calls strings.Fields / ReplaceAll / Map …). A CSV cell, or a script, can give a record the identifier "my id": written verbatim, the record is read back as
"my" with its whole annotation object in the definition — obiuniq's on-disk mode (which keeps its chunks as FASTA files) returned a total count of 5 for 10 reads and NA samples, exit 0, where
--in-memory gave the right answer.`,
		Run: func(c *Ctx, s *Sink) {
			p := c.Pkg("pkg/obiformats")
			if p == nil {
				s.Undecided(nil, "pkg/obiformats", 0, "package not loaded")
				return
			}
			info := p.TypesInfo
			// package functions that strip blanks
			strips := map[string]bool{}
			for _, f := range p.Syntax {
				for _, d := range f.Decls {
					fd, ok := d.(*ast.FuncDecl)
					if !ok || fd.Body == nil {
						continue
					}
					ast.Inspect(fd.Body, func(n ast.Node) bool {
						if call, ok := n.(*ast.CallExpr); ok {
							switch fullName(callee(info, call)) {
							case "strings.Fields", "strings.ReplaceAll", "strings.Map", "strings.NewReplacer", "strings.FieldsFunc":
								strips[fd.Name.Name] = true
							}
						}
						return true
					})
				}
			}
			for _, name := range []string{"FormatFasta", "_formatFastq"} {
				fd, _ := c.FindFunc("pkg/obiformats", name)
				key := "pkg/obiformats." + name + ":identifier-without-blank"
				if fd == nil {
					s.Undecided(nil, key, 0, "function not found")
					continue
				}
				raw, clean := token.NoPos, false
				ast.Inspect(fd.Body, func(n ast.Node) bool {
					call, ok := n.(*ast.CallExpr)
					if !ok {
						return true
					}
					fn := fullName(callee(info, call))
					// the calls that produce text: Sprintf / Fprintf / WriteString
					if !strings.HasPrefix(fn, "fmt.Sprintf") && !strings.HasPrefix(fn, "fmt.Fprintf") && !strings.HasSuffix(fn, ".WriteString") {
						return true
					}
					for _, a := range call.Args {
						if c2, ok := ast.Unparen(a).(*ast.CallExpr); ok {
							f2 := callee(info, c2)
							if f2 == nil {
								continue
							}
							if strings.HasSuffix(fullName(f2), "/pkg/obiseq.(BioSequence).Id") {
								raw = c2.Pos()
							}
							if f2.Pkg() == p.Types && strips[f2.Name()] {
								clean = true
							}
						}
					}
					return true
				})
				switch {
				case raw.IsValid():
					s.Fail(nil, key, raw, "the identifier is printed on the title line as it is: an identifier holding a blank (a CSV cell \"my id\") is read back cut at that blank, its annotations turned into a definition — obiuniq -m sample in its default (on-disk) mode gives a total count of 5 for 10 reads and NA samples, --in-memory the right result")
				case clean:
					s.Pass(nil, key, fd.Pos(), "the identifier is printed through a function that removes its blanks")
				default:
					s.Undecided(nil, key, fd.Pos(), "no printing of the identifier found")
				}
			}
		},
	})
}
