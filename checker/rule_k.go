package main

// K — the C kseq path (default reader for stdin): the wrapper must not turn a
// read/decompression error into "finished".  The C function is read through
// clang's JSON AST; the Go caller through go/ast.

import (
	"bytes"
	"encoding/json"
	"fmt"
	"go/ast"
	"go/token"
	"os/exec"
	"path/filepath"
	"strings"

	"golang.org/x/tools/go/packages"
)

func init() {
	register(&Rule{
		ID: "K", Props: []string{"C17", "C01"}, Min: 2,
		Doc: `kseq wrapper: in next_fast_sek (C, via clang -ast-dump=json) the result of kseq_read may be reset to 0 ('finished') only under a condition that depends on the
error number obtained from gzerror(), which must be called; in the Go caller every loop over C.next_fast_sek must treat a negative result as fatal (a test '< 0' with a
diverging body after the loop, and a loop condition that stops on negative values).`,
		Run: runK,
	})
}

type cnode struct {
	ID    string          `json:"id"`
	Kind  string          `json:"kind"`
	Name  string          `json:"name"`
	Op    string          `json:"opcode"`
	Value cvalue          `json:"value"`
	Inner []*cnode        `json:"inner"`
	Ref   *cnode          `json:"referencedDecl"`
	Loc   json.RawMessage `json:"loc"`
	Range struct {
		Begin struct {
			Offset int `json:"offset"`
			Line   int `json:"line"`
		} `json:"begin"`
	} `json:"range"`
}

// cvalue: clang writes the value of an IntegerLiteral as a string and that of a CharacterLiteral as a number.
type cvalue string

func (v *cvalue) UnmarshalJSON(b []byte) error {
	*v = cvalue(strings.Trim(string(b), "\""))
	return nil
}

func clangFunc(dir, file, fn string) (*cnode, error) {
	cmd := exec.Command("clang", "-Xclang", "-ast-dump=json", "-Xclang", "-ast-dump-filter="+fn, "-fsyntax-only", file)
	cmd.Dir = dir
	var out, errb bytes.Buffer
	cmd.Stdout = &out
	cmd.Stderr = &errb
	if err := cmd.Run(); err != nil && out.Len() == 0 {
		return nil, fmt.Errorf("clang failed: %v %s", err, strings.TrimSpace(errb.String()))
	}
	// drop "Dumping xxx:" lines
	var buf bytes.Buffer
	for _, l := range strings.Split(out.String(), "\n") {
		if strings.HasPrefix(l, "Dumping ") {
			continue
		}
		buf.WriteString(l)
		buf.WriteByte('\n')
	}
	dec := json.NewDecoder(&buf)
	var best *cnode
	for dec.More() {
		var n cnode
		if err := dec.Decode(&n); err != nil {
			return nil, fmt.Errorf("clang JSON: %v", err)
		}
		if n.Kind == "FunctionDecl" && n.Name == fn {
			hasBody := false
			for _, in := range n.Inner {
				if in.Kind == "CompoundStmt" {
					hasBody = true
				}
			}
			if hasBody {
				nn := n
				best = &nn
			}
		}
	}
	if best == nil {
		return nil, fmt.Errorf("function %s with a body not found in %s", fn, file)
	}
	return best, nil
}

func (n *cnode) walk(f func(n *cnode, stack []*cnode)) {
	var rec func(n *cnode, stack []*cnode)
	rec = func(n *cnode, stack []*cnode) {
		if n == nil {
			return
		}
		f(n, stack)
		stack = append(stack, n)
		for _, c := range n.Inner {
			rec(c, stack)
		}
	}
	rec(n, nil)
}

func (n *cnode) refs(id string) bool {
	found := false
	n.walk(func(m *cnode, _ []*cnode) {
		if m.Kind == "DeclRefExpr" && m.Ref != nil && m.Ref.ID == id {
			found = true
		}
	})
	return found
}

func (n *cnode) callsTo(name string) []*cnode {
	var out []*cnode
	n.walk(func(m *cnode, _ []*cnode) {
		if m.Kind == "CallExpr" && len(m.Inner) > 0 {
			isIt := false
			m.Inner[0].walk(func(k *cnode, _ []*cnode) {
				if k.Kind == "DeclRefExpr" && k.Ref != nil && k.Ref.Name == name {
					isIt = true
				}
			})
			if isIt {
				out = append(out, m)
			}
		}
	})
	return out
}

func stripCasts(n *cnode) *cnode {
	for n != nil && (n.Kind == "ImplicitCastExpr" || n.Kind == "ParenExpr" || n.Kind == "CStyleCastExpr") && len(n.Inner) > 0 {
		n = n.Inner[len(n.Inner)-1]
	}
	return n
}

func runK(c *Ctx, s *Sink) {
	dir := filepath.Join(c.Repo, "pkg/obiformats")
	keyC := "pkg/obiformats/fastseq_read.c:next_fast_sek"
	fn, err := clangFunc(dir, "fastseq_read.c", "next_fast_sek")
	if err != nil {
		s.Undecided(nil, keyC, 0, err.Error())
	} else {
		kCheckC(s, keyC, fn)
	}
	// Go caller(s)
	p := c.Pkg("pkg/obiformats")
	if p == nil {
		s.Undecided(nil, "pkg/obiformats", 0, "package not loaded")
		return
	}
	kCheckGo(c, s, p)
}

func kCheckC(s *Sink, key string, fn *cnode) {
	pos := fmt.Sprintf("pkg/obiformats/fastseq_read.c:%d", fn.Range.Begin.Line)
	fail := func(msg string) {
		o := s.add(Violation, nil, key, 0, msg)
		o.Pos = pos
	}
	// variable receiving kseq_read
	var lvar string
	fn.walk(func(n *cnode, _ []*cnode) {
		if n.Kind == "BinaryOperator" && n.Op == "=" && len(n.Inner) == 2 {
			if len(n.Inner[1].callsTo("kseq_read")) > 0 {
				if l := stripCasts(n.Inner[0]); l.Kind == "DeclRefExpr" && l.Ref != nil {
					lvar = l.Ref.ID
				}
			}
		}
	})
	if lvar == "" {
		o := s.add(Undecided, nil, key, 0, "cannot find the variable receiving kseq_read()")
		o.Pos = pos
		return
	}
	// gzerror(&errnum)
	var evar string
	for _, call := range fn.callsTo("gzerror") {
		if len(call.Inner) >= 3 {
			a := stripCasts(call.Inner[2])
			if a.Kind == "UnaryOperator" && a.Op == "&" && len(a.Inner) == 1 {
				if d := stripCasts(a.Inner[0]); d.Kind == "DeclRefExpr" && d.Ref != nil {
					evar = d.Ref.ID
				}
			}
		}
	}
	if evar == "" {
		fail("next_fast_sek never asks zlib (gzerror) whether the stream ended or failed: kseq reports a failing gzread as end of file, so a truncated stream ends the reading normally")
		return
	}
	// every "l = 0" must be guarded by a condition that depends on errnum
	bad := 0
	n0 := 0
	benignOther := 0
	fn.walk(func(n *cnode, stack []*cnode) {
		if n.Kind == "BinaryOperator" && n.Op == "=" && len(n.Inner) == 2 {
			l := stripCasts(n.Inner[0])
			r := stripCasts(n.Inner[1])
			if l.Kind == "DeclRefExpr" && l.Ref != nil && l.Ref.ID == lvar && r.Kind == "IntegerLiteral" && r.Value == "0" {
				n0++
				guarded := false
				for i := len(stack) - 1; i >= 0; i-- {
					if stack[i].Kind == "IfStmt" && len(stack[i].Inner) > 0 && stack[i].Inner[0].refs(evar) {
						guarded = true
						// oracle (zlib): only Z_OK (0) and Z_STREAM_END (1) mean a clean end; gzread reports a
						// truncated stream as Z_BUF_ERROR (-5)
						stack[i].Inner[0].walk(func(m *cnode, _ []*cnode) {
							if m.Kind == "BinaryOperator" && (m.Op == "==" || m.Op == "!=") && len(m.Inner) == 2 {
								for k := 0; k < 2; k++ {
									if m.Inner[k].refs(evar) {
										o := stripCasts(m.Inner[1-k])
										if !(o.Kind == "IntegerLiteral" && (o.Value == "0" || o.Value == "1")) {
											benignOther++
										}
									}
								}
							}
						})
					}
				}
				if !guarded {
					bad++
				}
			}
		}
	})
	if benignOther > 0 {
		fail("the result of kseq_read() is reset to 0 ('finished') for a zlib error number other than Z_OK/Z_STREAM_END: gzread reports a truncated stream as Z_BUF_ERROR, which must not end the input normally")
		return
	}
	if bad > 0 {
		fail("a negative result of kseq_read() is reset to 0 ('finished') without consulting the zlib error number: read and decompression errors end the input silently")
		return
	}
	o := s.add(Pass, nil, key, 0, fmt.Sprintf("gzerror() consulted; %d reset(s) of the result to 'finished', each guarded by the zlib error number", n0))
	o.Pos = pos
	// a record with an empty sequence: kseq_read() returns its length, 0.  The branch that turns the
	// result into the (positive) "record read" value must therefore be taken for l >= 0, not only l > 0.
	keyE := key + ":empty-record"
	found, okE := false, false
	form := ""
	fn.walk(func(n *cnode, _ []*cnode) {
		if n.Kind != "IfStmt" || len(n.Inner) < 2 || found {
			return
		}
		cond := stripCasts(n.Inner[0])
		if cond.Kind != "BinaryOperator" || len(cond.Inner) != 2 {
			return
		}
		a, b := stripCasts(cond.Inner[0]), stripCasts(cond.Inner[1])
		op := cond.Op
		if b.Kind == "DeclRefExpr" && a.Kind == "IntegerLiteral" {
			a, b = b, a
			op = map[string]string{"<": ">", ">": "<", "<=": ">=", ">=": "<="}[op]
		}
		if !(a.Kind == "DeclRefExpr" && a.Ref != nil && a.Ref.ID == lvar && b.Kind == "IntegerLiteral" && b.Value == "0") {
			return
		}
		inThen := len(n.Inner[1].callsTo("gzoffset")) > 0
		inElse := len(n.Inner) > 2 && len(n.Inner[2].callsTo("gzoffset")) > 0
		if !inThen && !inElse {
			return
		}
		found = true
		form = "l " + op + " 0"
		if inThen {
			okE = op == ">="
		} else {
			okE = op == "<"
		}
	})
	switch {
	case !found:
		o := s.add(Undecided, nil, keyE, 0, "cannot find the branch that converts the result of kseq_read() into the 'record read' value (gzoffset)")
		o.Pos = pos
	case !okE:
		o := s.add(Violation, nil, keyE, 0, "the 'record read' value is produced only under '"+form+"': a record whose sequence is empty (kseq_read() returns its length, 0) is reported as the end of the input, so every following record of the stream is dropped silently and a stream cut right after a title line ends normally")
		o.Pos = pos
	default:
		o := s.add(Pass, nil, keyE, 0, "a record with an empty sequence (result 0) is reported as a record, not as the end of the input")
		o.Pos = pos
	}
}

func kCheckGo(c *Ctx, s *Sink, p *packages.Package) {
	info := p.TypesInfo
	found := 0
	for _, f := range p.Syntax {
		for _, d := range f.Decls {
			fd, ok := d.(*ast.FuncDecl)
			if !ok || fd.Body == nil {
				continue
			}
			// calls to the cgo stub of next_fast_sek
			var calls []*ast.CallExpr
			ast.Inspect(fd.Body, func(n ast.Node) bool {
				if call, ok := n.(*ast.CallExpr); ok {
					name := ""
					switch x := ast.Unparen(call.Fun).(type) {
					case *ast.Ident:
						name = x.Name
					case *ast.SelectorExpr:
						name = x.Sel.Name
					}
					if strings.HasSuffix(name, "next_fast_sek") {
						calls = append(calls, call)
					}
				}
				return true
			})
			if len(calls) == 0 {
				continue
			}
			found++
			key := funcName(p, fd) + ":next_fast_sek"
			// the variable(s) assigned from the call
			vars := map[any]bool{}
			ast.Inspect(fd.Body, func(n ast.Node) bool {
				if as, ok := n.(*ast.AssignStmt); ok && len(as.Lhs) == 1 && len(as.Rhs) == 1 {
					has := false
					ast.Inspect(as.Rhs[0], func(m ast.Node) bool {
						for _, cl := range calls {
							if m == ast.Node(cl) {
								has = true
							}
						}
						return true
					})
					if has {
						if id, ok := as.Lhs[0].(*ast.Ident); ok {
							vars[info.ObjectOf(id)] = true
						}
					}
				}
				return true
			})
			// a test v < 0 (or v <= -1) with a diverging body
			fatalNeg := false
			loopOK := true
			ast.Inspect(fd.Body, func(n ast.Node) bool {
				switch x := n.(type) {
				case *ast.IfStmt:
					if b, ok := ast.Unparen(x.Cond).(*ast.BinaryExpr); ok && b.Op == token.LSS {
						if id, ok := ast.Unparen(b.X).(*ast.Ident); ok && vars[info.ObjectOf(id)] && isConstInt(info, b.Y, 0) && blockDiverges(info, x.Body) {
							fatalNeg = true
						}
					}
				case *ast.ForStmt:
					if x.Cond != nil {
						if b, ok := ast.Unparen(x.Cond).(*ast.BinaryExpr); ok {
							if id, ok := ast.Unparen(b.X).(*ast.Ident); ok && vars[info.ObjectOf(id)] {
								// the loop must not continue on negative values
								if !(b.Op == token.GTR && isConstInt(info, b.Y, 0)) && !(b.Op == token.GEQ && isConstInt(info, b.Y, 1)) {
									loopOK = false
								}
							}
						}
					}
				}
				return true
			})
			switch {
			case !loopOK:
				s.Fail(nil, key, calls[0].Pos(), "the reading loop continues on a negative result of next_fast_sek (error code): the record buffer is reused as if a sequence had been read")
			case !fatalNeg:
				s.Fail(nil, key, calls[0].Pos(), "a negative result of next_fast_sek (read/decompression error) is never tested with a fatal branch: the reader ends normally and the command exits 0")
			default:
				s.Pass(nil, key, calls[0].Pos(), "loop stops on non-positive results; negative result is fatal")
			}
		}
	}
	if found == 0 {
		s.Undecided(nil, "pkg/obiformats:next_fast_sek", 0, "no Go caller of next_fast_sek found")
	}
}
