package main

// AO — the translated annotations of an extracted record are not overwritten by those of its source (C07).

import (
	"fmt"
	"go/ast"
	"go/types"
	"strings"

	"golang.org/x/tools/go/packages"
)

func init() {
	register(&Rule{
		ID: "AO", Props: []string{"C07", "C11"}, Min: 1,
		Doc: `"position-bearing annotations follow the same coordinate transform": Subsequence and ReverseComplement hand back a record whose annotations are a copy of the source's with the positions
translated. In the module, a record obtained from X.Subsequence(…) (possibly then reverse-complemented) never has its annotation map refilled from X.Annotations() (obiutils.MustFillMap(dst, src)
with dst the annotations of the extracted record and src those of the record it was cut from): the copy is redundant for every other key and puts the untranslated value back — an obipcr amplicon
of 20 bp carried pairing_mismatches {"(G:30)->(C:25)": 32}, a position of its 72 bp source, where obiannotate --cut of the same window says 5; on the other strand the key stayed on the strand of
the source. One obligation per extraction site whose result is annotated in the same function.`,
		Run: runAO,
	})
}

func runAO(c *Ctx, s *Sink) {
	c.EachFunc([]string{"pkg"}, func(p *packages.Package, fd *ast.FuncDecl) {
		info := p.TypesInfo
		// extracted records: v, err := SRC.Subsequence(…)
		type ext struct {
			v    types.Object
			src  string
			call *ast.CallExpr
		}
		var exts []ext
		ast.Inspect(fd.Body, func(n ast.Node) bool {
			as, ok := n.(*ast.AssignStmt)
			if !ok || len(as.Rhs) != 1 || len(as.Lhs) < 1 {
				return true
			}
			call, ok := ast.Unparen(as.Rhs[0]).(*ast.CallExpr)
			if !ok || !strings.HasSuffix(fullName(callee(info, call)), "BioSequence).Subsequence") {
				return true
			}
			sel := ast.Unparen(call.Fun).(*ast.SelectorExpr)
			if v := rootObj(info, as.Lhs[0]); v != nil {
				exts = append(exts, ext{v, types.ExprString(sel.X), call})
			}
			return true
		})
		if len(exts) == 0 {
			return
		}
		defs := collectDefs(info, fd)
		// annotation maps: m := V.Annotations()
		annOf := func(e ast.Expr) string { // textual owner of an annotations expression
			e = ast.Unparen(e)
			if id, ok := e.(*ast.Ident); ok {
				for _, d := range defs[info.ObjectOf(id)] {
					if d != nil {
						e = ast.Unparen(d)
					}
				}
			}
			if call, ok := e.(*ast.CallExpr); ok {
				if sel, ok := call.Fun.(*ast.SelectorExpr); ok && sel.Sel.Name == "Annotations" {
					return types.ExprString(sel.X)
				}
			}
			return ""
		}
		n := 0
		for _, x := range exts {
			// is the extracted record annotated in this function at all?
			annotated := false
			bad := ast.Node(nil)
			ast.Inspect(fd.Body, func(m ast.Node) bool {
				call, ok := m.(*ast.CallExpr)
				if !ok || call.Pos() < x.call.End() {
					return true
				}
				if sel, ok := call.Fun.(*ast.SelectorExpr); ok && sel.Sel.Name == "Annotations" && rootObj(info, sel.X) == x.v {
					annotated = true
				}
				if f := callee(info, call); f != nil && f.Name() == "MustFillMap" && len(call.Args) == 2 {
					dst, src := annOf(call.Args[0]), annOf(call.Args[1])
					if dst == x.v.Name() && src == x.src && bad == nil {
						bad = call
					}
				}
				return true
			})
			if !annotated && bad == nil {
				continue
			}
			n++
			key := fmt.Sprintf("%s:extract#%d:annotations-not-refilled", funcName(p, fd), n)
			if bad != nil {
				s.Fail(nil, key, bad.Pos(), "the annotations of "+x.v.Name()+", cut from "+x.src+" by Subsequence (which copied and translated them), are refilled from "+x.src+".Annotations(): the position-bearing attributes get their untranslated value back — obipcr: a 20 bp amplicon carries pairing_mismatches {\"(G:30)->(C:25)\": 32}, a position of its 72 bp source (obiannotate --cut of the same window: 5), and on the reverse strand the key stays on the strand of the source")
			} else {
				s.Pass(nil, key, x.call.Pos(), "the extracted record keeps the annotations Subsequence translated")
			}
		}
	})
}
