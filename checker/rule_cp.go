package main

// CP — patterns: width of the automaton word, token-wise reverse complement (C, via clang); spans of the re-alignment (Go) (C10).

import (
	"encoding/json"
	"fmt"
	"go/ast"
	"go/token"
	"go/types"
	"path/filepath"
	"sort"
	"strconv"
	"strings"

	"golang.org/x/tools/go/packages"
)

func init() {
	register(&Rule{
		ID: "CP", Props: []string{"C10", "C11"}, Min: 6,
		Doc: `(1) The bit-parallel search keeps one bit per symbol of the pattern plus one in a 64-bit word (apat_search.c: 0x1L << patlen): buildPattern (obiapat.c, read through clang -ast-dump=json)
returns an error, before allocating, when the number of symbols given by lenPattern exceeds a constant not larger than 63. A 64-symbol pattern shifted the start bit out of the word and never matched;
longer ones were accepted and returned hits at negative positions. (2) A pattern is never reversed character by character: no call reverseSequence(x, isPattern != 0) — '!' , '[…]' and '#' belong to
one position and the character-wise reversal followed by local repairs turned !A#CGT into ACGT!# and refused ![AC]GT. (3) In pkg/obiapat the first result of obialign.LocatePattern (-1 when the
pattern overhangs the beginning of the re-aligned fragment) is never an operand of '+' unless clamped by max(…, 0) first: start + (-1) on a fragment that does not begin the sequence makes the span
one base too long, with an error count that is not the edit distance of the reported span. (4) BestMatch gives up on a hit lying outside the sequence only without indels: with indels the raw position
is end - patlen and a primer lacking its first base at offset 0 starts at -1. (5) LocatePattern does not abort on the relative lengths of pattern and sequence: a read as long as the primer is legal.
(6) FindAllIndex keeps its sequence and pattern alive (runtime.KeepAlive) after the last read of the C hit stacks: their finalizers free the memory those raw pointers designate.`,
		Run: runCP,
	})
}

func cIntValue(n *cnode) (int64, bool) {
	n = stripCasts(n)
	if n == nil {
		return 0, false
	}
	switch n.Kind {
	case "IntegerLiteral", "CharacterLiteral":
		v, err := strconv.ParseInt(string(n.Value), 0, 64)
		return v, err == nil
	case "BinaryOperator":
		if len(n.Inner) == 2 {
			a, ok1 := cIntValue(n.Inner[0])
			b, ok2 := cIntValue(n.Inner[1])
			if ok1 && ok2 {
				switch n.Op {
				case "-":
					return a - b, true
				case "+":
					return a + b, true
				}
			}
		}
	case "ConstantExpr":
		if len(n.Inner) > 0 {
			return cIntValue(n.Inner[0])
		}
	}
	return 0, false
}

func runCP(c *Ctx, s *Sink) {
	dir := filepath.Join(c.Repo, "pkg/obiapat")
	// (1)
	key := "pkg/obiapat/obiapat.c:buildPattern:length-guard"
	fn, err := clangFunc(dir, "obiapat.c", "buildPattern")
	if err != nil {
		s.Undecided(nil, key, 0, err.Error())
	} else {
		pos := fmt.Sprintf("pkg/obiapat/obiapat.c:%d", fn.Range.Begin.Line)
		// variable assigned from lenPattern
		lenVar := ""
		fn.walk(func(n *cnode, _ []*cnode) {
			if n.Kind == "BinaryOperator" && n.Op == "=" && len(n.Inner) == 2 && len(n.Inner[1].callsTo("lenPattern")) > 0 {
				if l := stripCasts(n.Inner[0]); l != nil && l.Kind == "DeclRefExpr" && l.Ref != nil {
					lenVar = l.Ref.ID
				}
			}
		})
		guarded := false
		allocLine, guardLine := 1<<30, 0
		fn.walk(func(n *cnode, _ []*cnode) {
			if n.Kind == "CallExpr" && len(n.callsTo("eco_malloc")) > 0 && n.Range.Begin.Line < allocLine && n.Range.Begin.Line > 0 {
				allocLine = n.Range.Begin.Line
			}
			if n.Kind != "IfStmt" || len(n.Inner) < 2 {
				return
			}
			cond := stripCasts(n.Inner[0])
			if cond == nil || cond.Kind != "BinaryOperator" || len(cond.Inner) != 2 {
				return
			}
			if lenVar == "" || !cond.Inner[0].refs(lenVar) {
				return
			}
			k, ok := cIntValue(cond.Inner[1])
			if !ok {
				return
			}
			if (cond.Op == ">" && k <= 63) || (cond.Op == ">=" && k <= 64) {
				returns := false
				n.Inner[1].walk(func(m *cnode, _ []*cnode) {
					if m.Kind == "ReturnStmt" {
						returns = true
					}
				})
				if returns {
					guarded = true
					guardLine = n.Range.Begin.Line
				}
			}
		})
		o := (*Ob)(nil)
		switch {
		case lenVar == "":
			o = s.add(Undecided, nil, key, 0, "no variable assigned from lenPattern()")
		case guarded:
			o = s.add(Pass, nil, key, 0, fmt.Sprintf("patterns of more than 63 symbols are refused (line %d)", guardLine))
		default:
			o = s.add(Violation, nil, key, 0, "the number of symbols of the pattern is not bounded by the width of the search word: with 64 symbols '0x1L << patlen' shifts the start bit out of the 64-bit word (undefined behaviour; in practice the pattern never matches), longer patterns are accepted and report hits at negative positions")
		}
		o.Pos = pos
		_ = allocLine
	}
	// (1bis) what is not a letter is not a base
	key = "pkg/obiapat/obiapat.c:EncodeSequence:non-letters-match-nothing"
	if fn, err := clangFunc(dir, "obiapat.c", "EncodeSequence"); err != nil {
		s.Undecided(nil, key, 0, err.Error())
	} else {
		// letters without any IUPAC meaning: their code is in no pattern position
		noBase := map[int64]bool{4: true, 5: true, 8: true, 9: true, 11: true, 14: true, 15: true, 16: true, 25: true}
		ncond, badLine, isBad := 0, 0, false
		var badVal int64
		fn.walk(func(n *cnode, _ []*cnode) {
			if n.Kind != "ConditionalOperator" || len(n.Inner) != 3 {
				return
			}
			v, ok := cIntValue(n.Inner[2])
			if !ok {
				// an inner choice between two symbols (u read as t), not the letter / non-letter decision
				if _, isConst := cIntValue(n.Inner[1]); isConst {
					return
				}
			}
			ncond++
			if !ok || !noBase[v] {
				badLine, badVal, isBad = n.Range.Begin.Line, v, true
			}
		})
		// (1quater) u is read as t, as the pattern table does
		keyU := "pkg/obiapat/obiapat.c:EncodeSequence:u-read-as-t"
		hasU, hasT := false, false
		fn.walk(func(n *cnode, _ []*cnode) {
			if n.Kind == "CharacterLiteral" {
				if v, ok := cIntValue(n); ok {
					if v == 'u' {
						hasU = true
					}
					if v == 't' {
						hasT = true
					}
				}
			}
		})
		{
			var o *Ob
			if hasU && hasT {
				o = s.add(Pass, nil, keyU, 0, "the encoder of the sequences names u and t: an RNA symbol gets the code of t")
			} else {
				o = s.add(Violation, nil, keyU, 0, "the sequence encoder gives u its own rank (20), a bit no pattern position holds (the pattern table codes U as T): the text acguac is matched by none of ACGUAC, ACGTAC, ACGNAC — obipcr and obigrep --approx-pattern ignore an RNA record (SILVA) and find its DNA twin, and the reverse complement of the record (u becomes a) is matched")
			}
			o.Pos = fmt.Sprintf("pkg/obiapat/obiapat.c:%d", cLine(fn))
		}
		// (1quinquies) an empty sequence has no repeat: the modulo by its length is never evaluated
		keyE := "pkg/obiapat/obiapat.c:new_apatseq:no-repeat-for-an-empty-sequence"
		if fn2, err := clangFunc(dir, "obiapat.c", "new_apatseq"); err != nil {
			s.Undecided(nil, keyE, 0, err.Error())
		} else {
			guarded := false
			fn2.walk(func(n *cnode, _ []*cnode) {
				if n.Kind != "IfStmt" || len(n.Inner) < 2 {
					return
				}
				names := cDeclRefNames(n.Inner[0])
				hasC, hasL := false, false
				for _, v := range names {
					if v == "circular" {
						hasC = true
					}
					if v == "seqlen" {
						hasL = true
					}
				}
				// … and the statement decides the repeat (it assigns circular)
				assigns := false
				n.walk(func(m *cnode, _ []*cnode) {
					if m.Kind == "BinaryOperator" && m.Op == "=" && len(m.Inner) == 2 {
						for _, v := range cDeclRefNames(m.Inner[0]) {
							if v == "circular" {
								assigns = true
							}
						}
					}
				})
				if hasC && hasL && assigns {
					guarded = true
				}
			})
			var o *Ob
			if guarded {
				o = s.add(Pass, nil, keyE, 0, "the repeat of a circular sequence is only asked for a sequence that has a length")
			} else {
				o = s.add(Violation, nil, keyE, 0, "a circular sequence of length 0 gets a 64-symbol repeat, filled by reading in[i % 0]: obipcr --circular on a CSV file holding a record with an empty sequence dies on SIGFPE (integer divide by zero in EncodeSequence); without --circular the other records give their amplicons")
			}
			o.Pos = fmt.Sprintf("pkg/obiapat/obiapat.c:%d", cLine(fn2))
		}
		var o *Ob
		switch {
		case ncond == 0:
			o = s.add(Undecided, nil, key, 0, "no conditional encoding of the symbols in EncodeSequence")
		case isBad:
			o = s.add(Violation, nil, key, 0, fmt.Sprintf("a byte of the template that is not a lower-case letter is encoded %d, the code of the letter '%c': the symbols - . [ ] that the FASTA and FASTQ readers accept are searched as that base — with -e 0 the site -cgtg-ctg-tcg-tgc-tg is reported as an exact match of ACGTGACTGATCGATGCATG (forward_error 0), and the reverse complement of the same record gives no amplicon", badVal, rune('a'+badVal)))
		default:
			o = s.add(Pass, nil, key, 0, fmt.Sprintf("%d conditional encodings: a non-letter gets the code of a letter that no IUPAC symbol contains", ncond))
		}
		line := fn.Range.Begin.Line
		if badLine != 0 {
			line = badLine
		}
		if line == 0 {
			var loc struct {
				Line int `json:"line"`
			}
			_ = json.Unmarshal(fn.Loc, &loc)
			line = loc.Line
		}
		o.Pos = fmt.Sprintf("pkg/obiapat/obiapat.c:%d", line)
	}
	// (1ter) the error budget is bounded by the arrays of the automaton; the circular repeat wraps
	key = "pkg/obiapat/obiapat.c:buildPattern:error-budget-bounded"
	if fn, err := clangFunc(dir, "obiapat.c", "buildPattern"); err != nil {
		s.Undecided(nil, key, 0, err.Error())
	} else {
		// the parameter of type int32_t other than the pattern: error_max
		errVar := ""
		fn.walk(func(n *cnode, _ []*cnode) {
			if n.Kind == "ParmVarDecl" && strings.Contains(strings.ToLower(n.Name), "err") && strings.Contains(strings.ToLower(n.Name), "max") {
				errVar = n.ID
			}
		})
		guarded := false
		fn.walk(func(n *cnode, _ []*cnode) {
			if n.Kind != "IfStmt" || len(n.Inner) < 2 || errVar == "" {
				return
			}
			upper := false
			n.Inner[0].walk(func(m *cnode, _ []*cnode) {
				if m.Kind == "BinaryOperator" && (m.Op == ">" || m.Op == ">=") && len(m.Inner) == 2 && m.Inner[0].refs(errVar) {
					if k, ok := cIntValue(m.Inner[1]); ok && ((m.Op == ">=" && k <= 64) || (m.Op == ">" && k <= 63)) {
						upper = true
					}
				}
			})
			returns := false
			n.Inner[1].walk(func(m *cnode, _ []*cnode) {
				if m.Kind == "ReturnStmt" {
					returns = true
				}
			})
			if upper && returns {
				guarded = true
			}
		})
		var o *Ob
		switch {
		case errVar == "":
			o = s.add(Undecided, nil, key, 0, "no error-budget parameter in buildPattern")
		case guarded:
			o = s.add(Pass, nil, key, 0, "a budget of 64 errors or more is refused")
		default:
			o = s.add(Violation, nil, key, 0, "the number of errors is not bounded: ManberSub and ManberIndel keep their state in r[2*MAX_PAT_ERR+2] (MAX_PAT_ERR = 64) and index it up to 2*maxerr+3 — obipcr -e 64 dies on SIGSEGV inside ManberAll where -e 63 works")
		}
		o.Pos = fmt.Sprintf("pkg/obiapat/obiapat.c:%d", cLine(fn))
	}
	key = "pkg/obiapat/obiapat.c:EncodeSequence:circular-repeat-wraps"
	if fn, err := clangFunc(dir, "obiapat.c", "EncodeSequence"); err != nil {
		s.Undecided(nil, key, 0, err.Error())
	} else {
		nloop, wraps := 0, false
		fn.walk(func(n *cnode, _ []*cnode) {
			if n.Kind != "ForStmt" {
				return
			}
			circ := false
			n.walk(func(m *cnode, _ []*cnode) {
				if m.Kind == "MemberExpr" && m.Name == "circular" {
					circ = true
				}
			})
			if !circ {
				return
			}
			nloop++
			n.walk(func(m *cnode, _ []*cnode) {
				if m.Kind == "BinaryOperator" && m.Op == "%" {
					wraps = true
				}
			})
		})
		var o *Ob
		switch {
		case nloop == 0:
			o = s.add(Pass, nil, key, 0, "no loop over the circular repeat")
		case wraps:
			o = s.add(Pass, nil, key, 0, "the repeat appended to a circular sequence reads its input modulo the length of the sequence")
		default:
			o = s.add(Violation, nil, key, 0, "the repeat appended to a circular sequence copies the first 64 bytes of the input whatever its length: for a circle shorter than 64 nt it reads beyond the sequence, and the amplicons found depend on what that memory held (circle caa, primers ACAAC and T: [a] or [] according to the history of a recycled buffer)")
		}
		line := fn.Range.Begin.Line
		if line == 0 {
			var loc struct {
				Line int `json:"line"`
			}
			_ = json.Unmarshal(fn.Loc, &loc)
			line = loc.Line
		}
		o.Pos = fmt.Sprintf("pkg/obiapat/obiapat.c:%d", line)
	}
	// (2)
	key = "pkg/obiapat/obiapat.c:no-characterwise-pattern-reversal"
	bad := ""
	nfun := 0
	for _, f := range []string{"ecoComplementPattern", "complementPattern", "buildPattern"} {
		fnode, err := clangFunc(dir, "obiapat.c", f)
		if err != nil {
			continue
		}
		nfun++
		for _, call := range fnode.callsTo("reverseSequence") {
			if len(call.Inner) >= 3 {
				if v, ok := cIntValue(call.Inner[2]); !ok || v != 0 {
					bad = fmt.Sprintf("%s (pkg/obiapat/obiapat.c:%d)", f, call.Range.Begin.Line)
				}
			}
		}
	}
	switch {
	case nfun == 0:
		s.Undecided(nil, key, 0, "pattern functions not found in obiapat.c")
	case bad != "":
		o := s.add(Violation, nil, key, 0, "the text of a pattern is reversed character by character in "+bad+": the modifiers '!' and '#' and the classes '[…]' belong to one position — !A#CGT becomes ACGT!# (5 symbols instead of 4, no mirrored hit), ![AC]GT cannot be reverse-complemented at all")
		o.Pos = "pkg/obiapat/obiapat.c"
	default:
		o := s.add(Pass, nil, key, 0, fmt.Sprintf("%d pattern functions, none reverses a pattern character by character", nfun))
		o.Pos = "pkg/obiapat/obiapat.c"
	}
	// (3) (4) (6) Go side
	p := c.Pkg("pkg/obiapat")
	if p == nil {
		s.Undecided(nil, "pkg/obiapat", 0, "package not loaded")
		return
	}
	c.EachFunc([]string{"pkg/obiapat"}, func(pp *packages.Package, fd *ast.FuncDecl) {
		info := pp.TypesInfo
		n := 0
		ast.Inspect(fd.Body, func(nd ast.Node) bool {
			as, ok := nd.(*ast.AssignStmt)
			if !ok || len(as.Rhs) != 1 || len(as.Lhs) != 3 {
				return true
			}
			call, ok := ast.Unparen(as.Rhs[0]).(*ast.CallExpr)
			if !ok || !isLocateCall(info, call) {
				return true
			}
			n++
			k := fmt.Sprintf("%s:locate#%d:offset-clamped", funcName(pp, fd), n)
			from := rootObj(info, as.Lhs[0])
			var badUse []string
			var stack []ast.Node
			ast.Inspect(fd.Body, func(m ast.Node) bool {
				if m == nil {
					stack = stack[:len(stack)-1]
					return true
				}
				stack = append(stack, m)
				id, ok := m.(*ast.Ident)
				if !ok || info.Uses[id] != from || id.Pos() < as.End() {
					return true
				}
				if len(stack) >= 2 {
					if b, ok := stack[len(stack)-2].(*ast.BinaryExpr); ok && (b.Op == token.ADD || b.Op == token.SUB) {
						badUse = append(badUse, c.Pos(b.Pos())+": "+types.ExprString(b))
					}
				}
				return true
			})
			if len(badUse) > 0 {
				s.Fail(nil, k, as.Pos(), "the start offset returned by LocatePattern (-1 when the pattern overhangs the beginning of the re-aligned fragment) is added unclamped ("+strings.Join(badUse, "; ")+"): for a fragment that does not begin the sequence the span is one base too long on the left and its reported error count is not its edit distance")
			} else {
				s.Pass(nil, k, as.Pos(), "the start offset is only used clamped")
			}
			return true
		})
	})
	if fd, pp := c.FindFunc("pkg/obiapat", "(ApatPattern).BestMatch"); fd != nil {
		info := pp.TypesInfo
		k := "pkg/obiapat.(ApatPattern).BestMatch:overhang-rejected-without-indels-only"
		verdict, pos := "", fd.Pos()
		ast.Inspect(fd.Body, func(nd ast.Node) bool {
			ifs, ok := nd.(*ast.IfStmt)
			if !ok {
				return true
			}
			// body: matched = false; return
			rejects := false
			for _, st := range ifs.Body.List {
				if as, ok := st.(*ast.AssignStmt); ok && len(as.Rhs) == 1 {
					if id, ok := ast.Unparen(as.Rhs[0]).(*ast.Ident); ok && id.Name == "false" {
						rejects = true
					}
				}
			}
			if !rejects {
				return true
			}
			// does the condition test a position against 0 / Len()?
			positional, indelAware := false, false
			ast.Inspect(ifs.Cond, func(m ast.Node) bool {
				switch x := m.(type) {
				case *ast.BinaryExpr:
					if x.Op == token.LSS || x.Op == token.GTR {
						if _, isIx := ast.Unparen(x.X).(*ast.IndexExpr); isIx {
							positional = true
						}
					}
				case *ast.SelectorExpr:
					if v, ok := info.ObjectOf(x.Sel).(*types.Var); ok && v.IsField() && strings.Contains(strings.ToLower(v.Name()), "indel") {
						indelAware = true
					}
				}
				return true
			})
			if positional {
				pos = ifs.Pos()
				if indelAware {
					verdict = "ok"
				} else {
					verdict = "bad"
				}
			}
			return true
		})
		switch verdict {
		case "bad":
			s.Fail(nil, k, pos, "BestMatch answers 'no match' whenever the raw hit lies outside the sequence, also with indels: there the raw position is the end of the match minus the length of the pattern, so a primer lacking its first base at the very beginning of the read (raw start -1) is missed although AllMatches reports it")
		default:
			s.Pass(nil, k, pos, "hits lying outside the sequence are only rejected in mismatch-only mode")
		}
	}
	c.EachFunc([]string{"pkg/obialign"}, func(pp *packages.Package, fd *ast.FuncDecl) {
		if !strings.HasPrefix(fd.Name.Name, "LocatePattern") {
			return
		}
		info := pp.TypesInfo
		k := "pkg/obialign." + fd.Name.Name + ":no-relative-length-precondition"
		bad := false
		for _, st := range fd.Body.List {
			ifs, ok := st.(*ast.IfStmt)
			if !ok {
				continue
			}
			b, ok := ast.Unparen(ifs.Cond).(*ast.BinaryExpr)
			if !ok {
				continue
			}
			isLen := func(e ast.Expr) bool {
				call, ok := ast.Unparen(e).(*ast.CallExpr)
				if !ok {
					return false
				}
				id, ok := call.Fun.(*ast.Ident)
				return ok && id.Name == "len"
			}
			if isLen(b.X) && isLen(b.Y) {
				ast.Inspect(ifs.Body, func(m ast.Node) bool {
					if call, ok := m.(*ast.CallExpr); ok {
						if f := callee(info, call); f != nil && (strings.HasPrefix(f.Name(), "Panic") || strings.HasPrefix(f.Name(), "Fatal")) {
							bad = true
						}
					}
					return true
				})
			}
		}
		if bad {
			s.Fail(nil, k, fd.Pos(), "LocatePattern aborts when the sequence is not longer than the pattern: with indels allowed a read exactly as long as the primer (one substitution, budget 1) or one base shorter (one deletion) kills the program instead of being reported as a match")
		} else {
			s.Pass(nil, k, fd.Pos(), "no abort on the relative lengths of pattern and sequence")
		}
	})
	if fd, pp := c.FindFunc("pkg/obiapat", "(ApatPattern).FindAllIndex"); fd != nil {
		info := pp.TypesInfo
		k := "pkg/obiapat.(ApatPattern).FindAllIndex:keepalive"
		// last read through a variable holding an unsafe.Pointer conversion of C memory
		raw := map[types.Object]bool{}
		ast.Inspect(fd.Body, func(nd ast.Node) bool {
			if as, ok := nd.(*ast.AssignStmt); ok && len(as.Lhs) == 1 && len(as.Rhs) == 1 {
				if strings.Contains(types.ExprString(as.Rhs[0]), "unsafe.Pointer(") {
					if o := rootObj(info, as.Lhs[0]); o != nil {
						raw[o] = true
					}
				}
			}
			return true
		})
		var lastUse token.Pos
		ast.Inspect(fd.Body, func(nd ast.Node) bool {
			if id, ok := nd.(*ast.Ident); ok && raw[info.Uses[id]] && id.Pos() > lastUse {
				lastUse = id.Pos()
			}
			return true
		})
		kept := map[string]bool{}
		ast.Inspect(fd.Body, func(nd ast.Node) bool {
			if call, ok := nd.(*ast.CallExpr); ok && len(call.Args) == 1 {
				if f := callee(info, call); f != nil && f.Pkg() != nil && f.Pkg().Path() == "runtime" && f.Name() == "KeepAlive" && call.Pos() > lastUse {
					kept[types.ExprString(call.Args[0])] = true
				}
			}
			return true
		})
		seqParam := ""
		for _, id := range flattenParams(fd.Type.Params) {
			if id != nil && strings.HasSuffix(namedTypeName(info.ObjectOf(id).Type()), "ApatSequence") {
				seqParam = id.Name
			}
		}
		switch {
		case len(raw) == 0:
			s.Pass(nil, k, fd.Pos(), "no raw pointer into the C structures")
		case seqParam != "" && kept[seqParam]:
			s.Pass(nil, k, fd.Pos(), "the sequence is kept alive until after the last read of the C hit stacks")
		default:
			s.Fail(nil, k, fd.Pos(), "raw pointers to the C hit stacks are read after the last reference to the sequence: its finalizer may free them during the copy loop (SIGSEGV on a 2 Mb sequence, garbage hits on small ones)")
		}
	}
}

func init() {
	register(&Rule{
		ID: "KA", Props: []string{"C10", "C05", "C11"}, Min: 4,
		Doc: `the C structures of pkg/obiapat live as long as the C code reads them: a Go wrapper (ApatSequence, ApatPattern) owns a C structure that its finalizer frees. In every function of the
package, a receiver or parameter of one of these types whose C structure (x.pointer.pointer) is handed to a C function — seen through the closure cgo generates — is referenced after the last such
call (runtime.KeepAlive or any use): otherwise the wrapper is dead once the arguments are evaluated, a garbage collection during the call runs the finalizer and the C search reads freed memory.
IsMatching (obigrep --approx-pattern, obiannotate) on 3 Mbp sequences died with SIGSEGV in 7 runs out of 12 and selected the expected 80 records in the others.`,
		Run: runKA,
	})
}

func runKA(c *Ctx, s *Sink) {
	c.EachFunc([]string{"pkg/obiapat"}, func(pp *packages.Package, fd *ast.FuncDecl) {
		info := pp.TypesInfo
		wrappers := map[types.Object]bool{}
		add := func(fl *ast.FieldList) {
			for _, id := range flattenParams(fl) {
				if id == nil {
					continue
				}
				if o := info.ObjectOf(id); o != nil {
					n := namedTypeName(derefType(o.Type()))
					if strings.HasSuffix(n, ".ApatSequence") || strings.HasSuffix(n, ".ApatPattern") {
						wrappers[o] = true
					}
				}
			}
		}
		add(fd.Recv)
		add(fd.Type.Params)
		if len(wrappers) == 0 {
			return
		}
		lastCall := map[types.Object]token.Pos{}
		ast.Inspect(fd.Body, func(nd ast.Node) bool {
			call, ok := nd.(*ast.CallExpr)
			if !ok {
				return true
			}
			// cgo turns C.f(x.pointer.pointer, …) into func() T { _cgo0 := x.pointer.pointer; …; return _Cfunc_f(_cgo0, …) }()
			scan := []ast.Node{}
			if lit, ok := ast.Unparen(call.Fun).(*ast.FuncLit); ok {
				isC := false
				ast.Inspect(lit.Body, func(m ast.Node) bool {
					if id, ok := m.(*ast.Ident); ok && strings.HasPrefix(id.Name, "_Cfunc_") {
						isC = true
					}
					return true
				})
				if !isC {
					return true
				}
				scan = append(scan, lit.Body)
			} else {
				name := types.ExprString(call.Fun)
				if !strings.HasPrefix(name, "C.") && !strings.Contains(name, "_Cfunc_") {
					return true
				}
				for _, a := range call.Args {
					scan = append(scan, a)
				}
			}
			for _, a := range scan {
				ast.Inspect(a, func(m ast.Node) bool {
					if sel, ok := m.(*ast.SelectorExpr); ok && sel.Sel.Name == "pointer" {
						if o := rootObj(info, sel.X); o != nil && wrappers[o] && call.End() > lastCall[o] {
							lastCall[o] = call.End()
						}
					}
					return true
				})
			}
			return true
		})
		var objs []types.Object
		for o := range lastCall {
			objs = append(objs, o)
		}
		sort.Slice(objs, func(i, j int) bool { return objs[i].Pos() < objs[j].Pos() })
		for _, o := range objs {
			k := funcName(pp, fd) + ":" + o.Name() + "-alive-across-C-call"
			later := false
			ast.Inspect(fd.Body, func(nd ast.Node) bool {
				if id, ok := nd.(*ast.Ident); ok && info.Uses[id] == o && id.Pos() >= lastCall[o] {
					later = true
				}
				return true
			})
			if later {
				s.Pass(nil, k, fd.Pos(), "the wrapper is referenced after the last C call that works on its C structure")
			} else {
				s.Fail(nil, k, lastCall[o], "the C structure of "+o.Name()+" is handed to a C function and "+o.Name()+" is not referenced afterwards (no runtime.KeepAlive): a garbage collection during the call runs its finalizer and frees the memory the C code is reading — obigrep --approx-pattern on 3 Mbp sequences dies with SIGSEGV in 7 runs out of 12, or selects a different set of records")
			}
		}
	})
}

// isLocateCall: a call of one of the locating functions of pkg/obialign (LocatePattern, LocatePatternFunc, …).
func isLocateCall(info *types.Info, call *ast.CallExpr) bool {
	f := callee(info, call)
	return f != nil && f.Pkg() != nil && rel(f.Pkg().Path()) == "pkg/obialign" && strings.HasPrefix(f.Name(), "LocatePattern")
}

// locateFragment: the sequence argument of a locating call — its last argument of type []byte.
func locateFragment(info *types.Info, call *ast.CallExpr) ast.Expr {
	var out ast.Expr
	for _, a := range call.Args {
		if t := info.TypeOf(a); t != nil {
			if sl, ok := t.Underlying().(*types.Slice); ok {
				if b, ok := sl.Elem().Underlying().(*types.Basic); ok && b.Kind() == types.Byte {
					out = a
				}
			}
		}
	}
	return out
}

// cLine: the line of a clang node (clang omits range.begin.line when it is the line of the previous node: loc has it).
func cLine(n *cnode) int {
	if n.Range.Begin.Line != 0 {
		return n.Range.Begin.Line
	}
	var loc struct {
		Line int `json:"line"`
	}
	_ = json.Unmarshal(n.Loc, &loc)
	return loc.Line
}
