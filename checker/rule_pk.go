package main

// PK — what is decided by peeking at the first batch is decided on the first batch of the data (C05).

import (
	"fmt"
	"go/ast"
	"go/types"
	"strings"

	"golang.org/x/tools/go/packages"
)

func init() {
	register(&Rule{
		ID: "PK", Props: []string{"C05", "C04"}, Min: 2,
		Doc: `a writer that looks at one batch before writing (Next(), Get(), PushBack()) to choose the shape of its output — the columns of the CSV (obicsv --auto), FASTA or FASTQ for the default
output — sees the batch that happens to arrive first: after parallel workers that is not batch 0, and may be an empty batch. In every function of the module calling PushBack() on an iterator, that
iterator variable has been assigned, before the Next() of the peek, the result of an order-normalising combinator applied to itself (FilterEmpty(), which also sorts, or SortBatches()/Rebatch()):
otherwise the header line, a whole column, or the format of the output (qualities lost) changes from run to run and with --max-cpu / --batch-size.`,
		Run: runPK,
	})
}

func runPK(c *Ctx, s *Sink) {
	c.EachFunc([]string{"pkg", "cmd"}, func(p *packages.Package, fd *ast.FuncDecl) {
		info := p.TypesInfo
		n := 0
		ast.Inspect(fd.Body, func(nd ast.Node) bool {
			call, ok := nd.(*ast.CallExpr)
			if !ok {
				return true
			}
			sel, ok := ast.Unparen(call.Fun).(*ast.SelectorExpr)
			if !ok || sel.Sel.Name != "PushBack" || !strings.HasSuffix(fullName(callee(info, call)), "IBioSequence).PushBack") {
				return true
			}
			it := rootObj(info, sel.X)
			if it == nil {
				return true
			}
			if self, ok := info.Defs[fd.Name].(*types.Func); ok {
				if sig, ok := self.Type().(*types.Signature); ok && sig.Recv() != nil && strings.HasSuffix(namedTypeName(sig.Recv().Type()), "IBioSequence") {
					return true // the iterator's own methods
				}
			}
			n++
			key := fmt.Sprintf("%s:peek#%d", funcName(p, fd), n)
			normalised := ""
			ast.Inspect(fd.Body, func(m ast.Node) bool {
				as, ok := m.(*ast.AssignStmt)
				if !ok || len(as.Lhs) != 1 || len(as.Rhs) != 1 || as.Pos() > call.Pos() || rootObj(info, as.Lhs[0]) != it {
					return true
				}
				if cc, ok := ast.Unparen(as.Rhs[0]).(*ast.CallExpr); ok {
					if cs, ok := ast.Unparen(cc.Fun).(*ast.SelectorExpr); ok && rootObj(info, cs.X) == it {
						switch cs.Sel.Name {
						case "FilterEmpty", "SortBatches", "Rebatch":
							normalised = cs.Sel.Name
						}
					}
				}
				return true
			})
			if normalised != "" {
				s.Pass(nil, key, call.Pos(), "the iterator peeked at went through "+normalised+"() in this function")
			} else {
				s.Fail(nil, key, call.Pos(), "the shape of the output is chosen on the first batch to ARRIVE from "+it.Name()+": after parallel workers this is not batch 0 and may be an empty batch — obicsv --auto gives two different headers (a whole column missing) from identical runs, and the default output flips between FASTA and FASTQ with --batch-size and --max-cpu")
			}
			return true
		})
	})
}
