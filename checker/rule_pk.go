package main

// PK — what is decided by peeking at the first batch is decided on the first batch of the data (C05).

import (
	"fmt"
	"go/ast"
	"go/types"
	"strings"

	"golang.org/x/tools/go/packages"
)

func init() {
	register(&Rule{
		ID: "PK", Props: []string{"C05", "C04"}, Min: 2,
		Doc: `a writer that looks at one batch before writing (Next(), Get(), PushBack()) to choose the shape of its output — the columns of the CSV (obicsv --auto), FASTA or FASTQ for the default
output — sees the batch that happens to arrive first: after parallel workers that is not batch 0, and may be an empty batch. In every function of the module calling PushBack() on an iterator, that
iterator variable has been assigned, before the Next() of the peek, the result of an order-normalising combinator applied to itself (FilterEmpty(), which also sorts, or SortBatches()/Rebatch()):
otherwise the header line, a whole column, or the format of the output (qualities lost) changes from run to run and with --max-cpu / --batch-size.`,
		Run: runPK,
	})
}

func runPK(c *Ctx, s *Sink) {
	c.EachFunc([]string{"pkg", "cmd"}, func(p *packages.Package, fd *ast.FuncDecl) {
		info := p.TypesInfo
		n := 0
		ast.Inspect(fd.Body, func(nd ast.Node) bool {
			call, ok := nd.(*ast.CallExpr)
			if !ok {
				return true
			}
			sel, ok := ast.Unparen(call.Fun).(*ast.SelectorExpr)
			if !ok || sel.Sel.Name != "PushBack" || !strings.HasSuffix(fullName(callee(info, call)), "IBioSequence).PushBack") {
				return true
			}
			it := rootObj(info, sel.X)
			if it == nil {
				return true
			}
			if self, ok := info.Defs[fd.Name].(*types.Func); ok {
				if sig, ok := self.Type().(*types.Signature); ok && sig.Recv() != nil && strings.HasSuffix(namedTypeName(sig.Recv().Type()), "IBioSequence") {
					return true // the iterator's own methods
				}
			}
			n++
			key := fmt.Sprintf("%s:peek#%d", funcName(p, fd), n)
			normalised := ""
			ast.Inspect(fd.Body, func(m ast.Node) bool {
				as, ok := m.(*ast.AssignStmt)
				if !ok || len(as.Lhs) != 1 || len(as.Rhs) != 1 || as.Pos() > call.Pos() || rootObj(info, as.Lhs[0]) != it {
					return true
				}
				if cc, ok := ast.Unparen(as.Rhs[0]).(*ast.CallExpr); ok {
					if cs, ok := ast.Unparen(cc.Fun).(*ast.SelectorExpr); ok && rootObj(info, cs.X) == it {
						switch cs.Sel.Name {
						case "FilterEmpty", "SortBatches", "Rebatch":
							normalised = cs.Sel.Name
						}
					}
				}
				return true
			})
			if normalised != "" {
				s.Pass(nil, key, call.Pos(), "the iterator peeked at went through "+normalised+"() in this function")
			} else {
				s.Fail(nil, key, call.Pos(), "the shape of the output is chosen on the first batch to ARRIVE from "+it.Name()+": after parallel workers this is not batch 0 and may be an empty batch — obicsv --auto gives two different headers (a whole column missing) from identical runs, and the default output flips between FASTA and FASTQ with --batch-size and --max-cpu")
			}
			return true
		})
	})
}

func init() {
	register(&Rule{
		ID: "PK-2", Props: []string{"C04", "C05"}, Min: 1,
		Doc: `the filter put in front of a peek does not turn a stream of batches into a stream without any batch: in obiiter.IBioSequence.FilterEmpty some Push() is reachable for an empty batch
— it is not inside the branch of a test that the batch holds records (a conjunction with Len() > 0 / != 0). A writer that numbers its header on batch 0 (WriteCSV with automatic columns) otherwise
writes no header line for a result whose batches are all empty, where the same result without --auto has one.`,
		Run: func(c *Ctx, s *Sink) {
			fd, p := c.FindFunc("pkg/obiiter", "(IBioSequence).FilterEmpty")
			key := "pkg/obiiter.IBioSequence.FilterEmpty:keeps-a-batch"
			if fd == nil {
				s.Undecided(nil, key, 0, "method not found")
				return
			}
			info := p.TypesInfo
			defs := collectDefs(info, fd)
			// does the expression test that a batch length is positive
			var lenPositive func(e ast.Expr) bool
			isLen := func(e ast.Expr) bool {
				e = ast.Unparen(e)
				if id, ok := e.(*ast.Ident); ok {
					for _, d := range defs[info.ObjectOf(id)] {
						if call, ok := ast.Unparen(d).(*ast.CallExpr); ok {
							if sel, ok := ast.Unparen(call.Fun).(*ast.SelectorExpr); ok && sel.Sel.Name == "Len" {
								return true
							}
							if fid, ok := call.Fun.(*ast.Ident); ok && fid.Name == "len" {
								return true
							}
						}
					}
					return false
				}
				if call, ok := e.(*ast.CallExpr); ok {
					if sel, ok := ast.Unparen(call.Fun).(*ast.SelectorExpr); ok && sel.Sel.Name == "Len" {
						return true
					}
					if fid, ok := call.Fun.(*ast.Ident); ok && fid.Name == "len" {
						return true
					}
				}
				return false
			}
			isZeroLit := func(e ast.Expr) bool {
				bl, ok := ast.Unparen(e).(*ast.BasicLit)
				return ok && bl.Value == "0"
			}
			lenPositive = func(e ast.Expr) bool {
				b, ok := ast.Unparen(e).(*ast.BinaryExpr)
				if !ok {
					return false
				}
				switch b.Op.String() {
				case "&&":
					return lenPositive(b.X) || lenPositive(b.Y)
				case ">", "!=":
					return isLen(b.X) && isZeroLit(b.Y)
				case ">=":
					if bl, ok := ast.Unparen(b.Y).(*ast.BasicLit); ok && bl.Value == "1" {
						return isLen(b.X)
					}
				case "<":
					return isLen(b.Y) && isZeroLit(b.X)
				}
				return false
			}
			npush, free := 0, 0
			var stack []ast.Node
			ast.Inspect(fd.Body, func(n ast.Node) bool {
				if n == nil {
					stack = stack[:len(stack)-1]
					return true
				}
				stack = append(stack, n)
				call, ok := n.(*ast.CallExpr)
				if !ok {
					return true
				}
				if sel, ok := ast.Unparen(call.Fun).(*ast.SelectorExpr); !ok || sel.Sel.Name != "Push" {
					return true
				}
				npush++
				guarded := false
				for k := len(stack) - 2; k >= 0; k-- {
					if ifs, ok := stack[k].(*ast.IfStmt); ok && k+1 < len(stack) && stack[k+1] == ast.Node(ifs.Body) && lenPositive(ifs.Cond) {
						guarded = true
					}
				}
				if !guarded {
					free++
				}
				return true
			})
			switch {
			case npush == 0:
				s.Undecided(nil, key, fd.Pos(), "no Push() in FilterEmpty")
			case free == 0:
				s.Fail(nil, key, fd.Pos(), "every Push() of FilterEmpty is under a test that the batch holds records: a stream whose batches are all empty becomes a stream without any batch — obicsv --auto then writes no header line where the same result without --auto has one, and a peeking writer cannot tell it from a stream that has not started")
			default:
				s.Pass(nil, key, fd.Pos(), fmt.Sprintf("%d of %d Push() reachable for an empty batch", free, npush))
			}
		},
	})
}
