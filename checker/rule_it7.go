package main

// IT-7 — a slice handed to Push belongs to the consumer: the producer must not
// keep filling the same backing array.

import (
	"fmt"
	"go/ast"
	"go/token"
	"go/types"
)

func init() {
	register(&Rule{
		ID: "IT-7", Props: []string{"C03", "C16", "C01", "C06", "C05"}, Min: 6,
		Doc: `pushed buffers are not reused: when a producer pushes a batch built from a local slice variable (MakeBioSequenceBatch(_, _, X), a composite batch, or *X),
then on every path X must be re-bound to something else (a fresh MakeBioSequenceSlice()/make/nil, or a new value) before the producer appends to X or re-slices it:
'X = X[:0]' / append(X, …) right after the push shares the backing array with the batch the consumer is still reading (records lost or duplicated under load).
Typestate over go/cfg, one obligation per pushed slice variable.`,
		Run: runIT7,
	})
}

func runIT7(c *Ctx, s *Sink) {
	for _, h := range itHandles(c) {
		props := append(append([]string{}, itProps(h)...), "C05")
		type unit struct {
			body *itBody
			v    types.Object
		}
		seen := map[unit][]*itEvent{}
		var order []unit
		for _, p := range h.eventsOf("Push") {
			info := p.body.pkg.TypesInfo
			v := pushedSliceVar(info, p.arg)
			if v == nil {
				continue
			}
			// only variables that outlive one iteration: declared outside the innermost loop containing the push
			u := unit{p.body, v}
			if seen[u] == nil {
				order = append(order, u)
			}
			seen[u] = append(seen[u], p)
		}
		for _, u := range order {
			key := fmt.Sprintf("%s:buffer:%s:%s", h.key(), u.body.label, u.v.Name())
			msg, pos := it7Check(c, u.body, u.v, seen[u])
			if msg == "" {
				s.Pass(props, key, seen[u][0].pos(), "the slice is re-bound before it is filled again after every push")
			} else {
				s.Fail(props, key, pos, msg)
			}
		}
	}
}

// pushedSliceVar: the local slice variable whose backing array the pushed batch shares.
func pushedSliceVar(info *types.Info, arg ast.Expr) types.Object {
	arg = ast.Unparen(arg)
	var sl ast.Expr
	switch x := arg.(type) {
	case *ast.CallExpr:
		if isCallTo(info, x, "pkg/obiiter.MakeBioSequenceBatch") && len(x.Args) == 3 {
			sl = x.Args[2]
		}
	case *ast.CompositeLit:
		// the payload is the field of slice type of the batch (whatever it is called)
		isSliceT := func(t types.Type) bool { _, ok := t.Underlying().(*types.Slice); return ok }
		for _, el := range x.Elts {
			if kv, ok := el.(*ast.KeyValueExpr); ok {
				if id, ok := kv.Key.(*ast.Ident); ok {
					if fv, ok := info.ObjectOf(id).(*types.Var); ok && fv.IsField() && isSliceT(fv.Type()) {
						sl = kv.Value
					}
				}
			} else if tv, ok := info.Types[el]; ok && isSliceT(tv.Type) {
				sl = el
			}
		}
	}
	if sl == nil {
		return nil
	}
	sl = ast.Unparen(sl)
	if st, ok := sl.(*ast.StarExpr); ok {
		sl = ast.Unparen(st.X)
	}
	if id, ok := sl.(*ast.Ident); ok {
		if v, ok := info.ObjectOf(id).(*types.Var); ok && !v.IsField() {
			return v
		}
	}
	return nil
}

func it7Check(c *Ctx, b *itBody, v types.Object, pushes []*itEvent) (string, token.Pos) {
	info := b.pkg.TypesInfo
	pushSet := map[ast.Node]bool{}
	for _, p := range pushes {
		pushSet[p.node] = true
	}
	isV := func(e ast.Expr) bool {
		e = ast.Unparen(e)
		if st, ok := e.(*ast.StarExpr); ok {
			e = ast.Unparen(st.X)
		}
		id, ok := e.(*ast.Ident)
		return ok && info.ObjectOf(id) == v
	}
	g := buildCFG(info, b.body)
	ts := &typestate{g: g, init: 0, info: info,
		events: func(n ast.Node) []tsEvent {
			var evs []tsEvent
			visitEval(n, func(m ast.Node) {
				if pushSet[m] {
					evs = append(evs, tsEvent{kind: "push", node: m})
					return
				}
				as, ok := m.(*ast.AssignStmt)
				if !ok {
					return
				}
				for i, l := range as.Lhs {
					if !isV(l) || i >= len(as.Rhs) {
						// element store X[i] = …
						if ix, ok := ast.Unparen(l).(*ast.IndexExpr); ok && isV(ix.X) {
							evs = append(evs, tsEvent{kind: "fill", node: m})
						}
						continue
					}
					r := ast.Unparen(as.Rhs[i])
					reuse := false
					switch x := r.(type) {
					case *ast.SliceExpr:
						reuse = isV(x.X)
					case *ast.CallExpr:
						if id, ok := x.Fun.(*ast.Ident); ok && id.Name == "append" && len(x.Args) > 0 && isV(x.Args[0]) {
							reuse = true
						}
					}
					if reuse {
						evs = append(evs, tsEvent{kind: "fill", node: m})
					} else {
						evs = append(evs, tsEvent{kind: "rebind", node: m})
					}
				}
			})
			return evs
		},
		step: func(st int, ev tsEvent) (int, string) {
			switch ev.kind {
			case "push":
				return 1, ""
			case "rebind":
				return 0, ""
			case "fill":
				if st == 1 {
					return 1, "after a batch built from " + v.Name() + " has been pushed, the producer appends to / re-slices the same backing array: the consumer's batch is overwritten while it is being read"
				}
			}
			return st, ""
		}}
	res := ts.run()
	if len(res.errs) > 0 {
		return res.errs[0].msg, res.errs[0].pos
	}
	return "", 0
}
