package main

// NX — two streams advanced in lockstep are both checked for their end (C03).

import (
	"fmt"
	"go/ast"
	"go/types"
	"strings"

	"golang.org/x/tools/go/packages"
)

func init() {
	register(&Rule{
		ID: "NX", Props: []string{"C03"}, Min: 1,
		Doc: `pairing of mates terminates and loses nothing silently: (1) the boolean returned by IBioSequence.Next() is never discarded (a call as a statement of its own reads the next batch of a
stream without learning that there is none); (2) when a loop 'for a.Next()' advances a second iterator b in its body, the statements following the loop test b.Next() or b.Finished(): batches left in
b are never consumed, the goroutine feeding b stays blocked on its channel, its pipe is never closed and WaitForLastPipe() never returns — the command hangs when the mate file holds more records
than the forward file by a multiple of the batch size.`,
		Run: runNX,
	})
}

func runNX(c *Ctx, s *Sink) {
	isIterMethod := func(info *types.Info, call *ast.CallExpr, names ...string) (types.Object, bool) {
		sel, ok := ast.Unparen(call.Fun).(*ast.SelectorExpr)
		if !ok {
			return nil, false
		}
		f := callee(info, call)
		if f == nil {
			return nil, false
		}
		sig, _ := f.Type().(*types.Signature)
		if sig == nil || sig.Recv() == nil || !strings.HasSuffix(namedTypeName(derefType(sig.Recv().Type())), "/pkg/obiiter.IBioSequence") {
			return nil, false
		}
		for _, n := range names {
			if f.Name() == n {
				return rootObj(info, sel.X), true
			}
		}
		return nil, false
	}
	c.EachFunc([]string{"pkg", "cmd"}, func(p *packages.Package, fd *ast.FuncDecl) {
		info := p.TypesInfo
		nd, nl := 0, 0
		var visitBlock func(list []ast.Stmt)
		visitBlock = func(list []ast.Stmt) {
			for i, st := range list {
				if es, ok := st.(*ast.ExprStmt); ok {
					if call, ok := es.X.(*ast.CallExpr); ok {
						if _, isNext := isIterMethod(info, call, "Next"); isNext {
							nd++
							s.Fail(nil, fmt.Sprintf("%s:next-discarded#%d", funcName(p, fd), nd), call.Pos(), "the result of "+types.ExprString(call.Fun)+"() is discarded: the code goes on with Get() whether or not the stream had a next batch")
						}
					}
				}
				loop, ok := st.(*ast.ForStmt)
				if !ok || loop.Cond == nil {
					continue
				}
				cc, ok := ast.Unparen(loop.Cond).(*ast.CallExpr)
				if !ok {
					continue
				}
				a, isNext := isIterMethod(info, cc, "Next")
				if !isNext || a == nil {
					continue
				}
				// a second iterator advanced in the body
				var second types.Object
				ast.Inspect(loop.Body, func(m ast.Node) bool {
					if call, ok := m.(*ast.CallExpr); ok {
						if b, ok := isIterMethod(info, call, "Next"); ok && b != nil && b != a {
							second = b
						}
					}
					return true
				})
				if second == nil {
					continue
				}
				nl++
				key := fmt.Sprintf("%s:lockstep#%d", funcName(p, fd), nl)
				checked := false
				for _, after := range list[i+1:] {
					ast.Inspect(after, func(m ast.Node) bool {
						if call, ok := m.(*ast.CallExpr); ok {
							if b, ok := isIterMethod(info, call, "Next", "Finished"); ok && b == second {
								if _, isStmt := after.(*ast.ExprStmt); !isStmt {
									checked = true
								}
							}
						}
						return true
					})
				}
				if checked {
					s.Pass(nil, key, loop.Pos(), "the second stream is tested for leftover batches after the loop")
				} else {
					s.Fail(nil, key, loop.Pos(), "after the loop over "+a.Name()+" nothing tests whether "+second.Name()+" still holds batches: when the mate stream is longer by whole batches they are never consumed, its producer blocks, its pipe stays registered and the command never terminates (obipairing -F f21 -R r28 --batch-size 7 hangs after 21 pairs)")
				}
			}
		}
		ast.Inspect(fd.Body, func(m ast.Node) bool {
			switch x := m.(type) {
			case *ast.BlockStmt:
				visitBlock(x.List)
			case *ast.CaseClause:
				visitBlock(x.Body)
			}
			return true
		})
	})
}
