package main

// SB — every slice of the sequence taken by Subsequence is within bounds (C07, C11).

import (
	"sort"
	"fmt"
	"go/ast"
	"go/types"
	"strings"
)

func init() {
	register(&Rule{
		ID: "SB", Props: []string{"C07", "C11"}, Min: 1,
		Doc: `Subsequence never slices outside the sequence, for any from/to/circular: on every path of pkg/obiseq.(*BioSequence).Subsequence (path enumeration with linear arithmetic over from, to,
the length L >= 0 of the sequence and the remainders x % L — |x % L| <= L-1, sign of x, L >= 1 where a remainder was evaluated; loops by havoc of the variables they assign) each slice expression
S[a:b] of the receiver's nucleotides or qualities satisfies 0 <= a <= b <= L. A bound reduced with a bare % keeps the sign of a negative position: a circular window that ends before the origin
(to <= 0) panics with 'slice bounds out of range'.`,
		Run: runSB,
	})
}

func runSB(c *Ctx, s *Sink) {
	fd, p := c.FindFunc("pkg/obiseq", "(*BioSequence).Subsequence")
	key := "pkg/obiseq.(*BioSequence).Subsequence:slice-bounds"
	if fd == nil {
		s.Undecided(nil, key, 0, "function not found")
		return
	}
	info := p.TypesInfo
	recvName := fd.Recv.List[0].Names[0].Name
	lenAtom := "|" + recvName + "|"
	env := &linEnv{info: info, vars: map[types.Object]linForm{}, defs: map[types.Object][]ast.Expr{}, atoms: map[string]bool{lenAtom: true}, lens: map[string]bool{lenAtom: true}, elems: map[string]linForm{},
		// helpers of the package (bounds checked in a validator returning an error) are followed
		decl: func(f *types.Func) (*ast.FuncDecl, *types.Info) {
			d, dp := c.DeclOf(f)
			if d == nil {
				return nil, nil
			}
			return d, dp.TypesInfo
		}}
	type ob struct {
		pos  string
		what string
	}
	failed := map[string]string{}
	proved := map[string]bool{}
	empty := map[string]string{}
	nonEmpty := map[string]bool{}
	nslices := 0
	seenSlice := map[*ast.SliceExpr]bool{}
	checkSlices := func(pth linPath, n ast.Node) {
		ast.Inspect(n, func(m ast.Node) bool {
			switch m.(type) {
			case *ast.FuncLit, *ast.BlockStmt:
				return false
			}
			sl, ok := m.(*ast.SliceExpr)
			if !ok {
				return true
			}
			// the receiver's own storage: recv.Sequence(), recv.Qualities(), recv.sequence, recv.qualities
			base := types.ExprString(ast.Unparen(sl.X))
			if !strings.HasPrefix(base, recvName+".") {
				return true
			}
			if !seenSlice[sl] {
				seenSlice[sl] = true
				nslices++
			}
			pth.env.cur = pth.sys
			lo, hi := lfConst(0), lfAtom(lenAtom)
			ok1, ok2 := true, true
			if sl.Low != nil {
				lo, ok1 = pth.env.form(sl.Low, 0)
			}
			if sl.High != nil {
				hi, ok2 = pth.env.form(sl.High, 0)
			}
			k := c.Pos(sl.Pos())
			if !ok1 || !ok2 {
				failed[k] = "bound not linear"
				return true
			}
			known := pth.known()
			switch {
			case !known.entails(linLE(lfConst(0), lo)):
				failed[k] = fmt.Sprintf("cannot prove 0 <= %s (low bound %s)", types.ExprString(sl.Low), lo)
			case !known.entails(linLE(lo, hi)):
				failed[k] = fmt.Sprintf("cannot prove low <= high (%s <= %s)", lo, hi)
			case !known.entails(linLE(hi, lfAtom(lenAtom))):
				failed[k] = fmt.Sprintf("cannot prove high <= length (%s)", hi)
			default:
				proved[k] = true
			}
			// a window is never empty: low < high
			if !known.entails(linLE(lo.add(lfConst(1), 1), hi)) {
				empty[k] = fmt.Sprintf("cannot prove low < high (%s < %s)", lo, hi)
			} else if _, bad := empty[k]; !bad {
				nonEmpty[k] = true
			}
			return true
		})
	}
	visit := func(pth linPath, st ast.Stmt) {
		switch x := st.(type) {
		case *ast.ForStmt:
			if x.Cond != nil {
				checkSlices(pth, x.Cond)
			}
		case *ast.IfStmt, *ast.BlockStmt:
		default:
			checkSlices(pth, st)
		}
	}
	linWalk([]linPath{{env: env}}, fd.Body.List, visit)
	switch {
	case len(failed) > 0:
		var msgs []string
		for k, v := range failed {
			msgs = append(msgs, k+": "+v)
		}
		sort.Strings(msgs)
		s.Fail(nil, key, fd.Pos(), "a slice of the sequence is not within bounds on every path ("+strings.Join(msgs, "; ")+"): a position reduced with a bare % keeps the sign of a negative operand — a circular window ending at or before the origin panics with 'slice bounds out of range' instead of being extracted")
	case nslices == 0:
		s.Undecided(nil, key, fd.Pos(), "no slice of the receiver found")
	default:
		s.Pass(nil, key, fd.Pos(), fmt.Sprintf("%d slice expressions of the receiver, 0 <= low <= high <= length proved on every path", nslices))
	}
	keyNE := strings.Replace(key, "slice-bounds", "window-not-empty", 1)
	if keyNE == key {
		keyNE = key + ":window-not-empty"
	}
	switch {
	case len(empty) > 0:
		var msgs []string
		for k, v := range empty {
			msgs = append(msgs, k+": "+v)
		}
		sort.Strings(msgs)
		s.Fail(nil, keyNE, fd.Pos(), "a window of the sequence may be empty ("+strings.Join(msgs, "; ")+"): a circular window whose end meets its start goes once around the origin — reduced modulo the length once more it has length 0 and Subsequence(-10, -10, circular) of yhrdt returns an empty sequence, without error, instead of yhrdt")
	case nslices > 0:
		s.Pass(nil, keyNE, fd.Pos(), fmt.Sprintf("%d slice expressions of the receiver, low < high proved on every path", len(nonEmpty)))
	}
	_ = ob{}
}
