package main

// OBS, PF, IU — the title-line parsers lose no byte, no number and write the same text twice (C02).

import (
	"fmt"
	"go/ast"
	"go/token"
	"go/types"
	"strings"

	"golang.org/x/tools/go/packages"
)

func init() {
	register(&Rule{
		ID: "OBS", Props: []string{"C02"}, Min: 3,
		Doc: `"never changes or loses annotations for any title line the parser accepts": ParseOBIFeatures matches a value with a pattern that ends at the ';' and goes on with the rest of the line. The
variable that is the lower bound of that rest (part[stop:]) is assigned the end of the match, m[1], and nothing more: with m[1] + 1 the byte following the ';' is skipped — 'count=2;sample=A;'
gives the key "ample", and 'count=2;échantillon A' a definition starting with the second byte of é (no longer UTF-8).`,
		Run: func(c *Ctx, s *Sink) {
			fd, p := c.FindFunc("pkg/obiformats", "ParseOBIFeatures")
			if fd == nil {
				s.Undecided(nil, "pkg/obiformats.ParseOBIFeatures:resume", 0, "function not found")
				return
			}
			info := p.TypesInfo
			// the variable used as the low bound of a slice expression part[stop:]
			var stop types.Object
			ast.Inspect(fd.Body, func(n ast.Node) bool {
				if se, ok := n.(*ast.SliceExpr); ok && se.Low != nil && se.High == nil {
					if id, ok := ast.Unparen(se.Low).(*ast.Ident); ok && stop == nil {
						if o := info.ObjectOf(id); o != nil && o.Name() != "start" {
							stop = o
						}
					}
				}
				return true
			})
			if stop == nil {
				s.Undecided(nil, "pkg/obiformats.ParseOBIFeatures:resume", fd.Pos(), "no part[stop:] found")
				return
			}
			n := 0
			ast.Inspect(fd.Body, func(nd ast.Node) bool {
				as, ok := nd.(*ast.AssignStmt)
				if !ok || len(as.Lhs) != 1 || len(as.Rhs) != 1 || rootObj(info, as.Lhs[0]) != stop || as.Tok != token.ASSIGN {
					return true
				}
				n++
				key := fmt.Sprintf("pkg/obiformats.ParseOBIFeatures:resume#%d:right-after-the-match", n)
				rhs := ast.Unparen(as.Rhs[0])
				if ix, ok := rhs.(*ast.IndexExpr); ok {
					if v, isC := constInt(info, ix.Index); isC && v == 1 {
						s.Pass(nil, key, as.Pos(), "the parser resumes at the end of the match")
						return true
					}
				}
				s.Fail(nil, key, as.Pos(), "the parser resumes at "+types.ExprString(rhs)+" instead of the end of the match: the byte that follows the ';' is lost — 'count=2;sample=A;' is read as {count:2, ample:A}, and 'count=2;échantillon A' gets a definition that starts in the middle of é")
				return true
			})
		},
	})

	register(&Rule{
		ID: "PF", Props: []string{"C02"}, Min: 1,
		Doc: `"numbers compared by value": a number the parser cannot hold is kept as the text it is. In pkg/obiformats the error of strconv.ParseFloat / ParseInt / Atoi applied to a value of a title line is
not assigned to the blank identifier: plate=7E309 became +Inf (ErrRange ignored), a value the JSON writer refuses — obiconvert stopped with status 1 and an empty output on a title line its own
parser had accepted.`,
		Run: func(c *Ctx, s *Sink) {
			c.EachFunc([]string{"pkg/obiformats"}, func(p *packages.Package, fd *ast.FuncDecl) {
				if rel(p.PkgPath) != "pkg/obiformats" || !strings.Contains(fd.Name.Name, "OBI") && !strings.Contains(fd.Name.Name, "Json") && !strings.Contains(fd.Name.Name, "json") {
					return
				}
				info := p.TypesInfo
				n := 0
				ast.Inspect(fd.Body, func(nd ast.Node) bool {
					as, ok := nd.(*ast.AssignStmt)
					if !ok || len(as.Rhs) != 1 || len(as.Lhs) != 2 {
						return true
					}
					call, ok := ast.Unparen(as.Rhs[0]).(*ast.CallExpr)
					if !ok {
						return true
					}
					switch fullName(callee(info, call)) {
					case "strconv.ParseFloat", "strconv.ParseInt", "strconv.Atoi":
					default:
						return true
					}
					n++
					key := fmt.Sprintf("%s:%s#%d:error-looked-at", funcName(p, fd), callee(info, call).Name(), n)
					if id, ok := ast.Unparen(as.Lhs[1]).(*ast.Ident); ok && id.Name == "_" {
						s.Fail(nil, key, as.Pos(), "the error of the conversion is dropped: a number beyond the range (plate=7E309) becomes +Inf, which the JSON writer refuses — obiconvert exits 1 with an empty output on a title line its parser accepted")
					} else {
						s.Pass(nil, key, as.Pos(), "the error of the conversion is assigned")
					}
					return true
				})
			})
		},
	})

	register(&Rule{
		ID: "IU", Props: []string{"C02"}, Min: 2,
		Doc: `"writing the re-read records yields byte-identical text": the JSON writer prints a byte that is not valid UTF-8 as the escape �, reads it back as the character U+FFFD and prints that
character raw the next time: w1 != w2 == w3. The two title-line parsers (ParseFastSeqJsonHeader, ParseFastSeqOBIHeader) take the definition through a function that makes it valid UTF-8
(strings.ToValidUTF8, directly or in a package helper) before they parse it, so that the first write is already the fixed point.`,
		Run: func(c *Ctx, s *Sink) {
			p := c.Pkg("pkg/obiformats")
			if p == nil {
				s.Undecided(nil, "pkg/obiformats", 0, "package not loaded")
				return
			}
			info := p.TypesInfo
			valid := map[string]bool{}
			for _, f := range p.Syntax {
				for _, d := range f.Decls {
					if fd, ok := d.(*ast.FuncDecl); ok && fd.Body != nil {
						ast.Inspect(fd.Body, func(n ast.Node) bool {
							if call, ok := n.(*ast.CallExpr); ok && fullName(callee(info, call)) == "strings.ToValidUTF8" {
								valid[fd.Name.Name] = true
							}
							return true
						})
					}
				}
			}
			for _, name := range []string{"ParseFastSeqJsonHeader", "ParseFastSeqOBIHeader"} {
				fd, _ := c.FindFunc("pkg/obiformats", name)
				key := "pkg/obiformats." + name + ":title-made-valid-UTF-8"
				if fd == nil {
					s.Undecided(nil, key, 0, "function not found")
					continue
				}
				ok := valid[name]
				ast.Inspect(fd.Body, func(n ast.Node) bool {
					if call, isC := n.(*ast.CallExpr); isC {
						if fn := callee(info, call); fn != nil && fn.Pkg() == p.Types && valid[fn.Name()] {
							ok = true
						}
					}
					return true
				})
				if ok {
					s.Pass(nil, key, fd.Pos(), "the definition is made valid UTF-8 before it is parsed")
				} else {
					s.Fail(nil, key, fd.Pos(), "the title line is parsed with its invalid bytes: a Latin-1 é in {\"name\":\"caf\\xe9\"} is written \\ufffd by obiconvert, and obiconvert of that output writes the character U+FFFD — write-after-read is not a fixed point at the first step (w1 != w2, w2 == w3)")
				}
			}
		},
	})
}

func init() {
	register(&Rule{
		ID: "QS-3", Props: []string{"C02"}, Min: 2,
		Doc: `"quality scores (0-93, for every input/output quality offset)": a score is the symbol minus the offset, on a byte. In pkg/obiformats every 'x -= offset' applied to an element of the byte slice of
the scores, the offset being a parameter or a variable (not a constant), lies under a comparison of that element with the offset (an enclosing if whose condition names both): unguarded, a symbol
below the offset — the Solexa scores -5 to -1, written ; to ? — wraps around to 251…255, which the writer prints as the best score (~): the worst bases become the best ones.`,
		Run: func(c *Ctx, s *Sink) {
			c.EachFunc([]string{"pkg/obiformats"}, func(p *packages.Package, fd *ast.FuncDecl) {
				info := p.TypesInfo
				n := 0
				var stack []ast.Node
				ast.Inspect(fd.Body, func(nd ast.Node) bool {
					if nd == nil {
						stack = stack[:len(stack)-1]
						return true
					}
					stack = append(stack, nd)
					as, ok := nd.(*ast.AssignStmt)
					if !ok {
						return true
					}
					sb := qsSubtraction(info, as, stack)
					if sb == nil {
						return true
					}
					off := rootObj(info, sb.off)
					if _, isC := constInt(info, sb.off); isC || off == nil {
						return true
					}
					arr, sym := sb.arr, sb.sym
					n++
					key := fmt.Sprintf("%s:shift#%d:not-below-the-offset", funcName(p, fd), n)
					guarded := false
					for k := len(stack) - 2; k >= 0; k-- {
						is, ok := stack[k].(*ast.IfStmt)
						if !ok {
							continue
						}
						hasArr, hasOff := false, false
						ast.Inspect(is.Cond, func(m ast.Node) bool {
							if id, ok := m.(*ast.Ident); ok {
								if o := info.ObjectOf(id); o == arr || sym != nil && o == sym {
									hasArr = true
								}
								if info.ObjectOf(id) == off {
									hasOff = true
								}
							}
							return true
						})
						if hasArr && hasOff {
							guarded = true
						}
					}
					if guarded {
						s.Pass(nil, key, as.Pos(), "the offset is only subtracted from a symbol compared with it")
					} else {
						s.Fail(nil, key, as.Pos(), "the offset is subtracted from the symbol whatever the symbol: with --solexa the scores -5 to -1 (symbols ; to ?) wrap around to 251…255 and are written back as ~, the best score")
					}
					return true
				})
			})
		},
	})
}

// qsSub: a statement that takes an offset away from an element of a byte slice — q[i] -= off, q[i] = q[i] - off, or q[i] = v - off with v the value variable of the enclosing range over q.
type qsSub struct {
	arr, sym types.Object
	off      ast.Expr
}

func qsSubtraction(info *types.Info, as *ast.AssignStmt, stack []ast.Node) *qsSub {
	if len(as.Lhs) != 1 || len(as.Rhs) != 1 {
		return nil
	}
	ix, ok := ast.Unparen(as.Lhs[0]).(*ast.IndexExpr)
	if !ok {
		return nil
	}
	if t := info.TypeOf(ix); t == nil {
		return nil
	} else if b, ok := t.Underlying().(*types.Basic); !ok || b.Kind() != types.Uint8 {
		return nil
	}
	arr := rootObj(info, ix.X)
	if arr == nil {
		return nil
	}
	switch as.Tok {
	case token.SUB_ASSIGN:
		return &qsSub{arr: arr, off: as.Rhs[0]}
	case token.ASSIGN:
		b, ok := ast.Unparen(as.Rhs[0]).(*ast.BinaryExpr)
		if !ok || b.Op != token.SUB {
			return nil
		}
		switch x := ast.Unparen(b.X).(type) {
		case *ast.IndexExpr:
			if rootObj(info, x.X) == arr {
				return &qsSub{arr: arr, off: b.Y}
			}
		case *ast.Ident:
			o := info.ObjectOf(x)
			for k := len(stack) - 1; k >= 0; k-- {
				if rs, ok := stack[k].(*ast.RangeStmt); ok && rs.Value != nil {
					if v, ok := rs.Value.(*ast.Ident); ok && info.ObjectOf(v) == o && rootObj(info, rs.X) == arr {
						return &qsSub{arr: arr, sym: o, off: b.Y}
					}
				}
			}
		}
	}
	return nil
}
