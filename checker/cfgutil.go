package main

// CFG helpers: a small typestate engine over go/cfg, and symbolic
// polynomials used to compare WaitGroup amounts with goroutine counts.

import (
	"fmt"
	"go/ast"
	"go/constant"
	"go/token"
	"go/types"
	"sort"
	"strings"

	"golang.org/x/tools/go/cfg"
)

func buildCFG(info *types.Info, body *ast.BlockStmt) *cfg.CFG {
	return cfg.New(body, func(call *ast.CallExpr) bool { return !noReturnCall(info, call) })
}

// postOrderCalls visits the nodes of n in evaluation order approximation
// (operands before the operation), without entering function literals; for
// go/defer statements only the operands of the call are visited, and the
// statement itself is passed to f afterwards.
func visitEval(n ast.Node, f func(ast.Node)) {
	if n == nil {
		return
	}
	switch x := n.(type) {
	case *ast.FuncLit:
		f(x) // the literal as a value, body not entered
		return
	case *ast.GoStmt:
		for _, a := range x.Call.Args {
			visitEval(a, f)
		}
		if _, isLit := x.Call.Fun.(*ast.FuncLit); !isLit {
			if sel, ok := x.Call.Fun.(*ast.SelectorExpr); ok {
				visitEval(sel.X, f)
			}
		}
		f(x)
		return
	case *ast.DeferStmt:
		for _, a := range x.Call.Args {
			visitEval(a, f)
		}
		f(x)
		return
	}
	// generic: children first
	var children []ast.Node
	ast.Inspect(n, func(m ast.Node) bool {
		if m == nil || m == n {
			return m == n
		}
		children = append(children, m)
		return false
	})
	for _, ch := range children {
		visitEval(ch, f)
	}
	f(n)
}

type tsEvent struct {
	kind string
	node ast.Node
	aux  any
}

type tsError struct {
	pos token.Pos
	msg string
}

// typestate runs a finite automaton over the CFG.  States are small ints
// (<32); the abstract value at a program point is the set of possible states.
type typestate struct {
	g      *cfg.CFG
	init   int
	events func(n ast.Node) []tsEvent
	// step returns the next state, or an error message ("" = none).  On
	// error the state continues as next.
	step func(state int, ev tsEvent) (int, string)
	// edge, if set, refines the state along the i-th successor of a block.
	edge func(b *cfg.Block, succ int, state int) int
	// condLeaf, if set, makes conditions short-circuit aware: the last node of a two-way block is
	// decomposed along && / || / !, each leaf's events are applied in evaluation order and condLeaf
	// refines the state for the outcome (true/false) of that leaf.  go/cfg keeps a && b as one node.
	condLeaf func(leaf ast.Expr, state int, truth bool) int
	info     *types.Info
}

type condOut struct {
	st    int
	truth bool
}

// evalCond returns the possible (state, truth) pairs after evaluating e from state st.
func (t *typestate) evalCond(e ast.Expr, st int, errs *[]tsError, seen map[string]bool) []condOut {
	e = ast.Unparen(e)
	switch x := e.(type) {
	case *ast.BinaryExpr:
		if x.Op == token.LAND || x.Op == token.LOR {
			var out []condOut
			for _, l := range t.evalCond(x.X, st, errs, seen) {
				if (x.Op == token.LAND && !l.truth) || (x.Op == token.LOR && l.truth) {
					out = append(out, l)
					continue
				}
				out = append(out, t.evalCond(x.Y, l.st, errs, seen)...)
			}
			return out
		}
	case *ast.UnaryExpr:
		if x.Op == token.NOT {
			var out []condOut
			for _, l := range t.evalCond(x.X, st, errs, seen) {
				out = append(out, condOut{l.st, !l.truth})
			}
			return out
		}
	}
	cur := st
	for _, ev := range t.events(e) {
		nx, msg := t.step(cur, ev)
		if msg != "" {
			k := fmt.Sprintf("%d|%s", ev.node.Pos(), msg)
			if !seen[k] {
				seen[k] = true
				*errs = append(*errs, tsError{ev.node.Pos(), msg})
			}
		}
		cur = nx
	}
	return []condOut{{t.condLeaf(e, cur, true), true}, {t.condLeaf(e, cur, false), false}}
}

type tsResult struct {
	errs       []tsError
	exitStates uint32 // states reachable at normal exits
	exitPos    map[int]token.Pos
}

func (t *typestate) run() tsResult {
	res := tsResult{exitPos: map[int]token.Pos{}}
	in := make([]uint32, len(t.g.Blocks))
	if len(t.g.Blocks) == 0 {
		return res
	}
	in[0] = 1 << uint(t.init)
	seenErr := map[string]bool{}
	work := []int{0}
	inWork := map[int]bool{0: true}
	for len(work) > 0 {
		bi := work[0]
		work = work[1:]
		inWork[bi] = false
		b := t.g.Blocks[bi]
		// per-state propagation to keep edge refinement exact
		outs := make([]uint32, len(b.Succs))
		var exitMask uint32
		for s := 0; s < 32; s++ {
			if in[bi]&(1<<uint(s)) == 0 {
				continue
			}
			cur := s
			nodes := b.Nodes
			var condExpr ast.Expr
			if t.condLeaf != nil && len(b.Succs) == 2 && len(nodes) > 0 {
				if ce, ok := nodes[len(nodes)-1].(ast.Expr); ok {
					condExpr = ce
					nodes = nodes[:len(nodes)-1]
				}
			}
			for _, n := range nodes {
				for _, ev := range t.events(n) {
					nx, msg := t.step(cur, ev)
					if msg != "" {
						k := fmt.Sprintf("%d|%s", ev.node.Pos(), msg)
						if !seenErr[k] {
							seenErr[k] = true
							res.errs = append(res.errs, tsError{ev.node.Pos(), msg})
						}
					}
					cur = nx
				}
			}
			if len(b.Succs) == 0 {
				exitMask |= 1 << uint(cur)
			}
			if condExpr != nil {
				for _, co := range t.evalCond(condExpr, cur, &res.errs, seenErr) {
					i := 1
					if co.truth {
						i = 0
					}
					st := co.st
					if t.edge != nil {
						st = t.edge(b, i, st)
					}
					if st >= 0 {
						outs[i] |= 1 << uint(st)
					}
				}
				continue
			}
			for i := range b.Succs {
				st := cur
				if t.edge != nil {
					st = t.edge(b, i, cur)
				}
				if st >= 0 {
					outs[i] |= 1 << uint(st)
				}
			}
		}
		if len(b.Succs) == 0 && b.Live && !t.blockIsNoReturn(b) {
			res.exitStates |= exitMask
			for s := 0; s < 32; s++ {
				if exitMask&(1<<uint(s)) != 0 {
					if _, ok := res.exitPos[s]; !ok {
						res.exitPos[s] = blockEndPos(b)
					}
				}
			}
		}
		for i, sb := range b.Succs {
			j := int(sb.Index)
			if in[j]|outs[i] != in[j] {
				in[j] |= outs[i]
				if !inWork[j] {
					inWork[j] = true
					work = append(work, j)
				}
			}
		}
	}
	sort.Slice(res.errs, func(i, j int) bool { return res.errs[i].pos < res.errs[j].pos })
	return res
}

func blockEndPos(b *cfg.Block) token.Pos {
	if len(b.Nodes) > 0 {
		return b.Nodes[len(b.Nodes)-1].Pos()
	}
	if b.Stmt != nil {
		return b.Stmt.End()
	}
	return token.NoPos
}

func (t *typestate) blockIsNoReturn(b *cfg.Block) bool {
	if len(b.Nodes) == 0 {
		return false
	}
	last := b.Nodes[len(b.Nodes)-1]
	if es, ok := last.(*ast.ExprStmt); ok {
		if call, ok := es.X.(*ast.CallExpr); ok {
			return noReturnCall(t.info, call)
		}
	}
	return false
}

// ---------------------------------------------------------------------------
// polynomials over opaque atoms

type poly map[string]int // monomial (atoms joined by '*', "" = 1) -> coefficient

func pconst(k int) poly {
	if k == 0 {
		return poly{}
	}
	return poly{"": k}
}
func patom(a string) poly { return poly{a: 1} }

func (p poly) add(q poly, sign int) poly {
	r := poly{}
	for k, v := range p {
		r[k] += v
	}
	for k, v := range q {
		r[k] += sign * v
	}
	for k, v := range r {
		if v == 0 {
			delete(r, k)
		}
	}
	return r
}

func (p poly) mul(q poly) poly {
	r := poly{}
	for k1, v1 := range p {
		for k2, v2 := range q {
			var atoms []string
			if k1 != "" {
				atoms = append(atoms, strings.Split(k1, "*")...)
			}
			if k2 != "" {
				atoms = append(atoms, strings.Split(k2, "*")...)
			}
			sort.Strings(atoms)
			r[strings.Join(atoms, "*")] += v1 * v2
		}
	}
	for k, v := range r {
		if v == 0 {
			delete(r, k)
		}
	}
	return r
}

func (p poly) equal(q poly) bool { return len(p.add(q, -1)) == 0 }

func (p poly) String() string {
	if len(p) == 0 {
		return "0"
	}
	var ks []string
	for k := range p {
		ks = append(ks, k)
	}
	sort.Strings(ks)
	var parts []string
	for _, k := range ks {
		v := p[k]
		switch {
		case k == "":
			parts = append(parts, fmt.Sprint(v))
		case v == 1:
			parts = append(parts, k)
		default:
			parts = append(parts, fmt.Sprintf("%d*%s", v, k))
		}
	}
	return strings.Join(parts, " + ")
}

// polyEnv converts integer expressions to polynomials; locals defined exactly
// once by a convertible expression are expanded.
type polyEnv struct {
	info    *types.Info
	root    ast.Node // enclosing function declaration
	assigns map[types.Object][]ast.Expr
	nassign map[types.Object]int
}

func newPolyEnv(info *types.Info, root ast.Node) *polyEnv {
	e := &polyEnv{info: info, root: root, assigns: map[types.Object][]ast.Expr{}, nassign: map[types.Object]int{}}
	ast.Inspect(root, func(n ast.Node) bool {
		switch x := n.(type) {
		case *ast.AssignStmt:
			for i, l := range x.Lhs {
				id, ok := l.(*ast.Ident)
				if !ok {
					continue
				}
				o := info.ObjectOf(id)
				if o == nil {
					continue
				}
				e.nassign[o]++
				if x.Tok != token.DEFINE || o.Pos() != id.Pos() {
					e.nassign[o]++ // plain assignment to a variable defined elsewhere (parameter, var): never expand
				}
				if len(x.Lhs) == len(x.Rhs) && (x.Tok == token.DEFINE || x.Tok == token.ASSIGN) {
					e.assigns[o] = append(e.assigns[o], x.Rhs[i])
				} else {
					e.assigns[o] = append(e.assigns[o], nil)
				}
			}
		case *ast.IncDecStmt:
			if id, ok := x.X.(*ast.Ident); ok {
				if o := info.ObjectOf(id); o != nil {
					e.nassign[o]++
					e.assigns[o] = append(e.assigns[o], nil)
				}
			}
		case *ast.ValueSpec:
			for i, id := range x.Names {
				o := info.ObjectOf(id)
				if o == nil {
					continue
				}
				if i < len(x.Values) {
					e.nassign[o]++
					e.assigns[o] = append(e.assigns[o], x.Values[i])
				}
			}
		}
		return true
	})
	return e
}

func (e *polyEnv) of(x ast.Expr) poly {
	x = ast.Unparen(x)
	if tv, ok := e.info.Types[x]; ok && tv.Value != nil && tv.Value.Kind() == constant.Int {
		if v, ok := constant.Int64Val(tv.Value); ok {
			return pconst(int(v))
		}
	}
	switch t := x.(type) {
	case *ast.Ident:
		o := e.info.ObjectOf(t)
		if o != nil && e.nassign[o] == 1 && len(e.assigns[o]) == 1 && e.assigns[o][0] != nil {
			return e.of(e.assigns[o][0])
		}
		return patom(t.Name)
	case *ast.BinaryExpr:
		switch t.Op {
		case token.ADD:
			return e.of(t.X).add(e.of(t.Y), 1)
		case token.SUB:
			return e.of(t.X).add(e.of(t.Y), -1)
		case token.MUL:
			return e.of(t.X).mul(e.of(t.Y))
		}
	case *ast.CallExpr:
		// conversions int(x)
		if tv, ok := e.info.Types[t.Fun]; ok && tv.IsType() && len(t.Args) == 1 {
			return e.of(t.Args[0])
		}
	}
	return patom(types.ExprString(x))
}

// tripCount gives the number of iterations of a loop statement as a
// polynomial, or an opaque atom unique to the loop.
func (e *polyEnv) tripCount(fset *token.FileSet, loop ast.Stmt, idx int) poly {
	opaque := patom(fmt.Sprintf("[loop#%d]", idx))
	switch l := loop.(type) {
	case *ast.ForStmt:
		init, ok := l.Init.(*ast.AssignStmt)
		if !ok || len(init.Lhs) != 1 || len(init.Rhs) != 1 {
			return opaque
		}
		iv, ok := init.Lhs[0].(*ast.Ident)
		if !ok {
			return opaque
		}
		cond, ok := l.Cond.(*ast.BinaryExpr)
		if !ok {
			return opaque
		}
		cl, ok := cond.X.(*ast.Ident)
		if !ok || e.info.ObjectOf(cl) != e.info.ObjectOf(iv) {
			return opaque
		}
		post, ok := l.Post.(*ast.IncDecStmt)
		if !ok || post.Tok != token.INC {
			return opaque
		}
		if pid, ok := post.X.(*ast.Ident); !ok || e.info.ObjectOf(pid) != e.info.ObjectOf(iv) {
			return opaque
		}
		// the induction variable must not be written in the body
		written := false
		ast.Inspect(l.Body, func(n ast.Node) bool {
			switch s := n.(type) {
			case *ast.AssignStmt:
				for _, lh := range s.Lhs {
					if id, ok := lh.(*ast.Ident); ok && e.info.ObjectOf(id) == e.info.ObjectOf(iv) {
						written = true
					}
				}
			case *ast.IncDecStmt:
				if id, ok := s.X.(*ast.Ident); ok && e.info.ObjectOf(id) == e.info.ObjectOf(iv) {
					written = true
				}
			}
			return true
		})
		if written {
			return opaque
		}
		lo := e.of(init.Rhs[0])
		hi := e.of(cond.Y)
		switch cond.Op {
		case token.LSS:
			return hi.add(lo, -1)
		case token.LEQ:
			return hi.add(lo, -1).add(pconst(1), 1)
		}
		return opaque
	case *ast.RangeStmt:
		tv, ok := e.info.Types[l.X]
		if !ok {
			return opaque
		}
		switch u := tv.Type.Underlying().(type) {
		case *types.Slice, *types.Array, *types.Map:
			return patom("len(" + types.ExprString(l.X) + ")")
		case *types.Basic:
			if u.Info()&types.IsInteger != 0 {
				return e.of(l.X)
			}
		}
		return opaque
	}
	return opaque
}

// localClosure resolves an expression naming a local variable that is defined exactly once by a
// function literal (ff := func(){…}) to that literal; a literal resolves to itself.
func localClosure(info *types.Info, defs map[types.Object][]ast.Expr, e ast.Expr) *ast.FuncLit {
	switch x := ast.Unparen(e).(type) {
	case *ast.FuncLit:
		return x
	case *ast.Ident:
		if ds := defs[info.ObjectOf(x)]; len(ds) == 1 && ds[0] != nil {
			if fl, ok := ast.Unparen(ds[0]).(*ast.FuncLit); ok {
				return fl
			}
		}
	}
	return nil
}

// calleeSource returns the body of the function a call invokes when its source is at hand — a function
// or method declared in the module, or a local closure — together with the binding of its parameters
// (and receiver) to the argument expressions of the call.
func (c *Ctx) calleeSource(info *types.Info, defs map[types.Object][]ast.Expr, call *ast.CallExpr) (body *ast.BlockStmt, cinfo *types.Info, bind map[types.Object]ast.Expr) {
	bind = map[types.Object]ast.Expr{}
	if lit := localClosure(info, defs, call.Fun); lit != nil {
		if _, isLit := ast.Unparen(call.Fun).(*ast.FuncLit); !isLit || true {
			for i, id := range flattenParams(lit.Type.Params) {
				if id != nil && i < len(call.Args) {
					bind[info.ObjectOf(id)] = call.Args[i]
				}
			}
			return lit.Body, info, bind
		}
	}
	f := callee(info, call)
	if f == nil {
		return nil, nil, nil
	}
	fd, p := c.DeclOf(f)
	if fd == nil || fd.Body == nil {
		return nil, nil, nil
	}
	cinfo = p.TypesInfo
	for i, id := range flattenParams(fd.Type.Params) {
		if id != nil && i < len(call.Args) {
			bind[cinfo.ObjectOf(id)] = call.Args[i]
		}
	}
	if fd.Recv != nil && len(fd.Recv.List) == 1 && len(fd.Recv.List[0].Names) == 1 {
		if sel, ok := ast.Unparen(call.Fun).(*ast.SelectorExpr); ok {
			bind[cinfo.ObjectOf(fd.Recv.List[0].Names[0])] = sel.X
		}
	}
	return fd.Body, cinfo, bind
}

// goTarget returns the body run by a go statement: a function literal, a local closure, or a function or
// method declared in the module (with its own type information).
func (c *Ctx) goTarget(info *types.Info, defs map[types.Object][]ast.Expr, g *ast.GoStmt) (*ast.BlockStmt, *types.Info) {
	if lit := localClosure(info, defs, g.Call.Fun); lit != nil {
		return lit.Body, info
	}
	if f := callee(info, g.Call); f != nil {
		if fd, p := c.DeclOf(f); fd != nil && fd.Body != nil {
			return fd.Body, p.TypesInfo
		}
	}
	return nil, nil
}
