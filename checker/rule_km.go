package main

// KM — rolling k-mer word discipline (C19).

import (
	"fmt"
	"go/ast"
	"go/constant"
	"go/token"
	"go/types"
	"strings"

	"golang.org/x/tools/go/packages"
)

func init() {
	register(&Rule{
		ID: "KM-1", Props: []string{"C19"}, Min: 3,
		Doc: `a rolled k-mer word is masked before it is used: in pkg/obikmer every variable that is shifted left by one symbol (X <<= 2, X = X << 2, X = X.LeftShift(2))
must, on every path from the shift to a use of X as a key/argument/element/result, pass through an And with a non-constant mask (the k-mer mask); otherwise symbols older than
k stay in the word and the forward word differs from what the reverse word encodes (keys are not strand-invariant). Typestate over go/cfg. Tabled: words whose type is
exactly 2k bits wide, and the bounded first-k-mer recursion.`,
		Run: runKM1,
	})
	register(&Rule{
		ID: "KM-2", Props: []string{"C19"}, Min: 1,
		Doc: `window guard agrees with the fixed prefix loop: a loop 'for ; i < K; i++' with constant K that indexes the nucleotides of a sequence must be dominated by an early
return establishing Len() >= K (linear reasoning over L := x.Len(), V := L - c, 'if V < C { return }').`,
		Run: runKM2,
	})
}

var km1Exceptions = map[string]string{
}

func isShiftBy2(info *types.Info, e ast.Expr, x types.Object) bool {
	e = ast.Unparen(e)
	switch t := e.(type) {
	case *ast.BinaryExpr:
		if t.Op == token.SHL && rootObj(info, t.X) == x && isConstInt(info, t.Y, 2) {
			return true
		}
		// (x << 2) & m, (x << 2) | c
		return isShiftBy2(info, t.X, x) || isShiftBy2(info, t.Y, x)
	case *ast.CallExpr:
		if sel, ok := t.Fun.(*ast.SelectorExpr); ok {
			if sel.Sel.Name == "LeftShift" && rootObj(info, sel.X) == x && len(t.Args) == 1 && isConstInt(info, t.Args[0], 2) {
				return true
			}
			// x.LeftShift(2).Or(...)
			return isShiftBy2(info, sel.X, x)
		}
	}
	return false
}

func nonConst(info *types.Info, e ast.Expr) bool {
	tv, ok := info.Types[e]
	return ok && tv.Value == nil
}

// hasMask: expression ANDs (something containing) x with a non-constant mask
func hasMask(info *types.Info, e ast.Expr, x types.Object) bool {
	found := false
	ast.Inspect(e, func(n ast.Node) bool {
		switch t := n.(type) {
		case *ast.BinaryExpr:
			if t.Op == token.AND {
				if mentionsVar(info, t.X, x) && nonConst(info, t.Y) && !mentionsVar(info, t.Y, x) {
					found = true
				}
				if mentionsVar(info, t.Y, x) && nonConst(info, t.X) && !mentionsVar(info, t.X, x) {
					found = true
				}
			}
		case *ast.CallExpr:
			if sel, ok := t.Fun.(*ast.SelectorExpr); ok && sel.Sel.Name == "And" && len(t.Args) == 1 {
				if mentionsVar(info, sel.X, x) && nonConst(info, t.Args[0]) {
					found = true
				}
			}
		}
		return true
	})
	return found
}

func mentionsVar(info *types.Info, e ast.Node, x types.Object) bool {
	m := false
	ast.Inspect(e, func(n ast.Node) bool {
		if id, ok := n.(*ast.Ident); ok && info.ObjectOf(id) == x {
			m = true
		}
		return true
	})
	return m
}

func runKM1(c *Ctx, s *Sink) {
	c.EachFunc([]string{"pkg/obikmer"}, func(p *packages.Package, fd *ast.FuncDecl) {
		info := p.TypesInfo
		// candidate variables: shifted by 2 somewhere in the declaration
		cands := map[types.Object]token.Pos{}
		ast.Inspect(fd.Body, func(n ast.Node) bool {
			as, ok := n.(*ast.AssignStmt)
			if !ok {
				return true
			}
			for i, l := range as.Lhs {
				o := rootObj(info, l)
				if o == nil {
					continue
				}
				if _, isIdent := ast.Unparen(l).(*ast.Ident); !isIdent {
					continue
				}
				if as.Tok == token.SHL_ASSIGN && isConstInt(info, as.Rhs[0], 2) {
					cands[o] = as.Pos()
				} else if i < len(as.Rhs) && (as.Tok == token.ASSIGN || as.Tok == token.DEFINE) && isShiftBy2(info, as.Rhs[i], o) {
					cands[o] = as.Pos()
				}
			}
			return true
		})
		for x, pos := range cands {
			key := funcName(p, fd) + ":" + x.Name()
			if bt, ok := x.Type().Underlying().(*types.Basic); ok && (bt.Kind() == types.Uint8 || bt.Kind() == types.Byte) {
				s.Pass(nil, key, pos, "the word is an 8-bit value holding exactly four 2-bit codes (2k bits for k = 4): the shift itself discards the fifth symbol")
				continue
			}
			if why, ok := km1Exceptions[key]; ok {
				s.Pass(nil, key, pos, "tabled exception: "+why)
				continue
			}
			// the body containing the shift: innermost function literal or the declaration
			var body *ast.BlockStmt = fd.Body
			ast.Inspect(fd.Body, func(n ast.Node) bool {
				if lit, ok := n.(*ast.FuncLit); ok && pos >= lit.Pos() && pos < lit.End() {
					body = lit.Body
				}
				return true
			})
			msg, at := km1Check(info, body, x)
			if msg == "" {
				s.Pass(nil, key, pos, "every use of the rolled word is preceded by an And with a non-constant mask")
			} else {
				s.Fail(nil, key, at, msg)
			}
		}
	})
}

func km1Check(info *types.Info, body *ast.BlockStmt, x types.Object) (string, token.Pos) {
	g := buildCFG(info, body)
	ts := &typestate{g: g, init: 0, info: info,
		events: func(n ast.Node) []tsEvent {
			var evs []tsEvent
			as, isAssign := n.(*ast.AssignStmt)
			if isAssign {
				for i, l := range as.Lhs {
					if id, ok := ast.Unparen(l).(*ast.Ident); !ok || info.ObjectOf(id) != x {
						continue
					}
					var rhs ast.Expr
					if i < len(as.Rhs) {
						rhs = as.Rhs[i]
					} else {
						rhs = as.Rhs[0]
					}
					switch {
					case as.Tok == token.SHL_ASSIGN:
						evs = append(evs, tsEvent{kind: "shift", node: n})
					case as.Tok == token.AND_ASSIGN:
						if nonConst(info, rhs) {
							evs = append(evs, tsEvent{kind: "mask", node: n})
						}
					case as.Tok == token.ASSIGN || as.Tok == token.DEFINE:
						shifted := isShiftBy2(info, rhs, x)
						masked := hasMask(info, rhs, x)
						switch {
						case shifted && masked:
							evs = append(evs, tsEvent{kind: "shift", node: n}, tsEvent{kind: "mask", node: n})
						case shifted:
							evs = append(evs, tsEvent{kind: "shift", node: n})
						case masked:
							evs = append(evs, tsEvent{kind: "mask", node: n})
						case !mentionsVar(info, rhs, x):
							evs = append(evs, tsEvent{kind: "reset", node: n})
						}
					}
				}
			}
			// uses: x as an argument, index, element, result (not as the receiver of its own methods, not in its own reassignment)
			visitEval(n, func(m ast.Node) {
				switch t := m.(type) {
				case *ast.CallExpr:
					if isAssign {
						// x = f(x) reassignment handled above only when the call is the whole rhs chain on x
					}
					for _, a := range t.Args {
						if id, ok := ast.Unparen(a).(*ast.Ident); ok && info.ObjectOf(id) == x {
							if fid, ok := t.Fun.(*ast.Ident); ok && fid.Name == "append" {
								evs = append(evs, tsEvent{kind: "use", node: m})
							} else if _, isConv := info.Types[t.Fun]; isConv && info.Types[t.Fun].IsType() {
								// conversion: not a use by itself
							} else {
								evs = append(evs, tsEvent{kind: "use", node: m})
							}
						}
					}
				case *ast.IndexExpr:
					if id, ok := ast.Unparen(t.Index).(*ast.Ident); ok && info.ObjectOf(id) == x {
						evs = append(evs, tsEvent{kind: "use", node: m})
					}
				case *ast.ReturnStmt:
					for _, r := range t.Results {
						if id, ok := ast.Unparen(r).(*ast.Ident); ok && info.ObjectOf(id) == x {
							evs = append(evs, tsEvent{kind: "use", node: m})
						}
					}
				}
			})
			// order: assignments of this node first (shift/mask), then uses — except when the use is inside the assignment's rhs, which reads the old value
			return evs
		},
		step: func(st int, ev tsEvent) (int, string) {
			switch ev.kind {
			case "shift":
				return 1, ""
			case "mask", "reset":
				return 0, ""
			case "use":
				if st == 1 {
					return 1, "the word " + x.Name() + " is shifted by one symbol and used without being masked to k symbols: bases older than k remain in the word, so the key depends on what precedes the k-mer and differs between a sequence and its reverse complement"
				}
			}
			return st, ""
		}}
	res := ts.run()
	if len(res.errs) > 0 {
		return res.errs[0].msg, res.errs[0].pos
	}
	return "", 0
}

func runKM2(c *Ctx, s *Sink) {
	c.EachFunc([]string{"pkg/obikmer"}, func(p *packages.Package, fd *ast.FuncDecl) {
		info := p.TypesInfo
		defs := collectDefs(info, fd)
		// lower bounds established by early returns at the top level of the function
		type bound struct {
			v   types.Object
			min int64
			pos token.Pos
		}
		var bounds []bound
		for _, st := range fd.Body.List {
			ifs, ok := st.(*ast.IfStmt)
			if !ok || !blockDiverges(info, ifs.Body) {
				continue
			}
			b, ok := ast.Unparen(ifs.Cond).(*ast.BinaryExpr)
			if !ok {
				continue
			}
			id, ok := ast.Unparen(b.X).(*ast.Ident)
			cv, okc := constInt(info, b.Y)
			if !ok || !okc {
				continue
			}
			switch b.Op {
			case token.LSS:
				bounds = append(bounds, bound{info.ObjectOf(id), cv, ifs.Pos()})
			case token.LEQ:
				bounds = append(bounds, bound{info.ObjectOf(id), cv + 1, ifs.Pos()})
			}
		}
		// length variables: L := x.Len() ; V := L - c
		lenOf := func(o types.Object) (string, int64, bool) { // receiver string, offset: o = Len(recv) + off
			var rec func(o types.Object, depth int) (string, int64, bool)
			rec = func(o types.Object, depth int) (string, int64, bool) {
				if depth > 3 || len(defs[o]) != 1 || defs[o][0] == nil {
					return "", 0, false
				}
				d := ast.Unparen(defs[o][0])
				switch x := d.(type) {
				case *ast.CallExpr:
					if sel, ok := x.Fun.(*ast.SelectorExpr); ok && sel.Sel.Name == "Len" && len(x.Args) == 0 {
						return types.ExprString(sel.X), 0, true
					}
					if id, ok := x.Fun.(*ast.Ident); ok && id.Name == "len" && len(x.Args) == 1 {
						return "len:" + types.ExprString(x.Args[0]), 0, true
					}
				case *ast.BinaryExpr:
					if id, ok := ast.Unparen(x.X).(*ast.Ident); ok {
						if cv, okc := constInt(info, x.Y); okc {
							r, off, ok := rec(info.ObjectOf(id), depth+1)
							if ok {
								if x.Op == token.SUB {
									return r, off - cv, true
								}
								if x.Op == token.ADD {
									return r, off + cv, true
								}
							}
						}
					}
				}
				return "", 0, false
			}
			return rec(o, 0)
		}
		n := 0
		ast.Inspect(fd.Body, func(nd ast.Node) bool {
			f, ok := nd.(*ast.ForStmt)
			if !ok || f.Cond == nil {
				return true
			}
			cb, ok := ast.Unparen(f.Cond).(*ast.BinaryExpr)
			if !ok || cb.Op != token.LSS {
				return true
			}
			iv, ok := ast.Unparen(cb.X).(*ast.Ident)
			K, okc := constInt(info, cb.Y)
			if !ok || !okc {
				return true
			}
			ivo := info.ObjectOf(iv)
			// indexes a sequence slice with the induction variable
			var seqRecv string
			ast.Inspect(f.Body, func(m ast.Node) bool {
				if ix, ok := m.(*ast.IndexExpr); ok {
					if id, ok := ast.Unparen(ix.Index).(*ast.Ident); ok && info.ObjectOf(id) == ivo {
						if sid, ok := ast.Unparen(ix.X).(*ast.Ident); ok {
							so := info.ObjectOf(sid)
							if len(defs[so]) == 1 && defs[so][0] != nil {
								if call, ok := ast.Unparen(defs[so][0]).(*ast.CallExpr); ok {
									if sel, ok := call.Fun.(*ast.SelectorExpr); ok && sel.Sel.Name == "Sequence" {
										seqRecv = types.ExprString(sel.X)
									}
								}
							}
						}
					}
				}
				return true
			})
			if seqRecv == "" {
				return true
			}
			n++
			key := fmt.Sprintf("%s:prefixloop#%d", funcName(p, fd), n)
			// best lower bound on Len(seqRecv)
			best := int64(-1 << 30)
			for _, b := range bounds {
				if b.pos > f.Pos() {
					continue
				}
				if r, off, ok := lenOf(b.v); ok && r == seqRecv {
					// v = L + off >= b.min  =>  L >= b.min - off
					if lb := b.min - off; lb > best {
						best = lb
					}
				}
			}
			if best >= K {
				s.Pass(nil, key, f.Pos(), fmt.Sprintf("an early return guarantees %s.Len() >= %d before %d symbols are read", seqRecv, best, K))
			} else {
				msg := fmt.Sprintf("the loop reads %d symbols of %s but the preceding guards only guarantee Len() >= %d: a sequence of that length panics (index out of range)", K, seqRecv, best)
				if best < -1<<20 {
					msg = fmt.Sprintf("the loop reads %d symbols of %s but no early return bounds its length", K, seqRecv)
				}
				s.Fail(nil, key, f.Pos(), msg)
			}
			return true
		})
	})
}

var _ = constant.Int
var _ = strings.Contains
