package main

// GBG, FLD — the flat-file parsers accept what the formats allow: order of the sections, folded fields (C01).

import (
	"fmt"
	"go/ast"
	"go/constant"
	"go/token"
	"go/types"
	"sort"
	"strings"

	"golang.org/x/tools/go/packages"
)

func init() {
	register(&Rule{
		ID: "GBG", Props: []string{"C01"}, Min: 3,
		Doc: `"for every well-formed … GenBank … input the records delivered are the records of the file": the GenBank grammar lets a feature table be followed by a CONTIG line, by the sequence (ORIGIN), by
both, or by neither (the master record of a WGS project ends right after its features). The chunk parser is a state machine whose keyword clauses refuse the states they do not expect
(if state != A && state != B { Fatalf }); the accepted sets are read from those conditions and compared with the grammar, the states being named after the constants of the parser: ORIGIN after
the features or a CONTIG line; CONTIG after the features or a CONTIG line; // after the features, a CONTIG line or the sequence. The clause of ORIGIN refused inContig: every NC_/NT_/NW_ entry
of a RefSeq *_genomic.gbff file stopped the reader ("Unexpected state 5 while reading ORIGIN", nothing delivered).`,
		Run: func(c *Ctx, s *Sink) {
			want := map[string][]string{
				"ORIGIN": {"inFeature", "inContig"},
				"CONTIG": {"inFeature", "inContig"},
				"//":     {"inFeature", "inContig", "inSequence"},
			}
			fdFound := false
			c.EachFunc([]string{"pkg/obiformats"}, func(p *packages.Package, fd *ast.FuncDecl) {
				if !strings.Contains(fd.Name.Name, "Genbank") {
					return
				}
				info := p.TypesInfo
				ast.Inspect(fd.Body, func(nd ast.Node) bool {
					cc, ok := nd.(*ast.CaseClause)
					if !ok || len(cc.List) != 1 {
						return true
					}
					// the keyword of the clause
					kw := ""
					ast.Inspect(cc.List[0], func(m ast.Node) bool {
						if bl, ok := m.(*ast.BasicLit); ok && bl.Kind == token.STRING {
							if tv, ok := info.Types[bl]; ok && tv.Value != nil {
								v := strings.TrimSpace(constant.StringVal(tv.Value))
								if _, known := want[v]; known {
									kw = v
								}
							}
						}
						return true
					})
					if kw == "" {
						return true
					}
					fdFound = true
					// the refusal: if state != A && … { Fatal }
					var accepted []string
					for _, st := range cc.Body {
						is, ok := st.(*ast.IfStmt)
						if !ok || !leavesOrFatal(info, is.Body) {
							continue
						}
						for _, cj := range conjuncts(is.Cond) {
							if b, ok := ast.Unparen(cj).(*ast.BinaryExpr); ok && b.Op == token.NEQ {
								if id, ok := ast.Unparen(b.Y).(*ast.Ident); ok {
									if _, isConst := info.ObjectOf(id).(*types.Const); isConst {
										accepted = append(accepted, id.Name)
									}
								}
							}
						}
						break
					}
					key := fmt.Sprintf("%s:clause %s:accepts-what-the-grammar-allows", funcName(p, fd), kw)
					if len(accepted) == 0 {
						s.Pass(nil, key, cc.Pos(), "the clause refuses no state")
						return true
					}
					var missing []string
					for _, w := range want[kw] {
						has := false
						for _, a := range accepted {
							if a == w {
								has = true
							}
						}
						if !has {
							missing = append(missing, w)
						}
					}
					sort.Strings(missing)
					if len(missing) == 0 {
						s.Pass(nil, key, cc.Pos(), "accepted after "+strings.Join(accepted, ", "))
					} else {
						s.Fail(nil, key, cc.Pos(), "the clause of "+kw+" refuses the state "+strings.Join(missing, ", ")+", which the format allows before it: an entry holding a CONTIG line and its sequence (every NC_/NT_/NW_ record of the RefSeq genomic files), or the master record of a WGS project (features followed by //), stops the reader with \"Unexpected state …\" and nothing is delivered, not even the ordinary entries before it")
					}
					return true
				})
			})
			if !fdFound {
				s.Undecided(nil, "pkg/obiformats:GenBank-parser", 0, "no keyword clause (ORIGIN, CONTIG, //) found in a GenBank parser")
			}
		},
	})

	register(&Rule{
		ID: "FLD", Props: []string{"C01"}, Min: 2,
		Doc: `"including annotations": a field the formats fold over several lines is read whole. In the EMBL parser the clause of a repeatable line code (DE, OS) appends to what the former lines gave — the
variable it stores appears on the right side too, or it is written with WriteString; in the GenBank parser the clause of a keyword whose value may be folded (DEFINITION, SOURCE) moves to a state
of its own, which a 'case state == …' clause continues. GenBank kept the first SOURCE line only ("Influenza A virus (A/northern"), EMBL the last OS line only, for the same entry.`,
		Run: func(c *Ctx, s *Sink) {
			c.EachFunc([]string{"pkg/obiformats"}, func(p *packages.Package, fd *ast.FuncDecl) {
				isGB := strings.Contains(fd.Name.Name, "Genbank")
				isEMBL := strings.Contains(fd.Name.Name, "EMBL") || strings.Contains(fd.Name.Name, "Embl")
				if !isGB && !isEMBL {
					return
				}
				info := p.TypesInfo
				folded := map[string]bool{"DEFINITION": true, "SOURCE": true, "DE": true, "OS": true}
				ast.Inspect(fd.Body, func(nd ast.Node) bool {
					cc, ok := nd.(*ast.CaseClause)
					if !ok || len(cc.List) != 1 {
						return true
					}
					kw := ""
					ast.Inspect(cc.List[0], func(m ast.Node) bool {
						if bl, ok := m.(*ast.BasicLit); ok && bl.Kind == token.STRING {
							if tv, ok := info.Types[bl]; ok && tv.Value != nil {
								v := strings.TrimSpace(constant.StringVal(tv.Value))
								if folded[v] {
									kw = v
								}
							}
						}
						return true
					})
					if kw == "" {
						return true
					}
					key := fmt.Sprintf("%s:field %s:read-whole-when-folded", funcName(p, fd), kw)
					ok2 := false
					for _, st := range cc.Body {
						ast.Inspect(st, func(m ast.Node) bool {
							switch y := m.(type) {
							case *ast.AssignStmt:
								for i, l := range y.Lhs {
									o := rootObj(info, l)
									if o == nil {
										continue
									}
									if o.Name() == "state" {
										ok2 = true // a state of its own continues the field
									}
									if y.Tok == token.ADD_ASSIGN {
										ok2 = true
									}
									if i < len(y.Rhs) {
										ast.Inspect(y.Rhs[i], func(q ast.Node) bool {
											if id, ok := q.(*ast.Ident); ok && info.ObjectOf(id) == o {
												ok2 = true
											}
											return true
										})
									}
								}
							case *ast.CallExpr:
								if sel, ok := y.Fun.(*ast.SelectorExpr); ok && strings.HasPrefix(sel.Sel.Name, "Write") {
									ok2 = true
								}
								// a helper of the module that writes into the buffer it is handed
								if f := callee(info, y); f != nil {
									if hd, hp := c.DeclOf(f); hd != nil && hp != nil && hd.Body != nil && hd.Type.Params != nil {
										params := flattenParams(hd.Type.Params)
										hinfo := hp.TypesInfo
										for i := range y.Args {
											if i >= len(params) || params[i] == nil {
												continue
											}
											po := hinfo.ObjectOf(params[i])
											ast.Inspect(hd.Body, func(q ast.Node) bool {
												if hc, ok := q.(*ast.CallExpr); ok {
													if hs, ok := hc.Fun.(*ast.SelectorExpr); ok && strings.HasPrefix(hs.Sel.Name, "Write") && po != nil && rootObj(hinfo, hs.X) == po {
														ok2 = true
													}
												}
												return true
											})
										}
									}
								}
							}
							return true
						})
					}
					if ok2 {
						s.Pass(nil, key, cc.Pos(), "the value of a following line is added to what the former lines gave")
					} else {
						s.Fail(nil, key, cc.Pos(), "the clause stores the value of the line in place of what the former lines of the same field gave: an organism name folded over two lines comes back as its first half (GenBank: \"Influenza A virus (A/northern\") or its second half (EMBL: \"shoveler/California/HKWF1046C/2007(H11N9))\"), silently, exit 0")
					}
					return true
				})
			})
		},
	})
}
