package main

// LW8 — a truncated shift is never compared as if it were exact (C20).

import (
	"fmt"
	"go/ast"
	"go/types"
	"strings"

	"golang.org/x/tools/go/packages"
)

func init() {
	register(&Rule{
		ID: "LW8", Props: []string{"C20"}, Min: 1,
		Doc: `LeftShift of the fixed-width integers drops the bits shifted out of the word (by design: it is a shift, not a multiplication). Its result therefore only stands for 2^n·x when x < 2^(W-n);
used as an operand of an order comparison (LessThan…, GreaterThan…, Cmp) without that bound it compares a wrapped value. In pkg/obifp no order comparison has a direct LeftShift call as receiver or
argument. Uint256.Div doubled its divisor with 'for t.LeftShift(1).LessThanOrEqual(r)': once bit 255 of t is set the doubled value wraps below r, t and m reach 0 and the loop never ends (2^255/2,
Max/3, Max/Max), or the quotient is wrong (0xB0…0/0xB0…0 = 2).`,
		Run: runLW8,
	})
}

func runLW8(c *Ctx, s *Sink) {
	cmp := map[string]bool{"LessThan": true, "LessThanOrEqual": true, "GreaterThan": true, "GreaterThanOrEqual": true, "Cmp": true, "Cmp64": true, "Equals": true}
	c.EachFunc([]string{"pkg/obifp"}, func(p *packages.Package, fd *ast.FuncDecl) {
		info := p.TypesInfo
		n := 0
		isShift := func(e ast.Expr) bool {
			call, ok := ast.Unparen(e).(*ast.CallExpr)
			if !ok {
				return false
			}
			f := callee(info, call)
			return f != nil && f.Pkg() == p.Types && strings.HasPrefix(f.Name(), "LeftShift")
		}
		ast.Inspect(fd.Body, func(nd ast.Node) bool {
			call, ok := nd.(*ast.CallExpr)
			if !ok {
				return true
			}
			sel, ok := ast.Unparen(call.Fun).(*ast.SelectorExpr)
			if !ok {
				return true
			}
			f := callee(info, call)
			if f == nil || f.Pkg() != p.Types || !cmp[f.Name()] {
				return true
			}
			if sig, ok := f.Type().(*types.Signature); !ok || sig.Recv() == nil {
				return true
			}
			n++
			key := fmt.Sprintf("%s:cmp#%d", funcName(p, fd), n)
			bad := ""
			if isShift(sel.X) {
				bad = types.ExprString(sel.X)
			}
			for _, a := range call.Args {
				if isShift(a) {
					bad = types.ExprString(a)
				}
			}
			if bad != "" {
				s.Fail(nil, key, call.Pos(), "the order comparison "+types.ExprString(call)+" has the truncating shift "+bad+" as an operand: when the bits shifted out are not zero the wrapped value is compared — in a doubling loop the bound is then never reached (the loop does not terminate for dividends with the top bit set) or a wrong multiple is subtracted")
			} else {
				s.Pass(nil, key, call.Pos(), "no truncating shift among the operands")
			}
			return true
		})
	})
}
