package main

// RE-9 — a failed read is fatal before the stream it feeds is ended (C17).

import (
	"fmt"
	"go/ast"
	"go/token"
	"go/types"

	"golang.org/x/tools/go/packages"
)

func init() {
	register(&Rule{
		ID: "RE-9", Props: []string{"C17"}, Min: 1,
		Doc: `"a truncated input never gives a partial result with a success status": in pkg/obiformats, a function body (declared or literal) that reads a stream (RE-2's reads: Read, io.ReadFull, readFull, …),
keeps the error of that read in a variable and ends with a fatal test of it (if err != nil && err != io.EOF { log.Fatalf }) may also END what it feeds — close(ch) on a channel it sends on. The fatal test
comes before the close: once the channel is closed the consumer drains, the iterator ends and main may exit 0 with the partial records while the reading goroutine has not reached its Fatalf yet (a
truncated gzip: status 0, 58 records, when stderr is slow to take the fatal line).`,
		Run: func(c *Ctx, s *Sink) {
			c.EachFunc([]string{"pkg/obiformats"}, func(p *packages.Package, fd *ast.FuncDecl) {
				if rel(p.PkgPath) != "pkg/obiformats" {
					return
				}
				info := p.TypesInfo
				var bodies []*ast.BlockStmt
				bodies = append(bodies, fd.Body)
				ast.Inspect(fd.Body, func(n ast.Node) bool {
					if l, ok := n.(*ast.FuncLit); ok {
						bodies = append(bodies, l.Body)
					}
					return true
				})
				nb := 0
				for _, body := range bodies {
					// walk this body without entering nested literals
					var readErrs = map[types.Object]bool{}
					var closes []*ast.CallExpr
					sends := map[types.Object]bool{}
					handed := map[types.Object]bool{}
					var fatals []*ast.IfStmt
					var visit func(n ast.Node) bool
					visit = func(n ast.Node) bool {
						switch x := n.(type) {
						case *ast.FuncLit:
							return x.Body == body
						case *ast.AssignStmt:
							if len(x.Rhs) == 1 {
								if call, ok := ast.Unparen(x.Rhs[0]).(*ast.CallExpr); ok {
									if isRead, _ := isStreamRead(info, call); isRead {
										for _, l := range x.Lhs {
											if o := rootObj(info, l); o != nil && isErrorType(o.Type()) {
												readErrs[o] = true
											}
										}
									}
								}
							}
						case *ast.SendStmt:
							if o := rootObj(info, x.Chan); o != nil {
								sends[o] = true
							}
						case *ast.CallExpr:
							if id, ok := x.Fun.(*ast.Ident); ok && id.Name == "close" && len(x.Args) == 1 {
								if _, isB := info.Uses[id].(*types.Builtin); isB {
									closes = append(closes, x)
									return true
								}
							}
							for _, a := range x.Args {
								if t := info.TypeOf(a); t != nil {
									if _, isChan := t.Underlying().(*types.Chan); isChan {
										if o := rootObj(info, a); o != nil {
											handed[o] = true
										}
									}
								}
							}
						case *ast.IfStmt:
							if leavesOrFatal(info, x.Body) {
								if _, isRet := x.Body.List[len(x.Body.List)-1].(*ast.ReturnStmt); !isRet {
									if _, isBr := x.Body.List[len(x.Body.List)-1].(*ast.BranchStmt); !isBr {
										fatals = append(fatals, x)
									}
								}
							}
						}
						return true
					}
					for _, st := range body.List {
						ast.Inspect(st, visit)
					}
					if len(readErrs) == 0 {
						continue
					}
					// the fatal tests of a read error
					var tests []*ast.IfStmt
					for _, f := range fatals {
						names := false
						ast.Inspect(f.Cond, func(m ast.Node) bool {
							if id, ok := m.(*ast.Ident); ok && readErrs[info.ObjectOf(id)] {
								names = true
							}
							return true
						})
						if names {
							tests = append(tests, f)
						}
					}
					for _, cl := range closes {
						ch := rootObj(info, cl.Args[0])
						if ch == nil {
							continue
						}
						// the channel this body feeds: it sends on it, or hands it to a function (a helper that sends)
						if !sends[ch] && !handed[ch] {
							continue
						}
						if len(tests) == 0 {
							continue // RE-2 decides whether the error is consumed at all
						}
						nb++
						key := fmt.Sprintf("%s:stream#%d:fatal-before-the-end-of-the-stream", funcName(p, fd), nb)
						var last token.Pos
						for _, t := range tests {
							if t.Pos() > last {
								last = t.Pos()
							}
						}
						// every fatal test placed after the read loop must come before the close; a test after the close is the violation
						late := false
						for _, t := range tests {
							if t.Pos() > cl.Pos() {
								late = true
							}
						}
						if late {
							s.Fail(nil, key, cl.Pos(), "the channel "+ch.Name()+" is closed before the error of the read is tested ("+c.Fset.Position(last).String()+"): the consumer drains, the iterator ends and main may exit 0 with the records of the readable part before the reading goroutine reaches its Fatalf")
						} else {
							s.Pass(nil, key, cl.Pos(), "the read error is fatal before the channel is closed")
						}
					}
				}
			})
		},
	})
}
