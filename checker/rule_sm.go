package main

// SM — position-bearing annotations stay inside the sequence (C07).
//
// Invariant: every value of the "pairing_mismatches" map of a sequence is a
// 1-based position of that sequence: 1 <= p <= Len().  The functions that
// re-map the positions (after a reverse complement, after a sub-sequence) must
// preserve it: for every store new[k] = E, the path condition entails
// 1 <= E <= Len() of the receiver, assuming only what the table below says
// about the incoming positions.  Proved in linear arithmetic (linarith.go).

import (
	"fmt"
	"go/ast"
	"go/token"
	"go/types"
	"strings"

	"golang.org/x/tools/go/packages"
)

func init() {
	register(&Rule{
		ID: "SM", Props: []string{"C07"}, Min: 2,
		Doc: `coordinate transforms of position annotations: in every function of pkg/obiseq that reads "pairing_mismatches" and stores re-mapped positions, each stored position E satisfies
1 <= E <= receiver.Len() on every path reaching the store (linear-arithmetic entailment from the guards), given 1 <= p for incoming positions and p <= Len() only where the
positions belong to the receiver itself (in-place transform); a position that can leave the window designates no base of the derived sequence.`,
		Run: runSM,
	})
}

// smOwn: functions whose incoming positions are positions of the receiver
// itself (the transform is applied in place), so p <= receiver.Len() may be assumed.
var smOwn = map[string]string{
	"pkg/obiseq.(*BioSequence)._revcmpMutation": "called on the sequence that was reverse-complemented in place: the map is its own",
}

func runSM(c *Ctx, s *Sink) {
	c.EachFunc([]string{"pkg/obiseq"}, func(p *packages.Package, fd *ast.FuncDecl) {
		info := p.TypesInfo
		if fd.Recv == nil || len(fd.Recv.List[0].Names) == 0 {
			return
		}
		// reads the map?
		var mapObj types.Object
		ast.Inspect(fd.Body, func(n ast.Node) bool {
			as, ok := n.(*ast.AssignStmt)
			if !ok || len(as.Rhs) != 1 {
				return true
			}
			call, ok := ast.Unparen(as.Rhs[0]).(*ast.CallExpr)
			if !ok || len(call.Args) != 1 {
				return true
			}
			if sel, ok := call.Fun.(*ast.SelectorExpr); ok && sel.Sel.Name == "GetIntMap" {
				if v, ok := constStringArg(info, call); ok && v == "pairing_mismatches" {
					if id, ok := as.Lhs[0].(*ast.Ident); ok {
						mapObj = info.ObjectOf(id)
					}
				}
			}
			return true
		})
		if mapObj == nil {
			return
		}
		fname := funcName(p, fd)
		recvName := fd.Recv.List[0].Names[0].Name
		lenAtom := "|" + recvName + "|"
		defs := collectDefs(info, fd)
		n := 0
		type acc struct {
			key   string
			pos   token.Pos
			good  []string
			bad   []string
			undec bool
		}
		stores := map[token.Pos]*acc{}
		var order []token.Pos
		ast.Inspect(fd.Body, func(node ast.Node) bool {
			rs, ok := node.(*ast.RangeStmt)
			if !ok {
				return true
			}
			var vid *ast.Ident
			bodyList := rs.Body.List
			if id, ok := ast.Unparen(rs.X).(*ast.Ident); ok && info.ObjectOf(id) == mapObj {
				vid, _ = rs.Value.(*ast.Ident)
			} else if len(rs.Body.List) > 0 {
				// a loop over the (sorted) keys of the map whose body starts by reading the position: p := mut[key]
				if as, ok := rs.Body.List[0].(*ast.AssignStmt); ok && as.Tok == token.DEFINE && len(as.Lhs) == 1 && len(as.Rhs) == 1 {
					if ix, ok := ast.Unparen(as.Rhs[0]).(*ast.IndexExpr); ok && rootObj(info, ix.X) == mapObj {
						if _, isID := ast.Unparen(ix.X).(*ast.Ident); isID {
							vid, _ = as.Lhs[0].(*ast.Ident)
							bodyList = rs.Body.List[1:]
						}
					}
				}
			}
			if vid == nil {
				return true
			}
			env := &linEnv{info: info, vars: map[types.Object]linForm{}, defs: defs, atoms: map[string]bool{}, lens: map[string]bool{}}
			pAtom := lfAtom(vid.Name)
			env.vars[info.ObjectOf(vid)] = pAtom
			base := linSys{linLE(lfConst(1), pAtom)} // incoming positions are 1-based
			_, own := smOwn[fname]
			if own {
				base = append(base, linLE(pAtom, lfAtom(lenAtom)))
			}
			base = append(base, linLE(lfConst(0), lfAtom(lenAtom)))
			linWalk([]linPath{{env: env, sys: base}}, bodyList, func(lp linPath, st ast.Stmt) {
				as, ok := st.(*ast.AssignStmt)
				if !ok || len(as.Lhs) != 1 || len(as.Rhs) != 1 {
					return
				}
				ix, ok := ast.Unparen(as.Lhs[0]).(*ast.IndexExpr)
				if !ok {
					return
				}
				if mt, ok := info.TypeOf(ix.X).Underlying().(*types.Map); !ok || !types.Identical(mt.Elem(), types.Typ[types.Int]) {
					return
				}
				n++
				key := fmt.Sprintf("%s:store:%s", fname, types.ExprString(as.Rhs[0]))
				a := stores[as.Pos()]
				if a == nil {
					a = &acc{key: key, pos: as.Pos()}
					stores[as.Pos()] = a
					order = append(order, as.Pos())
				}
				E, ok := lp.env.form(as.Rhs[0], 0)
				if !ok {
					a.undec = true
					return
				}
				sys := append(linSys{}, lp.sys...)
				for a := range lp.env.lens {
					sys = append(sys, linLE(lfConst(0), lfAtom(a)))
				}
				lowOK := sys.entails(linLE(lfConst(1), E))
				highOK := sys.entails(linLE(E, lfAtom(lenAtom)))
				var bad []string
				if !lowOK {
					bad = append(bad, "can be < 1")
				}
				if !highOK {
					bad = append(bad, "can be > "+recvName+".Len()")
				}
				if len(bad) == 0 {
					a.good = append(a.good, fmt.Sprintf("1 <= %s <= %s", E, lenAtom))
				} else {
					var cs []string
					for _, f := range lp.sys {
						cs = append(cs, f.String()+"<=0")
					}
					a.bad = append(a.bad, fmt.Sprintf("the re-mapped position %s (= %s) %s under the path condition {%s}", types.ExprString(as.Rhs[0]), E, strings.Join(bad, " and "), strings.Join(cs, ", ")))
				}
			})
			return true
		})
		for _, pos := range order {
			a := stores[pos]
			switch {
			case a.undec:
				s.Undecided(nil, a.key, a.pos, "stored position is not an affine expression")
			case len(a.bad) > 0:
				s.Fail(nil, a.key, a.pos, strings.Join(a.bad, " | ")+": positions outside the window are kept with coordinates that designate no base of the derived sequence (or positions inside it are shifted out)")
			default:
				s.Pass(nil, a.key, a.pos, fmt.Sprintf("on each of the %d path(s) reaching the store: %s", len(a.good), strings.Join(a.good, "; ")))
			}
		}
		if n == 0 {
			s.Undecided(nil, fname+":store", fd.Pos(), "reads pairing_mismatches but no re-mapped position store was found")
		}
	})
}

func init() {
	register(&Rule{
		ID: "SM-once", Props: []string{"C07"}, Min: 1,
		Doc: `the coordinate shift of a sub-sequence is applied exactly once: along every path of BioSequence.Subsequence the annotations of the derived sequence are in source coordinates
(just copied from the source) when _subseqMutation shifts them, never already shifted (result of the recursive Subsequence call not re-copied) and never returned unshifted.`,
		Run: runSMOnce,
	})
}

func runSMOnce(c *Ctx, s *Sink) {
	fd, p := c.FindFunc("pkg/obiseq", "(*BioSequence).Subsequence")
	key := "pkg/obiseq.(*BioSequence).Subsequence:shift-once"
	if fd == nil {
		s.Undecided(nil, key, 0, "function not found")
		return
	}
	info := p.TypesInfo
	self := info.Defs[fd.Name]
	recv := info.ObjectOf(fd.Recv.List[0].Names[0])
	var v types.Object
	ast.Inspect(fd.Body, func(n ast.Node) bool {
		if call, ok := n.(*ast.CallExpr); ok {
			if sel, ok := call.Fun.(*ast.SelectorExpr); ok && sel.Sel.Name == "_subseqMutation" {
				v = rootObj(info, sel.X)
			}
		}
		return true
	})
	if v == nil {
		s.Fail(nil, key, fd.Pos(), "Subsequence never applies _subseqMutation: position annotations keep source coordinates")
		return
	}
	const (E, S0, T1, T2 = 0, 1, 2, 3)
	g := buildCFG(info, fd.Body)
	ts := &typestate{g: g, init: E, info: info,
		events: func(n ast.Node) []tsEvent {
			var evs []tsEvent
			visitEval(n, func(m ast.Node) {
				switch x := m.(type) {
				case *ast.AssignStmt:
					for i, l := range x.Lhs {
						if id, ok := ast.Unparen(l).(*ast.Ident); ok && info.ObjectOf(id) == v {
							var r ast.Expr
							if len(x.Rhs) == len(x.Lhs) {
								r = x.Rhs[i]
							} else if len(x.Rhs) == 1 {
								r = x.Rhs[0]
							}
							kind := "new"
							if call, ok := ast.Unparen(r).(*ast.CallExpr); ok {
								if f := callee(info, call); f != nil && types.Object(f) == self {
									kind = "derived"
								}
							}
							evs = append(evs, tsEvent{kind: kind, node: m})
						}
						if sel, ok := ast.Unparen(l).(*ast.SelectorExpr); ok && strings.HasSuffix(types.TypeString(info.TypeOf(sel), nil), "obiseq.Annotation") && rootObj(info, sel.X) == v {
							evs = append(evs, tsEvent{kind: "copy", node: m})
						}
					}
				case *ast.CallExpr:
					if sel, ok := x.Fun.(*ast.SelectorExpr); ok && sel.Sel.Name == "_subseqMutation" && rootObj(info, sel.X) == v {
						evs = append(evs, tsEvent{kind: "shift", node: m})
					}
				}
			})
			return evs
		},
		step: func(st int, ev tsEvent) (int, string) {
			switch ev.kind {
			case "new":
				return E, ""
			case "derived":
				return T1, ""
			case "copy":
				return S0, ""
			case "shift":
				switch st {
				case S0:
					return T1, ""
				case T1, T2:
					return T2, "positions already expressed in the coordinates of the derived sequence (result of the recursive Subsequence call) are shifted a second time"
				}
			}
			return st, ""
		},
		// the source carries no annotation: nothing to shift, whatever was done before
		condLeaf: func(leaf ast.Expr, st int, truth bool) int {
			if call, ok := ast.Unparen(leaf).(*ast.CallExpr); ok && !truth {
				if sel, ok := call.Fun.(*ast.SelectorExpr); ok && sel.Sel.Name == "HasAnnotation" && rootObj(info, sel.X) == recv {
					return E
				}
			}
			return st
		}}
	res := ts.run()
	var msgs []string
	for _, e := range res.errs {
		msgs = append(msgs, c.Pos(e.pos)+": "+e.msg)
	}
	if res.exitStates&(1<<S0) != 0 {
		msgs = append(msgs, c.Pos(res.exitPos[S0])+": a path returns the derived sequence with annotations still in source coordinates")
	}
	if len(msgs) > 0 {
		s.Fail(nil, key, fd.Pos(), strings.Join(msgs, " | "))
	} else {
		s.Pass(nil, key, fd.Pos(), "on every path the annotations are (re)copied from the source before the single shift")
	}
}

func init() {
	register(&Rule{
		ID: "SC", Props: []string{"C07", "C11"}, Min: 1,
		Doc: `a circular window is never refused: in BioSequence.Subsequence every return of an error is guarded by a condition that requires !circular (or lies in the non-circular branch) —
"a circular subsequence equals the matching window of the sequence concatenated with itself" for every (from, to), in particular for a window starting before the origin (negative from),
which in-silico PCR produces when a primer with its flank sits at the very beginning of a circular template.`,
		Run: runSC,
	})
}

func runSC(c *Ctx, s *Sink) {
	fd, p := c.FindFunc("pkg/obiseq", "(*BioSequence).Subsequence")
	key := "pkg/obiseq.(*BioSequence).Subsequence:circular-never-refused"
	if fd == nil {
		s.Undecided(nil, key, 0, "function not found")
		return
	}
	info := p.TypesInfo
	var circ types.Object
	for _, id := range flattenParams(fd.Type.Params) {
		if id != nil {
			if b, ok := info.ObjectOf(id).Type().Underlying().(*types.Basic); ok && b.Kind() == types.Bool {
				circ = info.ObjectOf(id)
			}
		}
	}
	if circ == nil {
		s.Undecided(nil, key, fd.Pos(), "no boolean 'circular' parameter")
		return
	}
	// requiresLinear: cond (as a conjunction) contains !circular
	requiresLinear := func(cond ast.Expr) bool {
		for _, cj := range conjuncts(cond) {
			if u, ok := ast.Unparen(cj).(*ast.UnaryExpr); ok && u.Op == token.NOT && rootObj(info, u.X) == circ {
				return true
			}
		}
		return false
	}
	isCirc := func(cond ast.Expr) bool { return rootObj(info, cond) == circ }
	// isEmptyTest: the condition only says that the sequence itself is empty (Len() == 0, through a local or not): no
	// window is refused for its bounds there, there is nothing to take a window of
	scDefs := collectDefs(info, fd)
	isLen := func(e ast.Expr) bool {
		e = ast.Unparen(e)
		if id, ok := e.(*ast.Ident); ok {
			ds := scDefs[info.ObjectOf(id)]
			if len(ds) != 1 || ds[0] == nil {
				return false
			}
			e = ast.Unparen(ds[0])
		}
		call, ok := e.(*ast.CallExpr)
		if !ok {
			return false
		}
		if f := callee(info, call); f != nil && f.Name() == "Len" && len(call.Args) == 0 {
			return true
		}
		if id, ok := call.Fun.(*ast.Ident); ok && id.Name == "len" && info.Uses[id] == types.Universe.Lookup("len") {
			return true
		}
		return false
	}
	isEmptyTest := func(cond ast.Expr) bool {
		b, ok := ast.Unparen(cond).(*ast.BinaryExpr)
		if !ok || !isLen(b.X) {
			return false
		}
		tv, ok := info.Types[b.Y]
		if !ok || tv.Value == nil {
			return false
		}
		v := tv.Value.ExactString()
		return (b.Op == token.EQL && v == "0") || (b.Op == token.LEQ && v == "0") || (b.Op == token.LSS && v == "1")
	}
	var bad []string
	n := 0
	var stack []ast.Node
	ast.Inspect(fd.Body, func(nd ast.Node) bool {
		if nd == nil {
			stack = stack[:len(stack)-1]
			return true
		}
		stack = append(stack, nd)
		r, ok := nd.(*ast.ReturnStmt)
		if !ok || len(r.Results) == 0 {
			return true
		}
		last := ast.Unparen(r.Results[len(r.Results)-1])
		if id, ok := last.(*ast.Ident); ok && id.Name == "nil" {
			return true
		}
		if !isErrorType(info.TypeOf(last)) {
			return true
		}
		if _, isCall := last.(*ast.CallExpr); !isCall {
			return true // propagates an error of a callee
		}
		n++
		guarded := false
		for k := len(stack) - 2; k >= 0; k-- {
			ifs, ok := stack[k].(*ast.IfStmt)
			if !ok {
				continue
			}
			inBody := k+1 < len(stack) && stack[k+1] == ast.Node(ifs.Body)
			inElse := k+1 < len(stack) && ifs.Else != nil && stack[k+1] == ast.Node(ifs.Else)
			if inBody && (requiresLinear(ifs.Cond) || isEmptyTest(ifs.Cond)) {
				guarded = true
			}
			if inElse && isCirc(ast.Unparen(ifs.Cond)) {
				guarded = true
			}
		}
		if !guarded {
			bad = append(bad, c.Pos(r.Pos()))
		}
		return true
	})
	if len(bad) > 0 {
		s.Fail(nil, key, fd.Pos(), "an error is returned whatever the value of 'circular' at "+strings.Join(bad, ", ")+": a circular window that starts before the origin (from < 0) is refused, so the amplicon of a primer site lying at the very beginning of a circular template is lost (obipcr aborts) while the same site elsewhere on the circle is reported")
	} else {
		s.Pass(nil, key, fd.Pos(), fmt.Sprintf("%d error returns, each requiring !circular (or an empty sequence)", n))
	}
}
