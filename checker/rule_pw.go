package main

// PW — per-record workers and predicates keep no state between records (C16, C03).

import (
	"fmt"
	"go/ast"
	"go/token"
	"go/types"
	"sort"
	"strings"

	"golang.org/x/tools/go/packages"
)

func init() {
	register(&Rule{
		ID: "PW", Props: []string{"C16", "C03"}, Min: 40,
		Doc: `what a per-record worker or predicate does to a record depends on that record and on the options only: a function literal whose type is obiseq.SeqWorker, SeqSliceWorker,
SequencePredicate or BioSequenceClassifier's Code/Value function is applied by several goroutines to records in schedule order, so it must not assign to (or ++/--) a variable it captures
from its enclosing function, unless the write happens between Lock() and Unlock() of a captured mutex. A captured option overwritten while treating one record changes the edit applied
to every later record (and races between workers).`,
		Run: runPW,
	})
}

func isWorkerType(t types.Type) string {
	n, ok := types.Unalias(t).(*types.Named)
	if !ok || n.Obj().Pkg() == nil || !strings.HasSuffix(n.Obj().Pkg().Path(), "/pkg/obiseq") {
		return ""
	}
	switch n.Obj().Name() {
	case "SeqWorker", "SeqSliceWorker", "SequencePredicate":
		return n.Obj().Name()
	}
	return ""
}

func runPW(c *Ctx, s *Sink) {
	c.EachFunc([]string{"pkg", "cmd"}, func(p *packages.Package, fd *ast.FuncDecl) {
		info := p.TypesInfo
		// function literals whose value is used at a worker type: assigned/returned/passed/converted
		lits := map[*ast.FuncLit]string{}
		note := func(e ast.Expr, t types.Type) {
			if l, ok := ast.Unparen(e).(*ast.FuncLit); ok && t != nil {
				if k := isWorkerType(t); k != "" {
					lits[l] = k
				}
			}
		}
		var results *types.Tuple
		if f, ok := info.Defs[fd.Name].(*types.Func); ok {
			results = f.Type().(*types.Signature).Results()
		}
		// locals bound to a literal and later used at a worker type
		litOf := map[types.Object][]*ast.FuncLit{}
		ast.Inspect(fd.Body, func(n ast.Node) bool {
			switch x := n.(type) {
			case *ast.AssignStmt:
				if len(x.Lhs) == len(x.Rhs) {
					for i, r := range x.Rhs {
						if l, ok := ast.Unparen(r).(*ast.FuncLit); ok {
							if id, ok := ast.Unparen(x.Lhs[i]).(*ast.Ident); ok {
								if o := info.ObjectOf(id); o != nil {
									litOf[o] = append(litOf[o], l)
									note(r, o.Type())
								}
							}
						}
					}
				}
			case *ast.ValueSpec:
				for i, r := range x.Values {
					if i < len(x.Names) {
						if l, ok := ast.Unparen(r).(*ast.FuncLit); ok {
							if o := info.ObjectOf(x.Names[i]); o != nil {
								litOf[o] = append(litOf[o], l)
								note(r, o.Type())
							}
						}
					}
				}
			}
			return true
		})
		useAt := func(e ast.Expr, t types.Type) {
			note(e, t)
			if id, ok := ast.Unparen(e).(*ast.Ident); ok && t != nil {
				for _, l := range litOf[info.ObjectOf(id)] {
					if k := isWorkerType(t); k != "" {
						lits[l] = k
					}
				}
			}
		}
		var litStack []*ast.FuncLit
		var walk func(n ast.Node) bool
		walk = func(n ast.Node) bool {
			switch x := n.(type) {
			case *ast.ReturnStmt:
				// results of the innermost function
				var res *types.Tuple = results
				if len(litStack) > 0 {
					if sig, ok := info.TypeOf(litStack[len(litStack)-1]).(*types.Signature); ok {
						res = sig.Results()
					}
				}
				if res != nil && len(x.Results) == res.Len() {
					for i, r := range x.Results {
						useAt(r, res.At(i).Type())
					}
				}
			case *ast.CallExpr:
				if tv, ok := info.Types[x.Fun]; ok && tv.IsType() && len(x.Args) == 1 {
					useAt(x.Args[0], tv.Type)
				} else if sig, ok := info.TypeOf(x.Fun).(*types.Signature); ok {
					for i, a := range x.Args {
						var pt types.Type
						switch {
						case i < sig.Params().Len()-1 || (i < sig.Params().Len() && !sig.Variadic()):
							pt = sig.Params().At(i).Type()
						case sig.Variadic() && sig.Params().Len() > 0:
							if sl, ok := sig.Params().At(sig.Params().Len() - 1).Type().(*types.Slice); ok {
								pt = sl.Elem()
							}
						}
						useAt(a, pt)
					}
				}
			case *ast.FuncLit:
				litStack = append(litStack, x)
				ast.Inspect(x.Body, walk)
				litStack = litStack[:len(litStack)-1]
				return false
			}
			return true
		}
		ast.Inspect(fd.Body, walk)

		var ordered []*ast.FuncLit
		for l := range lits {
			ordered = append(ordered, l)
		}
		sort.Slice(ordered, func(i, j int) bool { return ordered[i].Pos() < ordered[j].Pos() })
		for n, l := range ordered {
			key := fmt.Sprintf("%s:worker#%d", funcName(p, fd), n+1)
			captured := func(id *ast.Ident) types.Object {
				o, ok := info.ObjectOf(id).(*types.Var)
				if !ok || o.IsField() || o.Pkg() == nil {
					return nil
				}
				if o.Pos() >= l.Pos() && o.Pos() < l.End() {
					return nil
				}
				if o.Parent() == o.Pkg().Scope() {
					return nil // package-level state is a different discipline (GS)
				}
				return o
			}
			// lock discipline: a write is accepted when the literal calls Lock() on a captured mutex before it (textually) and Unlock after/deferred
			locks := false
			ast.Inspect(l.Body, func(m ast.Node) bool {
				if call, ok := m.(*ast.CallExpr); ok {
					if sel, ok := call.Fun.(*ast.SelectorExpr); ok && (sel.Sel.Name == "Lock") {
						if f := callee(info, call); f != nil && f.Pkg() != nil && f.Pkg().Path() == "sync" {
							locks = true
						}
					}
				}
				return true
			})
			var bad []string
			written := map[types.Object]bool{}
			ast.Inspect(l.Body, func(m ast.Node) bool {
				switch x := m.(type) {
				case *ast.AssignStmt:
					if x.Tok == token.DEFINE {
						// := may redeclare only new names; captured ones on the lhs of := in the same scope are new objects
					}
					for _, lh := range x.Lhs {
						if id, ok := ast.Unparen(lh).(*ast.Ident); ok {
							if o := captured(id); o != nil && info.Defs[id] == nil {
								if !written[o] {
									bad = append(bad, c.Pos(x.Pos())+": "+o.Name())
								}
								written[o] = true
							}
						}
					}
				case *ast.IncDecStmt:
					if id, ok := ast.Unparen(x.X).(*ast.Ident); ok {
						if o := captured(id); o != nil {
							if !written[o] {
								bad = append(bad, c.Pos(x.Pos())+": "+o.Name())
							}
							written[o] = true
						}
					}
				}
				return true
			})
			// a captured variable only used as a scratch (every read in the literal is preceded, on every path from its entry, by a
			// write of the same call, and nothing outside reads it after the literal) carries nothing from one record to the next
			if len(bad) > 0 {
				carried := false
				for o := range written {
					if exposedRead(info, l, o) || readAfter(info, fd, l, o) {
						carried = true
					}
				}
				if !carried {
					s.Pass(nil, key, l.Pos(), lits[l]+" uses a captured variable as a scratch only: each call writes it before reading it")
					continue
				}
			}
			switch {
			case len(bad) > 0 && locks:
				s.Pass(nil, key, l.Pos(), "captured state written under a mutex held by the worker")
			case len(bad) > 0:
				s.Fail(nil, key, l.Pos(), "this "+lits[l]+" overwrites variables captured from its enclosing function ("+strings.Join(bad, "; ")+"): the treatment of a record depends on the records treated before it, and concurrent workers race on them")
			default:
				s.Pass(nil, key, l.Pos(), lits[l]+" writes none of its captured variables")
			}
		}
	})
}

// nodeReadsWrites: does the CFG node read / write obj? In an assignment the right-hand side is evaluated before the store.
func nodeReadsWrites(info *types.Info, n ast.Node, obj types.Object) (reads, writes bool) {
	lhs := map[*ast.Ident]bool{}
	visitEval(n, func(m ast.Node) {
		switch x := m.(type) {
		case *ast.AssignStmt:
			for _, l := range x.Lhs {
				if id, ok := ast.Unparen(l).(*ast.Ident); ok && info.ObjectOf(id) == obj {
					writes = true
					if x.Tok == token.ASSIGN || x.Tok == token.DEFINE {
						lhs[id] = true
					} else {
						reads = true // op-assignment reads the old value
					}
				}
			}
		case *ast.IncDecStmt:
			if id, ok := ast.Unparen(x.X).(*ast.Ident); ok && info.ObjectOf(id) == obj {
				reads, writes = true, true
			}
		}
	})
	visitEval(n, func(m ast.Node) {
		if id, ok := m.(*ast.Ident); ok && info.Uses[id] == obj && !lhs[id] {
			reads = true
		}
	})
	return
}

// exposedRead: can a read of obj in the literal be reached from its entry without passing a write of obj?
func exposedRead(info *types.Info, l *ast.FuncLit, obj types.Object) bool {
	g := buildCFG(info, l.Body)
	if g == nil || len(g.Blocks) == 0 {
		return true
	}
	seen := map[int32]bool{}
	var visit func(b int32) bool
	visit = func(bi int32) bool {
		if seen[bi] {
			return false
		}
		seen[bi] = true
		b := g.Blocks[bi]
		for _, n := range b.Nodes {
			r, w := nodeReadsWrites(info, n, obj)
			if r {
				return true
			}
			if w {
				return false
			}
		}
		for _, sc := range b.Succs {
			if visit(sc.Index) {
				return true
			}
		}
		return false
	}
	if visit(0) {
		return true
	}
	// nested literals (deferred or called later) reading it count as exposed
	exposed := false
	ast.Inspect(l.Body, func(m ast.Node) bool {
		if in, ok := m.(*ast.FuncLit); ok {
			ast.Inspect(in.Body, func(k ast.Node) bool {
				if id, ok := k.(*ast.Ident); ok && info.Uses[id] == obj {
					exposed = true
				}
				return true
			})
			return false
		}
		return true
	})
	return exposed
}

// readAfter: is obj used in fd outside the literal, textually after the literal starts?
func readAfter(info *types.Info, fd *ast.FuncDecl, l *ast.FuncLit, obj types.Object) bool {
	found := false
	ast.Inspect(fd.Body, func(m ast.Node) bool {
		if m == ast.Node(l) {
			return false
		}
		if id, ok := m.(*ast.Ident); ok && info.Uses[id] == obj && id.Pos() > l.Pos() {
			found = true
		}
		return true
	})
	return found
}
