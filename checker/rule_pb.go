package main

// PB — pruning-bound soundness of the 4-mer prefilter (C15).

import (
	"fmt"
	"go/ast"
	"go/token"
	"go/types"
	"sort"
	"strings"

	"golang.org/x/tools/go/packages"
)

func init() {
	register(&Rule{
		ID: "PB", Props: []string{"C15"}, Min: 3,
		Doc: `the pruning threshold never exceeds what every qualifying reference is guaranteed to share: in each scan of candidates in decreasing Common4Mer order that
leaves with 'if cw[x] < T { break }', every value assigned to T must be provably <= max(0, |query| - 3 - 4*E), where the query is the loop-invariant sequence handed to the
kernels and E the error bound handed to FastLCSScore (q-gram lemma: one difference destroys at most four 4-mers of the query; because the scan breaks, the bound must hold for
all remaining candidates, so it may not grow with a reference length). The inequality is decided symbolically over max/min/affine expressions of Len() terms, all >= 0.
PB-ties: candidates whose score equals the best are appended on the comparing path.`,
		Run: runPB,
	})
}

// symbolic expressions
type pbExpr struct {
	op   string // "aff", "max", "min"
	aff  map[string]int
	kids []*pbExpr
}

func pbAff(m map[string]int) *pbExpr { return &pbExpr{op: "aff", aff: m} }

func pbAddAff(a, b map[string]int, sign int) map[string]int {
	r := map[string]int{}
	for k, v := range a {
		r[k] += v
	}
	for k, v := range b {
		r[k] += sign * v
	}
	return r
}

// add: e + aff (distributes into max/min)
func (e *pbExpr) addAff(a map[string]int, sign int) *pbExpr {
	switch e.op {
	case "aff":
		return pbAff(pbAddAff(e.aff, a, sign))
	default:
		n := &pbExpr{op: e.op}
		for _, k := range e.kids {
			n.kids = append(n.kids, k.addAff(a, sign))
		}
		return n
	}
}

func (e *pbExpr) neg() *pbExpr {
	switch e.op {
	case "aff":
		r := map[string]int{}
		for k, v := range e.aff {
			r[k] = -v
		}
		return pbAff(r)
	case "max":
		n := &pbExpr{op: "min"}
		for _, k := range e.kids {
			n.kids = append(n.kids, k.neg())
		}
		return n
	default:
		n := &pbExpr{op: "max"}
		for _, k := range e.kids {
			n.kids = append(n.kids, k.neg())
		}
		return n
	}
}

func (e *pbExpr) scale(c int) *pbExpr {
	if c < 0 {
		return e.neg().scale(-c)
	}
	switch e.op {
	case "aff":
		r := map[string]int{}
		for k, v := range e.aff {
			r[k] = v * c
		}
		return pbAff(r)
	default:
		n := &pbExpr{op: e.op}
		for _, k := range e.kids {
			n.kids = append(n.kids, k.scale(c))
		}
		return n
	}
}

// sum of two expressions: only when one side is affine
func pbSum(a, b *pbExpr, sign int) *pbExpr {
	if b.op == "aff" {
		return a.addAff(b.aff, sign)
	}
	if a.op == "aff" {
		if sign > 0 {
			return b.addAff(a.aff, 1)
		}
		return b.neg().addAff(a.aff, 1)
	}
	return nil
}

func (e *pbExpr) String() string {
	if e.op == "aff" {
		var ks []string
		for k := range e.aff {
			ks = append(ks, k)
		}
		sort.Strings(ks)
		var parts []string
		for _, k := range ks {
			if e.aff[k] == 0 {
				continue
			}
			if k == "" {
				parts = append(parts, fmt.Sprint(e.aff[k]))
			} else {
				parts = append(parts, fmt.Sprintf("%d*%s", e.aff[k], k))
			}
		}
		if len(parts) == 0 {
			return "0"
		}
		return strings.Join(parts, " + ")
	}
	var ks []string
	for _, k := range e.kids {
		ks = append(ks, k.String())
	}
	return e.op + "(" + strings.Join(ks, ", ") + ")"
}

// leqBound: e <= max(0, B) for all non-negative atom values, B affine.
func pbLeq(e *pbExpr, B map[string]int) bool {
	switch e.op {
	case "max":
		for _, k := range e.kids {
			if !pbLeq(k, B) {
				return false
			}
		}
		return true
	case "min":
		for _, k := range e.kids {
			if pbLeq(k, B) {
				return true
			}
		}
		return false
	}
	// affine: e <= 0 ?
	allNonPos := true
	for _, v := range e.aff {
		if v > 0 {
			allNonPos = false
		}
	}
	if allNonPos {
		return true
	}
	// e <= B coefficient-wise (atoms range over non-negative values)
	keys := map[string]bool{}
	for k := range e.aff {
		keys[k] = true
	}
	for k := range B {
		keys[k] = true
	}
	for k := range keys {
		if e.aff[k] > B[k] {
			return false
		}
	}
	return true
}

type pbCtx struct {
	info *types.Info
	defs map[types.Object][]ast.Expr
}

func (c *pbCtx) conv(e ast.Expr, depth int) *pbExpr {
	e = ast.Unparen(e)
	if v, ok := constInt(c.info, e); ok {
		return pbAff(map[string]int{"": int(v)})
	}
	switch x := e.(type) {
	case *ast.Ident:
		o := c.info.ObjectOf(x)
		// single-definition local that is itself a Len() expression
		if ds := c.defs[o]; len(ds) == 1 && ds[0] != nil && depth < 3 {
			if call, ok := ast.Unparen(ds[0]).(*ast.CallExpr); ok {
				if sel, ok := call.Fun.(*ast.SelectorExpr); ok && sel.Sel.Name == "Len" {
					return c.conv(ds[0], depth+1)
				}
			}
		}
		return pbAff(map[string]int{x.Name: 1})
	case *ast.CallExpr:
		if id, ok := x.Fun.(*ast.Ident); ok && (id.Name == "max" || id.Name == "min") {
			n := &pbExpr{op: id.Name}
			for _, a := range x.Args {
				k := c.conv(a, depth)
				if k == nil {
					return nil
				}
				n.kids = append(n.kids, k)
			}
			return n
		}
		if sel, ok := x.Fun.(*ast.SelectorExpr); ok && sel.Sel.Name == "Len" && len(x.Args) == 0 {
			return pbAff(map[string]int{"|" + types.ExprString(sel.X) + "|": 1})
		}
		if tv, ok := c.info.Types[x.Fun]; ok && tv.IsType() && len(x.Args) == 1 {
			return c.conv(x.Args[0], depth)
		}
	case *ast.BinaryExpr:
		l, r := c.conv(x.X, depth), c.conv(x.Y, depth)
		if l == nil || r == nil {
			return nil
		}
		switch x.Op {
		case token.ADD:
			return pbSum(l, r, 1)
		case token.SUB:
			return pbSum(l, r, -1)
		case token.MUL:
			if l.op == "aff" && len(l.aff) == 1 {
				if cv, ok := l.aff[""]; ok {
					return r.scale(cv)
				}
			}
			if r.op == "aff" && len(r.aff) == 1 {
				if cv, ok := r.aff[""]; ok {
					return l.scale(cv)
				}
			}
		}
	}
	return nil
}

func runPB(c *Ctx, s *Sink) {
	c.EachFunc([]string{"pkg/obitools/obitag", "pkg/obitools/obitag2", "pkg/obitools/obirefidx"}, func(p *packages.Package, fd *ast.FuncDecl) {
		info := p.TypesInfo
		// threshold variables: if cw[x] < T { break }
		var T types.Object
		var breakPos token.Pos
		strict := true
		ast.Inspect(fd.Body, func(n ast.Node) bool {
			ifs, ok := n.(*ast.IfStmt)
			if !ok || len(ifs.Body.List) == 0 {
				return true
			}
			if br, ok := ifs.Body.List[len(ifs.Body.List)-1].(*ast.BranchStmt); !ok || br.Tok != token.BREAK {
				return true
			}
			ast.Inspect(ifs.Cond, func(m ast.Node) bool {
				if b, ok := m.(*ast.BinaryExpr); ok && (b.Op == token.LSS || b.Op == token.LEQ) {
					if _, isIdx := ast.Unparen(b.X).(*ast.IndexExpr); isIdx {
						if id, ok := ast.Unparen(b.Y).(*ast.Ident); ok {
							T = info.ObjectOf(id)
							breakPos = ifs.Pos()
							strict = b.Op == token.LSS
						}
					}
				}
				return true
			})
			return true
		})
		if T == nil {
			return
		}
		fname := funcName(p, fd)
		// query and error bound: arguments of FastLCSScore
		var Q, E string
		ast.Inspect(fd.Body, func(n ast.Node) bool {
			if call, ok := n.(*ast.CallExpr); ok && isCallTo(info, call, "pkg/obialign.FastLCSScore") && len(call.Args) >= 3 {
				Q = types.ExprString(call.Args[0])
				E = types.ExprString(call.Args[2])
			}
			return true
		})
		if Q == "" {
			// the comparison block may have been extracted into a helper: map its arguments back
			defs := collectDefs(info, fd)
			ast.Inspect(fd.Body, func(n ast.Node) bool {
				call, ok := n.(*ast.CallExpr)
				if !ok || Q != "" {
					return true
				}
				body, cinfo, bind := c.calleeSource(info, defs, call)
				if body == nil {
					return true
				}
				ast.Inspect(body, func(k ast.Node) bool {
					c2, ok := k.(*ast.CallExpr)
					if !ok || !isCallTo(cinfo, c2, "pkg/obialign.FastLCSScore") || len(c2.Args) < 3 {
						return true
					}
					q, okq := bind[rootObj(cinfo, c2.Args[0])]
					e, oke := bind[rootObj(cinfo, c2.Args[2])]
					if okq && oke {
						if _, plain := ast.Unparen(c2.Args[0]).(*ast.Ident); plain {
							if _, plain2 := ast.Unparen(c2.Args[2]).(*ast.Ident); plain2 {
								Q, E = types.ExprString(q), types.ExprString(e)
							}
						}
					}
					return true
				})
				return true
			})
		}
		key := fname + ":threshold:" + T.Name()
		s.Check(strict, nil, key+":strict", breakPos, "the scan stops only when the shared count is strictly below the threshold",
			"the scan stops when the shared 4-mer count equals the threshold: a reference sharing exactly the guaranteed minimum of 4-mers (every difference isolated) is a legitimate tie and is never compared")
		if Q == "" {
			s.Undecided(nil, key, breakPos, "no call to FastLCSScore found to identify the query and the error bound")
			return
		}
		bound := map[string]int{"|" + Q + "|": 1, "": -3, E: -4}
		pc := &pbCtx{info: info, defs: collectDefs(info, fd)}
		var bad []string
		nAssign := 0
		for _, d := range pc.defs[T] {
			nAssign++
			if d == nil {
				bad = append(bad, "assigned from a multi-value expression")
				continue
			}
			ex := pc.conv(d, 0)
			if ex == nil {
				bad = append(bad, "cannot interpret "+types.ExprString(d))
				continue
			}
			if !pbLeq(ex, bound) {
				bad = append(bad, fmt.Sprintf("%s  (= %s) is not <= max(0, |%s| - 3 - 4*%s) for every reference length", types.ExprString(d), ex, Q, E))
			}
		}
		if len(bad) > 0 {
			s.Fail(nil, key, breakPos, "the scan breaks on a threshold that can exceed the number of 4-mers a qualifying reference is guaranteed to share with the query: tied best references (shorter than the one that set the threshold) are never compared and the assigned taxon is too specific — "+strings.Join(bad, "; "))
		} else {
			s.Pass(nil, key, breakPos, fmt.Sprintf("%d assignment(s) of %s, each <= max(0, |%s| - 3 - 4*%s) for all lengths", nAssign, T.Name(), Q, E))
		}
		// ties: an if with condition score == E that appends
		if strings.HasSuffix(fname, "FindClosests") {
			tie := false
			ast.Inspect(fd.Body, func(n ast.Node) bool {
				if ifs, ok := n.(*ast.IfStmt); ok {
					if b, ok := ast.Unparen(ifs.Cond).(*ast.BinaryExpr); ok && b.Op == token.EQL && (types.ExprString(b.Y) == E || types.ExprString(b.X) == E) {
						ast.Inspect(ifs.Body, func(m ast.Node) bool {
							if call, ok := m.(*ast.CallExpr); ok {
								if id, ok := call.Fun.(*ast.Ident); ok && id.Name == "append" {
									tie = true
								}
							}
							return true
						})
					}
				}
				return true
			})
			s.Check(tie, nil, fname+":ties", breakPos, "candidates whose score equals the best are appended", "no branch appends the candidates whose score equals the current best: ties are lost")
		}
	})
}
