package main

// IT — iterator-combinator protocol: model extraction.
//
// A "handle" is a local variable (or the elements of a local map) holding an
// iterator created by obiiter.MakeIBioSequence().  All protocol events on the
// handle (Add, Done, Push, raw channel send, Wait, Close, WaitAndClose) are
// collected over the creating function, its function literals, and named
// functions that receive the handle in a `go` statement.

import (
	"go/ast"
	"go/token"
	"go/types"

	"golang.org/x/tools/go/packages"
)

const iterType = modPath + "/pkg/obiiter.IBioSequence"

type itBody struct {
	pkg   *packages.Package
	fn    ast.Node // *ast.FuncDecl or *ast.FuncLit
	body  *ast.BlockStmt
	outer *ast.FuncDecl // enclosing declaration
	index int           // ordinal among bodies of the declaration (0 = the declaration itself)
	label string
}

type itEvent struct {
	kind string // Add Done Push Send Wait Close WaitAndClose
	call *ast.CallExpr
	send *ast.SendStmt
	arg  ast.Expr // Add amount / pushed batch
	body *itBody
	node ast.Node
	path []ast.Node // ancestors from the outer declaration down to the node
	// events found inside an inlined callee: parameters of the callee -> argument expressions of the call
	bind map[types.Object]ast.Expr
}

func (e *itEvent) pos() token.Pos { return e.node.Pos() }

type itHandle struct {
	pkg      *packages.Package
	fd       *ast.FuncDecl
	name     string
	obj      types.Object
	mapElem  bool
	create   ast.Node
	createIn *itBody
	aliases  map[types.Object]bool
	events   []*itEvent
	bodies   map[ast.Node]*itBody
	// go statements and their resolved target bodies
	launches []*itLaunch
	// reassignments of the handle variable (other than the creation)
	reassign []ast.Node
	// escapes to callees other than go-launched producers
	extern []*itBody // named-function bodies receiving the handle via go
}

type itLaunch struct {
	stmt   *ast.GoStmt
	target *itBody
	path   []ast.Node
	inBody *itBody
}

func isIterType(t types.Type) bool { return namedTypeName(t) == iterType }

// findHandles enumerates creation sites in one declaration.
func findHandles(c *Ctx, p *packages.Package, fd *ast.FuncDecl) []*itHandle {
	var hs []*itHandle
	info := p.TypesInfo
	isMake := func(e ast.Expr) bool {
		call, ok := ast.Unparen(e).(*ast.CallExpr)
		return ok && isCallTo(info, call, "pkg/obiiter.MakeIBioSequence")
	}
	seen := map[types.Object]bool{}
	ast.Inspect(fd.Body, func(n ast.Node) bool {
		switch x := n.(type) {
		case *ast.AssignStmt:
			if len(x.Lhs) != len(x.Rhs) {
				return true
			}
			for i, r := range x.Rhs {
				if !isMake(r) {
					continue
				}
				switch l := ast.Unparen(x.Lhs[i]).(type) {
				case *ast.Ident:
					o := info.ObjectOf(l)
					if o != nil && !seen[o] {
						seen[o] = true
						hs = append(hs, &itHandle{pkg: p, fd: fd, name: l.Name, obj: o, create: x})
					}
				case *ast.IndexExpr:
					if id, ok := ast.Unparen(l.X).(*ast.Ident); ok {
						o := info.ObjectOf(id)
						if o != nil && !seen[o] {
							seen[o] = true
							hs = append(hs, &itHandle{pkg: p, fd: fd, name: id.Name + "[·]", obj: o, mapElem: true, create: x})
						}
					}
				}
			}
		case *ast.ValueSpec:
			for i, v := range x.Values {
				if isMake(v) && i < len(x.Names) {
					o := info.ObjectOf(x.Names[i])
					if o != nil && !seen[o] {
						seen[o] = true
						hs = append(hs, &itHandle{pkg: p, fd: fd, name: x.Names[i].Name, obj: o, create: x})
					}
				}
			}
		}
		return true
	})
	return hs
}

// denotes reports whether e denotes the handle in a body.
func (h *itHandle) denotes(info *types.Info, e ast.Expr) bool {
	e = ast.Unparen(e)
	if h.mapElem {
		if ix, ok := e.(*ast.IndexExpr); ok {
			if id, ok := ast.Unparen(ix.X).(*ast.Ident); ok {
				return info.ObjectOf(id) == h.obj
			}
		}
		if id, ok := e.(*ast.Ident); ok {
			return h.aliases[info.ObjectOf(id)]
		}
		return false
	}
	if id, ok := e.(*ast.Ident); ok {
		o := info.ObjectOf(id)
		return o == h.obj || h.aliases[o]
	}
	return false
}

var itMethods = map[string]bool{"Add": true, "Done": true, "Push": true, "Wait": true, "Close": true, "WaitAndClose": true}

// localFuncLits maps local variables bound to exactly one function literal.
func localFuncLits(info *types.Info, root ast.Node) map[types.Object]*ast.FuncLit {
	out := map[types.Object]*ast.FuncLit{}
	count := map[types.Object]int{}
	ast.Inspect(root, func(n ast.Node) bool {
		switch x := n.(type) {
		case *ast.AssignStmt:
			if len(x.Lhs) != len(x.Rhs) {
				return true
			}
			for i, l := range x.Lhs {
				id, ok := l.(*ast.Ident)
				if !ok {
					continue
				}
				o := info.ObjectOf(id)
				if o == nil {
					continue
				}
				if lit, ok := ast.Unparen(x.Rhs[i]).(*ast.FuncLit); ok {
					out[o] = lit
					count[o]++
				} else if _, isFunc := o.Type().Underlying().(*types.Signature); isFunc {
					count[o] += 2
				}
			}
		case *ast.ValueSpec:
			for i, id := range x.Names {
				if i < len(x.Values) {
					if lit, ok := ast.Unparen(x.Values[i]).(*ast.FuncLit); ok {
						o := info.ObjectOf(id)
						out[o] = lit
						count[o]++
					}
				}
			}
		}
		return true
	})
	for o, n := range count {
		if n != 1 {
			delete(out, o)
		}
	}
	return out
}

// analyse fills events, bodies, launches for the handle.
func (h *itHandle) analyse(c *Ctx) {
	info := h.pkg.TypesInfo
	h.aliases = map[types.Object]bool{}
	h.bodies = map[ast.Node]*itBody{}
	lits := localFuncLits(info, h.fd)

	// pass 0: range-value aliases of a map handle, and function-literal
	// parameters bound to the handle at an immediate call.
	changed := true
	for changed {
		changed = false
		ast.Inspect(h.fd.Body, func(n ast.Node) bool {
			switch x := n.(type) {
			case *ast.RangeStmt:
				if h.mapElem && x.Value != nil {
					if id, ok := ast.Unparen(x.X).(*ast.Ident); ok && info.ObjectOf(id) == h.obj {
						if v, ok := x.Value.(*ast.Ident); ok {
							if o := info.ObjectOf(v); o != nil && !h.aliases[o] {
								h.aliases[o] = true
								changed = true
							}
						}
					}
				}
			case *ast.CallExpr:
				var lit *ast.FuncLit
				switch f := ast.Unparen(x.Fun).(type) {
				case *ast.FuncLit:
					lit = f
				case *ast.Ident:
					lit = lits[info.ObjectOf(f)]
				}
				if lit == nil {
					return true
				}
				params := flattenParams(lit.Type.Params)
				for i, a := range x.Args {
					if i < len(params) && h.denotes(info, a) {
						if o := info.ObjectOf(params[i]); o != nil && !h.aliases[o] {
							h.aliases[o] = true
							changed = true
						}
					}
				}
			}
			return true
		})
	}

	// bodies of the declaration
	idx := 0
	root := &itBody{pkg: h.pkg, fn: h.fd, body: h.fd.Body, outer: h.fd, index: 0, label: "body"}
	h.bodies[h.fd] = root
	ast.Inspect(h.fd.Body, func(n ast.Node) bool {
		if lit, ok := n.(*ast.FuncLit); ok {
			idx++
			h.bodies[lit] = &itBody{pkg: h.pkg, fn: lit, body: lit.Body, outer: h.fd, index: idx, label: "func#" + itoa(idx)}
		}
		return true
	})

	h.collect(c, h.pkg, h.fd, h.fd.Body, root, lits, func(e ast.Expr) bool { return h.denotes(info, e) }, true)
}

func itoa(i int) string {
	if i == 0 {
		return "0"
	}
	s := ""
	for i > 0 {
		s = string(rune('0'+i%10)) + s
		i /= 10
	}
	return s
}

func flattenParams(fl *ast.FieldList) []*ast.Ident {
	var out []*ast.Ident
	if fl == nil {
		return nil
	}
	for _, f := range fl.List {
		if len(f.Names) == 0 {
			out = append(out, nil)
		}
		for _, n := range f.Names {
			out = append(out, n)
		}
	}
	return out
}

// collect walks a body tree gathering events; denotes decides whether an
// expression is the handle.  follow allows descending into named callees
// launched with `go` that receive the handle.
func (h *itHandle) collect(c *Ctx, p *packages.Package, outer *ast.FuncDecl, start *ast.BlockStmt, startBody *itBody,
	lits map[types.Object]*ast.FuncLit, denotes func(ast.Expr) bool, follow bool) {
	info := p.TypesInfo
	var stack []ast.Node
	bodyStack := []*itBody{startBody}
	// local closures that are only ever called (never started with go, never passed around) are part of
	// the body that calls them: their events are recorded at the call site (extracting a block into a
	// local closure must not change the model)
	syncLits := syncClosures(info, outer, lits)
	var inlineNode ast.Node
	var inlinePath []ast.Node
	var inlineBind map[types.Object]ast.Expr
	inlining := map[*ast.FuncLit]bool{}
	inliningDecl := map[*ast.FuncDecl]bool{}
	// calls that are the operand of a go statement (handled as launches)
	parentGo := map[*ast.CallExpr]bool{}
	ast.Inspect(start, func(n ast.Node) bool {
		if g, ok := n.(*ast.GoStmt); ok {
			parentGo[g.Call] = true
		}
		return true
	})
	var walk func(n ast.Node)
	cur := func() *itBody { return bodyStack[len(bodyStack)-1] }
	pathCopy := func() []ast.Node { return append([]ast.Node(nil), stack...) }
	walk = func(n ast.Node) {
		if n == nil {
			return
		}
		stack = append(stack, n)
		defer func() { stack = stack[:len(stack)-1] }()
		switch x := n.(type) {
		case *ast.FuncLit:
			if syncLits[x] && !inlining[x] {
				return // walked at its call sites
			}
			if inlining[x] {
				walk(x.Body)
				return
			}
			b := h.bodies[x]
			if b == nil {
				b = &itBody{pkg: p, fn: x, body: x.Body, outer: outer, index: -1, label: "func"}
				h.bodies[x] = b
			}
			bodyStack = append(bodyStack, b)
			walk(x.Body)
			bodyStack = bodyStack[:len(bodyStack)-1]
			return
		case *ast.GoStmt:
			l := &itLaunch{stmt: x, path: pathCopy(), inBody: cur()}
			switch f := ast.Unparen(x.Call.Fun).(type) {
			case *ast.FuncLit:
				l.target = h.bodyOf(p, outer, f)
			case *ast.Ident:
				if lit := lits[info.ObjectOf(f)]; lit != nil {
					l.target = h.bodyOf(p, outer, lit)
				}
			}
			if l.target == nil && follow {
				// named function receiving the handle
				if fn := callee(info, x.Call); fn != nil {
					for i, a := range x.Call.Args {
						if !denotes(a) {
							continue
						}
						cd, cp := c.DeclOf(fn)
						if cd == nil || cd.Body == nil {
							continue
						}
						params := flattenParams(cd.Type.Params)
						if i >= len(params) || params[i] == nil {
							continue
						}
						po := cp.TypesInfo.ObjectOf(params[i])
						b := &itBody{pkg: cp, fn: cd, body: cd.Body, outer: cd, index: 0, label: funcName(cp, cd)}
						h.bodies[cd] = b
						h.extern = append(h.extern, b)
						l.target = b
						h.collect(c, cp, cd, cd.Body, b, localFuncLits(cp.TypesInfo, cd), func(e ast.Expr) bool {
							id, ok := ast.Unparen(e).(*ast.Ident)
							return ok && cp.TypesInfo.ObjectOf(id) == po
						}, false)
					}
				}
			}
			h.launches = append(h.launches, l)
		case *ast.CallExpr:
			// a function of the same package that receives the handle and is called synchronously (an
			// extracted block): its events happen at the call site
			if fn := callee(info, x); fn != nil && inlineNode == nil && follow {
				if _, isGo := parentGo[x]; !isGo {
					if cd, cp := c.DeclOf(fn); cd != nil && cp == p && cd.Body != nil && cd != outer && !inliningDecl[cd] {
						params := flattenParams(cd.Type.Params)
						for i, a := range x.Args {
							if i >= len(params) || params[i] == nil || !denotes(a) {
								continue
							}
							po := info.ObjectOf(params[i])
							saved := denotes
							denotes = func(e ast.Expr) bool {
								id, ok := ast.Unparen(e).(*ast.Ident)
								return ok && info.ObjectOf(id) == po
							}
							inliningDecl[cd] = true
							inlineNode, inlinePath = x, pathCopy()
							inlineBind = map[types.Object]ast.Expr{}
							for k, a2 := range x.Args {
								if k < len(params) && params[k] != nil {
									inlineBind[info.ObjectOf(params[k])] = a2
								}
							}
							walk(cd.Body)
							inlineNode, inlinePath, inlineBind = nil, nil, nil
							delete(inliningDecl, cd)
							denotes = saved
						}
					}
				}
			}
			if id, ok := ast.Unparen(x.Fun).(*ast.Ident); ok && inlineNode == nil {
				if lit := lits[info.ObjectOf(id)]; lit != nil && syncLits[lit] && !inlining[lit] {
					inlining[lit] = true
					inlineNode, inlinePath = x, pathCopy()
					inlineBind = map[types.Object]ast.Expr{}
					for k, prm := range flattenParams(lit.Type.Params) {
						if prm != nil && k < len(x.Args) {
							inlineBind[info.ObjectOf(prm)] = x.Args[k]
						}
					}
					walk(lit)
					inlineNode, inlinePath, inlineBind = nil, nil, nil
					delete(inlining, lit)
				}
			}
			if sel, ok := ast.Unparen(x.Fun).(*ast.SelectorExpr); ok && itMethods[sel.Sel.Name] && denotes(sel.X) {
				if fn := callee(info, x); fn != nil && fullName(fn) == modPath+"/pkg/obiiter.(IBioSequence)."+sel.Sel.Name {
					ev := &itEvent{kind: sel.Sel.Name, call: x, body: cur(), node: x, path: pathCopy()}
					if inlineNode != nil {
						ev.node, ev.path, ev.bind = inlineNode, inlinePath, inlineBind
					}
					if len(x.Args) > 0 {
						ev.arg = x.Args[0]
					}
					h.events = append(h.events, ev)
				}
			}
		case *ast.SendStmt:
			// X.pointer.channel <- batch
			// X.<ptr>.<chan> <- batch : a raw send on the channel of the handle (fields identified by type, not by name)
			if s1, ok := ast.Unparen(x.Chan).(*ast.SelectorExpr); ok && isBatchChan(info.TypeOf(s1)) {
				if s2, ok := ast.Unparen(s1.X).(*ast.SelectorExpr); ok && denotes(s2.X) {
					ev := &itEvent{kind: "Push", send: x, arg: x.Value, body: cur(), node: x, path: pathCopy()}
					if inlineNode != nil {
						ev.node, ev.path, ev.bind = inlineNode, inlinePath, inlineBind
					}
					h.events = append(h.events, ev)
				}
			}
		case *ast.AssignStmt:
			if x != h.create && p == h.pkg {
				for _, l := range x.Lhs {
					if id, ok := ast.Unparen(l).(*ast.Ident); ok && !h.mapElem && info.ObjectOf(id) == h.obj {
						h.reassign = append(h.reassign, x)
					}
				}
			}
		}
		// children
		var children []ast.Node
		ast.Inspect(n, func(m ast.Node) bool {
			if m == nil || m == n {
				return m == n
			}
			children = append(children, m)
			return false
		})
		for _, ch := range children {
			walk(ch)
		}
	}
	walk(start)
}

func (h *itHandle) bodyOf(p *packages.Package, outer *ast.FuncDecl, lit *ast.FuncLit) *itBody {
	if b := h.bodies[lit]; b != nil {
		return b
	}
	b := &itBody{pkg: p, fn: lit, body: lit.Body, outer: outer, index: -1, label: "func"}
	h.bodies[lit] = b
	return b
}

func (h *itHandle) eventsOf(kind string) []*itEvent {
	var out []*itEvent
	for _, e := range h.events {
		if e.kind == kind {
			out = append(out, e)
		}
	}
	return out
}

func (h *itHandle) eventsIn(b *itBody, kinds ...string) []*itEvent {
	var out []*itEvent
	for _, e := range h.events {
		if e.body == b {
			for _, k := range kinds {
				if e.kind == k {
					out = append(out, e)
				}
			}
		}
	}
	return out
}

// producers returns the bodies that call Done on the handle.
func (h *itHandle) producers() []*itBody {
	var out []*itBody
	seen := map[*itBody]bool{}
	for _, e := range h.eventsOf("Done") {
		if !seen[e.body] {
			seen[e.body] = true
			out = append(out, e.body)
		}
	}
	return out
}

func (h *itHandle) key() string { return funcName(h.pkg, h.fd) + ":" + h.name }

// syncClosures: the function literals bound to a local variable of outer that is only used as the callee
// of ordinary calls (at least one), never in a go statement and never as a value.
func syncClosures(info *types.Info, outer *ast.FuncDecl, lits map[types.Object]*ast.FuncLit) map[*ast.FuncLit]bool {
	calls := map[types.Object]int{}
	other := map[types.Object]int{}
	var stack []ast.Node
	ast.Inspect(outer.Body, func(n ast.Node) bool {
		if n == nil {
			stack = stack[:len(stack)-1]
			return true
		}
		stack = append(stack, n)
		id, ok := n.(*ast.Ident)
		if !ok {
			return true
		}
		o := info.Uses[id]
		if o == nil || lits[o] == nil {
			return true
		}
		// parent / grand-parent
		var par, gpar ast.Node
		if len(stack) >= 2 {
			par = stack[len(stack)-2]
		}
		if len(stack) >= 3 {
			gpar = stack[len(stack)-3]
		}
		if call, ok := par.(*ast.CallExpr); ok && ast.Unparen(call.Fun) == ast.Expr(id) {
			if g, ok := gpar.(*ast.GoStmt); ok && g.Call == call {
				other[o]++
			} else if d, ok := gpar.(*ast.DeferStmt); ok && d.Call == call {
				other[o]++
			} else {
				calls[o]++
			}
			return true
		}
		other[o]++
		return true
	})
	out := map[*ast.FuncLit]bool{}
	for o, lit := range lits {
		if calls[o] > 0 && other[o] == 0 {
			out[lit] = true
		}
	}
	return out
}

// isBatchChan: chan BioSequenceBatch
func isBatchChan(t types.Type) bool {
	if t == nil {
		return false
	}
	ch, ok := t.Underlying().(*types.Chan)
	return ok && namedTypeName(ch.Elem()) == modPath+"/pkg/obiiter.BioSequenceBatch"
}
