package main

// WE — write-error discipline on the output path (C18).

import (
	"fmt"
	"go/ast"
	"go/token"
	"go/types"
	"strings"

	"golang.org/x/tools/go/packages"
)

func init() {
	register(&Rule{
		ID: "WE-1", Props: []string{"C18"}, Min: 7,
		Doc: `every write, flush and close on the output path is checked: each call of Write/WriteString/Flush/Close/Sync whose receiver is an output sink
(io.Writer/io.WriteCloser value, *obiutils.Wfile, *os.File opened for writing, the bufio/gzip writers inside Wfile) must have its error result consumed — tested with a diverging
(fatal/return) branch, returned, or merged into a returned error. Discarded results (expression statement, blank assignment, defer) are violations.
In-memory sinks (bytes.Buffer, bufio/csv writers over a local buffer) are not instances.`,
		Run: runWE1,
	})
}

var sinkMethods = map[string]bool{"Write": true, "WriteString": true, "WriteByte": true, "WriteRune": true, "Flush": true, "Close": true, "Sync": true}

func sinkTypeName(t types.Type) string {
	if p, ok := t.(*types.Pointer); ok {
		t = p.Elem()
	}
	return namedTypeName(t)
}

var sinkTypes = map[string]bool{
	"io.Writer": true, "io.WriteCloser": true, "io.StringWriter": true,
	"os.File": true, "bufio.Writer": true,
	modPath + "/pkg/obiutils.Wfile":          true,
	"github.com/klauspost/pgzip.Writer":      true,
	"compress/gzip.Writer":                   true,
}

func weScope(c *Ctx, p *packages.Package, fd *ast.FuncDecl) bool {
	r := rel(p.PkgPath)
	file := c.Fset.Position(fd.Pos()).Filename
	base := file[strings.LastIndex(file, "/")+1:]
	switch r {
	case "pkg/obiutils":
		return base == "gzipfile.go"
	case "pkg/obiformats":
		if strings.Contains(base, "write") || strings.Contains(base, "writer") || base == "dispatcher.go" {
			return true
		}
	case "pkg/obitools/obiconvert":
		return base == "sequence_writer.go"
	}
	return false
}

// inMemory: the receiver is a writer over a local in-memory buffer.
func inMemorySink(info *types.Info, defs map[types.Object][]ast.Expr, recv ast.Expr) bool {
	o := rootObj(info, recv)
	if o == nil {
		return false
	}
	for _, d := range defs[o] {
		call, ok := ast.Unparen(d).(*ast.CallExpr)
		if !ok || len(call.Args) == 0 {
			continue
		}
		fn := fullName(callee(info, call))
		if fn == "bufio.NewWriter" || fn == "encoding/csv.NewWriter" || fn == "bufio.NewWriterSize" {
			if tv, ok := info.Types[call.Args[0]]; ok {
				tn := sinkTypeName(tv.Type)
				if tn == "bytes.Buffer" || tn == "strings.Builder" {
					return true
				}
			}
		}
	}
	return false
}

func runWE1(c *Ctx, s *Sink) {
	c.EachFunc([]string{"pkg/obiutils", "pkg/obiformats", "pkg/obitools/obiconvert"}, func(p *packages.Package, fd *ast.FuncDecl) {
		if !weScope(c, p, fd) {
			return
		}
		info := p.TypesInfo
		defs := collectDefs(info, fd)
		fname := funcName(p, fd)
		counts := map[string]int{}
		var stack []ast.Node
		var visit func(n ast.Node)
		visit = func(n ast.Node) {
			if n == nil {
				return
			}
			stack = append(stack, n)
			defer func() { stack = stack[:len(stack)-1] }()
			if call, ok := n.(*ast.CallExpr); ok {
				if sel, ok := call.Fun.(*ast.SelectorExpr); ok && sinkMethods[sel.Sel.Name] {
					if tv, ok := info.Types[sel.X]; ok && sinkTypes[sinkTypeName(tv.Type)] && returnsError(info, call) && !inMemorySink(info, defs, sel.X) {
						recv := types.ExprString(sel.X)
						k := recv + "." + sel.Sel.Name
						counts[k]++
						key := fmt.Sprintf("%s:%s#%d", fname, k, counts[k])
						disp, why := errorDisposition(info, fd, stack, call)
						if disp {
							s.Pass(nil, key, call.Pos(), why)
						} else {
							s.Fail(nil, key, call.Pos(), "error of "+k+"() on the output path is "+why+": a failed write/flush/close is followed by a successful exit")
						}
					}
				}
			}
			var children []ast.Node
			ast.Inspect(n, func(m ast.Node) bool {
				if m == nil || m == n {
					return m == n
				}
				children = append(children, m)
				return false
			})
			for _, ch := range children {
				visit(ch)
			}
		}
		visit(fd.Body)
	})
}

// errorDisposition decides whether the error result of call is consumed.
func errorDisposition(info *types.Info, fd *ast.FuncDecl, stack []ast.Node, call *ast.CallExpr) (bool, string) {
	// parent statement
	var parent ast.Node
	for i := len(stack) - 2; i >= 0; i-- {
		if _, ok := stack[i].(*ast.ParenExpr); ok {
			continue
		}
		parent = stack[i]
		break
	}
	switch p := parent.(type) {
	case *ast.ExprStmt:
		return false, "discarded (call used as a statement)"
	case *ast.DeferStmt:
		return false, "discarded (deferred call)"
	case *ast.GoStmt:
		return false, "discarded (go statement)"
	case *ast.ReturnStmt:
		return true, "returned to the caller"
	case *ast.AssignStmt:
		var errVar types.Object
		for _, l := range p.Lhs {
			if id, ok := l.(*ast.Ident); ok && id.Name != "_" {
				if o := info.ObjectOf(id); o != nil && o.Type().String() == "error" {
					errVar = o
				}
			}
		}
		if errVar == nil {
			return false, "assigned to the blank identifier"
		}
		// enclosing function literal or declaration body
		var scope ast.Node = fd.Body
		for i := len(stack) - 1; i >= 0; i-- {
			if lit, ok := stack[i].(*ast.FuncLit); ok {
				scope = lit.Body
				break
			}
		}
		if errConsumed(info, scope, errVar, p.End(), 0) {
			return true, "checked (tested with a diverging branch, or returned)"
		}
		return false, "assigned to " + errVar.Name() + " which is never tested or returned afterwards"
	case *ast.IfStmt:
		// if err := call; err != nil {...} handled through AssignStmt; call directly in condition
		return false, "used in a condition only"
	case *ast.BinaryExpr:
		// call() != nil inside an if condition
		for i := len(stack) - 2; i >= 0; i-- {
			if ifs, ok := stack[i].(*ast.IfStmt); ok {
				if blockDiverges(info, ifs.Body) {
					return true, "tested in a condition with a diverging branch"
				}
				break
			}
		}
		return false, "compared but the failing branch continues"
	}
	return false, "used in an unrecognised context"
}

// errConsumed: after position from, inside scope, the variable is tested in an
// if whose condition concerns only the error (no unrelated conjunct) and whose
// body diverges/returns, or appears in a return statement, or is copied into
// another error variable that is consumed — the copy being unconditional or
// guarded by "target == nil" (keep-the-first-error idiom).
func errConsumed(info *types.Info, scope ast.Node, v types.Object, from token.Pos, depth int) bool {
	if depth > 3 {
		return false
	}
	ok := false
	mentions := func(n ast.Node) bool {
		m := false
		ast.Inspect(n, func(x ast.Node) bool {
			if id, isId := x.(*ast.Ident); isId && info.ObjectOf(id) == v {
				m = true
			}
			return true
		})
		return m
	}
	var stack []ast.Node
	var walk func(n ast.Node)
	walk = func(n ast.Node) {
		if n == nil || ok {
			return
		}
		if n.End() <= from {
			return
		}
		stack = append(stack, n)
		defer func() { stack = stack[:len(stack)-1] }()
		switch x := n.(type) {
		case *ast.IfStmt:
			if x.Cond.Pos() >= from && mentions(x.Cond) {
				partial := false
				for _, cj := range conjuncts(x.Cond) {
					if !mentions(cj) {
						partial = true
					}
				}
				if !partial && blockDiverges(info, x.Body) {
					ok = true
					return
				}
			}
		case *ast.ReturnStmt:
			if x.Pos() >= from {
				for _, r := range x.Results {
					if mentions(r) {
						ok = true
					}
				}
			}
		case *ast.AssignStmt:
			if x.Pos() >= from && len(x.Lhs) == 1 && len(x.Rhs) == 1 && mentions(x.Rhs[0]) {
				if id, isId := x.Lhs[0].(*ast.Ident); isId {
					if o := info.ObjectOf(id); o != nil && o != v && o.Type().String() == "error" {
						// every enclosing condition between the scope and this copy must let it run when the target is still nil
						guardOK := true
						for _, anc := range stack {
							ifs, isIf := anc.(*ast.IfStmt)
							if !isIf || !(x.Pos() >= ifs.Body.Pos() && x.End() <= ifs.Body.End()) {
								continue
							}
							if ifs.Pos() < from {
								continue // this condition also guards the call that produced the error
							}
							if !condTrueWhenNil(info, ifs.Cond, o) {
								guardOK = false
							}
						}
						if guardOK && errConsumed(info, scope, o, x.End(), depth+1) {
							ok = true
						}
					}
				}
			}
		}
		var children []ast.Node
		ast.Inspect(n, func(m ast.Node) bool {
			if m == nil || m == n {
				return m == n
			}
			children = append(children, m)
			return false
		})
		for _, ch := range children {
			walk(ch)
		}
	}
	walk(scope)
	return ok
}

// condTrueWhenNil: the condition is "target == nil" (possibly and-ed with nothing else).
func condTrueWhenNil(info *types.Info, cond ast.Expr, target types.Object) bool {
	b, ok := ast.Unparen(cond).(*ast.BinaryExpr)
	if !ok || b.Op != token.EQL {
		return false
	}
	isNil := func(e ast.Expr) bool { id, ok := ast.Unparen(e).(*ast.Ident); return ok && id.Name == "nil" }
	return (rootObj(info, b.X) == target && isNil(b.Y)) || (rootObj(info, b.Y) == target && isNil(b.X))
}

func isNamedResult(info *types.Info, scope ast.Node, v types.Object) bool {
	return false
}
