package main

// JE — the error of a JSON conversion is not dropped by the writers (C16, C02).

import (
	"fmt"
	"go/ast"
	"strings"

	"golang.org/x/tools/go/packages"
)

func init() {
	register(&Rule{
		ID: "JE", Props: []string{"C16", "C02", "C18"}, Min: 3,
		Doc: `"obiannotate applies every requested edit and changes nothing else": the annotations of a record are written by converting the whole map to JSON; encoding/json refuses a NaN or an
infinite number and then writes nothing at all. In pkg/obiformats every call of a JSON conversion that returns an error (json.Marshal…, obiutils.JsonMarshal…) has that error assigned and tested
(not a statement of its own, not assigned to _): FormatFastSeqJsonHeader dropped it and returned the empty buffer, so a record whose edit divides by zero (obiannotate -S
'r=annotations.count/(annotations.count-2)', gcskew() on an AT-only read) was written without any of its attributes — count, sample, taxid, definition — with exit status 0, while the OBI header
writer writes r=+Inf and the JSON writer stops.`,
		Run: func(c *Ctx, s *Sink) {
			c.EachFunc([]string{"pkg/obiformats"}, func(p *packages.Package, fd *ast.FuncDecl) {
				info := p.TypesInfo
				n := 0
				var stack []ast.Node
				ast.Inspect(fd.Body, func(nd ast.Node) bool {
					if nd == nil {
						stack = stack[:len(stack)-1]
						return true
					}
					stack = append(stack, nd)
					call, ok := nd.(*ast.CallExpr)
					if !ok {
						return true
					}
					f := callee(info, call)
					if f == nil || f.Pkg() == nil || !strings.Contains(f.Name(), "Marshal") || strings.Contains(f.Name(), "Unmarshal") {
						return true
					}
					if pp := f.Pkg().Path(); !strings.Contains(pp, "json") && rel(pp) != "pkg/obiutils" {
						return true
					}
					if !returnsError(info, call) {
						return true
					}
					n++
					key := fmt.Sprintf("%s:%s#%d:error-tested", funcName(p, fd), f.Name(), n)
					dropped := false
					switch par := stack[len(stack)-2].(type) {
					case *ast.ExprStmt:
						dropped = true
					case *ast.AssignStmt:
						last := par.Lhs[len(par.Lhs)-1]
						if id, ok := last.(*ast.Ident); ok && id.Name == "_" {
							dropped = true
						}
					}
					if dropped {
						s.Fail(nil, key, call.Pos(), "the error of the JSON conversion is dropped: encoding/json refuses NaN and ±Inf and writes nothing, so the record is written without any of its annotations, exit 0 — obiannotate -S 'r=annotations.count/(annotations.count-2)': the record with count 2 loses count, k, sample and its definition; gcskew(sequence) on an AT-only read does the same")
					} else {
						s.Pass(nil, key, call.Pos(), "the error of the conversion is assigned")
					}
					return true
				})
			})
		},
	})
}
