package main

// KM-3, KM-4 — two more shape rules of the k-mer encoders (C19).

import (
	"fmt"
	"go/ast"
	"go/token"
	"go/types"
	"strings"

	"golang.org/x/tools/go/packages"
)

func init() {
	register(&Rule{
		ID: "KM-3", Props: []string{"C19"}, Min: 3,
		Doc: `a 2-bit symbol is OR-ed into a slot that has just been emptied: in pkg/obikmer, for every word that is rolled by two bits, each X |= code / X = X.Or(code) is preceded on
every path, since the previous OR into X, by a shift of X by 2 (either way: it vacates the low, resp. high, slot) or by X &= ^3; OR-ing a second alternative over the first yields
the bitwise union of two codes (c|g = t) — a k-mer that is not in the sequence. Typestate over go/cfg.`,
		Run: runKM3,
	})
	register(&Rule{
		ID: "KM-4", Props: []string{"C19"}, Min: 1,
		Doc: `the window restarts with the words: in a loop that rolls k-mer words and counts the symbols accumulated (a counter incremented next to the OR and compared with the k-mer
size), every block that resets a rolled word to zero (ambiguous base) also resets the counter to 0; otherwise k-mers are emitted for windows that span the reset, built from the
zeroed words (missing bases read as 'a' on both strands, so the two strands no longer agree).`,
		Run: runKM4,
	})
}

// isShiftAny2: e is x shifted by 2 in either direction (operator or method form), possibly further combined.
func isShiftAny2(info *types.Info, e ast.Expr, x types.Object) bool {
	found := false
	ast.Inspect(e, func(n ast.Node) bool {
		switch t := n.(type) {
		case *ast.BinaryExpr:
			if (t.Op == token.SHL || t.Op == token.SHR) && rootObj(info, t.X) == x && isConstInt(info, t.Y, 2) {
				found = true
			}
		case *ast.CallExpr:
			if sel, ok := t.Fun.(*ast.SelectorExpr); ok && (sel.Sel.Name == "LeftShift" || sel.Sel.Name == "RightShift") && len(t.Args) == 1 && isConstInt(info, t.Args[0], 2) {
				if mentionsVar(info, sel.X, x) {
					found = true
				}
			}
		}
		return true
	})
	return found
}

// orOperand: e ORs something into x (x | v, x.Or(v)); returns true when found.
func isOrInto(info *types.Info, e ast.Expr, x types.Object) bool {
	found := false
	ast.Inspect(e, func(n ast.Node) bool {
		switch t := n.(type) {
		case *ast.BinaryExpr:
			if t.Op == token.OR && (mentionsVar(info, t.X, x) != mentionsVar(info, t.Y, x)) {
				found = true
			}
		case *ast.CallExpr:
			if sel, ok := t.Fun.(*ast.SelectorExpr); ok && sel.Sel.Name == "Or" && len(t.Args) == 1 && mentionsVar(info, sel.X, x) && !mentionsVar(info, t.Args[0], x) {
				found = true
			}
		}
		return true
	})
	return found
}

func isClearLow2(info *types.Info, as *ast.AssignStmt) bool {
	if as.Tok != token.AND_ASSIGN || len(as.Rhs) != 1 {
		return false
	}
	// &^= 3 is AND_NOT_ASSIGN; here: &= ^uint64(3) or &= ^3
	e := ast.Unparen(as.Rhs[0])
	if tv, ok := info.Types[e]; ok && tv.Value != nil {
		// constant: all ones except the two low bits
		s := tv.Value.ExactString()
		return s == "18446744073709551612" || s == "-4" || s == "4294967292"
	}
	return false
}

func runKM3(c *Ctx, s *Sink) {
	c.EachFunc([]string{"pkg/obikmer"}, func(p *packages.Package, fd *ast.FuncDecl) {
		info := p.TypesInfo
		// words: variables shifted by 2 and OR-ed somewhere in the function
		words := map[types.Object]token.Pos{}
		ast.Inspect(fd.Body, func(n ast.Node) bool {
			as, ok := n.(*ast.AssignStmt)
			if !ok {
				return true
			}
			for i, l := range as.Lhs {
				id, ok := ast.Unparen(l).(*ast.Ident)
				if !ok {
					continue
				}
				o := info.ObjectOf(id)
				if o == nil {
					continue
				}
				if as.Tok == token.OR_ASSIGN {
					words[o] = as.Pos()
				} else if i < len(as.Rhs) && as.Tok == token.ASSIGN && isOrInto(info, as.Rhs[i], o) {
					words[o] = as.Pos()
				}
			}
			return true
		})
		for x, pos := range words {
			shifted := false
			ast.Inspect(fd.Body, func(n ast.Node) bool {
				if as, ok := n.(*ast.AssignStmt); ok {
					for i, l := range as.Lhs {
						if rootObj(info, l) != x {
							continue
						}
						if (as.Tok == token.SHL_ASSIGN || as.Tok == token.SHR_ASSIGN) && isConstInt(info, as.Rhs[0], 2) {
							shifted = true
						}
						if i < len(as.Rhs) && isShiftAny2(info, as.Rhs[i], x) {
							shifted = true
						}
					}
				}
				return true
			})
			if !shifted {
				continue // not a rolled word (flags, masks under construction)
			}
			key := funcName(p, fd) + ":or:" + x.Name()
			var body *ast.BlockStmt = fd.Body
			ast.Inspect(fd.Body, func(n ast.Node) bool {
				if lit, ok := n.(*ast.FuncLit); ok && pos >= lit.Pos() && pos < lit.End() {
					body = lit.Body
				}
				return true
			})
			g := buildCFG(info, body)
			const (clean, dirty = 0, 1)
			ts := &typestate{g: g, init: clean, info: info,
				events: func(n ast.Node) []tsEvent {
					var evs []tsEvent
					as, ok := n.(*ast.AssignStmt)
					if !ok {
						return nil
					}
					for i, l := range as.Lhs {
						if id, ok := ast.Unparen(l).(*ast.Ident); !ok || info.ObjectOf(id) != x {
							continue
						}
						var rhs ast.Expr
						if i < len(as.Rhs) {
							rhs = as.Rhs[i]
						} else {
							rhs = as.Rhs[0]
						}
						switch {
						case (as.Tok == token.SHL_ASSIGN || as.Tok == token.SHR_ASSIGN) && isConstInt(info, rhs, 2):
							evs = append(evs, tsEvent{kind: "vacate", node: n})
						case isClearLow2(info, as):
							evs = append(evs, tsEvent{kind: "vacate", node: n})
						case as.Tok == token.OR_ASSIGN:
							evs = append(evs, tsEvent{kind: "or", node: n})
						case as.Tok == token.ASSIGN || as.Tok == token.DEFINE:
							sh := isShiftAny2(info, rhs, x)
							or := isOrInto(info, rhs, x)
							switch {
							case sh && or:
								evs = append(evs, tsEvent{kind: "vacate", node: n}, tsEvent{kind: "or", node: n})
							case sh:
								evs = append(evs, tsEvent{kind: "vacate", node: n})
							case or:
								evs = append(evs, tsEvent{kind: "or", node: n})
							case !mentionsVar(info, rhs, x):
								evs = append(evs, tsEvent{kind: "vacate", node: n}) // fresh value
							}
						}
					}
					return evs
				},
				step: func(st int, ev tsEvent) (int, string) {
					switch ev.kind {
					case "vacate":
						return clean, ""
					case "or":
						if st == dirty {
							return dirty, "a symbol is OR-ed into " + x.Name() + " over the previous one (no shift by 2 and no &= ^3 since the last OR): the slot then holds the bitwise union of two codes"
						}
						return dirty, ""
					}
					return st, ""
				}}
			res := ts.run()
			if len(res.errs) > 0 {
				s.Fail(nil, key, res.errs[0].pos, res.errs[0].msg)
			} else {
				s.Pass(nil, key, pos, "every OR into the word follows a shift by 2 or a clearing of the slot")
			}
		}
	})
}

func runKM4(c *Ctx, s *Sink) {
	c.EachFunc([]string{"pkg/obikmer"}, func(p *packages.Package, fd *ast.FuncDecl) {
		info := p.TypesInfo
		ast.Inspect(fd.Body, func(n ast.Node) bool {
			var loop struct {
				Body *ast.BlockStmt
				Post ast.Stmt
			}
			switch l := n.(type) {
			case *ast.ForStmt:
				loop.Body, loop.Post = l.Body, l.Post
			case *ast.RangeStmt:
				loop.Body = l.Body
			default:
				return true
			}
			// counter: incremented in the loop body (top level) and compared with ==
			var counter types.Object
			for _, st := range loop.Body.List {
				if inc, ok := st.(*ast.IncDecStmt); ok && inc.Tok == token.INC {
					if o := rootObj(info, inc.X); o != nil {
						cmp := false
						ast.Inspect(loop.Body, func(m ast.Node) bool {
							if b, ok := m.(*ast.BinaryExpr); ok && b.Op == token.EQL && (rootObj(info, b.X) == o || rootObj(info, b.Y) == o) {
								cmp = true
							}
							return true
						})
						// not the induction variable
						if post, ok := loop.Post.(*ast.IncDecStmt); ok && rootObj(info, post.X) == o {
							cmp = false
						}
						if cmp {
							counter = o
						}
					}
				}
			}
			if counter == nil {
				return true
			}
			// rolled words of the loop
			words := map[types.Object]bool{}
			ast.Inspect(loop.Body, func(m ast.Node) bool {
				if as, ok := m.(*ast.AssignStmt); ok {
					for i, l := range as.Lhs {
						if o := rootObj(info, l); o != nil && i < len(as.Rhs) && isShiftAny2(info, as.Rhs[i], o) {
							words[o] = true
						}
					}
				}
				return true
			})
			if len(words) == 0 {
				return true
			}
			key := fmt.Sprintf("%s:window:%s", funcName(p, fd), counter.Name())
			var bad []string
			nreset := 0
			ast.Inspect(loop.Body, func(m ast.Node) bool {
				blk, ok := m.(*ast.BlockStmt)
				if !ok {
					return true
				}
				resets, counterReset := []string{}, false
				for _, st := range blk.List {
					as, ok := st.(*ast.AssignStmt)
					if !ok || len(as.Lhs) != 1 || len(as.Rhs) != 1 || as.Tok != token.ASSIGN {
						continue
					}
					o := rootObj(info, as.Lhs[0])
					if words[o] && !mentionsVar(info, as.Rhs[0], o) {
						resets = append(resets, o.Name())
					}
					if o == counter && isConstInt(info, as.Rhs[0], 0) {
						counterReset = true
					}
				}
				if len(resets) > 0 {
					nreset++
					if !counterReset {
						bad = append(bad, fmt.Sprintf("%s: %s reset without %s = 0", c.Pos(blk.Pos()), strings.Join(resets, ", "), counter.Name()))
					}
				}
				return true
			})
			switch {
			case len(bad) > 0:
				s.Fail(nil, key, n.Pos(), "the rolled words are reset but the count of accumulated symbols is not: "+strings.Join(bad, "; ")+": k-mers spanning the reset are emitted from the zeroed words, the two strands give different canonical k-mers")
			default:
				s.Pass(nil, key, n.Pos(), fmt.Sprintf("%d reset block(s) of the rolled words, each resetting %s too", nreset, counter.Name()))
			}
			return true
		})
	})
}

func init() {
	register(&Rule{
		ID: "KM-5", Props: []string{"C19", "C20"}, Min: 3,
		Doc: `the k-mer mask is built without overflowing when the k-mer fills the word: in NewKmerMap every LeftShift of the constant one by an amount 2·kmersize + c (kmersize is bounded only
by the word width: 32 symbols in Uint64, 64 in Uint128 — the range the property quantifies over) has c < 0; (1 << 2k) − 1 shifts the one out of the word for the largest k, the mask becomes 0 − 1
and the fixed-precision Sub panics; and every unsigned shift amount computed by a subtraction (2k − 1, k − 1 − sparseAt) is proved non-negative on every path reaching it (paths ended by
Fatal/Panic excluded; the parity adjustments k++ / k-- are followed): for k = 0 the amount wraps to 2^64 − 1.`,
		Run: runKM5,
	})
}

func runKM5(c *Ctx, s *Sink) {
	fd, p := c.FindFunc("pkg/obikmer", "NewKmerMap")
	key := "pkg/obikmer.NewKmerMap:mask"
	if fd == nil {
		s.Undecided(nil, key, 0, "function not found")
		return
	}
	info := p.TypesInfo
	var kobj types.Object
	for _, id := range flattenParams(fd.Type.Params) {
		if id != nil && strings.Contains(strings.ToLower(id.Name), "kmersize") {
			kobj = info.ObjectOf(id)
		}
	}
	if kobj == nil {
		s.Undecided(nil, key, fd.Pos(), "no k-mer size parameter")
		return
	}
	defs := collectDefs(info, fd)
	isOne := func(e ast.Expr) bool {
		e = ast.Unparen(e)
		if id, ok := e.(*ast.Ident); ok {
			if ds := defs[info.ObjectOf(id)]; len(ds) == 1 && ds[0] != nil {
				e = ast.Unparen(ds[0])
			}
		}
		call, ok := e.(*ast.CallExpr)
		if !ok {
			return false
		}
		f := callee(info, call)
		return f != nil && f.Name() == "OneUint"
	}
	n := 0
	var bad []string
	ast.Inspect(fd.Body, func(nd ast.Node) bool {
		call, ok := nd.(*ast.CallExpr)
		if !ok || len(call.Args) != 1 {
			return true
		}
		sel, ok := call.Fun.(*ast.SelectorExpr)
		if !ok || sel.Sel.Name != "LeftShift" || !isOne(sel.X) {
			return true
		}
		a, b, ok := affineIn(info, call.Args[0], kobj)
		if !ok || a != 2 {
			return true
		}
		n++
		if b >= 0 {
			bad = append(bad, fmt.Sprintf("%s: one.LeftShift(%s) = 1 << (2k%+d)", c.Pos(call.Pos()), types.ExprString(call.Args[0]), b))
		}
		return true
	})
	// (2) no shift amount wraps below zero: the amounts are unsigned, 2k − 1 for k = 0 is 2^64 − 1
	key2 := "pkg/obikmer.NewKmerMap:shift-amounts-do-not-wrap"
	env := &linEnv{info: info, vars: map[types.Object]linForm{}, defs: map[types.Object][]ast.Expr{}, atoms: map[string]bool{}, lens: map[string]bool{}, elems: map[string]linForm{}}
	start := linPath{env: env}
	if kf, ok := env.form(ast.NewIdent(kobj.Name()), 0); ok {
		_ = kf
	}
	nShift, wrap := 0, ""
	var wrapPos token.Pos
	seen := map[token.Pos]bool{}
	linWalk([]linPath{start}, fd.Body.List, func(pth linPath, st ast.Stmt) {
		if _, ok := st.(*ast.ForStmt); ok {
			return
		}
		ast.Inspect(st, func(nd ast.Node) bool {
			if _, ok := nd.(*ast.FuncLit); ok {
				return false
			}
			call, ok := nd.(*ast.CallExpr)
			if !ok || len(call.Args) != 1 {
				return true
			}
			sel, ok := call.Fun.(*ast.SelectorExpr)
			if !ok || (sel.Sel.Name != "LeftShift" && sel.Sel.Name != "RightShift") {
				return true
			}
			hasSub := false
			ast.Inspect(call.Args[0], func(m ast.Node) bool {
				if b, ok := m.(*ast.BinaryExpr); ok && b.Op == token.SUB {
					hasSub = true
				}
				return true
			})
			if !hasSub {
				// a variable defined by a subtraction
				if id, ok := ast.Unparen(call.Args[0]).(*ast.Ident); ok {
					for _, d := range defs[info.ObjectOf(id)] {
						if d != nil {
							ast.Inspect(d, func(m ast.Node) bool {
								if b, ok := m.(*ast.BinaryExpr); ok && b.Op == token.SUB {
									hasSub = true
								}
								return true
							})
						}
					}
				}
			}
			if !hasSub {
				return true
			}
			if !seen[call.Pos()] {
				seen[call.Pos()] = true
				nShift++
			}
			pth.env.cur = pth.sys
			f, ok := pth.env.form(call.Args[0], 0)
			kn := pth.known()
			// the unsigned parameter is not negative
			if kfm, ok2 := pth.env.form(ast.NewIdent("\x00"), 0); ok2 {
				_ = kfm
			}
			if !ok || !kn.entails(linLE(lfConst(0), f)) {
				wrap = fmt.Sprintf("%s: %s(%s)", c.Pos(call.Pos()), sel.Sel.Name, types.ExprString(call.Args[0]))
				wrapPos = call.Pos()
			}
			return true
		})
	})
	// (3) the k-mer fits the word: before the mask, a guard ends the program when the size exceeds a bound that is not a
	// constant of the function (the width depends on the type parameter)
	key3 := "pkg/obikmer.NewKmerMap:kmer-fits-the-word"
	fits := false
	for _, st := range fd.Body.List {
		ifs, ok := st.(*ast.IfStmt)
		if !ok {
			continue
		}
		b, ok := ast.Unparen(ifs.Cond).(*ast.BinaryExpr)
		if !ok || (b.Op != token.GTR && b.Op != token.GEQ) || rootObj(info, b.X) != kobj {
			continue
		}
		if _, isCall := ast.Unparen(b.Y).(*ast.CallExpr); !isCall {
			continue
		}
		ends := false
		ast.Inspect(ifs.Body, func(m ast.Node) bool {
			if call, ok := m.(*ast.CallExpr); ok && linEndsProgram(info, call) {
				ends = true
			}
			return true
		})
		if ends {
			fits = true
		}
	}
	if fits {
		s.Pass(nil, key3, fd.Pos(), "a k-mer size beyond what the word of the type parameter holds ends the program with a message")
	} else {
		s.Fail(nil, key3, fd.Pos(), "nothing compares the k-mer size with the width of the word: a k-mer that does not fit is 'refused' by the arithmetic panic of the mask (obikmersimcount -k 66: Uint128 underflow at Sub({0 0}, {0 1}) and a goroutine dump), where the sibling De Bruijn graph refuses it with a message")
	}
	switch {
	case wrap != "":
		s.Fail(nil, key2, wrapPos, "an unsigned shift amount computed by a subtraction is not proved non-negative on every path ("+wrap+"): for a k-mer size of 0 — reached by -k 0, and by -k 1 which the parity adjustment decrements — 2k − 1 wraps to 2^64 − 1, the shift empties the word and the fixed-precision Sub(1) panics (obikmersimcount -k 1: Uint128 underflow at Sub({0 0}, {0 1}), exit status 2) instead of refusing the size")
	case nShift == 0:
		s.Pass(nil, key2, fd.Pos(), "no shift amount is computed by a subtraction")
	default:
		s.Pass(nil, key2, fd.Pos(), fmt.Sprintf("%d shift amount(s) computed by a subtraction, each >= 0 on every path (Fourier–Motzkin)", nShift))
	}
	switch {
	case len(bad) > 0:
		s.Fail(nil, key, fd.Pos(), "the k-mer mask shifts the constant one by the full width of the word when the k-mer fills it (k = 32 in Uint64, 64 in Uint128): "+strings.Join(bad, "; ")+" — the shift yields 0 and the following Sub(1) panics (underflow) instead of producing the all-ones mask")
	case n == 0:
		s.Pass(nil, key, fd.Pos(), "no shift of the constant one by 2·kmersize + c")
	default:
		s.Pass(nil, key, fd.Pos(), fmt.Sprintf("%d shift(s) of the constant one by 2·kmersize + c, all with c < 0", n))
	}
}
