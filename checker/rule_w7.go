package main

// W-7 — an output file is opened either truncated or in append mode (C04).

import (
	"fmt"
	"go/ast"
	"go/constant"
	"go/token"
	"go/types"
	"strings"

	"golang.org/x/tools/go/packages"
)

func init() {
	register(&Rule{
		ID: "W-7", Props: []string{"C04"}, Min: 8,
		Doc: `what a writer leaves in a file is exactly what it wrote: every os.OpenFile of the module that may create a file for writing (O_CREATE with O_WRONLY or O_RDWR) carries, on every path
of the function computing its flag argument (constant folding of |, |= and if/else, followed one level to the static call sites when the flag is a parameter), O_TRUNC, O_APPEND or O_EXCL.
Without one of them the new content overwrites the beginning of a longer existing file and the tail of the previous content follows the last record.`,
		Run: runW7,
	})
}

// flagValues enumerates the values of the integer variable obj at the statement containing `at`, following the statement
// list `list` (assignments, |= and if/else only). ok=false when obj is changed by a construct not handled.
func flagValues(info *types.Info, list []ast.Stmt, obj types.Object, at token.Pos, in []int64, known bool) (out []int64, reached bool, ok bool) {
	vals := in
	ok = true
	assigns := func(n ast.Node) bool {
		found := false
		ast.Inspect(n, func(m ast.Node) bool {
			switch x := m.(type) {
			case *ast.AssignStmt:
				for _, l := range x.Lhs {
					if id, isId := ast.Unparen(l).(*ast.Ident); isId && info.ObjectOf(id) == obj {
						found = true
					}
				}
			case *ast.UnaryExpr:
				if x.Op == token.AND {
					if id, isId := ast.Unparen(x.X).(*ast.Ident); isId && info.ObjectOf(id) == obj {
						found = true
					}
				}
			}
			return true
		})
		return found
	}
	constOf := func(e ast.Expr) (int64, bool) {
		if tv, has := info.Types[e]; has && tv.Value != nil && tv.Value.Kind() == constant.Int {
			return constant.Int64Val(tv.Value)
		}
		return 0, false
	}
	for _, st := range list {
		if st.Pos() <= at && at < st.End() {
			// the use is inside this statement; nested blocks are entered only for if statements
			if ifs, isIf := st.(*ast.IfStmt); isIf {
				if ifs.Body.Pos() <= at && at < ifs.Body.End() {
					return flagValues(info, ifs.Body.List, obj, at, vals, known)
				}
				if blk, isBlk := ifs.Else.(*ast.BlockStmt); isBlk && blk.Pos() <= at && at < blk.End() {
					return flagValues(info, blk.List, obj, at, vals, known)
				}
			}
			return vals, true, ok && known
		}
		switch x := st.(type) {
		case *ast.AssignStmt:
			for i, l := range x.Lhs {
				id, isId := ast.Unparen(l).(*ast.Ident)
				if !isId || info.ObjectOf(id) != obj {
					continue
				}
				if len(x.Lhs) != len(x.Rhs) {
					return nil, false, false
				}
				switch x.Tok {
				case token.DEFINE, token.ASSIGN:
					if v, isC := constOf(x.Rhs[i]); isC {
						vals, known = []int64{v}, true
					} else if b, isB := ast.Unparen(x.Rhs[i]).(*ast.BinaryExpr); isB && b.Op == token.OR {
						// flags = flags | C
						lid, lok := ast.Unparen(b.X).(*ast.Ident)
						v, isC := constOf(b.Y)
						if lok && info.ObjectOf(lid) == obj && isC && known {
							for k := range vals {
								vals[k] |= v
							}
						} else {
							return nil, false, false
						}
					} else {
						return nil, false, false
					}
				case token.OR_ASSIGN:
					v, isC := constOf(x.Rhs[i])
					if !isC || !known {
						return nil, false, false
					}
					nv := make([]int64, len(vals))
					for k := range vals {
						nv[k] = vals[k] | v
					}
					vals = nv
				default:
					return nil, false, false
				}
			}
		case *ast.DeclStmt:
			if gd, isG := x.Decl.(*ast.GenDecl); isG {
				for _, sp := range gd.Specs {
					if vs, isV := sp.(*ast.ValueSpec); isV {
						for i, nm := range vs.Names {
							if info.ObjectOf(nm) == obj {
								if i < len(vs.Values) {
									if v, isC := constOf(vs.Values[i]); isC {
										vals, known = []int64{v}, true
										continue
									}
									return nil, false, false
								}
								vals, known = []int64{0}, true
							}
						}
					}
				}
			}
		case *ast.IfStmt:
			if !assigns(x) {
				continue
			}
			if x.Init != nil && assigns(x.Init) {
				return nil, false, false
			}
			thenV, _, ok1 := flagValues(info, x.Body.List, obj, token.NoPos, append([]int64(nil), vals...), known)
			elseV := append([]int64(nil), vals...)
			ok2 := true
			switch e := x.Else.(type) {
			case nil:
			case *ast.BlockStmt:
				elseV, _, ok2 = flagValues(info, e.List, obj, token.NoPos, elseV, known)
			case *ast.IfStmt:
				elseV, _, ok2 = flagValues(info, []ast.Stmt{e}, obj, token.NoPos, elseV, known)
			}
			if !ok1 || !ok2 {
				return nil, false, false
			}
			vals = append(thenV, elseV...)
		default:
			if assigns(st) {
				return nil, false, false
			}
		}
	}
	return vals, false, ok
}

func runW7(c *Ctx, s *Sink) {
	var osPkg *types.Package
	flag := func(name string) int64 {
		if osPkg == nil {
			return 0
		}
		if k, ok := osPkg.Scope().Lookup(name).(*types.Const); ok {
			v, _ := constant.Int64Val(k.Val())
			return v
		}
		return 0
	}
	type site struct {
		p    *packages.Package
		fd   *ast.FuncDecl
		call *ast.CallExpr
	}
	var sites []site
	c.EachFunc([]string{"pkg", "cmd"}, func(p *packages.Package, fd *ast.FuncDecl) {
		ast.Inspect(fd.Body, func(n ast.Node) bool {
			if call, ok := n.(*ast.CallExpr); ok && len(call.Args) == 3 {
				if f := callee(p.TypesInfo, call); f != nil && f.Pkg() != nil && f.Pkg().Path() == "os" && f.Name() == "OpenFile" {
					osPkg = f.Pkg()
					sites = append(sites, site{p, fd, call})
				}
			}
			return true
		})
	})
	// values of expression e evaluated in fd at position at
	var valuesOf func(p *packages.Package, fd *ast.FuncDecl, e ast.Expr, at token.Pos, depth int) ([]int64, string)
	valuesOf = func(p *packages.Package, fd *ast.FuncDecl, e ast.Expr, at token.Pos, depth int) ([]int64, string) {
		info := p.TypesInfo
		if tv, has := info.Types[e]; has && tv.Value != nil && tv.Value.Kind() == constant.Int {
			v, _ := constant.Int64Val(tv.Value)
			return []int64{v}, ""
		}
		id, ok := ast.Unparen(e).(*ast.Ident)
		if !ok {
			return nil, "flag argument " + types.ExprString(e) + " is neither a constant nor a variable"
		}
		obj := info.ObjectOf(id)
		if k, lit := paramIndex(info, fd, obj); k >= 0 && lit == nil {
			if depth >= 2 {
				return nil, "flag parameter chain too deep"
			}
			self, _ := info.Defs[fd.Name].(*types.Func)
			var out []int64
			why := ""
			c.EachFunc(nil, func(cp *packages.Package, cfd *ast.FuncDecl) {
				ast.Inspect(cfd.Body, func(m ast.Node) bool {
					if call, isCall := m.(*ast.CallExpr); isCall && callee(cp.TypesInfo, call) == self && k < len(call.Args) {
						v, w := valuesOf(cp, cfd, call.Args[k], call.Pos(), depth+1)
						if w != "" {
							why = w
						}
						out = append(out, v...)
					}
					return true
				})
			})
			return out, why
		}
		vals, reached, ok := flagValues(info, fd.Body.List, obj, at, nil, false)
		if !ok || !reached {
			return nil, "the flag variable " + id.Name + " is computed by a construct the rule does not fold"
		}
		return vals, ""
	}
	perFn := map[string]int{}
	for _, st := range sites {
		name := funcName(st.p, st.fd)
		perFn[name]++
		key := fmt.Sprintf("%s:openfile#%d", name, perFn[name])
		vals, why := valuesOf(st.p, st.fd, st.call.Args[1], st.call.Pos(), 0)
		if why != "" {
			s.Undecided(nil, key, st.call.Pos(), why)
			continue
		}
		create, wr := flag("O_CREATE"), flag("O_WRONLY")|flag("O_RDWR")
		safe := flag("O_TRUNC") | flag("O_APPEND") | flag("O_EXCL")
		bad := 0
		writes := 0
		for _, v := range vals {
			if v&create != 0 && v&wr != 0 {
				writes++
				if v&safe == 0 {
					bad++
				}
			}
		}
		switch {
		case bad > 0:
			s.Fail(nil, key, st.call.Pos(), fmt.Sprintf("on %d of the %d paths computing its flags the file is created for writing with neither O_TRUNC nor O_APPEND: written over a longer existing file, the output is followed by the tail of the old content (%s)", bad, len(vals), strings.TrimSpace(types.ExprString(st.call.Args[1]))))
		case len(vals) == 0:
			s.Pass(nil, key, st.call.Pos(), "flag parameter of an exported function with no call site in the module")
		default:
			s.Pass(nil, key, st.call.Pos(), fmt.Sprintf("%d flag value(s), %d creating for writing, all with O_TRUNC, O_APPEND or O_EXCL", len(vals), writes))
		}
	}
}
