package main

// Finite evaluation of small pure functions and constant tables read from the
// type-checked AST (decision tables of byte classifiers, complement tables).
// Only loop-free code over integers/booleans is accepted: comparisons, boolean
// and bitwise operators, indexing of constant tables, if/switch/return and
// assignments to locals.  Anything else makes the evaluation fail (undecided).

import (
	"fmt"
	"go/ast"
	"go/constant"
	"go/token"
	"go/types"
	"strconv"

	"golang.org/x/tools/go/packages"
)

type cevalue struct {
	i      int64
	b      bool
	isBool bool
	unk    bool // lenient mode: value not computable (result of a call, string, …)
}

type ceval struct {
	p    *packages.Package
	info *types.Info
	env  map[types.Object]cevalue
	err  error
	c    *Ctx
	// indexHook supplies the value of an index expression on a non-constant operand (the scanned buffer)
	indexHook func(*ast.IndexExpr) (int64, bool)
	// assigned records the variables written during the evaluation
	assigned map[types.Object]bool
	// lenient mode (event tracing of parser automata): expressions that cannot be evaluated yield an
	// unknown value instead of failing; calls are reported to onCall; a condition on an unknown fails.
	lenient bool
	onCall  func(call *ast.CallExpr)
	onStore func(o types.Object, rhs ast.Expr)
	fatal   bool // a no-return call was executed on this path
}

type ceReturn struct{ v []cevalue }

func (e *ceval) fail(format string, a ...any) cevalue {
	if e.lenient {
		return cevalue{unk: true}
	}
	if e.err == nil {
		e.err = fmt.Errorf(format, a...)
	}
	return cevalue{}
}

func (e *ceval) hardFail(format string, a ...any) {
	if e.err == nil {
		e.err = fmt.Errorf(format, a...)
	}
}

// constTable returns the integer elements of a package-level array/slice
// variable initialised by a composite literal of constants or []byte("...").
func constTable(p *packages.Package, name string) ([]int64, token.Pos, error) {
	o := p.Types.Scope().Lookup(name)
	if o == nil {
		return nil, 0, fmt.Errorf("table %s not found", name)
	}
	for _, f := range p.Syntax {
		for _, d := range f.Decls {
			gd, ok := d.(*ast.GenDecl)
			if !ok {
				continue
			}
			for _, sp := range gd.Specs {
				vs, ok := sp.(*ast.ValueSpec)
				if !ok {
					continue
				}
				for i, n := range vs.Names {
					if p.TypesInfo.Defs[n] != o || i >= len(vs.Values) {
						continue
					}
					vals, err := constElems(p.TypesInfo, vs.Values[i])
					return vals, n.Pos(), err
				}
			}
		}
	}
	return nil, 0, fmt.Errorf("table %s has no initialiser", name)
}

func constElems(info *types.Info, e ast.Expr) ([]int64, error) {
	e = ast.Unparen(e)
	switch x := e.(type) {
	case *ast.CompositeLit:
		var out []int64
		for _, el := range x.Elts {
			if kv, ok := el.(*ast.KeyValueExpr); ok {
				k, ok1 := constInt(info, kv.Key)
				v, ok2 := constInt(info, kv.Value)
				if !ok1 || !ok2 {
					return nil, fmt.Errorf("non-constant element")
				}
				for int64(len(out)) <= k {
					out = append(out, 0)
				}
				out[k] = v
				continue
			}
			v, ok := constInt(info, el)
			if !ok {
				return nil, fmt.Errorf("non-constant element %s", types.ExprString(el))
			}
			out = append(out, v)
		}
		return out, nil
	case *ast.CallExpr:
		// []byte("...")
		if len(x.Args) == 1 {
			if tv, ok := info.Types[x.Args[0]]; ok && tv.Value != nil && tv.Value.Kind() == constant.String {
				s := constant.StringVal(tv.Value)
				var out []int64
				for i := 0; i < len(s); i++ {
					out = append(out, int64(s[i]))
				}
				return out, nil
			}
		}
	}
	return nil, fmt.Errorf("unsupported table initialiser")
}

func constInt(info *types.Info, e ast.Expr) (int64, bool) {
	if tv, ok := info.Types[e]; ok && tv.Value != nil {
		if v, ok := constant.Int64Val(constant.ToInt(tv.Value)); ok {
			return v, true
		}
	}
	return 0, false
}

// constMap returns a package-level map literal with constant integer keys;
// values are either constants or composite literals of constants.
func constMap(p *packages.Package, name string) (map[int64][]int64, token.Pos, error) {
	o := p.Types.Scope().Lookup(name)
	if o == nil {
		return nil, 0, fmt.Errorf("map %s not found", name)
	}
	for _, f := range p.Syntax {
		for _, d := range f.Decls {
			gd, ok := d.(*ast.GenDecl)
			if !ok {
				continue
			}
			for _, sp := range gd.Specs {
				vs, ok := sp.(*ast.ValueSpec)
				if !ok {
					continue
				}
				for i, n := range vs.Names {
					if p.TypesInfo.Defs[n] != o || i >= len(vs.Values) {
						continue
					}
					cl, ok := ast.Unparen(vs.Values[i]).(*ast.CompositeLit)
					if !ok {
						return nil, n.Pos(), fmt.Errorf("map %s is not a literal", name)
					}
					out := map[int64][]int64{}
					for _, el := range cl.Elts {
						kv, ok := el.(*ast.KeyValueExpr)
						if !ok {
							return nil, n.Pos(), fmt.Errorf("bad element")
						}
						k, ok := constInt(p.TypesInfo, kv.Key)
						if !ok {
							return nil, n.Pos(), fmt.Errorf("non-constant key")
						}
						if v, ok := constInt(p.TypesInfo, kv.Value); ok {
							out[k] = []int64{v}
							continue
						}
						vals, err := constElems(p.TypesInfo, kv.Value)
						if err != nil {
							return nil, n.Pos(), err
						}
						out[k] = vals
					}
					return out, n.Pos(), nil
				}
			}
		}
	}
	return nil, 0, fmt.Errorf("map %s has no initialiser", name)
}

// callPure evaluates fd(args...) and returns its results.
func callPure(c *Ctx, p *packages.Package, fd *ast.FuncDecl, args ...int64) ([]cevalue, error) {
	e := &ceval{p: p, info: p.TypesInfo, env: map[types.Object]cevalue{}, c: c}
	params := flattenParams(fd.Type.Params)
	if len(params) != len(args) {
		return nil, fmt.Errorf("arity mismatch")
	}
	for i, pr := range params {
		o := e.info.ObjectOf(pr)
		e.env[o] = cevalue{i: e.wrap(args[i], o.Type())}
	}
	ret := e.block(fd.Body.List)
	if e.err != nil {
		return nil, e.err
	}
	if ret == nil {
		return nil, fmt.Errorf("no return reached")
	}
	return ret.v, nil
}

func (e *ceval) wrap(v int64, t types.Type) int64 {
	if b, ok := t.Underlying().(*types.Basic); ok {
		switch b.Kind() {
		case types.Uint8:
			return int64(uint8(v))
		case types.Int8:
			return int64(int8(v))
		case types.Uint16:
			return int64(uint16(v))
		case types.Uint32:
			return int64(uint32(v))
		case types.Int32:
			return int64(int32(v))
		}
	}
	return v
}

func (e *ceval) block(list []ast.Stmt) *ceReturn {
	for _, st := range list {
		if e.err != nil {
			return nil
		}
		if r := e.stmt(st); r != nil {
			return r
		}
	}
	return nil
}

func (e *ceval) stmt(st ast.Stmt) *ceReturn {
	switch x := st.(type) {
	case *ast.ReturnStmt:
		var vs []cevalue
		for _, r := range x.Results {
			vs = append(vs, e.expr(r))
		}
		return &ceReturn{vs}
	case *ast.IfStmt:
		if x.Init != nil {
			if r := e.stmt(x.Init); r != nil {
				return r
			}
		}
		c := e.expr(x.Cond)
		if e.err != nil {
			return nil
		}
		if c.unk {
			if e.lenient && x.Else == nil && blockDiverges(e.info, x.Body) {
				return nil // a guard that only aborts: the continuing path is the one traced
			}
			e.hardFail("condition %s depends on a value that cannot be evaluated", types.ExprString(x.Cond))
			return nil
		}
		if c.b {
			return e.block(x.Body.List)
		}
		switch el := x.Else.(type) {
		case *ast.BlockStmt:
			return e.block(el.List)
		case *ast.IfStmt:
			return e.stmt(el)
		}
		return nil
	case *ast.SwitchStmt:
		if x.Init != nil {
			e.stmt(x.Init)
		}
		var tag *cevalue
		if x.Tag != nil {
			t := e.expr(x.Tag)
			if t.unk {
				e.hardFail("switch tag cannot be evaluated")
				return nil
			}
			tag = &t
		}
		var def *ast.CaseClause
		for _, cc := range x.Body.List {
			clause := cc.(*ast.CaseClause)
			if clause.List == nil {
				def = clause
				continue
			}
			for _, ce := range clause.List {
				v := e.expr(ce)
				if e.err != nil {
					return nil
				}
				if v.unk {
					e.hardFail("case expression cannot be evaluated")
					return nil
				}
				if (tag == nil && v.b) || (tag != nil && v.i == tag.i && v.isBool == tag.isBool && v.b == tag.b) {
					return e.block(clause.Body)
				}
			}
		}
		if def != nil {
			return e.block(def.Body)
		}
		return nil
	case *ast.AssignStmt:
		if len(x.Lhs) != len(x.Rhs) {
			if e.lenient {
				for _, r := range x.Rhs {
					e.expr(r)
				}
				for _, l := range x.Lhs {
					if id, ok := l.(*ast.Ident); ok {
						if o := e.info.ObjectOf(id); o != nil {
							e.env[o] = cevalue{unk: true}
							if e.onStore != nil {
								e.onStore(o, x.Rhs[0])
							}
						}
					}
				}
				return nil
			}
			e.fail("unsupported assignment")
			return nil
		}
		for i, l := range x.Lhs {
			id, ok := l.(*ast.Ident)
			if !ok {
				if e.lenient {
					e.expr(x.Rhs[i])
					continue
				}
				e.fail("assignment to non-identifier")
				return nil
			}
			o := e.info.ObjectOf(id)
			r := e.expr(x.Rhs[i])
			if e.onStore != nil && o != nil {
				e.onStore(o, x.Rhs[i])
			}
			switch x.Tok {
			case token.ASSIGN, token.DEFINE:
			case token.OR_ASSIGN:
				r = cevalue{i: e.env[o].i | r.i}
			case token.AND_ASSIGN:
				r = cevalue{i: e.env[o].i & r.i}
			case token.ADD_ASSIGN:
				r = cevalue{i: e.env[o].i + r.i}
			case token.SUB_ASSIGN:
				r = cevalue{i: e.env[o].i - r.i}
			default:
				e.fail("unsupported assignment operator %s", x.Tok)
				return nil
			}
			if !r.isBool && o != nil {
				r.i = e.wrap(r.i, o.Type())
			}
			e.env[o] = r
			if e.assigned != nil {
				e.assigned[o] = true
			}
		}
		return nil
	case *ast.DeclStmt:
		if gd, ok := x.Decl.(*ast.GenDecl); ok {
			for _, sp := range gd.Specs {
				if vs, ok := sp.(*ast.ValueSpec); ok {
					for i, n := range vs.Names {
						v := cevalue{}
						if i < len(vs.Values) {
							v = e.expr(vs.Values[i])
						}
						e.env[e.info.ObjectOf(n)] = v
					}
				}
			}
		}
		return nil
	case *ast.BlockStmt:
		return e.block(x.List)
	case *ast.ExprStmt:
		if call, ok := x.X.(*ast.CallExpr); ok && e.lenient {
			if noReturnCall(e.info, call) {
				e.fatal = true
				return &ceReturn{}
			}
			e.expr(call)
			return nil
		}
		if call, ok := x.X.(*ast.CallExpr); ok && isLoggingCall(e.info, call) {
			return nil
		}
		e.fail("expression statement not supported")
		return nil
	case *ast.BranchStmt:
		return nil
	case *ast.IncDecStmt:
		if id, ok := x.X.(*ast.Ident); ok {
			o := e.info.ObjectOf(id)
			v := e.env[o]
			if x.Tok == token.INC {
				v.i++
			} else {
				v.i--
			}
			e.env[o] = v
			if e.assigned != nil {
				e.assigned[o] = true
			}
			return nil
		}
		e.fail("unsupported inc/dec")
		return nil
	}
	e.fail("unsupported statement %T", st)
	return nil
}

func (e *ceval) expr(x ast.Expr) cevalue {
	if e.err != nil {
		return cevalue{}
	}
	x = ast.Unparen(x)
	if tv, ok := e.info.Types[x]; ok && tv.Value != nil {
		switch tv.Value.Kind() {
		case constant.Bool:
			return cevalue{b: constant.BoolVal(tv.Value), isBool: true}
		case constant.Int:
			v, _ := constant.Int64Val(tv.Value)
			return cevalue{i: v}
		}
	}
	switch t := x.(type) {
	case *ast.Ident:
		o := e.info.ObjectOf(t)
		if v, ok := e.env[o]; ok {
			return v
		}
		if e.lenient {
			return cevalue{unk: true}
		}
		return e.fail("unknown identifier %s", t.Name)
	case *ast.BasicLit:
		if t.Kind == token.CHAR {
			r, _, _, err := strconv.UnquoteChar(t.Value[1:len(t.Value)-1], '\'')
			if err == nil {
				return cevalue{i: int64(r)}
			}
		}
		return e.fail("unsupported literal")
	case *ast.UnaryExpr:
		v := e.expr(t.X)
		if v.unk {
			return v
		}
		switch t.Op {
		case token.NOT:
			return cevalue{b: !v.b, isBool: true}
		case token.SUB:
			return cevalue{i: -v.i}
		case token.XOR:
			return cevalue{i: e.wrapExpr(^v.i, x)}
		}
		return e.fail("unsupported unary %s", t.Op)
	case *ast.BinaryExpr:
		if (t.Op == token.LAND || t.Op == token.LOR) && e.lenient {
			if l := e.expr(t.X); l.unk {
				return l
			}
		}
		if t.Op == token.LAND {
			l := e.expr(t.X)
			if !l.b {
				return cevalue{b: false, isBool: true}
			}
			return e.expr(t.Y)
		}
		if t.Op == token.LOR {
			l := e.expr(t.X)
			if l.b {
				return cevalue{b: true, isBool: true}
			}
			return e.expr(t.Y)
		}
		l, r := e.expr(t.X), e.expr(t.Y)
		if l.unk || r.unk {
			return cevalue{unk: true}
		}
		bv := func(b bool) cevalue { return cevalue{b: b, isBool: true} }
		switch t.Op {
		case token.EQL:
			if l.isBool {
				return bv(l.b == r.b)
			}
			return bv(l.i == r.i)
		case token.NEQ:
			if l.isBool {
				return bv(l.b != r.b)
			}
			return bv(l.i != r.i)
		case token.LSS:
			return bv(l.i < r.i)
		case token.LEQ:
			return bv(l.i <= r.i)
		case token.GTR:
			return bv(l.i > r.i)
		case token.GEQ:
			return bv(l.i >= r.i)
		case token.AND:
			return cevalue{i: l.i & r.i}
		case token.OR:
			return cevalue{i: e.wrapExpr(l.i|r.i, x)}
		case token.XOR:
			return cevalue{i: e.wrapExpr(l.i^r.i, x)}
		case token.ADD:
			return cevalue{i: e.wrapExpr(l.i+r.i, x)}
		case token.SUB:
			return cevalue{i: e.wrapExpr(l.i-r.i, x)}
		case token.SHL:
			return cevalue{i: e.wrapExpr(l.i<<uint(r.i), x)}
		case token.SHR:
			return cevalue{i: l.i >> uint(r.i)}
		case token.AND_NOT:
			return cevalue{i: l.i &^ r.i}
		}
		return e.fail("unsupported operator %s", t.Op)
	case *ast.IndexExpr:
		idx := e.expr(t.Index)
		if id, ok := ast.Unparen(t.X).(*ast.Ident); ok {
			o := e.info.ObjectOf(id)
			if o != nil && o.Parent() == e.p.Types.Scope() {
				tab, _, err := constTable(e.p, id.Name)
				if err != nil {
					return e.fail("%v", err)
				}
				if idx.i < 0 || idx.i >= int64(len(tab)) {
					return e.fail("index %d out of table %s", idx.i, id.Name)
				}
				return cevalue{i: tab[idx.i]}
			}
		}
		if e.indexHook != nil {
			if v, ok := e.indexHook(t); ok {
				return cevalue{i: v}
			}
		}
		return e.fail("unsupported index expression")
	case *ast.CallExpr:
		if tv, ok := e.info.Types[t.Fun]; ok && tv.IsType() && len(t.Args) == 1 {
			v := e.expr(t.Args[0])
			if v.unk {
				return v
			}
			return cevalue{i: e.wrap(v.i, tv.Type)}
		}
		if e.lenient {
			for _, a := range t.Args {
				e.expr(a)
			}
			if e.onCall != nil {
				e.onCall(t)
			}
			return cevalue{unk: true}
		}
		// call of another pure function of the same package
		if fn := callee(e.info, t); fn != nil && e.c != nil {
			if fd, fp := e.c.DeclOf(fn); fd != nil && fp == e.p {
				var args []int64
				for _, a := range t.Args {
					args = append(args, e.expr(a).i)
				}
				res, err := callPure(e.c, fp, fd, args...)
				if err != nil {
					return e.fail("%v", err)
				}
				if len(res) == 1 {
					return res[0]
				}
			}
		}
		return e.fail("unsupported call %s", types.ExprString(t.Fun))
	}
	return e.fail("unsupported expression %T", x)
}

func (e *ceval) wrapExpr(v int64, x ast.Expr) int64 {
	if tv, ok := e.info.Types[x]; ok && tv.Type != nil {
		return e.wrap(v, tv.Type)
	}
	return v
}

// evalStmts evaluates a loop-free statement list in the given environment and
// returns the variables assigned.
func evalStmts(c *Ctx, p *packages.Package, stmts []ast.Stmt, env map[types.Object]cevalue, hook func(*ast.IndexExpr) (int64, bool)) (map[types.Object]bool, error) {
	e := &ceval{p: p, info: p.TypesInfo, env: env, c: c, indexHook: hook, assigned: map[types.Object]bool{}}
	e.block(stmts)
	return e.assigned, e.err
}
