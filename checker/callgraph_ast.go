package main

// A cheap static reference graph over the type-checked AST: an edge f -> g for
// every identifier in f's body (function literals included) that resolves to
// the function or method object g of the program.  Over-approximates static
// calls (function values count); interface dispatch is not followed.

import (
	"go/ast"
	"go/types"

	"golang.org/x/tools/go/packages"
)

type refGraph struct {
	out map[*types.Func][]*types.Func
}

var refGraphCache *refGraph
var refGraphFor *Ctx

func (c *Ctx) RefGraph() *refGraph {
	if refGraphFor == c {
		return refGraphCache
	}
	g := &refGraph{out: map[*types.Func][]*types.Func{}}
	c.EachFunc(nil, func(p *packages.Package, fd *ast.FuncDecl) {
		self, _ := p.TypesInfo.Defs[fd.Name].(*types.Func)
		if self == nil {
			return
		}
		seen := map[*types.Func]bool{}
		ast.Inspect(fd.Body, func(n ast.Node) bool {
			if id, ok := n.(*ast.Ident); ok {
				if fn, ok := p.TypesInfo.Uses[id].(*types.Func); ok {
					fn = fn.Origin()
					if !seen[fn] {
						seen[fn] = true
						g.out[self] = append(g.out[self], fn)
					}
				}
			}
			return true
		})
	})
	refGraphCache, refGraphFor = g, c
	return g
}

// reaches computes the set of functions from which a target is reachable.
func (g *refGraph) reachers(targets map[*types.Func]bool) map[*types.Func]bool {
	res := map[*types.Func]bool{}
	for t := range targets {
		res[t] = true
	}
	changed := true
	for changed {
		changed = false
		for f, outs := range g.out {
			if res[f] {
				continue
			}
			for _, o := range outs {
				if res[o] {
					res[f] = true
					changed = true
					break
				}
			}
		}
	}
	return res
}
