package main

// AL — aliasing: derived sequences own fresh storage (AL-1); recycling nils
// what it recycles (AL-2).  C07, C05.

import (
	"fmt"
	"go/ast"
	"go/types"
	"go/token"

	"golang.org/x/tools/go/packages"
)

func init() {
	register(&Rule{
		ID: "AL-1", Props: []string{"C07", "C05"}, Min: 6,
		Doc: `derived sequences own fresh storage: in every method of pkg/obiseq that builds a new BioSequence (NewEmptyBioSequence/NewBioSequence bound to a local), each
store of a slice, map or pointer into a field of the new object must come from an allocation or a copying helper (CopySlice, GetSlice, GetAnnotation(src), make, slices.Clone, nil) —
never from a field of the source, a getter result (Sequence(), Qualities(), Annotations()) or a sub-slice of one: the copy would share mutable storage with its source, so
modifying or recycling one changes the other. The revcomp back-pointer is the tabled exception.`,
		Run: runAL1,
	})
	register(&Rule{
		ID: "AL-2", Props: []string{"C07", "C05"}, Min: 4,
		Doc: `recycling lets go of what it recycles: BioSequence.Recycle assigns nil to every field of the receiver that holds a slice or a map (the fields are enumerated from the type), so a
vector released by one sequence is never reachable from the recycled shell.`,
		Run: runAL2,
	})
}

var alFresh = map[string]bool{
	modPath + "/pkg/obiseq.CopySlice":     true,
	modPath + "/pkg/obiseq.GetSlice":      true,
	modPath + "/pkg/obiseq.GetAnnotation": true,
	"slices.Clone":                        true,
	"bytes.Clone":                         true,
	"maps.Clone":                          true,
}

func alIsFresh(info *types.Info, e ast.Expr) (bool, string) {
	e = ast.Unparen(e)
	switch x := e.(type) {
	case *ast.Ident:
		if x.Name == "nil" {
			return true, ""
		}
		return false, "the variable " + x.Name
	case *ast.CallExpr:
		if id, ok := x.Fun.(*ast.Ident); ok && id.Name == "make" {
			return true, ""
		}
		if id, ok := x.Fun.(*ast.Ident); ok && id.Name == "append" && len(x.Args) > 0 {
			return alIsFresh(info, x.Args[0])
		}
		if tv, ok := info.Types[x.Fun]; ok && tv.IsType() && len(x.Args) == 1 {
			return alIsFresh(info, x.Args[0]) // conversion
		}
		fn := fullName(callee(info, x))
		if alFresh[fn] {
			return true, ""
		}
		if sel, ok := x.Fun.(*ast.SelectorExpr); ok && sel.Sel.Name == "Copy" {
			return true, ""
		}
		return false, "the result of " + types.ExprString(x.Fun) + "()"
	case *ast.SliceExpr:
		return false, "a sub-slice of " + types.ExprString(x.X)
	case *ast.SelectorExpr:
		return false, "the field " + types.ExprString(x)
	case *ast.CompositeLit:
		return true, ""
	}
	return false, types.ExprString(e)
}

func runAL1(c *Ctx, s *Sink) {
	c.EachFunc([]string{"pkg/obiseq"}, func(p *packages.Package, fd *ast.FuncDecl) {
		info := p.TypesInfo
		// locals bound to a fresh BioSequence
		news := map[types.Object]bool{}
		ast.Inspect(fd.Body, func(n ast.Node) bool {
			as, ok := n.(*ast.AssignStmt)
			if !ok || len(as.Lhs) != len(as.Rhs) {
				return true
			}
			for i, r := range as.Rhs {
				if call, ok := ast.Unparen(r).(*ast.CallExpr); ok {
					fn := fullName(callee(info, call))
					if fn == modPath+"/pkg/obiseq.NewEmptyBioSequence" || fn == modPath+"/pkg/obiseq.NewBioSequence" {
						if o := rootObj(info, as.Lhs[i]); o != nil {
							news[o] = true
						}
					}
				}
			}
			return true
		})
		if len(news) == 0 {
			return
		}
		fname := funcName(p, fd)
		ast.Inspect(fd.Body, func(n ast.Node) bool {
			as, ok := n.(*ast.AssignStmt)
			if !ok || len(as.Lhs) != len(as.Rhs) {
				return true
			}
			for i, l := range as.Lhs {
				sel, ok := ast.Unparen(l).(*ast.SelectorExpr)
				if !ok || !news[rootObj(info, sel.X)] {
					continue
				}
				tv, ok := info.Types[sel]
				if !ok {
					continue
				}
				switch tv.Type.Underlying().(type) {
				case *types.Slice, *types.Map, *types.Pointer:
				default:
					continue
				}
				key := fmt.Sprintf("%s:%s.%s", fname, types.ExprString(sel.X), sel.Sel.Name)
				fresh, what := alIsFresh(info, as.Rhs[i])
				if fresh {
					s.Pass(nil, key, as.Pos(), "field receives freshly allocated or copied storage")
				} else {
					s.Fail(nil, key, as.Pos(), fmt.Sprintf("the new sequence's %s is %s: it shares mutable storage with its source, so modifying or recycling one silently changes the other", sel.Sel.Name, what))
				}
			}
			return true
		})
	})
}

func runAL2(c *Ctx, s *Sink) {
	fd, p := c.FindFunc("pkg/obiseq", "(*BioSequence).Recycle")
	if fd == nil {
		s.Undecided(nil, "pkg/obiseq.(*BioSequence).Recycle", 0, "function not found")
		return
	}
	info := p.TypesInfo
	if fd.Recv == nil || len(fd.Recv.List) != 1 || len(fd.Recv.List[0].Names) != 1 {
		s.Undecided(nil, "pkg/obiseq.(*BioSequence).Recycle", fd.Pos(), "no named receiver")
		return
	}
	recv := info.ObjectOf(fd.Recv.List[0].Names[0])
	// the fields of BioSequence that hold a slice or a map
	t := recv.Type()
	if pt, ok := t.(*types.Pointer); ok {
		t = pt.Elem()
	}
	st, ok := t.Underlying().(*types.Struct)
	if !ok {
		s.Undecided(nil, "pkg/obiseq.(*BioSequence).Recycle", fd.Pos(), "the receiver is not a struct")
		return
	}
	cleared := map[string]token.Pos{}
	ast.Inspect(fd.Body, func(n ast.Node) bool {
		as, ok := n.(*ast.AssignStmt)
		if !ok || as.Tok != token.ASSIGN {
			return true
		}
		for i, l := range as.Lhs {
			sel, ok := ast.Unparen(l).(*ast.SelectorExpr)
			if !ok || rootObj(info, sel.X) != recv {
				continue
			}
			var r ast.Expr
			if len(as.Rhs) == len(as.Lhs) {
				r = as.Rhs[i]
			}
			if id, ok := ast.Unparen(r).(*ast.Ident); ok && id.Name == "nil" {
				cleared[sel.Sel.Name] = as.Pos()
			}
		}
		return true
	})
	for i := 0; i < st.NumFields(); i++ {
		f := st.Field(i)
		switch f.Type().Underlying().(type) {
		case *types.Slice, *types.Map:
		default:
			continue
		}
		key := "pkg/obiseq.(*BioSequence).Recycle:sequence." + f.Name()
		if pos, ok := cleared[f.Name()]; ok {
			s.Pass(nil, key, pos, "the recycled sequence lets go of the vector (set to nil)")
		} else {
			s.Fail(nil, key, fd.Pos(), "the buffer "+f.Name()+" stays referenced by the recycled sequence: a later use of that sequence (or a second Recycle) touches a vector the program considers released")
		}
	}
}
