package main

// LW — limb-weight typing of the multi-limb arithmetic of pkg/obifp (C20).
//
// Every value is given a dimension: Limb(k) = a 64-bit word of weight 2^(64k),
// Carry(k) = a 0/1 carry or borrow *into* weight k.  math/bits conventions
// (oracle): Add64/Sub64(x, y, c) need x,y of one weight k and c = 0 or a carry
// into k, and give (Limb(k), Carry(k+1)); Mul64(x, y) with weights a, b gives
// FIRST the high word Limb(a+b+1), then the low word Limb(a+b).

import (
	"fmt"
	"go/ast"
	"go/token"
	"go/types"
	"sort"
	"strings"

	"golang.org/x/tools/go/packages"
)

// property attribution: the whole arithmetic serves C20; the shifts also carry the k-mer words of C19
var lwC20 = []string{"C20"}
var lwShiftProps = []string{"C20", "C19"}

func init() {
	register(&Rule{
		ID: "LW", Props: []string{"C20", "C19"}, Min: 30,
		Doc: `limb-weight typing: in the straight-line methods of obifp.Uint64/Uint128/Uint256 every word has a weight (field w_i: weight i; math/bits result conventions as
oracle). LW1 operands of an Add64/Sub64 have the same weight and a word of weight k is only stored in limb k; LW2 a carry into weight k<N is consumed by the addition at
weight k (never dropped, never fed back to the weight that produced it); LW3 every value of weight >= N (final carry, high product words) and every cross product
w_i*w_j with i+j >= N flows into the condition of the overflow panic; LW4 comparisons test limbs from the highest weight down, bitwise operations and casts pair equal
weights and narrowing casts test every dropped limb. LW5: result limb j of a shift by an arbitrary amount may depend on every source limb it can receive bits from
(i <= j for left shifts, i >= j for right shifts), computed through the per-limb primitive whose carry-out does not depend on its carry-in.`,
		Run: runLW,
	})
}

type lwKind int

const (
	lwUnknown lwKind = iota
	lwZero
	lwLimb
	lwCarry
	lwOther // non-arithmetic (shift count, etc.)
)

type lwVal struct {
	kind lwKind
	k    int
	// provenance for reports
	from string
	id   int // unique id of produced values (for "consumed" tracking)
}

func (v lwVal) String() string {
	switch v.kind {
	case lwZero:
		return "0"
	case lwLimb:
		return fmt.Sprintf("word of weight %d", v.k)
	case lwCarry:
		return fmt.Sprintf("carry into weight %d", v.k)
	}
	return "?"
}

type lwType struct {
	name   string
	limbs  int
	weight map[string]int // field name -> weight
	fields []string       // declaration order
}

func lwTypes(p *packages.Package) map[string]*lwType {
	out := map[string]*lwType{}
	for _, n := range []string{"Uint64", "Uint128", "Uint256"} {
		o := p.Types.Scope().Lookup(n)
		if o == nil {
			continue
		}
		st, ok := o.Type().Underlying().(*types.Struct)
		if !ok {
			continue
		}
		t := &lwType{name: n, limbs: st.NumFields(), weight: map[string]int{}}
		for i := 0; i < st.NumFields(); i++ {
			f := st.Field(i).Name()
			t.fields = append(t.fields, f)
			// weight from declaration order: last field is the least significant; cross-checked with the digit in the name
			w := st.NumFields() - 1 - i
			if len(f) >= 2 && f[0] == 'w' && f[1] >= '0' && f[1] <= '9' && int(f[1]-'0') != w {
				w = int(f[1] - '0')
			}
			t.weight[f] = w
		}
		out[n] = t
	}
	return out
}

type lwAnalysis struct {
	c      *Ctx
	p      *packages.Package
	info   *types.Info
	types  map[string]*lwType
	self   *lwType
	fd     *ast.FuncDecl
	env    map[types.Object]lwVal
	errs   []string
	nextID int
	// produced values of weight >= N and carries, by id
	produced      map[int]lwVal
	consumed      map[int]bool
	tested        map[int]bool
	products      map[[2]int]bool // cross products computed (i,j)
	factorTested  map[string]bool // "u.w1" style factors tested in the overflow condition
	recv, arg     types.Object
	hasPanic      bool
	overflowConds []ast.Expr
}

func (a *lwAnalysis) errf(pos token.Pos, format string, args ...any) {
	a.errs = append(a.errs, a.c.Pos(pos)+": "+fmt.Sprintf(format, args...))
}

func (a *lwAnalysis) fresh(v lwVal) lwVal {
	a.nextID++
	v.id = a.nextID
	a.produced[v.id] = v
	return v
}

// limbOf: u.w1 -> weight
func (a *lwAnalysis) fieldWeight(e ast.Expr) (types.Object, int, bool) {
	sel, ok := ast.Unparen(e).(*ast.SelectorExpr)
	if !ok {
		return nil, 0, false
	}
	tv, ok := a.info.Types[sel.X]
	if !ok {
		return nil, 0, false
	}
	tn := sinkTypeName(tv.Type)
	for n, t := range a.types {
		if strings.HasSuffix(tn, "/pkg/obifp."+n) {
			if w, ok := t.weight[sel.Sel.Name]; ok {
				return rootObj(a.info, sel.X), w, true
			}
		}
	}
	return nil, 0, false
}

func (a *lwAnalysis) eval(e ast.Expr) lwVal {
	e = ast.Unparen(e)
	if tv, ok := a.info.Types[e]; ok && tv.Value != nil {
		if v, ok := constInt(a.info, e); ok && v == 0 {
			return lwVal{kind: lwZero}
		}
		return lwVal{kind: lwOther}
	}
	if _, w, ok := a.fieldWeight(e); ok {
		return lwVal{kind: lwLimb, k: w, from: types.ExprString(e)}
	}
	switch x := e.(type) {
	case *ast.Ident:
		if v, ok := a.env[a.info.ObjectOf(x)]; ok {
			return v
		}
		// uint64 parameter: a word of weight 0
		if o := a.info.ObjectOf(x); o != nil {
			if b, ok := o.Type().Underlying().(*types.Basic); ok && b.Kind() == types.Uint64 {
				if _, isParam := a.paramSet()[o]; isParam {
					return lwVal{kind: lwLimb, k: 0, from: x.Name}
				}
			}
		}
	case *ast.CallExpr:
		// conversion uint64(x)
		if tv, ok := a.info.Types[x.Fun]; ok && tv.IsType() && len(x.Args) == 1 {
			return a.eval(x.Args[0])
		}
	}
	return lwVal{kind: lwUnknown}
}

func (a *lwAnalysis) paramSet() map[types.Object]bool {
	out := map[types.Object]bool{}
	for _, p := range flattenParams(a.fd.Type.Params) {
		if p != nil {
			out[a.info.ObjectOf(p)] = true
		}
	}
	return out
}

// wrapper receivers: Uint64{w0: x}.Method(...) or u.Method where u is Uint64
func (a *lwAnalysis) wrapperOperand(e ast.Expr) (lwVal, bool) {
	e = ast.Unparen(e)
	if cl, ok := e.(*ast.CompositeLit); ok {
		if tv, ok := a.info.Types[cl]; ok && strings.HasSuffix(namedTypeName(tv.Type), "/pkg/obifp.Uint64") && len(cl.Elts) == 1 {
			el := cl.Elts[0]
			if kv, ok := el.(*ast.KeyValueExpr); ok {
				el = kv.Value
			}
			return a.eval(el), true
		}
	}
	if tv, ok := a.info.Types[e]; ok && strings.HasSuffix(namedTypeName(tv.Type), "/pkg/obifp.Uint64") {
		// a Uint64 value: its single limb has weight 0
		return lwVal{kind: lwLimb, k: 0, from: types.ExprString(e)}, true
	}
	return lwVal{}, false
}

// callResults types the results of an arithmetic primitive call.
func (a *lwAnalysis) callResults(call *ast.CallExpr) ([]lwVal, bool) {
	fn := fullName(callee(a.info, call))
	addsub := func(x, y, cin lwVal, what string) []lwVal {
		k := -1
		for _, v := range []lwVal{x, y} {
			switch v.kind {
			case lwLimb:
				if k >= 0 && v.k != k {
					a.errf(call.Pos(), "LW1: %s of a %s and a %s (operands of different weights)", what, x, y)
				}
				if k < 0 {
					k = v.k
				}
			case lwZero:
			case lwCarry:
				a.errf(call.Pos(), "LW1: a %s is used as an operand word of %s", v, what)
			default:
				a.errf(call.Pos(), "LW1: cannot type an operand of %s", what)
			}
		}
		if k < 0 {
			k = 0
		}
		switch cin.kind {
		case lwZero:
		case lwCarry:
			a.consumed[cin.id] = true
			if cin.k != k {
				a.errf(call.Pos(), "LW2: a %s is fed to the %s at weight %d", cin, what, k)
			}
		default:
			a.errf(call.Pos(), "LW2: the carry operand of %s is neither 0 nor a carry", what)
		}
		for _, v := range []lwVal{x, y} {
			if v.kind == lwLimb && v.id != 0 {
				a.consumed[v.id] = true
			}
		}
		return []lwVal{a.fresh(lwVal{kind: lwLimb, k: k, from: what}), a.fresh(lwVal{kind: lwCarry, k: k + 1, from: what})}
	}
	mul := func(x, y lwVal) []lwVal {
		if x.kind != lwLimb && x.kind != lwZero || y.kind != lwLimb && y.kind != lwZero {
			a.errf(call.Pos(), "LW1: cannot type an operand of Mul64")
			return []lwVal{{kind: lwUnknown}, {kind: lwUnknown}}
		}
		a.products[[2]int{x.k, y.k}] = true
		return []lwVal{a.fresh(lwVal{kind: lwLimb, k: x.k + y.k + 1, from: "high word of a product"}), a.fresh(lwVal{kind: lwLimb, k: x.k + y.k, from: "low word of a product"})}
	}
	switch fn {
	case "math/bits.Add64":
		return addsub(a.eval(call.Args[0]), a.eval(call.Args[1]), a.eval(call.Args[2]), "addition"), true
	case "math/bits.Sub64":
		return addsub(a.eval(call.Args[0]), a.eval(call.Args[1]), a.eval(call.Args[2]), "subtraction"), true
	case "math/bits.Mul64":
		return mul(a.eval(call.Args[0]), a.eval(call.Args[1])), true
	}
	// wrappers on Uint64: summarised from their own bodies (results in declared order)
	if sel, ok := call.Fun.(*ast.SelectorExpr); ok && strings.Contains(fn, "/pkg/obifp.(Uint64).") {
		recv, ok1 := a.wrapperOperand(sel.X)
		if !ok1 {
			return nil, false
		}
		switch sel.Sel.Name {
		case "Add64", "Sub64":
			if len(call.Args) == 2 {
				arg, ok2 := a.wrapperOperand(call.Args[0])
				if ok2 {
					res := addsub(recv, arg, a.eval(call.Args[1]), "addition")
					return a.permute("Uint64."+sel.Sel.Name, res), true
				}
			}
		case "Mul64":
			if len(call.Args) == 1 {
				arg, ok2 := a.wrapperOperand(call.Args[0])
				if ok2 {
					return a.permute("Uint64.Mul64", mul(recv, arg)), true
				}
			}
		}
	}
	return nil, false
}

// permute: a wrapper whose body is `return bits.F(...)` returns the results
// in math/bits order; other shapes are taken as (value, carry) after their own check.
var lwWrapperSwapped = map[string]bool{}

func (a *lwAnalysis) permute(name string, res []lwVal) []lwVal {
	if lwWrapperSwapped[name] {
		return []lwVal{res[1], res[0]}
	}
	return res
}

func (a *lwAnalysis) assign(lhs []ast.Expr, vals []lwVal, define bool) {
	for i, l := range lhs {
		id, ok := ast.Unparen(l).(*ast.Ident)
		if !ok {
			// field store q.w0 = ...
			if _, w, ok := a.fieldWeight(l); ok && i < len(vals) {
				a.storeCheck(l.Pos(), w, vals[i], types.ExprString(l))
			}
			continue
		}
		if id.Name == "_" {
			if i < len(vals) {
				v := vals[i]
				if v.kind == lwCarry || (v.kind == lwLimb && v.k >= a.self.limbs) {
					// dropped: stays unconsumed/untested -> reported at the end
					_ = v
				} else if v.id != 0 {
					a.consumed[v.id] = true
				}
			}
			continue
		}
		if i < len(vals) {
			a.env[a.info.ObjectOf(id)] = vals[i]
		}
	}
}

func (a *lwAnalysis) storeCheck(pos token.Pos, w int, v lwVal, where string) {
	switch v.kind {
	case lwZero, lwOther:
	case lwLimb:
		if v.id != 0 {
			a.consumed[v.id] = true
		}
		if v.k != w {
			a.errf(pos, "LW1: a %s (%s) is stored in %s, the limb of weight %d", v, v.from, where, w)
		}
	case lwCarry:
		a.errf(pos, "LW1: a %s is stored as limb %s", v, where)
	default:
		a.errf(pos, "LW1: cannot type the value stored in %s", where)
	}
}

func (a *lwAnalysis) compositeCheck(cl *ast.CompositeLit) {
	tv, ok := a.info.Types[cl]
	if !ok {
		return
	}
	var t *lwType
	for n, tt := range a.types {
		if strings.HasSuffix(namedTypeName(tv.Type), "/pkg/obifp."+n) {
			t = tt
		}
	}
	if t == nil {
		return
	}
	for i, el := range cl.Elts {
		var fname string
		val := el
		if kv, ok := el.(*ast.KeyValueExpr); ok {
			fname = kv.Key.(*ast.Ident).Name
			val = kv.Value
		} else if i < len(t.fields) {
			fname = t.fields[i]
		}
		w := t.weight[fname]
		v := a.eval(val)
		if v.kind == lwUnknown {
			// bitwise expression: every limb mentioned must have weight w
			bad := false
			ast.Inspect(val, func(n ast.Node) bool {
				if e, ok := n.(ast.Expr); ok {
					if _, fw, ok := a.fieldWeight(e); ok && fw != w {
						bad = true
					}
				}
				return true
			})
			if bad {
				a.errf(val.Pos(), "LW4: limb %s of the result is computed from a limb of another weight", fname)
			}
			continue
		}
		a.storeCheck(val.Pos(), w, v, t.name+"."+fname)
	}
}

// run analyses a loop-free method body.
func (a *lwAnalysis) run() {
	var walkStmts func(list []ast.Stmt)
	walkStmts = func(list []ast.Stmt) {
		for _, st := range list {
			switch x := st.(type) {
			case *ast.AssignStmt:
				if len(x.Rhs) == 1 {
					if call, ok := ast.Unparen(x.Rhs[0]).(*ast.CallExpr); ok {
						if res, ok := a.callResults(call); ok {
							a.assign(x.Lhs, res, x.Tok == token.DEFINE)
							continue
						}
					}
				}
				if len(x.Lhs) == len(x.Rhs) {
					var vals []lwVal
					for _, r := range x.Rhs {
						vals = append(vals, a.eval(r))
						if cl, ok := ast.Unparen(r).(*ast.CompositeLit); ok {
							a.compositeCheck(cl)
						}
					}
					a.assign(x.Lhs, vals, x.Tok == token.DEFINE)
				}
			case *ast.DeclStmt:
			case *ast.IfStmt:
				if blockDiverges(a.info, x.Body) {
					a.hasPanic = true
					a.overflowConds = append(a.overflowConds, x.Cond)
					ast.Inspect(x.Cond, func(n ast.Node) bool {
						if id, ok := n.(*ast.Ident); ok {
							if v, ok := a.env[a.info.ObjectOf(id)]; ok && v.id != 0 {
								a.tested[v.id] = true
							}
						}
						if e, ok := n.(ast.Expr); ok {
							if o, w, ok := a.fieldWeight(e); ok && o != nil {
								a.factorTested[fmt.Sprintf("%s.%d", o.Name(), w)] = true
							}
						}
						return true
					})
				} else {
					walkStmts(x.Body.List)
					if eb, ok := x.Else.(*ast.BlockStmt); ok {
						walkStmts(eb.List)
					}
				}
			case *ast.ReturnStmt:
				for _, r := range x.Results {
					if cl, ok := ast.Unparen(r).(*ast.CompositeLit); ok {
						a.compositeCheck(cl)
					}
				}
			case *ast.ExprStmt:
			case *ast.BlockStmt:
				walkStmts(x.List)
			}
		}
	}
	walkStmts(a.fd.Body.List)
}

func newLW(c *Ctx, p *packages.Package, ts map[string]*lwType, self *lwType, fd *ast.FuncDecl) *lwAnalysis {
	return &lwAnalysis{c: c, p: p, info: p.TypesInfo, types: ts, self: self, fd: fd, env: map[types.Object]lwVal{},
		produced: map[int]lwVal{}, consumed: map[int]bool{}, tested: map[int]bool{}, products: map[[2]int]bool{}, factorTested: map[string]bool{}}
}

func hasLoop(n ast.Node) bool {
	l := false
	ast.Inspect(n, func(m ast.Node) bool {
		switch m.(type) {
		case *ast.ForStmt, *ast.RangeStmt:
			l = true
		}
		return true
	})
	return l
}

func runLW(c *Ctx, s *Sink) {
	p := c.Pkg("pkg/obifp")
	if p == nil {
		s.Undecided(lwC20, "pkg/obifp", 0, "package not loaded")
		return
	}
	ts := lwTypes(p)
	if len(ts) != 3 {
		s.Undecided(lwC20, "pkg/obifp", 0, "Uint64/Uint128/Uint256 struct types not found")
		return
	}
	// wrapper summaries first: Uint64.Add64/Sub64/Mul64 return math/bits results; check result naming
	for _, wn := range []string{"Add64", "Sub64", "Mul64"} {
		fd, _ := c.FindFunc("pkg/obifp", "(Uint64)."+wn)
		key := "pkg/obifp.(Uint64)." + wn + ":result-order"
		if fd == nil {
			s.Undecided(lwC20, key, 0, "wrapper not found")
			continue
		}
		// shape: single return of a bits.* call, or return lo, hi of a previous call
		swapped, direct, ok := wrapperShape(p, fd)
		if !ok {
			s.Undecided(lwC20, key, fd.Pos(), "wrapper body is not a recognised shape")
			continue
		}
		names := resultNames(fd)
		lwWrapperSwapped["Uint64."+wn] = swapped
		// math/bits order: Add64/Sub64 (sum, carry); Mul64 (hi, lo)
		firstIsValue := (wn != "Mul64") != swapped
		_ = direct
		if len(names) == 2 && names[0] == "value" && !firstIsValue {
			s.Fail(lwC20, key, fd.Pos(), "LW1: bits.Mul64 returns (high, low) but the wrapper returns them as (value, carry): callers store the word of weight 1 as the value and take the low word for the overflow carry")
		} else {
			s.Pass(lwC20, key, fd.Pos(), "results are returned as (value of the operand weight, carry/high word)")
		}
	}
	arith := map[string]bool{"Add": true, "Add64": true, "Sub": true, "Mul": true, "Mul64": true}
	var tnames []string
	for n := range ts {
		tnames = append(tnames, n)
	}
	sort.Strings(tnames)
	for _, tn := range tnames {
		self := ts[tn]
		for _, f := range p.Syntax {
			for _, d := range f.Decls {
				fd, ok := d.(*ast.FuncDecl)
				if !ok || fd.Recv == nil || fd.Body == nil || recvTypeName(fd.Recv.List[0].Type) != tn {
					continue
				}
				name := fd.Name.Name
				key := "pkg/obifp.(" + tn + ")." + name
				switch {
				case arith[name] && !(tn == "Uint64" && (name == "Add64" || name == "Mul64")):
					lwArith(c, s, p, ts, self, fd, key)
				case name == "Cmp":
					lwCmp(c, s, p, ts, self, fd, key)
				case name == "And" || name == "Or" || name == "Xor" || name == "Not" || name == "Set64" || name == "Uint64" || name == "Uint128" || name == "Uint256":
					lwPairing(c, s, p, ts, self, fd, key)
				case name == "LeftShift" || name == "RightShift":
					lwShift(c, s, p, ts, self, fd, key)
				}
			}
		}
	}
}

func resultNames(fd *ast.FuncDecl) []string {
	var out []string
	if fd.Type.Results == nil {
		return nil
	}
	for _, f := range fd.Type.Results.List {
		for _, n := range f.Names {
			out = append(out, n.Name)
		}
	}
	return out
}

// wrapperShape: `return bits.F(...)` (direct) or `a, b := bits.F(...); return b, a` (swapped).
func wrapperShape(p *packages.Package, fd *ast.FuncDecl) (swapped, direct, ok bool) {
	info := p.TypesInfo
	if len(fd.Body.List) == 1 {
		if r, isRet := fd.Body.List[0].(*ast.ReturnStmt); isRet && len(r.Results) == 1 {
			if call, isCall := ast.Unparen(r.Results[0]).(*ast.CallExpr); isCall && strings.HasPrefix(fullName(callee(info, call)), "math/bits.") {
				return false, true, true
			}
		}
	}
	if len(fd.Body.List) == 2 {
		as, ok1 := fd.Body.List[0].(*ast.AssignStmt)
		r, ok2 := fd.Body.List[1].(*ast.ReturnStmt)
		if ok1 && ok2 && len(as.Lhs) == 2 && len(as.Rhs) == 1 && len(r.Results) == 2 {
			if call, isCall := ast.Unparen(as.Rhs[0]).(*ast.CallExpr); isCall && strings.HasPrefix(fullName(callee(info, call)), "math/bits.") {
				a0, b0 := rootObj(info, as.Lhs[0]), rootObj(info, as.Lhs[1])
				r0, r1 := rootObj(info, r.Results[0]), rootObj(info, r.Results[1])
				if a0 == r0 && b0 == r1 {
					return false, false, true
				}
				if a0 == r1 && b0 == r0 {
					return true, false, true
				}
			}
		}
	}
	// a chain: value, c0 := bits.F(…); value, c1 := bits.F(value, …); return value, c0 + c1 — the value is threaded
	// through the first results, the carry is made of the second ones only
	if n := len(fd.Body.List); n >= 2 {
		r, isRet := fd.Body.List[n-1].(*ast.ReturnStmt)
		if isRet && len(r.Results) == 2 {
			firsts, seconds := map[types.Object]bool{}, map[types.Object]bool{}
			chain := true
			for _, st := range fd.Body.List[:n-1] {
				as, ok1 := st.(*ast.AssignStmt)
				if !ok1 || len(as.Lhs) != 2 || len(as.Rhs) != 1 {
					chain = false
					break
				}
				call, isCall := ast.Unparen(as.Rhs[0]).(*ast.CallExpr)
				if !isCall || !strings.HasPrefix(fullName(callee(info, call)), "math/bits.") {
					chain = false
					break
				}
				firsts[rootObj(info, as.Lhs[0])] = true
				seconds[rootObj(info, as.Lhs[1])] = true
			}
			if chain && firsts[rootObj(info, r.Results[0])] {
				onlySeconds := true
				ast.Inspect(r.Results[1], func(m ast.Node) bool {
					if id, ok := m.(*ast.Ident); ok {
						if v, isVar := info.ObjectOf(id).(*types.Var); isVar && !seconds[v] {
							onlySeconds = false
						}
					}
					return true
				})
				if onlySeconds {
					return false, false, true
				}
			}
		}
	}
	return false, false, false
}

func lwArith(c *Ctx, s *Sink, p *packages.Package, ts map[string]*lwType, self *lwType, fd *ast.FuncDecl, key string) {
	if hasLoop(fd.Body) {
		s.Undecided(lwC20, key, fd.Pos(), "arithmetic method contains a loop: limb-weight typing covers straight-line code only")
		return
	}
	a := newLW(c, p, ts, self, fd)
	a.run()
	N := self.limbs
	name := fd.Name.Name
	// LW2: every produced carry into k < N consumed; LW3: weight >= N tested
	var ids []int
	for id := range a.produced {
		ids = append(ids, id)
	}
	sort.Ints(ids)
	for _, id := range ids {
		v := a.produced[id]
		switch {
		case v.kind == lwCarry && v.k < N && !a.consumed[id]:
			a.errf(fd.Pos(), "LW2: a %s produced by an %s is dropped (never added at weight %d)", v, v.from, v.k)
		case v.kind == lwCarry && v.k >= N && !a.tested[id]:
			a.errf(fd.Pos(), "LW3: the final %s (overflow) does not reach the overflow test", v)
		case v.kind == lwLimb && v.k >= N && !a.tested[id]:
			a.errf(fd.Pos(), "LW3: a %s (%s) does not fit the type and is not tested for overflow", v, v.from)
		case v.kind == lwLimb && v.k < N && !a.consumed[id] && !a.tested[id]:
			a.errf(fd.Pos(), "LW2: a %s (%s) is computed and never used", v, v.from)
		}
	}
	var lw3Only []string
	if name == "Mul" {
		// cross products with i+j >= N must be computed or have both factors tested
		params := flattenParams(fd.Type.Params)
		var un, vn string
		if fd.Recv != nil && len(fd.Recv.List[0].Names) > 0 {
			un = fd.Recv.List[0].Names[0].Name
		}
		if len(params) > 0 && params[0] != nil {
			vn = params[0].Name
		}
		for i := 0; i < N; i++ {
			for j := 0; j < N; j++ {
				if i+j < N || a.products[[2]int{i, j}] {
					continue
				}
				// the overflow test must fire when u.w_i != 0 and v.w_j != 0 and every other word is zero
				if a.overflowFires(un, i, vn, j) {
					continue
				}
				lw3Only = append(lw3Only, fmt.Sprintf("w%d*w%d", i, j))
			}
		}
	}
	if len(a.errs) > 0 {
		s.Fail(lwC20, key, fd.Pos(), strings.Join(a.errs, " | "))
	} else {
		s.Pass(lwC20, key, fd.Pos(), "operands, carries and stored limbs are weight-correct; overflow values reach the overflow test")
	}
	if name == "Mul" {
		k2 := key + ":cross-products"
		if len(lw3Only) > 0 {
			s.Fail(lwC20, k2, fd.Pos(), "LW3: the cross product(s) "+strings.Join(lw3Only, ", ")+" of weight >= "+fmt.Sprint(N)+" are neither computed nor excluded by the overflow test: an overflowing product is returned truncated without any signal")
		} else {
			s.Pass(lwC20, k2, fd.Pos(), "every cross product of weight >= N is computed and tested, or its factors are tested")
		}
	}
}

func lwCmp(c *Ctx, s *Sink, p *packages.Package, ts map[string]*lwType, self *lwType, fd *ast.FuncDecl, key string) {
	a := newLW(c, p, ts, self, fd)
	var order []int
	seen := map[string]bool{}
	ast.Inspect(fd.Body, func(n ast.Node) bool {
		cc, ok := n.(*ast.CaseClause)
		if !ok {
			return true
		}
		for _, e := range cc.List {
			b, ok := ast.Unparen(e).(*ast.BinaryExpr)
			if !ok {
				continue
			}
			_, w1, ok1 := a.fieldWeight(b.X)
			_, w2, ok2 := a.fieldWeight(b.Y)
			if ok1 && ok2 {
				if w1 != w2 {
					a.errf(e.Pos(), "LW4: limbs of different weights are compared")
				}
				order = append(order, w1)
				seen[fmt.Sprintf("%d%s", w1, b.Op)] = true
			}
		}
		return true
	})
	for i := 1; i < len(order); i++ {
		if order[i] > order[i-1] {
			a.errf(fd.Pos(), "LW4: limb of weight %d is compared before the limb of weight %d (comparison must go from the most significant limb down)", order[i-1], order[i])
		}
	}
	for w := 0; w < self.limbs; w++ {
		if !seen[fmt.Sprintf("%d>", w)] || !seen[fmt.Sprintf("%d<", w)] {
			a.errf(fd.Pos(), "LW4: limb of weight %d is not compared in both directions", w)
		}
	}
	if len(a.errs) > 0 {
		s.Fail(lwC20, key, fd.Pos(), strings.Join(a.errs, " | "))
	} else {
		s.Pass(lwC20, key, fd.Pos(), "limbs compared pairwise from the highest weight down, both directions")
	}
}

func lwPairing(c *Ctx, s *Sink, p *packages.Package, ts map[string]*lwType, self *lwType, fd *ast.FuncDecl, key string) {
	a := newLW(c, p, ts, self, fd)
	nlit := 0
	var resultLimbs int = -1
	ast.Inspect(fd.Body, func(n ast.Node) bool {
		if r, ok := n.(*ast.ReturnStmt); ok {
			for _, e := range r.Results {
				if cl, ok := ast.Unparen(e).(*ast.CompositeLit); ok {
					nlit++
					a.compositeCheck(cl)
					if tv, ok := a.info.Types[cl]; ok {
						for n, t := range ts {
							if strings.HasSuffix(namedTypeName(tv.Type), "/pkg/obifp."+n) {
								resultLimbs = t.limbs
							}
						}
					}
				}
			}
		}
		return true
	})
	// narrowing cast: every dropped limb must be tested
	if resultLimbs >= 0 && resultLimbs < self.limbs {
		tested := map[int]bool{}
		ast.Inspect(fd.Body, func(n ast.Node) bool {
			if ifs, ok := n.(*ast.IfStmt); ok {
				ast.Inspect(ifs.Cond, func(m ast.Node) bool {
					if e, ok := m.(ast.Expr); ok {
						if _, w, ok := a.fieldWeight(e); ok {
							tested[w] = true
						}
					}
					return true
				})
			}
			return true
		})
		for w := resultLimbs; w < self.limbs; w++ {
			if !tested[w] {
				a.errf(fd.Pos(), "LW4: narrowing cast drops the limb of weight %d without testing it", w)
			}
		}
	}
	if nlit == 0 {
		return // returns the receiver itself or a scalar: nothing to pair
	}
	if len(a.errs) > 0 {
		s.Fail(lwC20, key, fd.Pos(), strings.Join(a.errs, " | "))
	} else {
		s.Pass(lwC20, key, fd.Pos(), "every result limb is built from operand limbs of the same weight; dropped limbs are tested")
	}
}

// lwShift: LW5 may-dependence of result limbs on source limbs.
func lwShift(c *Ctx, s *Sink, p *packages.Package, ts map[string]*lwType, self *lwType, fd *ast.FuncDecl, key string) {
	if self.limbs == 1 {
		return
	}
	if hasLoop(fd.Body) {
		s.Undecided(lwShiftProps, key, fd.Pos(), "shift method contains a loop: dependence analysis covers branching straight-line code only")
		return
	}
	info := p.TypesInfo
	left := fd.Name.Name == "LeftShift"
	type depset = map[int]bool
	union := func(a, b depset) depset {
		r := depset{}
		for k := range a {
			r[k] = true
		}
		for k := range b {
			r[k] = true
		}
		return r
	}
	var analyse func(fd *ast.FuncDecl, initLimbs map[int]depset, depth int) map[int]depset
	analyse = func(fd *ast.FuncDecl, initLimbs map[int]depset, depth int) map[int]depset {
		a := newLW(c, p, ts, self, fd)
		var recvObj types.Object
		if len(fd.Recv.List[0].Names) > 0 {
			recvObj = info.ObjectOf(fd.Recv.List[0].Names[0])
		}
		// state: dependence of each limb of the receiver variable (may be reassigned) and of locals
		type state struct {
			limb  map[int]depset // current receiver limbs
			local map[types.Object]depset
		}
		clone := func(st state) state {
			n := state{limb: map[int]depset{}, local: map[types.Object]depset{}}
			for k, v := range st.limb {
				n.limb[k] = union(v, nil)
			}
			for k, v := range st.local {
				n.local[k] = union(v, nil)
			}
			return n
		}
		join := func(x, y state) state {
			n := clone(x)
			for k, v := range y.limb {
				n.limb[k] = union(n.limb[k], v)
			}
			for k, v := range y.local {
				n.local[k] = union(n.local[k], v)
			}
			return n
		}
		init := state{limb: map[int]depset{}, local: map[types.Object]depset{}}
		for w := 0; w < self.limbs; w++ {
			init.limb[w] = union(initLimbs[w], nil)
		}
		var deps func(st state, e ast.Expr) depset
		deps = func(st state, e ast.Expr) depset {
			out := depset{}
			ast.Inspect(e, func(n ast.Node) bool {
				switch x := n.(type) {
				case *ast.SelectorExpr:
					if o, w, ok := a.fieldWeight(x); ok && o == recvObj {
						out = union(out, st.limb[w])
						return false
					}
				case *ast.Ident:
					if d, ok := st.local[info.ObjectOf(x)]; ok {
						out = union(out, d)
					}
				}
				return true
			})
			return out
		}
		var result map[int]depset
		var exec func(st state, list []ast.Stmt) (state, bool)
		exec = func(st state, list []ast.Stmt) (state, bool) {
			for _, stmt := range list {
				switch x := stmt.(type) {
				case *ast.AssignStmt:
					// per-limb primitive: value depends on receiver operand and carry-in; carry-out on the operand only
					if len(x.Rhs) == 1 && len(x.Lhs) == 2 {
						if call, ok := ast.Unparen(x.Rhs[0]).(*ast.CallExpr); ok {
							if sel, ok := call.Fun.(*ast.SelectorExpr); ok && (sel.Sel.Name == "LeftShift64" || sel.Sel.Name == "RightShift64") && len(call.Args) == 2 {
								op := deps(st, sel.X)
								cin := deps(st, call.Args[1])
								if id, ok := x.Lhs[0].(*ast.Ident); ok && id.Name != "_" {
									st.local[info.ObjectOf(id)] = union(op, cin)
								}
								if id, ok := x.Lhs[1].(*ast.Ident); ok && id.Name != "_" {
									st.local[info.ObjectOf(id)] = union(op, nil)
								}
								continue
							}
						}
					}
					if len(x.Lhs) == len(x.Rhs) {
						for i, l := range x.Lhs {
							if id, ok := l.(*ast.Ident); ok {
								o := info.ObjectOf(id)
								if o == recvObj {
									// u = Uint256{...}
									if cl, ok := ast.Unparen(x.Rhs[i]).(*ast.CompositeLit); ok {
										nl := map[int]depset{}
										for w := 0; w < self.limbs; w++ {
											nl[w] = depset{}
										}
										for j, el := range cl.Elts {
											fname := ""
											val := el
											if kv, ok := el.(*ast.KeyValueExpr); ok {
												fname = kv.Key.(*ast.Ident).Name
												val = kv.Value
											} else if j < len(self.fields) {
												fname = self.fields[j]
											}
											nl[self.weight[fname]] = deps(st, val)
										}
										st.limb = nl
									}
									continue
								}
								if id.Name != "_" {
									st.local[o] = deps(st, x.Rhs[i])
								}
							}
						}
					}
				case *ast.IfStmt:
					s1, r1 := exec(clone(st), x.Body.List)
					s2, r2 := clone(st), false
					if eb, ok := x.Else.(*ast.BlockStmt); ok {
						s2, r2 = exec(s2, eb.List)
					} else if ei, ok := x.Else.(*ast.IfStmt); ok {
						s2, r2 = exec(s2, []ast.Stmt{ei})
					}
					switch {
					case r1 && r2:
						return st, true
					case r1:
						st = s2
					case r2:
						st = s1
					default:
						st = join(s1, s2)
					}
				case *ast.SwitchStmt:
					acc := clone(st)
					hasDefault := false
					first := true
					for _, cc := range x.Body.List {
						clause := cc.(*ast.CaseClause)
						if clause.List == nil {
							hasDefault = true
						}
						sc, r := exec(clone(st), clause.Body)
						if r {
							continue
						}
						if first {
							acc, first = sc, false
						} else {
							acc = join(acc, sc)
						}
					}
					if !hasDefault {
						if first {
							acc = clone(st)
						} else {
							acc = join(acc, st)
						}
					}
					st = acc
				case *ast.ReturnStmt:
					if len(x.Results) == 1 {
						// tail call of a helper method of the same type on the (possibly re-assigned) receiver:
						// the helper is analysed with the current dependences of the receiver limbs
						if call, ok := ast.Unparen(x.Results[0]).(*ast.CallExpr); ok && depth < 3 {
							if sel, ok := call.Fun.(*ast.SelectorExpr); ok && rootObj(info, sel.X) == recvObj {
								if f := callee(info, call); f != nil {
									if d, dp := c.DeclOf(f); d != nil && dp == p && d.Recv != nil && d.Body != nil && !hasLoop(d.Body) && recvTypeName(d.Recv.List[0].Type) == recvTypeName(fd.Recv.List[0].Type) {
										if sub := analyse(d, st.limb, depth+1); sub != nil {
											if result == nil {
												result = sub
											} else {
												for k, v := range sub {
													result[k] = union(result[k], v)
												}
											}
										}
									}
								}
							}
						}
						if cl, ok := ast.Unparen(x.Results[0]).(*ast.CompositeLit); ok {
							res := map[int]depset{}
							for j, el := range cl.Elts {
								fname := ""
								val := el
								if kv, ok := el.(*ast.KeyValueExpr); ok {
									fname = kv.Key.(*ast.Ident).Name
									val = kv.Value
								} else if j < len(self.fields) {
									fname = self.fields[j]
								}
								res[self.weight[fname]] = deps(st, val)
							}
							if result == nil {
								result = res
							} else {
								for k, v := range res {
									result[k] = union(result[k], v)
								}
							}
						}
					}
					return st, true
				}
			}
			return st, false
		}
		exec(init, fd.Body.List)
		return result
	}
	id := map[int]depset{}
	for w := 0; w < self.limbs; w++ {
		id[w] = depset{w: true}
	}
	result := analyse(fd, id, 0)
	if result == nil {
		s.Undecided(lwShiftProps, key, fd.Pos(), "no composite result found")
		return
	}
	var missing []string
	for j := 0; j < self.limbs; j++ {
		for i := 0; i < self.limbs; i++ {
			need := (left && i <= j) || (!left && i >= j)
			if need && !result[j][i] {
				missing = append(missing, fmt.Sprintf("limb %d never receives bits of source limb %d", j, i))
			}
			if !need && result[j][i] {
				missing = append(missing, fmt.Sprintf("limb %d depends on source limb %d, which a %s can never move there", j, i, fd.Name.Name))
			}
		}
	}
	if len(missing) > 0 {
		s.Fail(lwShiftProps, key, fd.Pos(), "LW5: "+strings.Join(missing, "; ")+": shifts by more than one limb lose those bits")
	} else {
		s.Pass(lwShiftProps, key, fd.Pos(), "every result limb may receive bits of exactly the source limbs a shift can move there")
	}
}

// overflowFires evaluates the overflow conditions with the atoms
// "<un>.w_i != 0" and "<vn>.w_j != 0" true and every other "x != 0" false.
func (a *lwAnalysis) overflowFires(un string, i int, vn string, j int) bool {
	// subst: inside a boolean helper of the package read through, its receiver and parameter names stand for the caller's
	subst := map[string]string{}
	var ev func(e ast.Expr) (bool, bool)
	ev = func(e ast.Expr) (bool, bool) {
		e = ast.Unparen(e)
		switch x := e.(type) {
		case *ast.CallExpr:
			// a one-line boolean helper of the package: `return <condition on the limbs>`
			f := callee(a.info, x)
			if f == nil || f.Pkg() == nil || a.c == nil {
				return false, false
			}
			d, _ := a.c.DeclOf(f)
			if d == nil || d.Body == nil || len(d.Body.List) != 1 {
				return false, false
			}
			r, ok := d.Body.List[0].(*ast.ReturnStmt)
			if !ok || len(r.Results) != 1 {
				return false, false
			}
			saved := subst
			subst = map[string]string{}
			for k, v := range saved {
				subst[k] = v
			}
			name := func(e ast.Expr) string {
				if id, ok := ast.Unparen(e).(*ast.Ident); ok {
					if s2, ok := saved[id.Name]; ok {
						return s2
					}
					return id.Name
				}
				return ""
			}
			if sel, ok := ast.Unparen(x.Fun).(*ast.SelectorExpr); ok && d.Recv != nil && len(d.Recv.List) == 1 && len(d.Recv.List[0].Names) == 1 {
				subst[d.Recv.List[0].Names[0].Name] = name(sel.X)
			}
			for k, prm := range flattenParams(d.Type.Params) {
				if prm != nil && k < len(x.Args) {
					subst[prm.Name] = name(x.Args[k])
				}
			}
			v, okv := ev(r.Results[0])
			subst = saved
			return v, okv
		case *ast.BinaryExpr:
			switch x.Op {
			case token.LOR:
				l, ok1 := ev(x.X)
				r, ok2 := ev(x.Y)
				return l || r, ok1 && ok2
			case token.LAND:
				l, ok1 := ev(x.X)
				r, ok2 := ev(x.Y)
				return l && r, ok1 && ok2
			case token.NEQ, token.GTR:
				if !isConstInt(a.info, x.Y, 0) {
					return false, false
				}
				if o, w, ok := a.fieldWeight(x.X); ok && o != nil {
					on := o.Name()
					if s2, ok := subst[on]; ok {
						on = s2
					}
					return (on == un && w == i) || (on == vn && w == j), true
				}
				return false, true // a computed word: zero in this scenario
			}
		}
		return false, false
	}
	for _, c := range a.overflowConds {
		if v, ok := ev(c); ok && v {
			return true
		}
	}
	return false
}
