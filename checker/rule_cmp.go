package main

// CMP — slices.Compact is handed a sorted slice (C19). CUR — the cursor of a look-up is a variable of the iteration (C15).

import (
	"fmt"
	"go/ast"
	"go/token"
	"go/types"

	"golang.org/x/tools/go/packages"
)

func init() {
	register(&Rule{
		ID: "CMP", Props: []string{"C19"}, Min: 1,
		Doc: `"the weight of every k-mer is the number of its occurrences weighted by the counts": slices.Compact removes ADJACENT duplicates only. Every call of slices.Compact / CompactFunc of the module is
handed a slice that a statement of the same block, placed before it and after the last statement that appends to the slice, has sorted (slices.Sort*, sort.*). In DeBruijnGraph.Push the words a window of
ambiguity codes expands to are made unique that way: unsorted, the words that become equal when an expanded code leaves the window are no longer adjacent, they stay, and every later k-mer of the read
weighs 2 or 4 times its count — a minority read wins the consensus.`,
		Run: func(c *Ctx, s *Sink) {
			c.EachFunc([]string{"pkg", "cmd"}, func(p *packages.Package, fd *ast.FuncDecl) {
				info := p.TypesInfo
				n := 0
				ast.Inspect(fd.Body, func(nd ast.Node) bool {
					blk, ok := nd.(*ast.BlockStmt)
					if !ok {
						return true
					}
					for k, st := range blk.List {
						var call *ast.CallExpr
						ast.Inspect(st, func(m ast.Node) bool {
							if _, isBlk := m.(*ast.BlockStmt); isBlk {
								return false // the calls of nested blocks are seen with their own block
							}
							if ce, ok := m.(*ast.CallExpr); ok {
								switch fullName(callee(info, ce)) {
								case "slices.Compact", "slices.CompactFunc", "golang.org/x/exp/slices.Compact", "golang.org/x/exp/slices.CompactFunc":
									call = ce
								}
							}
							return true
						})
						if call == nil || len(call.Args) == 0 {
							continue
						}
						x := rootObj(info, call.Args[0])
						if x == nil {
							continue
						}
						n++
						key := fmt.Sprintf("%s:compact#%d:sorted-before", funcName(p, fd), n)
						sorted := false
						for j := k - 1; j >= 0 && !sorted; j-- {
							appends, sorts := false, false
							ast.Inspect(blk.List[j], func(m ast.Node) bool {
								switch y := m.(type) {
								case *ast.CallExpr:
									if sortFuncs[fullName(callee(info, y))] && len(y.Args) > 0 && rootObj(info, y.Args[0]) == x {
										sorts = true
									}
								case *ast.AssignStmt:
									for _, l := range y.Lhs {
										if rootObj(info, l) == x {
											appends = true
										}
									}
								}
								return true
							})
							if sorts {
								sorted = true
							}
							if appends && !sorts {
								break
							}
						}
						if sorted {
							s.Pass(nil, key, call.Pos(), "the slice is sorted between its last change and the call")
						} else {
							s.Fail(nil, key, call.Pos(), "slices.Compact is called on "+x.Name()+", which no statement sorts after it was filled: only adjacent duplicates go — the words an ambiguity window expands to stay several times, and every later k-mer of the read is counted once per duplicate (gtaa weighs 12 where 3 is expected; the consensus of 2 + 5 reads is a chimera of the minority read)")
						}
					}
					return true
				})
			})
		},
	})

	register(&Rule{
		ID: "CUR", Props: []string{"C15"}, Min: 1,
		Doc: `"the taxon assigned is the LCA over EVERY tied best reference, each read at the observed distance": in pkg/obitools/obitag and obitag2, a variable used as the key of a look-up in a reference index
(a map[int]string) and moved (d--, d++) by the search of the largest recorded level is a variable of the iteration over the tied references: it is declared inside the body of the range loop in which it is
moved. Declared before the loop, the look-up of the second tied reference starts where the first one stopped — below the observed distance — and reads a too specific level (Genus where the LCA is the Order), or
starts at −1 and panics.`,
		Run: func(c *Ctx, s *Sink) {
			c.EachFunc([]string{"pkg/obitools/obitag", "pkg/obitools/obitag2"}, func(p *packages.Package, fd *ast.FuncDecl) {
				info := p.TypesInfo
				// cursors: variables indexing a map[int]string and moved by ++/--
				cursors := map[types.Object]bool{}
				ast.Inspect(fd.Body, func(n ast.Node) bool {
					if ix, ok := n.(*ast.IndexExpr); ok {
						if t := info.TypeOf(ix.X); t != nil {
							if mt, isMap := t.Underlying().(*types.Map); isMap && mt.Key().String() == "int" && mt.Elem().String() == "string" {
								if id, ok := ast.Unparen(ix.Index).(*ast.Ident); ok {
									cursors[info.ObjectOf(id)] = true
								}
							}
						}
					}
					return true
				})
				reported := map[types.Object]bool{}
				var stack []ast.Node
				ast.Inspect(fd.Body, func(n ast.Node) bool {
					if n == nil {
						stack = stack[:len(stack)-1]
						return true
					}
					stack = append(stack, n)
					inc, ok := n.(*ast.IncDecStmt)
					if !ok {
						return true
					}
					id, ok := ast.Unparen(inc.X).(*ast.Ident)
					if !ok {
						return true
					}
					o := info.ObjectOf(id)
					if !cursors[o] || reported[o] {
						return true
					}
					// the outermost range loop holding the move
					var rng *ast.RangeStmt
					for _, a := range stack {
						if r, ok := a.(*ast.RangeStmt); ok && rng == nil {
							rng = r
						}
					}
					if rng == nil {
						return true
					}
					reported[o] = true
					key := fmt.Sprintf("%s:cursor %s:declared-in-the-iteration", funcName(p, fd), o.Name())
					if rng.Body.Pos() <= o.Pos() && o.Pos() < rng.Body.End() {
						s.Pass(nil, key, inc.Pos(), "the cursor is declared inside the loop over "+types.ExprString(rng.X)+": each item starts from its own value")
					} else {
						s.Fail(nil, key, inc.Pos(), "the cursor "+o.Name()+" of the look-up in the index is declared before the loop over "+types.ExprString(rng.X)+" and moved inside it: the look-up of the second tied reference starts where the first one stopped, below the observed distance, and reads a too specific level (taxid 30, Genus, where the LCA of the ties is taxid 10, Ordo) — or starts at -1 and panics")
					}
					return true
				})
			})
		},
	})
}

var _ = token.ADD
