package main

// NW — a worker that may be absent is not called (C16).

import (
	"fmt"
	"go/ast"
	"go/token"
	"go/types"
	"strings"

	"golang.org/x/tools/go/packages"
)

func init() {
	register(&Rule{
		ID: "NW", Props: []string{"C16", "C03"}, Min: 3,
		Doc: `"obiannotate applies every requested edit … and changes nothing else" — also when no edit is requested: the edit pipeline is built by chaining workers onto a nil obiseq.SeqWorker
(CLIAnnotationWorker returns nil when no option asks for an edit), so nil is a legal value of the type. In pkg/obiseq, pkg/obiiter and pkg/obitools, a function that receives a SeqWorker
parameter and calls it — in its body or in a function literal it returns — tests that parameter against nil somewhere before: PairedWorker wrapped the nil worker in a closure
that called it, and 'obiannotate a.fasta', '--cut 0:3' or a selection without edit died on a nil function call instead of copying the records.`,
		Run: func(c *Ctx, s *Sink) {
			c.EachFunc([]string{"pkg/obiseq", "pkg/obiiter", "pkg/obitools"}, func(p *packages.Package, fd *ast.FuncDecl) {
				info := p.TypesInfo
				for _, id := range flattenParams(fd.Type.Params) {
					if id == nil {
						continue
					}
					o := info.ObjectOf(id)
					tn := namedTypeName(o.Type())
					// nil is a legal SeqWorker (the empty chain of ChainWorkers); a SeqSliceWorker is always built from one
					if !strings.HasSuffix(tn, "/pkg/obiseq.SeqWorker") {
						continue
					}
					called, tested := token.NoPos, false
					ast.Inspect(fd.Body, func(n ast.Node) bool {
						switch x := n.(type) {
						case *ast.CallExpr:
							if f, ok := ast.Unparen(x.Fun).(*ast.Ident); ok && info.Uses[f] == o && !called.IsValid() {
								called = x.Pos()
							}
						case *ast.BinaryExpr:
							if x.Op == token.EQL || x.Op == token.NEQ {
								l, lok := ast.Unparen(x.X).(*ast.Ident)
								r, rok := ast.Unparen(x.Y).(*ast.Ident)
								if lok && rok && ((info.Uses[l] == o && r.Name == "nil") || (info.Uses[r] == o && l.Name == "nil")) {
									tested = true
								}
							}
						}
						return true
					})
					if !called.IsValid() {
						continue
					}
					key := fmt.Sprintf("%s:%s:nil-worker-not-called", funcName(p, fd), o.Name())
					if tested {
						s.Pass(nil, key, called, "the worker is tested against nil in the function that calls it")
					} else {
						s.Fail(nil, key, called, "the worker "+o.Name()+" is called without ever being compared with nil: a pipeline without any edit is the nil worker — obiannotate without edit option (or --cut 0:3, or a selection alone) panics on a nil function call instead of copying its input")
					}
				}
			})
			_ = types.Universe
		},
	})
}
