package main

// KV, MC, IV, PM, NAD — the options of obigrep / obiannotate / obidistribute say what they do (C16).

import (
	"fmt"
	"go/ast"
	"go/constant"
	"go/token"
	"go/types"
	"strings"

	"golang.org/x/tools/go/packages"
)

func init() {
	register(&Rule{
		ID: "KV", Props: []string{"C16"}, Min: 3,
		Doc: `"applies every requested edit", "keeps exactly the records that satisfy every requested criterion … several occurrences of repeatable options": an option whose argument is KEY=VALUE (its
ArgName holds an equal sign) is not declared with StringMap / StringMapVar of go-getoptions — that parser cuts the argument at EVERY '=' and keeps the second piece, and a map holds one value per
key — but with StringSlice / StringSliceVar, and some function of the package that reads the bound variable cuts each occurrence at its FIRST '=' (strings.Cut, strings.SplitN(…, 2), or a helper
doing so). obiannotate -S 'isa=annotations.x=="a"' evaluated annotations.x (a copy of x, no message), -S 'big=len(sequence)>=4' was refused, obigrep -a 'x=^a' -a 'x=c$' kept xbc.`,
		Run: func(c *Ctx, s *Sink) {
			// helpers cutting at the first '='
			cuts := func(info *types.Info, call *ast.CallExpr) bool {
				switch fullName(callee(info, call)) {
				case "strings.Cut":
					return true
				case "strings.SplitN":
					if len(call.Args) == 3 {
						if v, ok := constInt(info, call.Args[2]); ok && v == 2 {
							return true
						}
					}
				}
				return false
			}
			cutters := map[string]bool{}
			c.EachFunc([]string{"pkg"}, func(p *packages.Package, fd *ast.FuncDecl) {
				ast.Inspect(fd.Body, func(n ast.Node) bool {
					if call, ok := n.(*ast.CallExpr); ok && cuts(p.TypesInfo, call) {
						cutters[funcName(p, fd)] = true
					}
					return true
				})
			})
			for _, p := range c.sortedPkgs() {
				if !strings.Contains(p.PkgPath, "/pkg/") {
					continue
				}
				info := p.TypesInfo
				for _, f := range p.Syntax {
					ast.Inspect(f, func(n ast.Node) bool {
						call, ok := n.(*ast.CallExpr)
						if !ok {
							return true
						}
						sel, ok := call.Fun.(*ast.SelectorExpr)
						if !ok || !strings.HasPrefix(fullName(callee(info, call)), "github.com/DavidGamba/go-getoptions.(GetOpt).") {
							return true
						}
						// an ArgName("…=…") among the arguments
						kv := false
						for _, a := range call.Args {
							if c2, ok := a.(*ast.CallExpr); ok && len(c2.Args) == 1 && strings.HasSuffix(fullName(callee(info, c2)), ".ArgName") {
								if tv, ok := info.Types[c2.Args[0]]; ok && tv.Value != nil && tv.Value.Kind() == constant.String && strings.Contains(constant.StringVal(tv.Value), "=") {
									kv = true
								}
							}
						}
						if !kv || len(call.Args) < 2 {
							return true
						}
						name := "?"
						for _, a := range call.Args[:2] {
							if tv, ok := info.Types[a]; ok && tv.Value != nil && tv.Value.Kind() == constant.String {
								name = constant.StringVal(tv.Value)
							}
						}
						key := rel(p.PkgPath) + ":--" + name + ":cut-at-the-first-equal-sign"
						switch sel.Sel.Name {
						case "StringSliceVar", "StringSlice":
						default:
							s.Fail(nil, key, call.Pos(), "the option --"+name+" KEY=VALUE is declared with "+sel.Sel.Name+": go-getoptions splits the argument at every '=' and keeps the second piece only, and one value per key — obiannotate -S 'isa=annotations.x==\"a\"' sets isa to a copy of x, -S 'big=len(sequence)>=4' is refused (\"Error in the expression : len(sequence)>\"), obigrep -a 'x=^a' -a 'x=c$' keeps the record whose x is xbc")
							return true
						}
						// the bound variable is read by a function that cuts, or calls a cutter
						var bound types.Object
						if u, ok := ast.Unparen(call.Args[0]).(*ast.UnaryExpr); ok && u.Op == token.AND {
							bound = rootObj(info, u.X)
						}
						if bound == nil {
							s.Undecided(nil, key, call.Pos(), "the variable bound to the option is not found")
							return true
						}
						okCut := false
						for _, f2 := range p.Syntax {
							for _, d := range f2.Decls {
								fd, isF := d.(*ast.FuncDecl)
								if !isF || fd.Body == nil {
									continue
								}
								reads, cutsHere := false, false
								ast.Inspect(fd.Body, func(m ast.Node) bool {
									switch y := m.(type) {
									case *ast.Ident:
										if info.Uses[y] == bound {
											reads = true
										}
									case *ast.CallExpr:
										if cuts(info, y) {
											cutsHere = true
										}
										if fn := callee(info, y); fn != nil {
											for k := range cutters {
												if strings.HasSuffix(k, "."+fn.Name()) && strings.Contains(k, rel(fn.Pkg().Path())) {
													cutsHere = true
												}
											}
										}
									}
									return true
								})
								// or hands the variable to a package function that does
								if reads && !cutsHere {
									ast.Inspect(fd.Body, func(m ast.Node) bool {
										if y, ok := m.(*ast.CallExpr); ok {
											uses := false
											for _, a := range y.Args {
												if rootObj(info, a) == bound {
													uses = true
												}
											}
											if fn := callee(info, y); uses && fn != nil && fn.Pkg() == p.Types {
												if fd2, _ := c.FindFunc(rel(p.PkgPath), fn.Name()); fd2 != nil {
													ast.Inspect(fd2.Body, func(q ast.Node) bool {
														if z, ok := q.(*ast.CallExpr); ok {
															if cuts(info, z) {
																cutsHere = true
															}
															if fn3 := callee(info, z); fn3 != nil {
																for k := range cutters {
																	if strings.HasSuffix(k, "."+fn3.Name()) && strings.Contains(k, rel(fn3.Pkg().Path())) {
																		cutsHere = true
																	}
																}
															}
														}
														return true
													})
												}
											}
										}
										return true
									})
								}
								if reads && cutsHere {
									okCut = true
								}
							}
						}
						if okCut {
							s.Pass(nil, key, call.Pos(), "every occurrence is kept (slice) and cut at its first '=' by the function that reads it")
						} else {
							s.Fail(nil, key, call.Pos(), "no function reading the occurrences of --"+name+" cuts them at their first '=' (strings.Cut / SplitN(…, 2)): a value holding an equal sign — a pattern, an expression with == or >= — is cut short")
						}
						return true
					})
				}
			}
		},
	})

	register(&Rule{
		ID: "MC", Props: []string{"C16"}, Min: 1,
		Doc: `"option values at and around the boundaries": a count and a length may be 0, so a minimum of 1 is a criterion as any other. In pkg/obitools/obigrep a condition V > K (or V >= K) on an option
variable V that guards the construction of a lower-bound predicate (obiseq.IsMoreAbundantOrEqualTo(V), IsLongerOrEqualTo(V)) has K <= 0 (K <= 1): obigrep -c 1 kept a record holding count:0,
and obigrep -v -c 1 kept every record (no predicate at all, --save-discarded not even created).`,
		Run: func(c *Ctx, s *Sink) {
			c.EachFunc([]string{"pkg/obitools/obigrep"}, func(p *packages.Package, fd *ast.FuncDecl) {
				info := p.TypesInfo
				n := 0
				ast.Inspect(fd.Body, func(nd ast.Node) bool {
					is, ok := nd.(*ast.IfStmt)
					if !ok {
						return true
					}
					b, ok := ast.Unparen(is.Cond).(*ast.BinaryExpr)
					if !ok || b.Op != token.GTR && b.Op != token.GEQ {
						return true
					}
					v := rootObj(info, b.X)
					k, isC := constInt(info, b.Y)
					if v == nil || !isC || v.Parent() != p.Types.Scope() && !isParamOf(info, fd, v) {
						return true
					}
					isLower := func(fn string) bool {
						return strings.HasSuffix(fn, "/pkg/obiseq.IsMoreAbundantOrEqualTo") || strings.HasSuffix(fn, "/pkg/obiseq.IsLongerOrEqualTo")
					}
					lower := false
					ast.Inspect(is.Body, func(m ast.Node) bool {
						if call, ok := m.(*ast.CallExpr); ok && len(call.Args) == 1 && rootObj(info, call.Args[0]) == v {
							if isLower(fullName(callee(info, call))) {
								lower = true
							}
							// the maker of the predicate is itself a parameter: what the callers of the package give for it
							if fo := rootObj(info, call.Fun); fo != nil && isParamOf(info, fd, fo) {
								idx, k2 := -1, 0
								for _, fl := range fd.Type.Params.List {
									for _, nm := range fl.Names {
										if info.ObjectOf(nm) == fo {
											idx = k2
										}
										k2++
									}
								}
								for _, f2 := range p.Syntax {
									ast.Inspect(f2, func(q ast.Node) bool {
										if c2, ok := q.(*ast.CallExpr); ok && idx >= 0 && idx < len(c2.Args) && callee(info, c2) != nil && callee(info, c2) == info.Defs[fd.Name] {
											if sel, ok := ast.Unparen(c2.Args[idx]).(*ast.SelectorExpr); ok {
												if f3, ok := info.Uses[sel.Sel].(*types.Func); ok && isLower(fullName(f3)) {
													lower = true
												}
											}
										}
										return true
									})
								}
							}
						}
						return true
					})
					if !lower {
						return true
					}
					n++
					key := fmt.Sprintf("%s:%s:minimum-of-one-is-a-criterion", funcName(p, fd), v.Name())
					limit := int64(0)
					if b.Op == token.GEQ {
						limit = 1
					}
					if k <= limit {
						s.Pass(nil, key, is.Pos(), "every value that excludes some record builds the predicate")
					} else {
						s.Fail(nil, key, is.Pos(), fmt.Sprintf("the minimum is ignored unless it exceeds %d: obigrep -c 1 keeps a record holding count:0, obigrep -v -c 1 --save-discarded d.fasta keeps all the records and does not create d.fasta (-c 2 works)", k))
					}
					return true
				})
			})
		},
	})

	register(&Rule{
		ID: "IV", Props: []string{"C16"}, Min: 1,
		Doc: `"-v keeps exactly the others and the discarded-records file receives exactly the complement": for SequencePredicate nil means "no criterion" and Not() of nil is nil. In pkg/obitools/obigrep the
statements guarded by the inverse-match flag do not call .Not() on a predicate that may be nil: the call lies under a nil test of its receiver (in the function, or in the package helper the branch
calls). obigrep -v alone kept every record.`,
		Run: func(c *Ctx, s *Sink) {
			p := c.Pkg("pkg/obitools/obigrep")
			if p == nil {
				s.Undecided(nil, "pkg/obitools/obigrep", 0, "package not loaded")
				return
			}
			info := p.TypesInfo
			// notGuarded: every .Not() of the body lies after/under a nil test of its receiver
			var notSafe func(body ast.Node, depth int) (bool, bool)
			notSafe = func(body ast.Node, depth int) (found bool, safe bool) {
				safe = true
				nilTested := map[types.Object]bool{}
				ast.Inspect(body, func(m ast.Node) bool {
					switch y := m.(type) {
					case *ast.BinaryExpr:
						if y.Op == token.EQL || y.Op == token.NEQ {
							for _, pr := range [][2]ast.Expr{{y.X, y.Y}, {y.Y, y.X}} {
								if id, ok := ast.Unparen(pr[1]).(*ast.Ident); ok && id.Name == "nil" {
									if o := rootObj(info, pr[0]); o != nil {
										nilTested[o] = true
									}
								}
							}
						}
					case *ast.CallExpr:
						if sel, ok := y.Fun.(*ast.SelectorExpr); ok && sel.Sel.Name == "Not" && strings.HasSuffix(fullName(callee(info, y)), "/pkg/obiseq.(SequencePredicate).Not") {
							found = true
							if o := rootObj(info, sel.X); o == nil || !nilTested[o] {
								safe = false
							}
						} else if fn := callee(info, y); fn != nil && fn.Pkg() == p.Types && depth < 2 {
							if fd2, _ := c.FindFunc("pkg/obitools/obigrep", fn.Name()); fd2 != nil && strings.HasPrefix(fn.Name(), "cli") {
								f2, s2 := notSafe(fd2.Body, depth+1)
								if f2 {
									found = true
									if !s2 {
										safe = false
									}
								}
							}
						}
					}
					return true
				})
				return
			}
			c.EachFunc([]string{"pkg/obitools/obigrep"}, func(p2 *packages.Package, fd *ast.FuncDecl) {
				n := 0
				ast.Inspect(fd.Body, func(nd ast.Node) bool {
					is, ok := nd.(*ast.IfStmt)
					if !ok {
						return true
					}
					o := rootObj(info, is.Cond)
					if o == nil || o.Parent() != p.Types.Scope() || !strings.Contains(strings.ToLower(o.Name()), "invert") {
						return true
					}
					n++
					key := fmt.Sprintf("%s:inverse#%d:of-no-criterion-selects-none", funcName(p2, fd), n)
					found, safe := notSafe(is.Body, 0)
					switch {
					case !found:
						s.Pass(nil, key, is.Pos(), "no Not() under the flag")
					case safe:
						s.Pass(nil, key, is.Pos(), "Not() is called under a nil test of the predicate: the complement of an empty selection selects nothing")
					default:
						s.Fail(nil, key, is.Pos(), "the selection is inverted with Not() without looking whether there is one: Not() of nil is nil — obigrep -v without criterion, or with -c 1 only, keeps every record instead of none, and the file of --save-discarded is not created")
					}
					return true
				})
			})
		},
	})

	register(&Rule{
		ID: "PM", Props: []string{"C16"}, Min: 2,
		Doc: `"whatever combination of criteria is given … paired reads": the commands that select records with the criteria of obigrep agree on paired reads. Every function of pkg/obitools that calls
obigrep.CLISequenceSelectionPredicate also calls CLIPairedSequenceSelectionPredicate under a test of obiconvert.CLIHasPairedFile (what CLIFilterSequence does): obiannotate accepted
--paired-mode and ignored it — both reads of a pair were edited according to the forward read alone.`,
		Run: func(c *Ctx, s *Sink) {
			c.EachFunc([]string{"pkg/obitools"}, func(p *packages.Package, fd *ast.FuncDecl) {
				info := p.TypesInfo
				var first *ast.CallExpr
				paired := false
				ast.Inspect(fd.Body, func(n ast.Node) bool {
					switch y := n.(type) {
					case *ast.CallExpr:
						if strings.HasSuffix(fullName(callee(info, y)), "/pkg/obitools/obigrep.CLISequenceSelectionPredicate") && first == nil {
							first = y
						}
					case *ast.IfStmt:
						hasTest := false
						ast.Inspect(y.Cond, func(m ast.Node) bool {
							if c2, ok := m.(*ast.CallExpr); ok && strings.HasSuffix(fullName(callee(info, c2)), "/pkg/obitools/obiconvert.CLIHasPairedFile") {
								hasTest = true
							}
							return true
						})
						if hasTest {
							ast.Inspect(y.Body, func(m ast.Node) bool {
								if c2, ok := m.(*ast.CallExpr); ok && strings.HasSuffix(fullName(callee(info, c2)), "/pkg/obitools/obigrep.CLIPairedSequenceSelectionPredicate") {
									paired = true
								}
								return true
							})
						}
					}
					return true
				})
				if first == nil {
					return
				}
				key := funcName(p, fd) + ":selection:paired-mode-honoured"
				if paired {
					s.Pass(nil, key, first.Pos(), "with a paired file the selection is made on the pair")
				} else {
					s.Fail(nil, key, first.Pos(), "the selection is always made on the forward read: obiannotate --paired-with r.fastq --paired-mode reverse -l 5 -S 'tagged=\"yes\"' tags the pair whose forward read is long, obigrep with the same options keeps the other pair")
				}
			})
		},
	})

	register(&Rule{
		ID: "NAD", Props: []string{"C16"}, Min: 1,
		Doc: `"sends every record to the one file its class says": the class of a record that has no annotation at all is the class of a record that lacks the keys. In the classifiers of pkg/obiseq/class.go a
variable given the value na inside the statement guarded by HasAnnotation() holds na before that statement as well (declared with it, or assigned): with obidistribute -c K -d D a record without
annotation went to ./o_NA.fasta and a record with other annotations to NA/o_NA.fasta.`,
		Run: func(c *Ctx, s *Sink) {
			c.EachFunc([]string{"pkg/obiseq"}, func(p *packages.Package, fd *ast.FuncDecl) {
				if !strings.Contains(fd.Name.Name, "Classifier") {
					return
				}
				info := p.TypesInfo
				isNa := func(e ast.Expr) bool {
					id, ok := ast.Unparen(e).(*ast.Ident)
					return ok && id.Name == "na"
				}
				ast.Inspect(fd.Body, func(nd ast.Node) bool {
					is, ok := nd.(*ast.IfStmt)
					if !ok {
						return true
					}
					has := false
					ast.Inspect(is.Cond, func(m ast.Node) bool {
						if c2, ok := m.(*ast.CallExpr); ok && strings.HasSuffix(fullName(callee(info, c2)), "/pkg/obiseq.(BioSequence).HasAnnotation") {
							has = true
						}
						return true
					})
					if !has {
						return true
					}
					inside := map[types.Object]token.Pos{}
					ast.Inspect(is.Body, func(m ast.Node) bool {
						if as, ok := m.(*ast.AssignStmt); ok && len(as.Lhs) == len(as.Rhs) {
							for i := range as.Lhs {
								if isNa(as.Rhs[i]) {
									if o := rootObj(info, as.Lhs[i]); o != nil {
										inside[o] = as.Pos()
									}
								}
							}
						}
						return true
					})
					for o, pos := range inside {
						key := fmt.Sprintf("%s:%s:na-without-annotation", funcName(p, fd), o.Name())
						before := false
						ast.Inspect(fd.Body, func(m ast.Node) bool {
							if m == nil || m.Pos() >= is.Pos() {
								return m == nil || m.Pos() < is.Pos() || m.End() > is.Pos()
							}
							switch y := m.(type) {
							case *ast.ValueSpec:
								for i, nm := range y.Names {
									if info.ObjectOf(nm) == o && i < len(y.Values) && isNa(y.Values[i]) {
										before = true
									}
								}
							case *ast.AssignStmt:
								if len(y.Lhs) == len(y.Rhs) {
									for i := range y.Lhs {
										if rootObj(info, y.Lhs[i]) == o && isNa(y.Rhs[i]) && y.End() <= is.Pos() {
											before = true
										}
									}
								}
							}
							return true
						})
						if before {
							s.Pass(nil, key, pos, "the variable holds na before the test of HasAnnotation as well")
						} else {
							s.Fail(nil, key, pos, "the value for a missing key is given only to the records that have some annotation: obidistribute -c K -d D files r2 {\"other\":1} under NA/o_NA.fasta and r3 (no annotation) under ./o_NA.fasta although both lack K and D")
						}
					}
					return true
				})
			})
		},
	})
}

func init() {
	register(&Rule{
		ID: "SD", Props: []string{"C16"}, Min: 1,
		Doc: `"the discarded-records file receives exactly the complement": the complement of everything is nothing, and a file that is asked for is written. In pkg/obitools/obigrep the function that
divides the records between the output and the file of --save-discarded (it calls DivideOn) does not make the writing of that file depend on the existence of a criterion alone: it holds a
test that names both the absence of a predicate (== nil) and CLISaveDiscardedSequences(), so that the file is written (empty) in that case. Left untouched, the file kept the records of an
earlier run.`,
		Run: func(c *Ctx, s *Sink) {
			c.EachFunc([]string{"pkg/obitools/obigrep"}, func(p *packages.Package, fd *ast.FuncDecl) {
				info := p.TypesInfo
				divides := false
				ast.Inspect(fd.Body, func(n ast.Node) bool {
					if call, ok := n.(*ast.CallExpr); ok {
						if fn := callee(info, call); fn != nil && fn.Name() == "DivideOn" {
							divides = true
						}
					}
					return true
				})
				if !divides {
					return
				}
				key := funcName(p, fd) + ":discarded-file-written-without-criterion"
				ok := false
				ast.Inspect(fd.Body, func(n ast.Node) bool {
					is, isIf := n.(*ast.IfStmt)
					if !isIf {
						return true
					}
					nilTest, save := false, false
					ast.Inspect(is.Cond, func(m ast.Node) bool {
						switch y := m.(type) {
						case *ast.BinaryExpr:
							if y.Op == token.EQL {
								if id, isID := ast.Unparen(y.Y).(*ast.Ident); isID && id.Name == "nil" {
									nilTest = true
								}
							}
						case *ast.CallExpr:
							if fn := callee(info, y); fn != nil && fn.Name() == "CLISaveDiscardedSequences" {
								save = true
							}
						}
						return true
					})
					if nilTest && save {
						ok = true
					}
					return true
				})
				if ok {
					s.Pass(nil, key, fd.Pos(), "without criterion the file of the discarded records is still written")
				} else {
					s.Fail(nil, key, fd.Pos(), "the file of --save-discarded is only written when some criterion is given: obigrep --save-discarded d.fasta without criterion leaves d.fasta as it was — the records an earlier run discarded are still in it")
				}
			})
		},
	})
}
