package main

// SQ — phases of obiclean that work on the whole graph without any
// synchronisation stay sequential (C13).

import (
	"go/ast"
	"go/token"
	"go/types"

	"golang.org/x/tools/go/packages"
)

func init() {
	register(&Rule{
		ID: "SQ", Props: []string{"C13"}, Min: 4,
		Doc: `sequential phases stay sequential: the obiclean functions that read and write every node of a sample graph without synchronisation (reweightSequences,
FilterGraphOnRatio, Mutation, sortSamples) are never referenced from a function literal started with go, and in the comparison pools the first use of the graph after the
workers (reweightSequences, return) is preceded by running.Wait() in the same block, the WaitGroup amount being the number of workers started.`,
		Run: runSQ,
	})
}

var sqFuncs = []string{"reweightSequences", "FilterGraphOnRatio", "Mutation", "sortSamples"}

func runSQ(c *Ctx, s *Sink) {
	p := c.Pkg("pkg/obitools/obiclean")
	if p == nil {
		s.Undecided(nil, "pkg/obitools/obiclean", 0, "package not loaded")
		return
	}
	info := p.TypesInfo
	targets := map[types.Object]string{}
	for _, n := range sqFuncs {
		if o := p.Types.Scope().Lookup(n); o != nil {
			targets[o] = n
		} else {
			s.Undecided(nil, "pkg/obitools/obiclean."+n, 0, "function not found")
		}
	}
	// references from goroutine literals, program-wide in the package
	bad := map[types.Object]token.Pos{}
	c.EachFunc([]string{"pkg/obitools/obiclean"}, func(pp *packages.Package, fd *ast.FuncDecl) {
		lits := localFuncLits(info, fd)
		ast.Inspect(fd.Body, func(n ast.Node) bool {
			g, ok := n.(*ast.GoStmt)
			if !ok {
				return true
			}
			var body ast.Node
			switch f := ast.Unparen(g.Call.Fun).(type) {
			case *ast.FuncLit:
				body = f
			case *ast.Ident:
				if l := lits[info.ObjectOf(f)]; l != nil {
					body = l
				} else if _, ok := targets[info.ObjectOf(f)]; ok {
					bad[info.ObjectOf(f)] = g.Pos()
				}
			}
			if body != nil {
				ast.Inspect(body, func(m ast.Node) bool {
					if id, ok := m.(*ast.Ident); ok {
						if _, ok := targets[info.Uses[id]]; ok {
							bad[info.Uses[id]] = id.Pos()
						}
					}
					return true
				})
			}
			return true
		})
	})
	for o, n := range targets {
		key := "pkg/obitools/obiclean." + n
		if pos, ok := bad[o]; ok {
			s.Fail(nil, key, pos, n+" works on the whole sample graph without synchronisation but is started from a goroutine: statuses and weights depend on scheduling")
		} else {
			s.Pass(nil, key, o.Pos(), "never referenced from a goroutine")
		}
	}
	// the pools wait for their workers before the graph is used again
	for _, name := range []string{"buildSamplePairs", "extendSimilarityGraph"} {
		fd, _ := c.FindFunc("pkg/obitools/obiclean", name)
		key := "pkg/obitools/obiclean." + name + ":wait"
		if fd == nil {
			s.Undecided(nil, key, 0, "function not found")
			continue
		}
		waitPos, usePos := token.NoPos, token.NoPos
		for _, st := range fd.Body.List {
			switch x := st.(type) {
			case *ast.ExprStmt:
				if call, ok := x.X.(*ast.CallExpr); ok {
					if sel, ok := call.Fun.(*ast.SelectorExpr); ok && sel.Sel.Name == "Wait" && fullName(callee(info, call)) == "sync.(WaitGroup).Wait" {
						waitPos = x.Pos()
					}
					if id, ok := call.Fun.(*ast.Ident); ok {
						if _, ok := targets[info.Uses[id]]; ok && usePos == token.NoPos {
							usePos = x.Pos()
						}
					}
				}
			case *ast.ReturnStmt:
				if usePos == token.NoPos {
					usePos = x.Pos()
				}
			}
		}
		switch {
		case waitPos == token.NoPos:
			s.Fail(nil, key, fd.Pos(), "the pool never waits for its workers: the graph is used while it is still being built")
		case usePos != token.NoPos && usePos < waitPos:
			s.Fail(nil, key, usePos, "the graph is used (reweighting / return) before running.Wait(): workers are still adding edges")
		default:
			s.Pass(nil, key, waitPos, "running.Wait() precedes the first sequential use of the graph")
		}
	}
}
