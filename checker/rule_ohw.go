package main

// OHW — the OBI-format title writer writes one line, and writes containers as its reader reads them (C04, C02, C15).

import (
	"go/ast"
	"go/token"
	"go/types"
	"strings"
)

func init() {
	register(&Rule{
		ID: "OHW", Props: []string{"C04", "C02", "C15"}, Min: 2,
		Doc: `"well-formed FASTA/FASTQ", "written then read back as the same records", for --output-OBI-header. In pkg/obiformats.WriteFastSeqOBIHeade (1) line feeds cannot reach the title line: the
function holds a test of a byte against '\n' (or a replacement of "\n") applied to what it writes — string values, list elements and the definition were written verbatim, so {"definition":
"first line\nGGGGGGGG"} gave a record of three lines read back, exit 0, as the sequence ggggggggacgt; (2) the clause of the type switch that prints a value with the verb %v first tests whether
the value is a map, a slice or an array and writes those through the JSON conversion: a map[int]string (the index obirefidx gives to a reference) was printed as Go prints it
(obitag_ref_index=map[0:30@Sp30@species …]), which obitag cannot read back ("cannot be casted to a map[int]string").`,
		Run: func(c *Ctx, s *Sink) {
			fd, p := c.FindFunc("pkg/obiformats", "WriteFastSeqOBIHeade")
			if fd == nil {
				s.Undecided(nil, "pkg/obiformats.WriteFastSeqOBIHeade", 0, "function not found")
				return
			}
			info := p.TypesInfo
			key := "pkg/obiformats.WriteFastSeqOBIHeade:no-line-feed"
			sanitises := false
			ast.Inspect(fd.Body, func(n ast.Node) bool {
				switch x := n.(type) {
				case *ast.BinaryExpr:
					if x.Op == token.EQL || x.Op == token.NEQ {
						for _, e := range []ast.Expr{x.X, x.Y} {
							if bl, ok := ast.Unparen(e).(*ast.BasicLit); ok && (bl.Value == `'\n'` || bl.Value == `"\n"`) {
								sanitises = true
							}
						}
					}
				case *ast.CallExpr:
					if f := callee(info, x); f != nil && strings.HasPrefix(f.Name(), "Replace") {
						for _, a := range x.Args {
							if strings.Contains(types.ExprString(a), `\n`) {
								sanitises = true
							}
						}
					}
				}
				return true
			})
			if sanitises {
				s.Pass(nil, key, fd.Pos(), "line feeds are removed from what the function writes")
			} else {
				s.Fail(nil, key, fd.Pos(), "string values, list elements and the definition are written verbatim: a line feed in any of them starts a new line of the record — >a {\"definition\":\"first line\\nGGGGGGGG\"} / acgt is written on three lines and read back, exit 0, with the sequence ggggggggacgt; in FASTQ the four-line structure is shifted and the file is no longer recognised")
			}
			key = "pkg/obiformats.WriteFastSeqOBIHeade:containers-not-printed-by-Go"
			// the %v print of the value and the kind tests of the clause holding it
			var stack []ast.Node
			nv, bad := 0, token.NoPos
			ast.Inspect(fd.Body, func(n ast.Node) bool {
				if n == nil {
					stack = stack[:len(stack)-1]
					return true
				}
				stack = append(stack, n)
				bl, ok := n.(*ast.BasicLit)
				if !ok || !strings.Contains(bl.Value, "=%v") {
					return true
				}
				nv++
				guarded := false
				for k := len(stack) - 1; k >= 0; k-- {
					ifs, ok := stack[k].(*ast.IfStmt)
					if !ok {
						continue
					}
					// the print is in the else branch of a test of the kind of the value
					inElse := ifs.Else != nil && bl.Pos() >= ifs.Else.Pos() && bl.End() <= ifs.Else.End()
					if inElse && (strings.Contains(types.ExprString(ifs.Cond), "IsAMap") || strings.Contains(types.ExprString(ifs.Cond), "reflect.")) {
						guarded = true
					}
				}
				if !guarded && !bad.IsValid() {
					bad = bl.Pos()
				}
				return true
			})
			switch {
			case nv == 0:
				s.Pass(nil, key, fd.Pos(), "no value is printed with %v")
			case bad.IsValid():
				s.Fail(nil, key, bad, "a value that is none of the listed types is printed with %v whatever its kind: a map[int]string, []string … comes out as Go prints it — obirefidx -O writes obitag_ref_index=map[0:30@Sp30@species 1:10@Fam10@family], and obitag -R on that file panics (cannot be casted to a map[int]string)")
			default:
				s.Pass(nil, key, fd.Pos(), "maps, slices and arrays are written through the JSON conversion before %v is used")
			}
		},
	})
}
