package main

// RE-4, RE-5 — where a read error may be turned into "nothing wrong" (C17).

import (
	"fmt"
	"go/ast"
	"go/token"
	"go/types"
	"strings"

	"golang.org/x/tools/go/packages"
)

func init() {
	register(&Rule{
		ID: "RE-4", Props: []string{"C17"}, Min: 1,
		Doc: `an error obtained from a read is cleared (err = nil) only under a condition that requires err == io.EOF: in pkg/obiformats every assignment of nil to an error variable that
was assigned from a call earlier in the function sits in an if whose condition has the conjunct err == io.EOF; any other error (io.ErrUnexpectedEOF of a truncated compressed stream,
checksum errors that some decompressors report only once) must survive.`,
		Run: runRE4,
	})
	register(&Rule{
		ID: "RE-5", Props: []string{"C17"}, Min: 1,
		Doc: `ErrNoContent (which every reader treats as an empty input, exit status 0) is derived only from the error of a read probe on the buffered stream (ReadRune, ReadByte, Peek, Read of a
*bufio.Reader): each argument of noContent() is an error variable whose definitions are all such calls — never the error of a decompressor constructor, which reports a stream cut
inside its header with a plain io.EOF.`,
		Run: runRE5,
	})
}

func isErrorType(t types.Type) bool {
	return t != nil && types.Identical(t, types.Universe.Lookup("error").Type())
}

// conjunctHasEOFTest: cond (a conjunction) contains `obj == io.EOF`.
func conjunctHasEOFTest(info *types.Info, cond ast.Expr, obj types.Object) bool {
	cond = ast.Unparen(cond)
	if b, ok := cond.(*ast.BinaryExpr); ok {
		switch b.Op {
		case token.LAND:
			return conjunctHasEOFTest(info, b.X, obj) || conjunctHasEOFTest(info, b.Y, obj)
		case token.EQL:
			isEOF := func(e ast.Expr) bool {
				sel, ok := ast.Unparen(e).(*ast.SelectorExpr)
				if !ok {
					return false
				}
				o := info.ObjectOf(sel.Sel)
				return o != nil && o.Pkg() != nil && o.Pkg().Path() == "io" && o.Name() == "EOF"
			}
			if rootObj(info, b.X) == obj && isEOF(b.Y) {
				return true
			}
			if rootObj(info, b.Y) == obj && isEOF(b.X) {
				return true
			}
		}
	}
	if call, ok := cond.(*ast.CallExpr); ok && isCallTo(info, call, "errors.Is") && len(call.Args) == 2 {
		if rootObj(info, call.Args[0]) == obj {
			if sel, ok := ast.Unparen(call.Args[1]).(*ast.SelectorExpr); ok && sel.Sel.Name == "EOF" {
				return true
			}
		}
	}
	return false
}

func runRE4(c *Ctx, s *Sink) {
	c.EachFunc([]string{"pkg/obiformats"}, func(p *packages.Package, fd *ast.FuncDecl) {
		info := p.TypesInfo
		fname := funcName(p, fd)
		n := 0
		var stack []ast.Node
		ast.Inspect(fd.Body, func(node ast.Node) bool {
			if node == nil {
				stack = stack[:len(stack)-1]
				return true
			}
			stack = append(stack, node)
			as, ok := node.(*ast.AssignStmt)
			if !ok || as.Tok != token.ASSIGN {
				return true
			}
			for i, l := range as.Lhs {
				id, ok := ast.Unparen(l).(*ast.Ident)
				if !ok || i >= len(as.Rhs) || len(as.Lhs) != len(as.Rhs) {
					continue
				}
				r, ok := ast.Unparen(as.Rhs[i]).(*ast.Ident)
				if !ok || r.Name != "nil" {
					continue
				}
				obj := info.ObjectOf(id)
				if obj == nil || !isErrorType(obj.Type()) {
					continue
				}
				// assigned from a call before?
				fromCall := false
				ast.Inspect(fd.Body, func(m ast.Node) bool {
					if a2, ok := m.(*ast.AssignStmt); ok && a2.Pos() < as.Pos() {
						for _, l2 := range a2.Lhs {
							if id2, ok := ast.Unparen(l2).(*ast.Ident); ok && info.ObjectOf(id2) == obj {
								for _, rr := range a2.Rhs {
									if _, isCall := ast.Unparen(rr).(*ast.CallExpr); isCall {
										fromCall = true
									}
								}
							}
						}
					}
					return true
				})
				if !fromCall {
					continue
				}
				n++
				key := fmt.Sprintf("%s:clear#%d", fname, n)
				guarded := false
				for k := len(stack) - 2; k >= 0; k-- {
					if ifs, ok := stack[k].(*ast.IfStmt); ok && k+1 < len(stack) && stack[k+1] == ast.Node(ifs.Body) {
						if conjunctHasEOFTest(info, ifs.Cond, obj) {
							guarded = true
						}
					}
				}
				if guarded {
					s.Pass(nil, key, as.Pos(), "cleared only when the error is io.EOF")
				} else {
					s.Fail(nil, key, as.Pos(), "a read error is reset to nil without requiring err == io.EOF: io.ErrUnexpectedEOF (truncated compressed input) or a checksum error reported once by the decompressor is swallowed and the truncated data is processed as a complete file")
				}
			}
			return true
		})
		if reScope(c, p, fd) {
			re4Returns(c, s, p, fd, &n)
		}
	})
}

// re4Returns: the same clearing written as a return — 'return n, nil' in a function that holds the error of a stream read.
func re4Returns(c *Ctx, s *Sink, p *packages.Package, fd *ast.FuncDecl, n *int) {
	info := p.TypesInfo
	if fd.Type.Results == nil || len(fd.Type.Results.List) == 0 {
		return
	}
	res := fd.Type.Results.List
	if !isErrorType(info.TypeOf(res[len(res)-1].Type)) {
		return
	}
	// the error variable of a stream read
	var obj types.Object
	var readPos token.Pos
	ast.Inspect(fd.Body, func(m ast.Node) bool {
		if as, ok := m.(*ast.AssignStmt); ok && len(as.Rhs) == 1 && obj == nil {
			if call, ok := ast.Unparen(as.Rhs[0]).(*ast.CallExpr); ok {
				if is, _ := isStreamRead(info, call); is {
					for _, l := range as.Lhs {
						if o := rootObj(info, l); o != nil && isErrorType(o.Type()) {
							obj, readPos = o, as.Pos()
						}
					}
				}
			}
		}
		return true
	})
	if obj == nil {
		return
	}
	// only where the function holds one error: with several (one per probe, each tested where it is defined) a final nil says nothing of any of them
	errs := map[types.Object]bool{}
	ast.Inspect(fd.Body, func(m ast.Node) bool {
		if as, ok := m.(*ast.AssignStmt); ok {
			for _, l := range as.Lhs {
				if o := rootObj(info, l); o != nil && isErrorType(o.Type()) {
					errs[o] = true
				}
			}
		}
		return true
	})
	if len(errs) != 1 {
		return
	}
	excludes := func(cond ast.Expr) bool {
		// a disjunction with the disjunct err != io.EOF (or err != nil): falling through, the error is io.EOF (nil)
		for _, d := range disjunctsOf(cond) {
			if b, ok := ast.Unparen(d).(*ast.BinaryExpr); ok && b.Op == token.NEQ && rootObj(info, b.X) == obj {
				if isObj(info, b.Y, "io", "EOF") {
					return true
				}
				if id, ok := ast.Unparen(b.Y).(*ast.Ident); ok && id.Name == "nil" {
					return true
				}
			}
		}
		return false
	}
	var visit func(list []ast.Stmt, guarded bool)
	visit = func(list []ast.Stmt, guarded bool) {
		g := guarded
		for _, st := range list {
			switch y := st.(type) {
			case *ast.IfStmt:
				inner := g || conjunctHasEOFTest(info, y.Cond, obj)
				visit(y.Body.List, inner)
				if blk, ok := y.Else.(*ast.BlockStmt); ok {
					visit(blk.List, g || excludes(y.Cond))
				}
				// if C { …; return } with err != io.EOF among the disjuncts of C: what follows only sees io.EOF
				if len(y.Body.List) > 0 {
					if _, isRet := y.Body.List[len(y.Body.List)-1].(*ast.ReturnStmt); isRet && excludes(y.Cond) {
						g = true
					}
				}
			case *ast.ForStmt:
				visit(y.Body.List, g)
			case *ast.BlockStmt:
				visit(y.List, g)
			case *ast.ReturnStmt:
				if y.Pos() < readPos || len(y.Results) == 0 {
					continue
				}
				last := ast.Unparen(y.Results[len(y.Results)-1])
				if id, ok := last.(*ast.Ident); !ok || id.Name != "nil" {
					continue
				}
				*n++
				key := fmt.Sprintf("%s:clear#%d", funcName(p, fd), *n)
				if g {
					s.Pass(nil, key, y.Pos(), "nil is returned in place of the error only when the error is io.EOF")
				} else {
					s.Fail(nil, key, y.Pos(), "nil is returned in place of a read error without requiring err == io.EOF: io.ErrUnexpectedEOF (truncated compressed input) or a checksum error reported once by the decompressor is swallowed and the truncated data is processed as a complete file")
				}
			}
		}
	}
	visit(fd.Body.List, false)
}

func disjunctsOf(e ast.Expr) []ast.Expr {
	e = ast.Unparen(e)
	if b, ok := e.(*ast.BinaryExpr); ok && b.Op == token.LOR {
		return append(disjunctsOf(b.X), disjunctsOf(b.Y)...)
	}
	return []ast.Expr{e}
}

func runRE5(c *Ctx, s *Sink) {
	c.EachFunc([]string{"pkg/obiformats"}, func(p *packages.Package, fd *ast.FuncDecl) {
		info := p.TypesInfo
		fname := funcName(p, fd)
		defs := collectDefsTuple(info, fd)
		n := 0
		ast.Inspect(fd.Body, func(node ast.Node) bool {
			call, ok := node.(*ast.CallExpr)
			if !ok || len(call.Args) != 1 || !isNoContentMapper(c, callee(info, call)) {
				return true
			}
			n++
			key := fmt.Sprintf("%s:noContent#%d", fname, n)
			obj := rootObj(info, call.Args[0])
			if obj == nil {
				s.Undecided(nil, key, call.Pos(), "argument of noContent is not a variable")
				return true
			}
			var bad []string
			ndef := 0
			for _, d := range defs[obj] {
				if d == nil {
					continue
				}
				ndef++
				dc, ok := ast.Unparen(d).(*ast.CallExpr)
				if !ok {
					bad = append(bad, types.ExprString(d))
					continue
				}
				f := callee(info, dc)
				fn := fullName(f)
				okProbe := false
				for _, m := range []string{"ReadRune", "ReadByte", "Peek", "Read"} {
					if fn == "bufio.(Reader)."+m || fn == "bufio.(*Reader)."+m {
						okProbe = true
					}
				}
				// the local sniffers Is*(b) peek at the buffered stream
				if strings.HasPrefix(fn, modPath+"/pkg/obiformats.Is") {
					okProbe = true
				}
				if !okProbe {
					bad = append(bad, fn)
				}
			}
			switch {
			case ndef == 0:
				s.Undecided(nil, key, call.Pos(), "no definition of the error passed to noContent found")
			case len(bad) > 0:
				s.Fail(nil, key, call.Pos(), "ErrNoContent is derived from the error of "+strings.Join(bad, ", ")+": a compressed stream cut inside its header (plain io.EOF from the constructor) is accepted as an empty input with exit status 0")
			default:
				s.Pass(nil, key, call.Pos(), "argument comes from a read probe on the buffered stream")
			}
			return true
		})
	})
}

// isNoContentMapper: f is a function of pkg/obiformats of type func(error) error that returns the package's
// ErrNoContent for some error (whatever its name): the place where "nothing to read" is decided.
func isNoContentMapper(c *Ctx, f *types.Func) bool {
	if f == nil || f.Pkg() == nil || f.Pkg().Path() != modPath+"/pkg/obiformats" {
		return false
	}
	sig, ok := f.Type().(*types.Signature)
	if !ok || sig.Params().Len() != 1 || sig.Results().Len() != 1 || !isErrorType(sig.Params().At(0).Type()) || !isErrorType(sig.Results().At(0).Type()) {
		return false
	}
	fd, p := c.DeclOf(f)
	if fd == nil || fd.Body == nil {
		return false
	}
	found := false
	ast.Inspect(fd.Body, func(n ast.Node) bool {
		if r, ok := n.(*ast.ReturnStmt); ok {
			for _, e := range r.Results {
				if id, ok := ast.Unparen(e).(*ast.Ident); ok {
					if o := p.TypesInfo.ObjectOf(id); o != nil && o.Name() == "ErrNoContent" && o.Parent() == p.Types.Scope() {
						found = true
					}
				}
			}
		}
		return true
	})
	return found
}
