package main

// IXL — the index of a reference records every level, whatever the length of the reference (C15).

import (
	"go/ast"
	"go/token"
	"go/types"

	"golang.org/x/tools/go/packages"
)

func init() {
	register(&Rule{
		ID: "IXL", Props: []string{"C15"}, Min: 1,
		Doc: `"the taxon assigned is the LCA of every reference within the distance of the best matches": obitag reads, in the index of each tied best reference, the level recorded for the largest distance
not above D. In pkg/obitools/obirefidx the function that fills that index (a map[int]string stored under 'd < bound', the bound then lowered to d) starts its bound above every possible distance — a
constant — and not from the length of the indexed sequence: the distance (alignment length − LCS) to a LONGER reference exceeds the length of a short one, those levels were dropped, and a query at
distance D > len(ref) from a tied short reference read a too specific taxon (Genus a where the exhaustive LCA is the root; 8 of 376,291 random assignments).`,
		Run: func(c *Ctx, s *Sink) {
			c.EachFunc([]string{"pkg/obitools/obirefidx"}, func(p *packages.Package, fd *ast.FuncDecl) {
				info := p.TypesInfo
				defs := collectDefs(info, fd)
				ast.Inspect(fd.Body, func(n ast.Node) bool {
					is, ok := n.(*ast.IfStmt)
					if !ok {
						return true
					}
					// stores m[d] = … with m a map[int]string, and lowers the bound: bound = d
					var dObj, bound types.Object
					for _, st := range is.Body.List {
						as, ok := st.(*ast.AssignStmt)
						if !ok || len(as.Lhs) != 1 || len(as.Rhs) != 1 {
							continue
						}
						if ix, ok := as.Lhs[0].(*ast.IndexExpr); ok {
							if mt, isMap := info.TypeOf(ix.X).Underlying().(*types.Map); isMap && mt.Key().String() == "int" && mt.Elem().String() == "string" {
								dObj = rootObj(info, ix.Index)
							}
						}
					}
					if dObj == nil {
						return true
					}
					for _, st := range is.Body.List {
						if as, ok := st.(*ast.AssignStmt); ok && as.Tok == token.ASSIGN && len(as.Lhs) == 1 && len(as.Rhs) == 1 {
							if id, ok := as.Lhs[0].(*ast.Ident); ok && rootObj(info, as.Rhs[0]) == dObj {
								bound = info.ObjectOf(id)
							}
						}
					}
					if bound == nil {
						return true
					}
					key := funcName(p, fd) + ":levels-not-cut-at-the-length-of-the-reference"
					// the first definition of the bound
					var init ast.Expr
					for _, d := range defs[bound] {
						if d != nil && (init == nil || d.Pos() < init.Pos()) {
							init = d
						}
					}
					if init == nil {
						s.Undecided(nil, key, is.Pos(), "the initial value of the bound "+bound.Name()+" was not found")
						return true
					}
					dependsOnLength := false
					var look func(e ast.Expr, depth int)
					look = func(e ast.Expr, depth int) {
						if depth > 3 {
							return
						}
						ast.Inspect(e, func(m ast.Node) bool {
							switch x := m.(type) {
							case *ast.CallExpr:
								if sel, ok := x.Fun.(*ast.SelectorExpr); ok && sel.Sel.Name == "Len" {
									dependsOnLength = true
								}
								if id, ok := x.Fun.(*ast.Ident); ok && id.Name == "len" {
									dependsOnLength = true
								}
							case *ast.Ident:
								if o := info.ObjectOf(x); o != nil {
									if _, isVar := o.(*types.Var); isVar && o != bound {
										for _, d := range defs[o] {
											if d != nil {
												look(d, depth+1)
											}
										}
									}
								}
							}
							return true
						})
					}
					look(init, 0)
					if dependsOnLength {
						s.Fail(nil, key, init.Pos(), "the levels recorded are those below a bound that starts from the length of the indexed sequence ("+types.ExprString(init)+"): the distance to a longer reference exceeds it, the level is dropped, and obitag reads a too specific taxon for a query tied with a short reference")
					} else {
						s.Pass(nil, key, init.Pos(), "the bound starts from "+types.ExprString(init)+", which does not depend on the length of the reference")
					}
					return true
				})
			})
		},
	})
}
