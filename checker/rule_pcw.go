package main

// PCW — the window extracted for an amplicon holds it entirely, wrapped or not (C11).

import (
	"fmt"
	"go/ast"
	"go/types"
	"sort"
	"strings"
)

func init() {
	register(&Rule{
		ID: "PCW", Props: []string{"C11"}, Min: 4,
		Doc: `in pkg/obiapat._Pcr, for each pair (forward match fm, reverse match rm) kept because the insert length computed for it is positive, the bounds handed to Subsequence for the amplicon
satisfy to - from >= length on every path (path enumeration with linear arithmetic over fm[0..1], rm[0..1], the length of the sequence, the flank length and the option flags, the one-line option
getters being read through; assumed: a match ends after it starts, and the flank length is not negative when flanks are requested). When the amplicon goes through the origin of a circular sequence
its length is computed with + len(sequence), so must be the upper bound: otherwise, as soon as the two flanks exceed the gap left on the circle, to - from is a small positive number and Subsequence
returns a fragment of a few bases holding neither primer (110 nt circle, -D 21: 2 nt instead of 112) that carries the annotations of the real pair. Second obligation per extraction ("rotating a
circular template does not change the set of amplicons"): on every path through the circular computation, the length tested by the guard is not negative — a residue modulo the length of the circle, 0 when the sites touch
— assuming only that a match starts inside the sequence and is not longer than it; rm[0] + L − fm[1] alone is negative when the first site crosses the origin and the second starts inside its
wrapped part, and the pair was kept or dropped depending on where the origin falls.`,
		Run: runPCW,
	})
}

func runPCW(c *Ctx, s *Sink) {
	fd, p := c.FindFunc("pkg/obiapat", "_Pcr")
	if fd == nil {
		s.Undecided(nil, "pkg/obiapat._Pcr", 0, "function not found")
		return
	}
	info := p.TypesInfo
	// the amplicon extractions: assignments whose right-hand side is a Subsequence call with two plain variables as bounds
	type site struct {
		as    *ast.AssignStmt
		call  *ast.CallExpr
		loop  *ast.RangeStmt
		conds []ast.Expr
	}
	var sites []site
	var stack []ast.Node
	ast.Inspect(fd.Body, func(n ast.Node) bool {
		if n == nil {
			stack = stack[:len(stack)-1]
			return true
		}
		stack = append(stack, n)
		as, ok := n.(*ast.AssignStmt)
		if !ok || len(as.Rhs) != 1 {
			return true
		}
		call, ok := ast.Unparen(as.Rhs[0]).(*ast.CallExpr)
		if !ok || len(call.Args) != 3 || !strings.HasSuffix(fullName(callee(info, call)), "BioSequence).Subsequence") {
			return true
		}
		_, id1 := ast.Unparen(call.Args[0]).(*ast.Ident)
		_, id2 := ast.Unparen(call.Args[1]).(*ast.Ident)
		if !id1 || !id2 {
			return true
		}
		var loop *ast.RangeStmt
		var conds []ast.Expr
		for k := len(stack) - 1; k >= 0; k-- {
			if r, ok := stack[k].(*ast.RangeStmt); ok && loop == nil {
				loop = r
				continue
			}
			if loop != nil {
				if ifs, ok := stack[k].(*ast.IfStmt); ok && k+1 < len(stack) && stack[k+1] == ast.Node(ifs.Body) {
					conds = append(conds, ifs.Cond)
				}
			}
		}
		if loop != nil {
			sites = append(sites, site{as, call, loop, conds})
		}
		return true
	})
	sort.Slice(sites, func(i, j int) bool { return sites[i].as.Pos() < sites[j].as.Pos() })
	for i, st := range sites {
		key := fmt.Sprintf("pkg/obiapat._Pcr:amplicon#%d:window-holds-insert", i+1)
		env := &linEnv{info: info, vars: map[types.Object]linForm{}, defs: map[types.Object][]ast.Expr{}, atoms: map[string]bool{}, lens: map[string]bool{}, elems: map[string]linForm{},
			decl: func(f *types.Func) (*ast.FuncDecl, *types.Info) {
				d, dp := c.DeclOf(f)
				if d == nil {
					return nil, nil
				}
				return d, dp.TypesInfo
			}}
		// the 'length' variable: the one compared > 0 in the guard enclosing the call
		var lengthObj types.Object
		ast.Inspect(st.loop.Body, func(n ast.Node) bool {
			if ifs, ok := n.(*ast.IfStmt); ok && st.as.Pos() >= ifs.Body.Pos() && st.as.End() <= ifs.Body.End() {
				for _, cj := range conjuncts(ifs.Cond) {
					if b, ok := ast.Unparen(cj).(*ast.BinaryExpr); ok && b.Op.String() == ">" {
						if v, isC := constInt(info, b.Y); isC && v == 0 && lengthObj == nil {
							lengthObj = rootObj(info, b.X)
						}
					}
				}
			}
			return true
		})
		if lengthObj == nil {
			s.Undecided(nil, key, st.as.Pos(), "no guard 'length > 0' around the extraction")
			continue
		}
		start := linPath{env: env}
		// domain facts: matches end after they start
		for _, v := range []ast.Expr{st.loop.Value} {
			_ = v
		}
		matchVars := map[string]bool{}
		ast.Inspect(st.loop.Body, func(n ast.Node) bool {
			if ix, ok := n.(*ast.IndexExpr); ok {
				if id, ok := ast.Unparen(ix.X).(*ast.Ident); ok {
					if _, isArr := info.TypeOf(id).Underlying().(*types.Array); isArr {
						matchVars[id.Name] = true
					}
				}
			}
			return true
		})
		for m := range matchVars {
			a0, a1 := m+"[0]", m+"[1]"
			env.atoms[a0], env.atoms[a1] = true, true
			start.sys = append(start.sys, linLE(lfAtom(a0).add(lfConst(1), 1), lfAtom(a1)), linLE(lfConst(0), lfAtom(a0)))
		}
		// enclosing conditions
		for _, cnd := range st.conds {
			cs := env.cond(cnd, false)
			if len(cs) == 1 {
				start.sys = append(start.sys, cs[0]...)
			}
		}
		nproved, nfail := 0, 0
		var why []string
		visit := func(pth linPath, stt ast.Stmt) {
			if stt != ast.Stmt(st.as) {
				return
			}
			pth.env.cur = pth.sys
			from, ok1 := pth.env.form(st.call.Args[0], 0)
			to, ok2 := pth.env.form(st.call.Args[1], 0)
			length, ok3 := pth.env.form(ast.NewIdent(lengthObj.Name()), 0)
			if lf, ok := pth.env.vars[lengthObj]; ok {
				length, ok3 = lf, true
			}
			if !ok1 || !ok2 || !ok3 {
				nfail++
				why = append(why, "a bound is not linear")
				return
			}
			known := pth.known()
			// flanks requested => flank length >= 0 is part of the getters (HasExtension: extension > -1)
			if known.entails(linLE(length, to.add(from, -1))) {
				nproved++
			} else {
				nfail++
				why = append(why, fmt.Sprintf("to - from = %s, insert = %s", to.add(from, -1), length))
			}
		}
		linWalk([]linPath{start}, st.loop.Body.List, visit)
		pcwResidue(c, s, info, env, i+1, st.as, st.loop, lengthObj, matchVars)
		switch {
		case nfail > 0:
			if len(why) > 3 {
				why = why[:3]
			}
			s.Fail(nil, key, st.as.Pos(), fmt.Sprintf("on %d of %d paths the window handed to Subsequence is not shown to hold the insert (%s): when the amplicon goes through the origin of a circular sequence its length counts one turn of the circle but the upper bound does not — with flanks longer than the gap left on the circle the window is a few bases long, holds neither primer and carries the annotations of the real pair", nfail, nfail+nproved, strings.Join(why, "; ")))
		case nproved == 0:
			s.Undecided(nil, key, st.as.Pos(), "the extraction is not reached by the path enumeration")
		default:
			s.Pass(nil, key, st.as.Pos(), fmt.Sprintf("to - from >= insert length proved on %d paths", nproved))
		}
	}
	if len(sites) == 0 {
		s.Undecided(nil, "pkg/obiapat._Pcr", fd.Pos(), "no amplicon extraction found")
	}
}

// pcwResidue: second obligation per extraction — on a circular template no pair is dropped because its length is negative.
// G is the guard 'length > 0 && …' around the extraction; the statements before G in its block are walked under the conditions
// enclosing G; on every path where the else-branch of 'second match starts after the first ends' is taken under the circular
// option, length >= 0 must follow from: a match starts inside the sequence (m[0] < L, the guards of the loops) and a site is
// not longer than the circle (m[1] <= m[0] + L).
func pcwResidue(c *Ctx, s *Sink, info *types.Info, env0 *linEnv, n int, as *ast.AssignStmt, loop *ast.RangeStmt, lengthObj types.Object, matchVars map[string]bool) {
	key := fmt.Sprintf("pkg/obiapat._Pcr:amplicon#%d:circular-length-is-a-residue", n)
	// G and its block
	var G *ast.IfStmt
	var block *ast.BlockStmt
	var stack []ast.Node
	var conds []ast.Expr
	ast.Inspect(loop.Body, func(nd ast.Node) bool {
		if nd == nil {
			stack = stack[:len(stack)-1]
			return true
		}
		stack = append(stack, nd)
		ifs, ok := nd.(*ast.IfStmt)
		if !ok || G != nil || !(as.Pos() >= ifs.Body.Pos() && as.End() <= ifs.Body.End()) {
			return true
		}
		for _, cj := range conjuncts(ifs.Cond) {
			if b, ok := ast.Unparen(cj).(*ast.BinaryExpr); ok && b.Op.String() == ">" && rootObj(info, b.X) == lengthObj {
				G = ifs
			}
		}
		if G != nil {
			for k := len(stack) - 2; k >= 0; k-- {
				if bl, ok := stack[k].(*ast.BlockStmt); ok && block == nil {
					block = bl
				}
				if up, ok := stack[k].(*ast.IfStmt); ok && k+1 < len(stack) && stack[k+1] == ast.Node(up.Body) {
					conds = append(conds, up.Cond)
				}
			}
		}
		return true
	})
	if G == nil || block == nil {
		s.Undecided(nil, key, as.Pos(), "guard on the insert length not found")
		return
	}
	// the circular option as the function reads it (a getter call named …Circular…, wherever it stands: an else-if, a
	// switch clause, the argument of a helper), and the length of the sequence (a Len() call on the searched sequence)
	var circ ast.Expr
	var seqLen ast.Expr
	ast.Inspect(loop.Body, func(m ast.Node) bool {
		call, ok := m.(*ast.CallExpr)
		if !ok || call.Pos() > G.Pos() {
			return true
		}
		sel, ok := call.Fun.(*ast.SelectorExpr)
		if !ok || len(call.Args) != 0 {
			return true
		}
		if circ == nil && strings.Contains(sel.Sel.Name, "Circular") {
			circ = call
		}
		if seqLen == nil && sel.Sel.Name == "Len" {
			if t := info.TypeOf(sel.X); t != nil && strings.HasSuffix(namedTypeName(derefType(t)), "ApatSequence") {
				seqLen = call
			}
		}
		return true
	})
	if circ == nil || seqLen == nil {
		s.Undecided(nil, key, G.Pos(), "the function does not read the circular option and the length of the sequence before the guard")
		return
	}
	env := env0.clone()
	start := linPath{env: env}
	L, okL := env.form(seqLen, 0)
	if !okL {
		s.Undecided(nil, key, G.Pos(), "length of the sequence not linear")
		return
	}
	for m := range matchVars {
		a0, a1 := lfAtom(m+"[0]"), lfAtom(m+"[1]")
		env.atoms[m+"[0]"], env.atoms[m+"[1]"] = true, true
		start.sys = append(start.sys,
			linLE(a0.add(lfConst(1), 1), a1), linLE(lfConst(0), a0),
			linLE(a0.add(lfConst(1), 1), L), // starts inside the sequence
			linLE(a1, a0.add(L, 1))) // not longer than the circle
	}
	for _, cnd := range conds {
		if cs := env.cond(cnd, false); len(cs) == 1 {
			start.sys = append(start.sys, cs[0]...)
		}
	}
	var pre []ast.Stmt
	for _, st := range block.List {
		if st == ast.Stmt(G) {
			break
		}
		pre = append(pre, st)
	}
	paths := linWalk([]linPath{start}, pre, func(linPath, ast.Stmt) {})
	nc, bad := 0, ""
	for _, pth := range paths {
		pth.env.cur = pth.sys
		// circular path: the negation of the circular option is infeasible here
		isCirc := true
		for _, cs := range pth.env.cond(circ, true) {
			if !append(append(linSys{}, pth.known()...), cs...).infeasible() {
				isCirc = false
			}
		}
		if !isCirc {
			continue
		}
		nc++
		length, ok := pth.env.vars[lengthObj]
		if !ok || !pth.known().entails(linLE(lfConst(0), length)) || !pth.known().entails(linLE(length.add(lfConst(1), 1), L)) {
			if ok {
				bad = "length = " + length.String()
			} else {
				bad = "length unknown"
			}
		}
	}
	switch {
	case nc == 0:
		s.Undecided(nil, key, G.Pos(), "no path on which the circular option is known to hold")
	case bad != "":
		s.Fail(nil, key, G.Pos(), "on a circular template the insert length of a pair is not always a residue in 0..L-1 ("+bad+"): when the first site itself goes through the origin and the second starts inside its wrapped part, + L still leaves it negative and the pair is dropped (or, counted once too often, two touching sites give a whole turn of the circle), while the same molecule written from another origin keeps it (135 bp circle, sites at 40..60 and 55..75: the 130 bp amplicon is reported for 120 rotations and missing for the 15 rotations 41..55)")
	default:
		s.Pass(nil, key, G.Pos(), fmt.Sprintf("0 <= length < L on the %d path(s) through the circular computation: the guard drops touching sites only (assumed: a match starts inside the sequence and is not longer than it)", nc))
	}
}
