package main

// PCW — the window extracted for an amplicon holds it entirely, wrapped or not (C11).

import (
	"fmt"
	"go/ast"
	"go/types"
	"sort"
	"strings"
)

func init() {
	register(&Rule{
		ID: "PCW", Props: []string{"C11"}, Min: 2,
		Doc: `in pkg/obiapat._Pcr, for each pair (forward match fm, reverse match rm) kept because the insert length computed for it is positive, the bounds handed to Subsequence for the amplicon
satisfy to - from >= length on every path (path enumeration with linear arithmetic over fm[0..1], rm[0..1], the length of the sequence, the flank length and the option flags, the one-line option
getters being read through; assumed: a match ends after it starts, and the flank length is not negative when flanks are requested). When the amplicon goes through the origin of a circular sequence
its length is computed with + len(sequence), so must be the upper bound: otherwise, as soon as the two flanks exceed the gap left on the circle, to - from is a small positive number and Subsequence
returns a fragment of a few bases holding neither primer (110 nt circle, -D 21: 2 nt instead of 112) that carries the annotations of the real pair.`,
		Run: runPCW,
	})
}

func runPCW(c *Ctx, s *Sink) {
	fd, p := c.FindFunc("pkg/obiapat", "_Pcr")
	if fd == nil {
		s.Undecided(nil, "pkg/obiapat._Pcr", 0, "function not found")
		return
	}
	info := p.TypesInfo
	// the amplicon extractions: assignments whose right-hand side is a Subsequence call with two plain variables as bounds
	type site struct {
		as    *ast.AssignStmt
		call  *ast.CallExpr
		loop  *ast.RangeStmt
		conds []ast.Expr
	}
	var sites []site
	var stack []ast.Node
	ast.Inspect(fd.Body, func(n ast.Node) bool {
		if n == nil {
			stack = stack[:len(stack)-1]
			return true
		}
		stack = append(stack, n)
		as, ok := n.(*ast.AssignStmt)
		if !ok || len(as.Rhs) != 1 {
			return true
		}
		call, ok := ast.Unparen(as.Rhs[0]).(*ast.CallExpr)
		if !ok || len(call.Args) != 3 || !strings.HasSuffix(fullName(callee(info, call)), "BioSequence).Subsequence") {
			return true
		}
		_, id1 := ast.Unparen(call.Args[0]).(*ast.Ident)
		_, id2 := ast.Unparen(call.Args[1]).(*ast.Ident)
		if !id1 || !id2 {
			return true
		}
		var loop *ast.RangeStmt
		var conds []ast.Expr
		for k := len(stack) - 1; k >= 0; k-- {
			if r, ok := stack[k].(*ast.RangeStmt); ok && loop == nil {
				loop = r
				continue
			}
			if loop != nil {
				if ifs, ok := stack[k].(*ast.IfStmt); ok && k+1 < len(stack) && stack[k+1] == ast.Node(ifs.Body) {
					conds = append(conds, ifs.Cond)
				}
			}
		}
		if loop != nil {
			sites = append(sites, site{as, call, loop, conds})
		}
		return true
	})
	sort.Slice(sites, func(i, j int) bool { return sites[i].as.Pos() < sites[j].as.Pos() })
	for i, st := range sites {
		key := fmt.Sprintf("pkg/obiapat._Pcr:amplicon#%d:window-holds-insert", i+1)
		env := &linEnv{info: info, vars: map[types.Object]linForm{}, defs: map[types.Object][]ast.Expr{}, atoms: map[string]bool{}, lens: map[string]bool{}, elems: map[string]linForm{},
			decl: func(f *types.Func) (*ast.FuncDecl, *types.Info) {
				d, dp := c.DeclOf(f)
				if d == nil {
					return nil, nil
				}
				return d, dp.TypesInfo
			}}
		// the 'length' variable: the one compared > 0 in the guard enclosing the call
		var lengthObj types.Object
		ast.Inspect(st.loop.Body, func(n ast.Node) bool {
			if ifs, ok := n.(*ast.IfStmt); ok && st.as.Pos() >= ifs.Body.Pos() && st.as.End() <= ifs.Body.End() {
				for _, cj := range conjuncts(ifs.Cond) {
					if b, ok := ast.Unparen(cj).(*ast.BinaryExpr); ok && b.Op.String() == ">" {
						if v, isC := constInt(info, b.Y); isC && v == 0 && lengthObj == nil {
							lengthObj = rootObj(info, b.X)
						}
					}
				}
			}
			return true
		})
		if lengthObj == nil {
			s.Undecided(nil, key, st.as.Pos(), "no guard 'length > 0' around the extraction")
			continue
		}
		start := linPath{env: env}
		// domain facts: matches end after they start
		for _, v := range []ast.Expr{st.loop.Value} {
			_ = v
		}
		matchVars := map[string]bool{}
		ast.Inspect(st.loop.Body, func(n ast.Node) bool {
			if ix, ok := n.(*ast.IndexExpr); ok {
				if id, ok := ast.Unparen(ix.X).(*ast.Ident); ok {
					if _, isArr := info.TypeOf(id).Underlying().(*types.Array); isArr {
						matchVars[id.Name] = true
					}
				}
			}
			return true
		})
		for m := range matchVars {
			a0, a1 := m+"[0]", m+"[1]"
			env.atoms[a0], env.atoms[a1] = true, true
			start.sys = append(start.sys, linLE(lfAtom(a0).add(lfConst(1), 1), lfAtom(a1)), linLE(lfConst(0), lfAtom(a0)))
		}
		// enclosing conditions
		for _, cnd := range st.conds {
			cs := env.cond(cnd, false)
			if len(cs) == 1 {
				start.sys = append(start.sys, cs[0]...)
			}
		}
		nproved, nfail := 0, 0
		var why []string
		visit := func(pth linPath, stt ast.Stmt) {
			if stt != ast.Stmt(st.as) {
				return
			}
			pth.env.cur = pth.sys
			from, ok1 := pth.env.form(st.call.Args[0], 0)
			to, ok2 := pth.env.form(st.call.Args[1], 0)
			length, ok3 := pth.env.form(ast.NewIdent(lengthObj.Name()), 0)
			if lf, ok := pth.env.vars[lengthObj]; ok {
				length, ok3 = lf, true
			}
			if !ok1 || !ok2 || !ok3 {
				nfail++
				why = append(why, "a bound is not linear")
				return
			}
			known := pth.known()
			// flanks requested => flank length >= 0 is part of the getters (HasExtension: extension > -1)
			if known.entails(linLE(length, to.add(from, -1))) {
				nproved++
			} else {
				nfail++
				why = append(why, fmt.Sprintf("to - from = %s, insert = %s", to.add(from, -1), length))
			}
		}
		linWalk([]linPath{start}, st.loop.Body.List, visit)
		switch {
		case nfail > 0:
			if len(why) > 3 {
				why = why[:3]
			}
			s.Fail(nil, key, st.as.Pos(), fmt.Sprintf("on %d of %d paths the window handed to Subsequence is not shown to hold the insert (%s): when the amplicon goes through the origin of a circular sequence its length counts one turn of the circle but the upper bound does not — with flanks longer than the gap left on the circle the window is a few bases long, holds neither primer and carries the annotations of the real pair", nfail, nfail+nproved, strings.Join(why, "; ")))
		case nproved == 0:
			s.Undecided(nil, key, st.as.Pos(), "the extraction is not reached by the path enumeration")
		default:
			s.Pass(nil, key, st.as.Pos(), fmt.Sprintf("to - from >= insert length proved on %d paths", nproved))
		}
	}
	if len(sites) == 0 {
		s.Undecided(nil, "pkg/obiapat._Pcr", fd.Pos(), "no amplicon extraction found")
	}
}
