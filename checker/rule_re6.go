package main

// RE-6 — the decoders put on the input path do not mask a truncated stream (C17).
//
// /repo delegates the detection of truncated compressed input to third-party
// readers.  The rule scans the source of every decoder package constructed on an
// input path of pkg/obiformats (loaded from the module cache with the rest of the
// program) for one precise way of losing a truncation: a Read/WriteTo method that
// returns the bare error of io.ReadFull on its source.

import (
	"fmt"
	"go/ast"
	"go/token"
	"go/types"
	"sort"
	"strings"

	"golang.org/x/tools/go/packages"
)

func init() {
	register(&Rule{
		ID: "RE-6", Props: []string{"C17"}, Min: 3,
		Doc: `decoders on the input path keep "truncated" apart from "end of data": for every third-party reader constructed (NewReader) in pkg/obiformats on a stream that is read as input,
no Read / WriteTo method of the decoder package returns the bare error of an io.ReadFull / io.ReadAtLeast on its source: io.EOF there means that a fixed-size section (the gzip trailer
with the checksum) is missing entirely, and unmapped (compress/gzip maps it with noEOF) it reaches the caller as a clean end of data.`,
		Run: runRE6,
	})
}

var re6NotDecoders = map[string]bool{"bufio": true, "bytes": true, "strings": true, "io": true, "encoding/csv": true, "encoding/json": true, "net/http": true, "os": true}

// allPackages indexes every loaded package (dependencies included) by path.
func (c *Ctx) allPackages() map[string]*packages.Package {
	all := map[string]*packages.Package{}
	packages.Visit(c.Pkgs, func(p *packages.Package) bool {
		all[p.PkgPath] = p
		return true
	}, nil)
	return all
}

// re6Benign: candidates confirmed, by reading the decoder, to be legitimate ends of data.
var re6Benign = map[string]string{
	"github.com/klauspost/pgzip.(Reader).Read:readHeader":    "multistream: io.EOF when looking for the header of a next gzip member is the end of the data",
	"github.com/klauspost/pgzip.(Reader).WriteTo:readHeader": "multistream: io.EOF when looking for the header of a next gzip member is the end of the data",
}

// maskingSites lists the places of p where a method implementing Read or WriteTo
// lets escape, bare, the error of a fixed-size read of its source — io.ReadFull,
// io.ReadAtLeast, io.CopyN, or a function of the package that itself returns such an
// error bare — instead of mapping io.EOF to io.ErrUnexpectedEOF (compress/gzip: noEOF).
// By the contract of those functions io.EOF means that the fixed-size section (gzip
// trailer, xz block header or index) is missing: a stream cut exactly there reaches the
// caller as a clean end of data.
func maskingSites(c *Ctx, p *packages.Package) []string {
	info := p.TypesInfo
	var hits []string
	if info == nil {
		return nil
	}
	isIO := func(e ast.Expr, name string) bool {
		sel, ok := ast.Unparen(e).(*ast.SelectorExpr)
		if !ok {
			return false
		}
		o := info.ObjectOf(sel.Sel)
		return o != nil && o.Pkg() != nil && o.Pkg().Path() == "io" && o.Name() == name
	}
	fixedRead := func(call *ast.CallExpr) string {
		for _, n := range []string{"ReadFull", "ReadAtLeast", "CopyN"} {
			if isIO(call.Fun, n) {
				return "io." + n
			}
		}
		return ""
	}
	// bareReturns calls visit for every call (accepted by sel) whose error is returned bare in its `err != nil` branch.
	bareReturns := func(body *ast.BlockStmt, sel func(call *ast.CallExpr) string, visit func(what string, pos token.Pos)) {
		var walk func(list []ast.Stmt)
		check := func(as *ast.AssignStmt, ifs *ast.IfStmt) {
			if as == nil || len(as.Rhs) != 1 || len(as.Lhs) < 1 {
				return
			}
			call, ok := ast.Unparen(as.Rhs[0]).(*ast.CallExpr)
			if !ok {
				return
			}
			what := sel(call)
			if what == "" {
				return
			}
			errObj := rootObj(info, as.Lhs[len(as.Lhs)-1])
			if errObj == nil || !isErrorType(errObj.Type()) {
				return
			}
			b, ok := ast.Unparen(ifs.Cond).(*ast.BinaryExpr)
			if !ok || b.Op != token.NEQ || rootObj(info, b.X) != errObj {
				return
			}
			remapped := false
			ast.Inspect(ifs.Body, func(m ast.Node) bool {
				if a2, ok := m.(*ast.AssignStmt); ok && len(a2.Lhs) == 1 && len(a2.Rhs) == 1 && rootObj(info, a2.Lhs[0]) == errObj && isIO(a2.Rhs[0], "ErrUnexpectedEOF") {
					remapped = true
				}
				return true
			})
			if remapped {
				return
			}
			// a bare return at the top level of the branch (nested special cases may precede it)
			for _, st := range ifs.Body.List {
				if r, ok := st.(*ast.ReturnStmt); ok {
					for _, res := range r.Results {
						if id, ok := ast.Unparen(res).(*ast.Ident); ok && info.ObjectOf(id) == errObj {
							visit(what, r.Pos())
						}
					}
				}
			}
		}
		walk = func(list []ast.Stmt) {
			for i, st := range list {
				switch x := st.(type) {
				case *ast.IfStmt:
					if as, ok := x.Init.(*ast.AssignStmt); ok {
						check(as, x)
					} else {
						// the nearest preceding assignment (at most 3 statements back) of the tested error
						for k := i - 1; k >= 0 && k >= i-3; k-- {
							if as, ok := list[k].(*ast.AssignStmt); ok && len(as.Rhs) == 1 {
								if _, isCall := ast.Unparen(as.Rhs[0]).(*ast.CallExpr); isCall {
									if b, ok := ast.Unparen(x.Cond).(*ast.BinaryExpr); ok && rootObj(info, as.Lhs[len(as.Lhs)-1]) == rootObj(info, b.X) {
										check(as, x)
										break
									}
								}
							}
						}
					}
					walk(x.Body.List)
					if eb, ok := x.Else.(*ast.BlockStmt); ok {
						walk(eb.List)
					}
				case *ast.ForStmt:
					walk(x.Body.List)
				case *ast.RangeStmt:
					walk(x.Body.List)
				case *ast.BlockStmt:
					walk(x.List)
				case *ast.SwitchStmt:
					for _, cc := range x.Body.List {
						walk(cc.(*ast.CaseClause).Body)
					}
				}
			}
		}
		walk(body.List)
	}
	// pass 1: functions of the package that return a fixed-size read error bare
	leaking := map[types.Object]string{}
	for _, f := range p.Syntax {
		if strings.HasSuffix(c.Fset.Position(f.Pos()).Filename, "_test.go") {
			continue
		}
		for _, d := range f.Decls {
			fd, ok := d.(*ast.FuncDecl)
			if !ok || fd.Body == nil || fd.Name.Name == "Read" || fd.Name.Name == "WriteTo" {
				continue
			}
			bareReturns(fd.Body, fixedRead, func(what string, pos token.Pos) {
				leaking[info.Defs[fd.Name]] = what
			})
		}
	}
	// pass 2: Read / WriteTo methods
	for _, f := range p.Syntax {
		if strings.HasSuffix(c.Fset.Position(f.Pos()).Filename, "_test.go") {
			continue
		}
		for _, d := range f.Decls {
			fd, ok := d.(*ast.FuncDecl)
			if !ok || fd.Body == nil || fd.Recv == nil || (fd.Name.Name != "Read" && fd.Name.Name != "WriteTo") {
				continue
			}
			self := fullName(info.Defs[fd.Name].(*types.Func))
			bareReturns(fd.Body, func(call *ast.CallExpr) string {
				if w := fixedRead(call); w != "" {
					return w
				}
				if f := callee(info, call); f != nil {
					if via, ok := leaking[f]; ok {
						return f.Name() + " (which returns the bare error of " + via + ")"
					}
				}
				return ""
			}, func(what string, pos token.Pos) {
				short := strings.SplitN(what, " ", 2)[0]
				if _, ok := re6Benign[self+":"+short]; ok {
					return
				}
				ps := c.Fset.Position(pos)
				hits = append(hits, fmt.Sprintf("%s:%d (%s returns the bare error of %s)", shortPath(ps.Filename), ps.Line, strings.TrimPrefix(self, p.PkgPath+"."), what))
			})
		}
	}
	hits = append(hits, inconsistentEOFMapping(c, p)...)
	sort.Strings(hits)
	return hits
}

// inconsistentEOFMapping — contradiction rule inside one function of a decoder: when a function maps the error of some of its
// reads of the source through the package's "no EOF" wrapper (a function turning io.EOF into io.ErrUnexpectedEOF), every read
// after its first one must be mapped too. A read whose error is returned bare after bytes of the same unit have been consumed
// (klauspost/compress/gzip readHeader: the name and comment strings, where compress/gzip has noEOF) turns a stream cut inside
// that field into a clean end of data.
func inconsistentEOFMapping(c *Ctx, p *packages.Package) []string {
	info := p.TypesInfo
	isIOName := func(e ast.Expr, name string) bool {
		sel, ok := ast.Unparen(e).(*ast.SelectorExpr)
		if !ok {
			return false
		}
		o := info.ObjectOf(sel.Sel)
		return o != nil && o.Pkg() != nil && o.Pkg().Path() == "io" && o.Name() == name
	}
	// wrappers: package functions of one error parameter mentioning both io.EOF and io.ErrUnexpectedEOF
	wrappers := map[types.Object]bool{}
	var decls []*ast.FuncDecl
	for _, f := range p.Syntax {
		if strings.HasSuffix(c.Fset.Position(f.Pos()).Filename, "_test.go") {
			continue
		}
		for _, d := range f.Decls {
			fd, ok := d.(*ast.FuncDecl)
			if !ok || fd.Body == nil {
				continue
			}
			decls = append(decls, fd)
			if fd.Recv == nil && fd.Type.Params.NumFields() == 1 && fd.Type.Results.NumFields() == 1 {
				eof, ueof := false, false
				ast.Inspect(fd.Body, func(m ast.Node) bool {
					if e, ok := m.(ast.Expr); ok {
						if isIOName(e, "EOF") {
							eof = true
						}
						if isIOName(e, "ErrUnexpectedEOF") {
							ueof = true
						}
					}
					return true
				})
				if eof && ueof {
					wrappers[info.Defs[fd.Name]] = true
				}
			}
		}
	}
	if len(wrappers) == 0 {
		return nil
	}
	type site struct {
		pos     token.Pos
		what    string
		bare    bool
		wrapped bool
	}
	primitive := func(call *ast.CallExpr) string {
		for _, n := range []string{"ReadFull", "ReadAtLeast"} {
			if isIOName(call.Fun, n) {
				return "io." + n
			}
		}
		if sel, ok := ast.Unparen(call.Fun).(*ast.SelectorExpr); ok && sel.Sel.Name == "ReadByte" && len(call.Args) == 0 {
			return "ReadByte"
		}
		return ""
	}
	var sitesOf func(fd *ast.FuncDecl, helper map[types.Object]string) []site
	sitesOf = func(fd *ast.FuncDecl, helper map[types.Object]string) []site {
		var out []site
		ast.Inspect(fd.Body, func(n ast.Node) bool {
			if _, isLit := n.(*ast.FuncLit); isLit {
				return false
			}
			ifs, ok := n.(*ast.IfStmt)
			if !ok {
				return true
			}
			var as *ast.AssignStmt
			if a, ok := ifs.Init.(*ast.AssignStmt); ok {
				as = a
			}
			if as == nil || len(as.Rhs) != 1 {
				return true
			}
			call, ok := ast.Unparen(as.Rhs[0]).(*ast.CallExpr)
			if !ok {
				return true
			}
			what := primitive(call)
			if what == "" {
				if f := callee(info, call); f != nil {
					if via, ok := helper[f]; ok {
						what = f.Name() + " (bare " + via + ")"
					}
				}
			}
			if what == "" {
				return true
			}
			errObj := rootObj(info, as.Lhs[len(as.Lhs)-1])
			if errObj == nil || !isErrorType(errObj.Type()) {
				return true
			}
			st := site{pos: as.Pos(), what: what}
			for _, bs := range ifs.Body.List {
				if r, ok := bs.(*ast.ReturnStmt); ok {
					for _, res := range r.Results {
						res = ast.Unparen(res)
						if id, ok := res.(*ast.Ident); ok && info.ObjectOf(id) == errObj {
							st.bare = true
						}
						if wc, ok := res.(*ast.CallExpr); ok && wrappers[callee(info, wc)] {
							st.wrapped = true
						}
					}
				}
			}
			out = append(out, st)
			return true
		})
		// the two-statement form  x, err = r.ReadByte(); if err != nil { return ..., err }
		var walk func(list []ast.Stmt)
		walk = func(list []ast.Stmt) {
			for i, stt := range list {
				switch x := stt.(type) {
				case *ast.IfStmt:
					if x.Init == nil && i > 0 {
						if as, ok := list[i-1].(*ast.AssignStmt); ok && len(as.Rhs) == 1 {
							if call, ok := ast.Unparen(as.Rhs[0]).(*ast.CallExpr); ok {
								what := primitive(call)
								if what == "" {
									if f := callee(info, call); f != nil {
										if via, ok := helper[f]; ok {
											what = f.Name() + " (bare " + via + ")"
										}
									}
								}
								errObj := rootObj(info, as.Lhs[len(as.Lhs)-1])
								if b, ok := ast.Unparen(x.Cond).(*ast.BinaryExpr); ok && what != "" && errObj != nil && isErrorType(errObj.Type()) && b.Op == token.NEQ && rootObj(info, b.X) == errObj {
									st := site{pos: as.Pos(), what: what}
									for _, bs := range x.Body.List {
										if r, ok := bs.(*ast.ReturnStmt); ok {
											for _, res := range r.Results {
												res = ast.Unparen(res)
												if id, ok := res.(*ast.Ident); ok && info.ObjectOf(id) == errObj {
													st.bare = true
												}
												if wc, ok := res.(*ast.CallExpr); ok && wrappers[callee(info, wc)] {
													st.wrapped = true
												}
											}
										}
									}
									out = append(out, st)
								}
							}
						}
					}
					walk(x.Body.List)
					if eb, ok := x.Else.(*ast.BlockStmt); ok {
						walk(eb.List)
					}
				case *ast.ForStmt:
					walk(x.Body.List)
				case *ast.RangeStmt:
					walk(x.Body.List)
				case *ast.BlockStmt:
					walk(x.List)
				}
			}
		}
		walk(fd.Body.List)
		sort.Slice(out, func(i, j int) bool { return out[i].pos < out[j].pos })
		return out
	}
	// helpers: functions all of whose source reads are returned bare (readString)
	helper := map[types.Object]string{}
	for _, fd := range decls {
		ss := sitesOf(fd, nil)
		if len(ss) > 0 {
			allBare := true
			for _, st := range ss {
				if !st.bare {
					allBare = false
				}
			}
			if allBare {
				helper[info.Defs[fd.Name]] = ss[0].what
			}
		}
	}
	var hits []string
	for _, fd := range decls {
		ss := sitesOf(fd, helper)
		nwrapped := 0
		for _, st := range ss {
			if st.wrapped {
				nwrapped++
			}
		}
		if nwrapped == 0 {
			continue
		}
		for i, st := range ss {
			if i == 0 || !st.bare || st.wrapped {
				continue
			}
			ps := c.Fset.Position(st.pos)
			hits = append(hits, fmt.Sprintf("%s:%d (%s maps the io.EOF of %d of its reads to io.ErrUnexpectedEOF but returns bare the error of %s, read after the first bytes of the unit)", shortPath(ps.Filename), ps.Line, fd.Name.Name, nwrapped, st.what))
		}
	}
	return hits
}

func shortPath(f string) string {
	if i := strings.Index(f, "/pkg/mod/"); i >= 0 {
		return f[i+len("/pkg/mod/"):]
	}
	return f
}

func runRE6(c *Ctx, s *Sink) {
	all := c.allPackages()
	c.EachFunc([]string{"pkg/obiformats"}, func(p *packages.Package, fd *ast.FuncDecl) {
		info := p.TypesInfo
		fname := funcName(p, fd)
		seen := map[string]bool{}
		ast.Inspect(fd.Body, func(n ast.Node) bool {
			call, ok := n.(*ast.CallExpr)
			if !ok {
				return true
			}
			f := callee(info, call)
			if f == nil || f.Pkg() == nil || !strings.HasPrefix(f.Name(), "NewReader") {
				return true
			}
			path := f.Pkg().Path()
			if strings.HasPrefix(path, modPath) || re6NotDecoders[path] || seen[path] {
				return true
			}
			seen[path] = true
			key := fname + ":decoder:" + path
			dp := all[path]
			if dp == nil || len(dp.Syntax) == 0 {
				s.Undecided(nil, key, call.Pos(), "source of the decoder package is not loaded")
				return true
			}
			hits := maskingSites(c, dp)
			if len(hits) > 0 {
				if w := re6Compensated(c, p, fd, call); w != "" {
					s.Pass(nil, key, call.Pos(), "the decoder lets a bare io.EOF escape ("+strings.Join(hits, "; ")+") but its result is wrapped in "+w+", whose Read turns an end of data that is not vouched for into io.ErrUnexpectedEOF")
					return true
				}
				s.Fail(nil, key, call.Pos(), "input is decoded by "+path+", whose reader lets io.EOF of a missing fixed-size section escape: "+strings.Join(hits, "; ")+" — when the inflater stops at the end of the available bytes and the trailer is absent the stream ends with a clean io.EOF, and the command exits 0 on a partial input")
			} else {
				s.Pass(nil, key, call.Pos(), fmt.Sprintf("%d files of %s scanned: no bare io.ReadFull error returned by Read/WriteTo", len(dp.Syntax), path))
			}
			return true
		})
	})
}

// re6Compensated: the value returned by the constructor call is wrapped, in the same function, in a
// composite literal of a type of the module whose Read method maps io.EOF to io.ErrUnexpectedEOF
// under a condition (if err == io.EOF && <end not vouched for> { err = io.ErrUnexpectedEOF }).
func re6Compensated(c *Ctx, p *packages.Package, fd *ast.FuncDecl, call *ast.CallExpr) string {
	info := p.TypesInfo
	var v types.Object
	ast.Inspect(fd.Body, func(n ast.Node) bool {
		if as, ok := n.(*ast.AssignStmt); ok && len(as.Rhs) == 1 && ast.Unparen(as.Rhs[0]) == ast.Expr(call) {
			v = rootObj(info, as.Lhs[0])
		}
		return true
	})
	if v == nil {
		return ""
	}
	found := ""
	ast.Inspect(fd.Body, func(n ast.Node) bool {
		cl, ok := n.(*ast.CompositeLit)
		if !ok || found != "" {
			return true
		}
		uses := false
		for _, el := range cl.Elts {
			e := el
			if kv, ok := el.(*ast.KeyValueExpr); ok {
				e = kv.Value
			}
			if rootObj(info, e) == v {
				uses = true
			}
		}
		if !uses {
			return true
		}
		t := info.TypeOf(cl)
		named, ok := t.(*types.Named)
		if !ok || named.Obj().Pkg() == nil || !strings.HasPrefix(named.Obj().Pkg().Path(), modPath) {
			return true
		}
		// its Read method
		rfd, rp := c.FindFunc(rel(named.Obj().Pkg().Path()), "(*"+named.Obj().Name()+").Read")
		if rfd == nil {
			rfd, rp = c.FindFunc(rel(named.Obj().Pkg().Path()), "("+named.Obj().Name()+").Read")
		}
		if rfd == nil {
			return true
		}
		rinfo := rp.TypesInfo
		ast.Inspect(rfd.Body, func(m ast.Node) bool {
			ifs, ok := m.(*ast.IfStmt)
			if !ok {
				return true
			}
			ast.Inspect(ifs.Body, func(k ast.Node) bool {
				as, ok := k.(*ast.AssignStmt)
				if !ok || len(as.Lhs) != 1 || len(as.Rhs) != 1 {
					return true
				}
				sel, ok := ast.Unparen(as.Rhs[0]).(*ast.SelectorExpr)
				if !ok || sel.Sel.Name != "ErrUnexpectedEOF" {
					return true
				}
				if o := rootObj(rinfo, as.Lhs[0]); o != nil && conjunctHasEOFTest(rinfo, ifs.Cond, o) {
					found = named.Obj().Name()
				}
				return true
			})
			return true
		})
		return true
	})
	return found
}
