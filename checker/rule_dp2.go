package main

// DP-branch, DP-ns — two more clauses of the dereplication accounting (C06).

import (
	"go/ast"
	"go/token"
	"go/types"
	"strings"
)

func init() {
	register(&Rule{
		ID: "DP-branch", Props: []string{"C06"}, Min: 1,
		Doc: `in BioSequence.Merge a record X is added to the statistics as one observation (StatsPlusOne(desc, X, na)) only on the branch where X itself carries no statistics: the
condition selecting between "merge the two maps" and "plus one" is X.HasStatsOn(key) for the same X; testing the accumulator instead puts the whole count of an already merged
record under its plain attribute value (usually NA) and ignores its per-value map.`,
		Run: runDPBranch,
	})
	register(&Rule{
		ID: "DP-ns", Props: []string{"C06"}, Min: 1,
		Doc: `--no-singleton drops exactly the classes of total count 1: in IUniqueSequence the condition that withholds a batch under NoSingleton() is a conjunction that also requires
the class to be a single record (len(...) == 1) and that record to have Count() == 1.`,
		Run: runDPNS,
	})
}

func runDPBranch(c *Ctx, s *Sink) {
	fd, p := c.FindFunc("pkg/obiseq", "(*BioSequence).Merge")
	key := "pkg/obiseq.(*BioSequence).Merge:stats-branch"
	if fd == nil {
		s.Undecided(nil, key, 0, "function not found")
		return
	}
	info := p.TypesInfo
	found := false
	ast.Inspect(fd.Body, func(n ast.Node) bool {
		ifs, ok := n.(*ast.IfStmt)
		if !ok {
			return true
		}
		// which branch holds StatsPlusOne?
		plusIn := func(b ast.Node) types.Object {
			var x types.Object
			if b == nil {
				return nil
			}
			ast.Inspect(b, func(m ast.Node) bool {
				if call, ok := m.(*ast.CallExpr); ok {
					if sel, ok := call.Fun.(*ast.SelectorExpr); ok && sel.Sel.Name == "StatsPlusOne" && len(call.Args) >= 2 {
						x = rootObj(info, call.Args[1])
					}
				}
				return true
			})
			return x
		}
		xThen, xElse := plusIn(ifs.Body), plusIn(ifs.Else)
		if xThen == nil && xElse == nil {
			return true
		}
		// condition: [!] Y.HasStatsOn(key)
		cond := ast.Unparen(ifs.Cond)
		neg := false
		if u, ok := cond.(*ast.UnaryExpr); ok && u.Op == token.NOT {
			neg = true
			cond = ast.Unparen(u.X)
		}
		call, ok := cond.(*ast.CallExpr)
		if !ok {
			return true
		}
		sel, ok := call.Fun.(*ast.SelectorExpr)
		if !ok || sel.Sel.Name != "HasStatsOn" {
			return true
		}
		found = true
		y := rootObj(info, sel.X)
		x := xElse
		plusWhenHas := false
		if xThen != nil {
			x = xThen
			plusWhenHas = !neg
		} else {
			plusWhenHas = neg
		}
		switch {
		case plusWhenHas:
			s.Fail(nil, key, ifs.Pos(), "StatsPlusOne is applied on the branch where the record already carries statistics: its per-value map is ignored")
		case x != y:
			s.Fail(nil, key, ifs.Pos(), "the record added as a single observation is "+x.Name()+" but the branch is selected by "+y.Name()+".HasStatsOn(): when "+y.Name()+" has no statistics yet and "+x.Name()+" is an already merged record, its whole count goes under its plain attribute value and its merged map is dropped (result depends on input order)")
		default:
			s.Pass(nil, key, ifs.Pos(), "plus-one branch taken exactly when "+x.Name()+" has no statistics of its own")
		}
		return false
	})
	if !found {
		s.Undecided(nil, key, fd.Pos(), "no branch on HasStatsOn around StatsPlusOne")
	}
}

func runDPNS(c *Ctx, s *Sink) {
	fd, p := c.FindFunc("pkg/obichunk", "IUniqueSequence")
	key := "pkg/obichunk.IUniqueSequence:no-singleton"
	if fd == nil {
		s.Undecided(nil, key, 0, "function not found")
		return
	}
	info := p.TypesInfo
	defs := collectDefs(info, fd)
	found := false
	ast.Inspect(fd.Body, func(n ast.Node) bool {
		ifs, ok := n.(*ast.IfStmt)
		if !ok || found {
			return true
		}
		mentions := false
		ast.Inspect(ifs.Cond, func(m ast.Node) bool {
			if call, ok := m.(*ast.CallExpr); ok {
				if sel, ok := call.Fun.(*ast.SelectorExpr); ok && sel.Sel.Name == "NoSingleton" {
					mentions = true
				}
			}
			return true
		})
		if !mentions {
			return true
		}
		found = true
		// flatten the conjunction (through a leading negation and single-definition boolean locals)
		var atoms []ast.Expr
		var flat func(e ast.Expr, depth int) bool
		flat = func(e ast.Expr, depth int) bool {
			e = ast.Unparen(e)
			if b, ok := e.(*ast.BinaryExpr); ok {
				if b.Op == token.LAND {
					return flat(b.X, depth) && flat(b.Y, depth)
				}
				if b.Op == token.LOR {
					return false
				}
			}
			if id, ok := e.(*ast.Ident); ok && depth < 3 {
				if ds := defs[info.ObjectOf(id)]; len(ds) == 1 && ds[0] != nil {
					return flat(ds[0], depth+1)
				}
			}
			atoms = append(atoms, e)
			return true
		}
		cond := ast.Unparen(ifs.Cond)
		if u, ok := cond.(*ast.UnaryExpr); ok && u.Op == token.NOT {
			cond = u.X
		}
		if !flat(cond, 0) {
			s.Undecided(nil, key, ifs.Pos(), "the no-singleton condition is not a conjunction")
			return false
		}
		isOne := func(e ast.Expr) bool { v, ok := constInt(info, e); return ok && v == 1 }
		hasLen, hasCount := false, false
		for _, a := range atoms {
			b, ok := a.(*ast.BinaryExpr)
			if !ok || b.Op != token.EQL {
				continue
			}
			x, y := ast.Unparen(b.X), ast.Unparen(b.Y)
			if isOne(x) {
				x, y = y, x
			}
			if !isOne(y) {
				continue
			}
			if call, ok := x.(*ast.CallExpr); ok {
				if id, ok := call.Fun.(*ast.Ident); ok && id.Name == "len" {
					hasLen = true
				}
				if sel, ok := call.Fun.(*ast.SelectorExpr); ok {
					if sel.Sel.Name == "Len" {
						hasLen = true
					}
					if sel.Sel.Name == "Count" && strings.HasSuffix(fullName(callee(info, call)), "BioSequence).Count") {
						hasCount = true
					}
				}
			}
		}
		switch {
		case !hasCount:
			s.Fail(nil, key, ifs.Pos(), "under --no-singleton a class is withheld without testing that its record has Count() == 1: a class made of a single record that already carries count > 1 is dropped and the total count is not conserved")
		case !hasLen:
			s.Fail(nil, key, ifs.Pos(), "under --no-singleton a class is withheld without testing that it holds a single record: classes of several reads whose first has count 1 are dropped")
		default:
			s.Pass(nil, key, ifs.Pos(), "withheld only when NoSingleton() && one record && its Count() == 1")
		}
		return false
	})
	if !found {
		s.Undecided(nil, key, fd.Pos(), "no condition on NoSingleton() found")
	}
}
