package main

// OH — every value the OBI header parser has parsed is stored (C02).

import (
	"fmt"
	"go/ast"
	"go/types"
	"strings"
)

func init() {
	register(&Rule{
		ID: "OH", Props: []string{"C02"}, Min: 1,
		Doc: `a key=value the OBI-format title parser accepted ends up in the annotations: in pkg/obiformats.ParseOBIFeatures the type switch that dispatches the parsed value stores
annotations[key] on every path of every clause (definite assignment over if/else); a clause that stores only under a condition silently drops the values failing it — a non-integral
number such as score=0.5 written by --output-OBI-header disappears when the file is read back.`,
		Run: runOH,
	})
}

// definitelyStores: does every path through list execute a store into an element of the map object m?
func definitelyStores(info *types.Info, list []ast.Stmt, m types.Object) bool {
	for _, st := range list {
		switch x := st.(type) {
		case *ast.AssignStmt:
			for _, l := range x.Lhs {
				if ix, ok := ast.Unparen(l).(*ast.IndexExpr); ok && rootObj(info, ix.X) == m {
					return true
				}
			}
		case *ast.IfStmt:
			if x.Else == nil {
				continue
			}
			thenOK := definitelyStores(info, x.Body.List, m)
			elseOK := false
			switch e := x.Else.(type) {
			case *ast.BlockStmt:
				elseOK = definitelyStores(info, e.List, m)
			case *ast.IfStmt:
				elseOK = definitelyStores(info, []ast.Stmt{e}, m)
			}
			if thenOK && elseOK {
				return true
			}
		case *ast.BlockStmt:
			if definitelyStores(info, x.List, m) {
				return true
			}
		case *ast.SwitchStmt, *ast.TypeSwitchStmt:
			var body *ast.BlockStmt
			if sw, ok := x.(*ast.SwitchStmt); ok {
				body = sw.Body
			} else {
				body = x.(*ast.TypeSwitchStmt).Body
			}
			all, hasDefault := true, false
			for _, cl := range body.List {
				cc := cl.(*ast.CaseClause)
				if cc.List == nil {
					hasDefault = true
				}
				if !definitelyStores(info, cc.Body, m) {
					all = false
				}
			}
			if all && hasDefault {
				return true
			}
		}
	}
	return false
}

func runOH(c *Ctx, s *Sink) {
	fd, p := c.FindFunc("pkg/obiformats", "ParseOBIFeatures")
	base := "pkg/obiformats.ParseOBIFeatures"
	if fd == nil {
		s.Undecided(nil, base, 0, "function not found")
		return
	}
	info := p.TypesInfo
	// the annotation map: the parameter of map type
	var annot types.Object
	for _, id := range flattenParams(fd.Type.Params) {
		if id == nil {
			continue
		}
		if _, ok := info.ObjectOf(id).Type().Underlying().(*types.Map); ok {
			annot = info.ObjectOf(id)
		}
	}
	if annot == nil {
		s.Undecided(nil, base, fd.Pos(), "no map parameter")
		return
	}
	n := 0
	ast.Inspect(fd.Body, func(nd ast.Node) bool {
		// the same dispatch written with a type assertion: if vt, isT := value.(T); … { store } else … { store }
		if ifs, isIf := nd.(*ast.IfStmt); isIf {
			if as, ok := ifs.Init.(*ast.AssignStmt); ok && len(as.Rhs) == 1 {
				if _, isTA := ast.Unparen(as.Rhs[0]).(*ast.TypeAssertExpr); isTA {
					stores := false
					ast.Inspect(ifs, func(m ast.Node) bool {
						if a2, ok := m.(*ast.AssignStmt); ok {
							for _, l := range a2.Lhs {
								if ix, ok := ast.Unparen(l).(*ast.IndexExpr); ok && rootObj(info, ix.X) == annot {
									stores = true
								}
							}
						}
						return true
					})
					if stores {
						n++
						key := fmt.Sprintf("%s:value-dispatch#%d", base, n)
						if definitelyStores(info, []ast.Stmt{ifs}, annot) {
							s.Pass(nil, key, ifs.Pos(), "every branch of the dispatch stores the value")
						} else {
							s.Fail(nil, key, ifs.Pos(), "a parsed value is not stored on every branch of the dispatch on its type: the key=value pair is accepted and dropped — score=0.5 in an OBI-format title is lost when the record is read back")
						}
						return false
					}
				}
			}
			return true
		}
		ts, ok := nd.(*ast.TypeSwitchStmt)
		if !ok {
			return true
		}
		// the dispatch storing into the map: at least one clause stores
		stores := false
		for _, cl := range ts.Body.List {
			ast.Inspect(cl, func(m ast.Node) bool {
				if as, ok := m.(*ast.AssignStmt); ok {
					for _, l := range as.Lhs {
						if ix, ok := ast.Unparen(l).(*ast.IndexExpr); ok && rootObj(info, ix.X) == annot {
							stores = true
						}
					}
				}
				return true
			})
		}
		if !stores {
			return true
		}
		n++
		var bad []string
		for _, cl := range ts.Body.List {
			cc := cl.(*ast.CaseClause)
			if !definitelyStores(info, cc.Body, annot) {
				name := "default"
				if cc.List != nil {
					var ts []string
					for _, e := range cc.List {
						ts = append(ts, types.ExprString(e))
					}
					name = "case " + strings.Join(ts, ", ")
				}
				bad = append(bad, c.Pos(cc.Pos())+" ("+name+")")
			}
		}
		key := fmt.Sprintf("%s:value-dispatch#%d", base, n)
		if len(bad) > 0 {
			s.Fail(nil, key, ts.Pos(), "a parsed value is not stored on every path of "+strings.Join(bad, ", ")+": the key=value pair is accepted and dropped — score=0.5 in an OBI-format title is lost when the record is read back")
		} else {
			s.Pass(nil, key, ts.Pos(), "every clause of the dispatch stores the value")
		}
		return true
	})
	if n == 0 {
		s.Undecided(nil, base, fd.Pos(), "no type switch storing into the annotation map")
	}
}
