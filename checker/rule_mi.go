package main

// MI — the initial states of the indel automaton are closed under the deletion its transition allows (C10).

import (
	"fmt"
	"path/filepath"
	"strings"
)

// cVarName: the variable a (cast-stripped) expression reads, "" otherwise.
func cVarName(n *cnode) string {
	n = stripCasts(n)
	if n != nil && n.Kind == "DeclRefExpr" && n.Ref != nil {
		return n.Ref.Name
	}
	return ""
}

// cIndexOf: (variable, constant index) of p[k] or *p (k = 0).
func cIndexOf(n *cnode) (string, int64, bool) {
	n = stripCasts(n)
	if n == nil {
		return "", 0, false
	}
	switch {
	case n.Kind == "ArraySubscriptExpr" && len(n.Inner) == 2:
		v := cVarName(n.Inner[0])
		k, ok := cIntValue(n.Inner[1])
		return v, k, ok && v != ""
	case n.Kind == "UnaryOperator" && n.Op == "*" && len(n.Inner) == 1:
		v := cVarName(n.Inner[0])
		return v, 0, v != ""
	}
	return "", 0, false
}

// cShiftRightOne: x of "x >> 1".
func cShiftRightOne(n *cnode) *cnode {
	n = stripCasts(n)
	if n != nil && n.Kind == "BinaryOperator" && n.Op == ">>" && len(n.Inner) == 2 {
		if k, ok := cIntValue(n.Inner[1]); ok && k == 1 {
			return stripCasts(n.Inner[0])
		}
	}
	return nil
}

func init() {
	register(&Rule{
		ID: "MI", Props: []string{"C10"}, Min: 7,
		Doc: `"an occurrence that starts with deleted pattern positions is found from the first text position on": in ManberIndel (apat_search.c, clang AST) the transition of level e
reads the state of level e-1 of the SAME column shifted by one (the term pr[1] >> 1: a pattern position deleted, no text consumed). A state array with such a term has to be closed under it before the first
column as well: the loop that sets the initial state of each level (*pr = v) must carry v to (v >> 1) | s for the next level, s being the start bit the scan ORs in — the textbook initial condition
1^e 0^(m-e) of Wu & Manber. With all levels started at the same v, an occurrence whose first e pattern positions are deleted is not found at the start of the window (the state it needs is only there one
column later). Two obligations: (1) the transition holds the three edit terms (pr[0], pr[0] >> 1, pr[1] >> 1) — otherwise the matcher called for hasIndel does not do indels; (2) the initialisation loop applies the
closure. The substitution-only sibling ManberSub has no same-column term and is not concerned. (3) In the three scanners no value that went through '&' is the operand of a shift: the masks (smat[c], the complement of the obligatory positions) are indexed by the positions of the new column and apply to the shifted state. (4) An obligatory position (#) is treated alike everywhere: the initial deletions go through the same mask (~omask) as the deletion term of the transition, and the insertion term is outside that mask — an inserted symbol is not an error on a position; masked, it was refused on one side of a # and accepted on the other, and the two strands disagreed. This decides the shape of the initial condition and of the transition, not the matcher.`,
		Run: func(c *Ctx, s *Sink) {
			dir := filepath.Join(c.Repo, "pkg/obiapat")
			// (3) the masks are applied to the shifted state, in the three scanners
			for _, fname := range []string{"ManberNoErr", "ManberSub", "ManberIndel"} {
				key3 := "pkg/obiapat/apat_search.c:" + fname + ":masks-applied-after-the-shift"
				sf, err := clangFunc(dir, "apat_search.c", fname)
				if err != nil {
					s.Undecided(nil, key3, 0, err.Error())
					continue
				}
				shifts, bad := 0, ""
				sf.walk(func(n *cnode, _ []*cnode) {
					if n.Kind != "BinaryOperator" || n.Op != ">>" || len(n.Inner) != 2 {
						return
					}
					shifts++
					n.Inner[0].walk(func(m *cnode, _ []*cnode) {
						if m.Kind == "BinaryOperator" && m.Op == "&" && bad == "" {
							bad = strings.Join(cDeclRefNames(m), " & ")
						}
					})
				})
				p3 := fmt.Sprintf("pkg/obiapat/apat_search.c:%d", cLine(sf))
				switch {
				case shifts == 0:
					o := s.add(Undecided, nil, key3, 0, "no shift of the state found")
					o.Pos = p3
				case bad != "":
					o := s.add(Violation, nil, key3, 0, "a masked value ("+bad+") is shifted: bit i of a mask (the symbols accepted at, or the mismatch allowed at, pattern position i) constrains position i of the NEW column, so the state is shifted first and masked after — masked first, the constraint of an obligatory position (#) lands on its neighbour: AC#GT with one mismatch accepts aaGt and refuses acTt")
					o.Pos = p3
				default:
					o := s.add(Pass, nil, key3, 0, fmt.Sprintf("%d shifts, none of a masked value", shifts))
					o.Pos = p3
				}
			}
			fn, err := clangFunc(dir, "apat_search.c", "ManberIndel")
			key1 := "pkg/obiapat/apat_search.c:ManberIndel:transition-holds-ins-sub-del"
			key2 := "pkg/obiapat/apat_search.c:ManberIndel:initial-states-closed-under-deletion"
			if err != nil {
				s.Undecided(nil, key1, 0, err.Error())
				s.Undecided(nil, key2, 0, err.Error())
				return
			}
			pos := fmt.Sprintf("pkg/obiapat/apat_search.c:%d", cLine(fn))
			// (1) the transition: an assignment to p[3] whose right side reads p[0], p[0] >> 1 and p[1] >> 1
			var state string // the pointer walking the state array
			var ins, sub, del, insMasked bool
			var startBit string
			fn.walk(func(n *cnode, _ []*cnode) {
				if n.Kind != "BinaryOperator" || n.Op != "=" || len(n.Inner) != 2 {
					return
				}
				v, k, ok := cIndexOf(n.Inner[0])
				if !ok {
					return
				}
				if k == 2 {
					// p[2] = p[3] | s : the start bit
					r := stripCasts(n.Inner[1])
					if r != nil && r.Kind == "BinaryOperator" && r.Op == "|" && len(r.Inner) == 2 {
						for i := 0; i < 2; i++ {
							if w, kk, ok := cIndexOf(r.Inner[i]); ok && w == v && kk == 3 {
								if sb := cVarName(r.Inner[1-i]); sb != "" {
									startBit = sb
								}
							}
						}
					}
					return
				}
				if k != 3 {
					return
				}
				state = v
				n.Inner[1].walk(func(m *cnode, stack []*cnode) {
					if x := cShiftRightOne(m); x != nil {
						if w, kk, ok := cIndexOf(x); ok && w == v {
							switch kk {
							case 0:
								sub = true
							case 1:
								del = true
							}
						}
						return
					}
					if w, kk, ok := cIndexOf(m); ok && w == v && kk == 0 && m.Kind != "ImplicitCastExpr" && m.Kind != "ParenExpr" {
						// p[0] itself, not under a shift
						if len(stack) > 0 {
							par := stack[len(stack)-1]
							for i := len(stack) - 1; i >= 0 && (stack[i].Kind == "ImplicitCastExpr" || stack[i].Kind == "ParenExpr"); i-- {
								if i > 0 {
									par = stack[i-1]
								}
							}
							if par.Kind == "BinaryOperator" && par.Op == ">>" {
								return
							}
						}
						ins = true
						for _, a := range stack {
							if a.Kind == "BinaryOperator" && a.Op == "&" {
								insMasked = true
							}
						}
					}
				})
			})
			switch {
			case state == "":
				o := s.add(Undecided, nil, key1, 0, "no assignment to p[3] (the new state of a level) found")
				o.Pos = pos
			case !ins || !sub || !del:
				o := s.add(Violation, nil, key1, 0, fmt.Sprintf("the transition of the matcher used for patterns with indels reads insertion=%v substitution=%v deletion=%v of %s[0], %s[0] >> 1, %s[1] >> 1: an edit operation is missing, the occurrences that need it are not found", ins, sub, del, state, state, state))
				o.Pos = pos
			default:
				o := s.add(Pass, nil, key1, 0, "the transition reads "+state+"[0] (insertion), "+state+"[0] >> 1 (substitution) and "+state+"[1] >> 1 (deletion, same column)")
				o.Pos = pos
			}
			if state == "" || !del {
				o := s.add(Undecided, nil, key2, 0, "no same-column term found in the transition")
				o.Pos = pos
				return
			}
			// (2) the initialisation loop: the first for statement whose body stores a variable through the state pointer
			var loop *cnode
			var v string
			fn.walk(func(n *cnode, _ []*cnode) {
				if loop != nil || n.Kind != "ForStmt" || len(n.Inner) == 0 {
					return
				}
				body := n.Inner[len(n.Inner)-1]
				body.walk(func(m *cnode, _ []*cnode) {
					if m.Kind == "BinaryOperator" && m.Op == "=" && len(m.Inner) == 2 {
						if w, _, ok := cIndexOf(m.Inner[0]); ok && w == state {
							if x := cVarName(m.Inner[1]); x != "" && loop == nil {
								loop, v = n, x
							}
						}
					}
				})
			})
			if loop == nil {
				o := s.add(Undecided, nil, key2, 0, "the loop that sets the initial state of each level (*"+state+" = v) was not found")
				o.Pos = pos
				return
			}
			lpos := fmt.Sprintf("pkg/obiapat/apat_search.c:%d", cLine(loop))
			updated, closed, closedMasked := false, false, false
			loop.walk(func(m *cnode, _ []*cnode) {
				if m == loop.Inner[0] {
					return
				}
				if (m.Kind == "BinaryOperator" || m.Kind == "CompoundAssignOperator") && len(m.Inner) == 2 && cVarName(m.Inner[0]) == v && (m.Op == "=" || len(m.Op) > 1 && m.Op[len(m.Op)-1] == '=' && m.Op != "==" && m.Op != "<=" && m.Op != ">=" && m.Op != "!=") {
					updated = true
					r := stripCasts(m.Inner[1])
					if m.Op == "=" && r != nil && r.Kind == "BinaryOperator" && r.Op == "|" && len(r.Inner) == 2 {
						for i := 0; i < 2; i++ {
							sb := cVarName(r.Inner[1-i])
							if sb == "" || startBit != "" && sb != startBit {
								continue
							}
							if x := cShiftRightOne(r.Inner[i]); x != nil && cVarName(x) == v {
								closed = true
							}
							// ((v >> 1) & mask) | s : the closure under the mask of the obligatory positions
							if a := stripCasts(r.Inner[i]); a != nil && a.Kind == "BinaryOperator" && a.Op == "&" && len(a.Inner) == 2 {
								for k := 0; k < 2; k++ {
									if x := cShiftRightOne(a.Inner[k]); x != nil && cVarName(x) == v {
										closed = true
										a.Inner[1-k].walk(func(q *cnode, _ []*cnode) {
											if q.Kind == "MemberExpr" && q.Name == "omask" {
												closedMasked = true
											}
										})
									}
								}
							}
						}
					}
				}
			})
			// the initialiser of the for statement is not an update of the loop
			// (4) what the transition does to an obligatory position, the initial states do too; an insertion is not an error ON a position
			key4 := "pkg/obiapat/apat_search.c:ManberIndel:initial-deletions-spare-the-obligatory-positions"
			key5 := "pkg/obiapat/apat_search.c:ManberIndel:insertion-outside-the-mask-of-the-obligatory-positions"
			switch {
			case closed && !closedMasked:
				o := s.add(Violation, nil, key4, 0, "the transition masks its deletion term with the complement of the obligatory positions (omask) and the initial states are built without it: an obligatory position (#) at the head of the pattern is deleted for free at the first position of the search window and nowhere else — A#CGTACGT with one error matches cgtacgt at offset 0, not in the middle of a sequence, not through the reverse complement")
				o.Pos = lpos
			case closed:
				o := s.add(Pass, nil, key4, 0, "the initial deletions go through the mask of the obligatory positions")
				o.Pos = lpos
			}
			if insMasked {
				o := s.add(Violation, nil, key5, 0, "the insertion term ("+state+"[0]) is under the mask of the obligatory positions: a symbol inserted just after a # position is refused, just before it is accepted — ACGT#ACGT with one error misses acgtGacgt, which its reverse complement finds on the other strand")
				o.Pos = pos
			} else {
				o := s.add(Pass, nil, key5, 0, "the insertion term is outside the mask of the obligatory positions")
				o.Pos = pos
			}
			switch {
			case closed:
				o := s.add(Pass, nil, key2, 0, "the initial state of level e+1 is (that of level e >> 1) | "+startBit+": closed under the deletion term of the transition")
				o.Pos = lpos
			case !updated:
				o := s.add(Violation, nil, key2, 0, "every level starts from the same state "+v+" while the transition has a same-column deletion term ("+state+"[1] >> 1): the initial states are not closed under it — an occurrence whose first pattern positions are deleted is not found at the first positions of the window (a primer site truncated by the start of the read)")
				o.Pos = lpos
			default:
				o := s.add(Undecided, nil, key2, 0, v+" is changed in the initialisation loop but not in the form "+v+" = ("+v+" >> 1) | "+startBit)
				o.Pos = lpos
			}
		},
	})
}
