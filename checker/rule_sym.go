package main

// SYM — one notion of matching symbols per search, and the prefilter respects it; PRN — the scan stops on the bound only (C15).

import (
	"fmt"
	"go/ast"
	"go/token"
	"go/types"
	"strings"

	"golang.org/x/tools/go/packages"
)

func init() {
	register(&Rule{
		ID: "SYM", Props: []string{"C15"}, Min: 3,
		Doc: `the prefiltered search gives the answer of the exhaustive one only if every comparison it mixes relies on the same notion of matching symbols. obialign.FastLCS…Score matches two symbols
when their IUPAC sets intersect; obialign.D1Or0 and a raw equality of the nucleotide slices compare bytes. (1) A function of pkg/obitools that prunes with the 4-mer tables (it calls obikmer.Common4Mer)
compares its candidates with one class of kernel only: mixing FastLCS…Score with D1Or0 or a byte equality makes an a/n pair a difference or a match depending on the current bound, so ties are won
or lost with the scan order of the references. (2) The tables respect the IUPAC notion: obikmer.Count4Mer does not file a window holding a symbol other than a, c, g, t, u under an ordinary word (it
increments a dedicated cell, the last of the table, under a test of the symbol class), and Common4Mer adds that cell of both tables to the shared words — otherwise a reference identical to the
query but for a few n shares too few 4-mers and is pruned by len-3-4·maxe although its distance is 0.`,
		Run: runSYM,
	})
	register(&Rule{
		ID: "PRN", Props: []string{"C15"}, Min: 2,
		Doc: `the scan of the candidates, ordered by decreasing number of shared 4-mers, is abandoned only when the bound says so: in the functions of pkg/obitools that call obikmer.Common4Mer, every
condition leading to a break out of the loop over the ordered candidates compares the shared-word count of the candidate with the bound; a disjunct on the rank of the candidate (i > 1000) drops the
true best match whenever more than that many references hold all the 4-mers of the query.`,
		Run: runPRN,
	})
}

func usesPrefilter(info *types.Info, fd *ast.FuncDecl) bool {
	found := false
	ast.Inspect(fd.Body, func(n ast.Node) bool {
		if call, ok := n.(*ast.CallExpr); ok && strings.HasSuffix(fullName(callee(info, call)), "/pkg/obikmer.Common4Mer") {
			found = true
		}
		return true
	})
	return found
}

func runSYM(c *Ctx, s *Sink) {
	c.EachFunc([]string{"pkg/obitools"}, func(p *packages.Package, fd *ast.FuncDecl) {
		info := p.TypesInfo
		if !usesPrefilter(info, fd) {
			return
		}
		key := funcName(p, fd) + ":one-symbol-class"
		var iupac, bytesCls []string
		// the bodies searched: the function itself and the functions of its package it calls, two levels down (helpers)
		bodies := []ast.Node{fd.Body}
		seenD := map[*ast.FuncDecl]bool{fd: true}
		for level := 0; level < 2; level++ {
			for _, b := range append([]ast.Node(nil), bodies...) {
				ast.Inspect(b, func(n ast.Node) bool {
					if call, ok := n.(*ast.CallExpr); ok {
						if f := callee(info, call); f != nil && f.Pkg() == p.Types {
							if d, _ := c.DeclOf(f); d != nil && d.Body != nil && !seenD[d] {
								seenD[d] = true
								bodies = append(bodies, d.Body)
							}
						}
					}
					return true
				})
			}
		}
		for _, body := range bodies {
			ast.Inspect(body, func(n ast.Node) bool {
				switch x := n.(type) {
				case *ast.CallExpr:
					fn := fullName(callee(info, x))
					switch {
					case strings.Contains(fn, "/pkg/obialign.FastLCS"):
						iupac = append(iupac, c.Pos(x.Pos()))
					case strings.HasSuffix(fn, "/pkg/obialign.D1Or0"):
						bytesCls = append(bytesCls, c.Pos(x.Pos())+" (D1Or0)")
					case strings.HasSuffix(fn, "bytes.Equal") || strings.HasSuffix(fn, "bytes.Compare"):
						bytesCls = append(bytesCls, c.Pos(x.Pos())+" (bytes)")
					}
				case *ast.BinaryExpr:
					if x.Op == token.EQL || x.Op == token.NEQ {
						// equality of two values derived from Sequence()
						seqDerived := func(e ast.Expr) bool {
							d := false
							ast.Inspect(e, func(m ast.Node) bool {
								if call, ok := m.(*ast.CallExpr); ok {
									if f := callee(info, call); f != nil && (f.Name() == "Sequence" || f.Name() == "String") && strings.HasSuffix(fullName(f), "BioSequence)."+f.Name()) {
										d = true
									}
								}
								return true
							})
							return d
						}
						if seqDerived(x.X) && seqDerived(x.Y) {
							bytesCls = append(bytesCls, c.Pos(x.Pos())+" (equality of the nucleotide strings)")
						}
					}
				}
				return true
			})
		}
		switch {
		case len(iupac) > 0 && len(bytesCls) > 0:
			s.Fail(nil, key, fd.Pos(), "the candidates are compared by IUPAC sets (FastLCSScore at "+iupac[0]+") and by bytes ("+strings.Join(bytesCls, ", ")+") depending on the current bound: a pair a/n is a match for the first and a difference for the second, so the best-match set and the taxon assigned depend on the order of the references")
		case len(iupac)+len(bytesCls) == 0:
			s.Undecided(nil, key, fd.Pos(), "no comparison kernel found in a function using the 4-mer prefilter")
		default:
			s.Pass(nil, key, fd.Pos(), fmt.Sprintf("%d comparison site(s), one class of symbol matching", len(iupac)+len(bytesCls)))
		}
	})
	// (2) the tables
	fd, p := c.FindFunc("pkg/obikmer", "Count4Mer")
	key := "pkg/obikmer.Count4Mer:ambiguity-cell"
	if fd == nil {
		s.Undecided(nil, key, 0, "function not found")
	} else {
		info := p.TypesInfo
		// an increment of a constant-index cell >= 256 under a condition
		ok := false
		var stack []ast.Node
		ast.Inspect(fd.Body, func(n ast.Node) bool {
			if n == nil {
				stack = stack[:len(stack)-1]
				return true
			}
			stack = append(stack, n)
			inc, isInc := n.(*ast.IncDecStmt)
			if !isInc {
				return true
			}
			ix, isIx := ast.Unparen(inc.X).(*ast.IndexExpr)
			if !isIx {
				return true
			}
			if v, isC := constInt(info, ix.Index); isC && v >= 256 {
				for _, anc := range stack {
					switch a := anc.(type) {
					case *ast.IfStmt:
						ok = true
					case *ast.CaseClause:
						// a clause of a tagless switch is a condition too (the default clause included: it is the negation of the others)
						_ = a
						ok = true
					}
				}
			}
			return true
		})
		if ok {
			s.Pass(nil, key, fd.Pos(), "windows holding an ambiguity code are counted in a dedicated cell")
		} else {
			s.Fail(nil, key, fd.Pos(), "every window is filed under one of the 256 words (symbols other than a, c, g, t, u read as a): the aligner matches an ambiguity code with every base it stands for, so a reference identical to the query but for three n shares up to 12 words fewer and is pruned by the bound len-3-4·maxe although its distance is 0")
		}
	}
	fd, p = c.FindFunc("pkg/obikmer", "Common4Mer")
	key = "pkg/obikmer.Common4Mer:ambiguity-cell"
	if fd == nil {
		s.Undecided(nil, key, 0, "function not found")
		return
	}
	info := p.TypesInfo
	tables := map[types.Object]bool{}
	for _, id := range flattenParams(fd.Type.Params) {
		if id != nil {
			tables[info.ObjectOf(id)] = false
		}
	}
	ast.Inspect(fd.Body, func(n ast.Node) bool {
		if ix, ok := n.(*ast.IndexExpr); ok {
			if v, isC := constInt(info, ix.Index); isC && v >= 256 {
				if rid := rootIdent(ix.X); rid != nil {
					if o := info.ObjectOf(rid); o != nil {
						if _, isT := tables[o]; isT {
							tables[o] = true
						}
					}
				}
			}
		}
		return true
	})
	all := len(tables) > 0
	for _, seen := range tables {
		if !seen {
			all = false
		}
	}
	if all {
		s.Pass(nil, key, fd.Pos(), "the ambiguity cells of both tables are added to the shared words")
	} else {
		s.Fail(nil, key, fd.Pos(), "the count of shared 4-mers ignores the windows holding ambiguity codes: it is not an upper bound of the windows two sequences can share under IUPAC matching, and the pruning rule built on it discards references at distance 0")
	}
}

func runPRN(c *Ctx, s *Sink) {
	c.EachFunc([]string{"pkg/obitools"}, func(p *packages.Package, fd *ast.FuncDecl) {
		info := p.TypesInfo
		if !usesPrefilter(info, fd) {
			return
		}
		// the slice of shared-word counts: assigned from Common4Mer
		var cw types.Object
		ast.Inspect(fd.Body, func(n ast.Node) bool {
			if as, ok := n.(*ast.AssignStmt); ok && len(as.Rhs) == 1 && len(as.Lhs) == 1 {
				if call, ok := ast.Unparen(as.Rhs[0]).(*ast.CallExpr); ok && strings.HasSuffix(fullName(callee(info, call)), "/pkg/obikmer.Common4Mer") {
					if rid := rootIdent(as.Lhs[0]); rid != nil {
						cw = info.ObjectOf(rid)
					}
				}
			}
			return true
		})
		nb := 0
		ast.Inspect(fd.Body, func(n ast.Node) bool {
			ifs, ok := n.(*ast.IfStmt)
			if !ok {
				return true
			}
			brk := false
			for _, st := range ifs.Body.List {
				if b, ok := st.(*ast.BranchStmt); ok && b.Tok == token.BREAK {
					brk = true
				}
			}
			if !brk {
				return true
			}
			nb++
			key := fmt.Sprintf("%s:break#%d", funcName(p, fd), nb)
			var bad []string
			var disj func(e ast.Expr)
			disj = func(e ast.Expr) {
				e = ast.Unparen(e)
				if b, ok := e.(*ast.BinaryExpr); ok && b.Op == token.LOR {
					disj(b.X)
					disj(b.Y)
					return
				}
				uses := false
				ast.Inspect(e, func(m ast.Node) bool {
					if id, ok := m.(*ast.Ident); ok && cw != nil && info.ObjectOf(id) == cw {
						uses = true
					}
					return true
				})
				if !uses {
					bad = append(bad, types.ExprString(e))
				}
			}
			disj(ifs.Cond)
			if len(bad) > 0 {
				s.Fail(nil, key, ifs.Pos(), "the scan of the candidates is abandoned on a condition that does not involve the shared-word count ("+strings.Join(bad, ", ")+"): references not yet compared may be closer than the current best — with more than 1000 references holding all the 4-mers of the query the true best match is never aligned")
			} else {
				s.Pass(nil, key, ifs.Pos(), "the scan stops on the 4-mer bound only")
			}
			return true
		})
	})
}
