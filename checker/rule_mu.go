package main

import (
	"go/ast"
	"go/types"

	"golang.org/x/tools/go/packages"
)

// MU — results of value-semantic combinators must be used.

var muTypes = map[string]bool{
	modPath + "/pkg/obiseq.SeqWorker":         true,
	modPath + "/pkg/obiseq.SeqSliceWorker":    true,
	modPath + "/pkg/obiseq.SequencePredicate": true,
	modPath + "/pkg/obiiter.IBioSequence":     true,
	modPath + "/pkg/obiiter.Pipeable":         true,
}

func namedTypeName(t types.Type) string {
	switch n := t.(type) {
	case *types.Named:
		if n.Obj().Pkg() != nil {
			return n.Obj().Pkg().Path() + "." + n.Obj().Name()
		}
		return n.Obj().Name()
	case *types.Alias:
		return namedTypeName(types.Unalias(n))
	}
	return ""
}

func init() {
	register(&Rule{
		ID:    "MU",
		Props: []string{"C16", "C03"},
		Min:   20,
		Doc: `combinator result must be used: every call whose single result has type obiseq.SeqWorker, SeqSliceWorker,
SequencePredicate, obiiter.IBioSequence or obiiter.Pipeable (all value-semantic: the receiver is not modified) must not be an
expression statement; a dropped result is a lost pipeline stage / lost criterion / lost edit. One obligation per enclosing function containing such calls.`,
		Run: runMU,
	})
}

func runMU(c *Ctx, s *Sink) {
	c.EachFunc(nil, func(p *packages.Package, fd *ast.FuncDecl) {
		ncalls := 0
		var dropped []*ast.CallExpr
		ast.Inspect(fd.Body, func(n ast.Node) bool {
			switch x := n.(type) {
			case *ast.CallExpr:
				if tv, ok := p.TypesInfo.Types[x]; ok && muTypes[namedTypeName(tv.Type)] {
					ncalls++
				}
			case *ast.ExprStmt:
				if call, ok := x.X.(*ast.CallExpr); ok {
					if tv, ok := p.TypesInfo.Types[call]; ok && muTypes[namedTypeName(tv.Type)] {
						dropped = append(dropped, call)
					}
				}
			}
			return true
		})
		if ncalls == 0 {
			return
		}
		fname := funcName(p, fd)
		if len(dropped) == 0 {
			s.Pass(nil, fname, fd.Pos(), "all combinator results used")
			return
		}
		for _, call := range dropped {
			cn := fullName(callee(p.TypesInfo, call))
			if cn == "" {
				cn = types.ExprString(call.Fun)
			}
			s.Fail(nil, fname+" drops "+rel(cn), call.Pos(),
				"result of "+types.ExprString(call.Fun)+" (type "+namedTypeName(p.TypesInfo.Types[call].Type)+") is discarded: the combinator does not modify its receiver, so the stage/criterion/edit is lost")
		}
	})
}
