package main

// W-4 — writer front-ends hand every batch number to the re-sequencer exactly once (C04).
// IT-8 — every batch obtained by Next() is fetched by Get() (C03).

import (
	"fmt"
	"go/ast"
	"go/types"

	"golang.org/x/tools/go/cfg"
	"golang.org/x/tools/go/packages"
)

func init() {
	register(&Rule{
		ID: "W-4", Props: []string{"C04", "C05"}, Min: 4,
		Doc: `every batch number reaches the writer's re-sequencer exactly once: in each formatting goroutine of a writer front-end (WriteFasta, WriteFastq, WriteJSON,
WriteCSV) the send of the formatted chunk carrying batch.Order() on the chunk channel is executed exactly once per batch obtained from the iterator, on every path
(typestate over go/cfg). A front-end that skips the send for an empty chunk leaves a hole in the numbers on which the re-sequencer stalls: everything after it is silently dropped.`,
		Run: runW4,
	})
	register(&Rule{
		ID: "IT-8", Props: []string{"C03", "C06", "C16"}, Min: 24,
		Doc: `every obtained batch is fetched: for each iterator variable, on every path a successful Next() is followed by Get() (or PushBack()) before the next Next() on
the same iterator and before the function returns; a Next() evaluated in a condition whose other operand can stop the loop (x.Next() && i < n) pulls a batch from the channel
that nobody reads — it is lost without any trace. Typestate over go/cfg, edge-sensitive on the outcome of Next().`,
		Run: runIT8,
	})
}

func runW4(c *Ctx, s *Sink) {
	for _, h := range itHandles(c) {
		if rel(h.pkg.PkgPath) != "pkg/obiformats" {
			continue
		}
		for _, b := range h.producers() {
			info := b.pkg.TypesInfo
			a := &it4{c: c, h: h, body: b, info: info}
			a.defs = collectDefs(info, b.outer)
			// sends whose value carries X.Order() of a batch obtained from an iterator
			var sends []*itEvent
			var src types.Object
			var stack []ast.Node
			var walk func(n ast.Node)
			walk = func(n ast.Node) {
				if n == nil {
					return
				}
				if lit, ok := n.(*ast.FuncLit); ok && ast.Node(lit) != b.fn {
					return
				}
				stack = append(stack, n)
				defer func() { stack = stack[:len(stack)-1] }()
				if st, ok := n.(*ast.SendStmt); ok {
					var recv ast.Expr
					var val ast.Node = st.Value
					if id, ok := ast.Unparen(st.Value).(*ast.Ident); ok {
						if ds := a.defs[info.ObjectOf(id)]; len(ds) == 1 && ds[0] != nil {
							val = ds[0]
						}
					}
					ast.Inspect(val, func(m ast.Node) bool {
						if e, ok := m.(ast.Expr); ok {
							if r := orderReceiver(info, e); r != nil {
								recv = r
							}
						}
						return true
					})
					if recv != nil {
						if so, ok := a.batchSource(recv); ok {
							src = so
							sends = append(sends, &itEvent{kind: "Push", send: st, arg: st.Value, body: b, node: st, path: append([]ast.Node(nil), stack...)})
						}
					}
				}
				var children []ast.Node
				ast.Inspect(n, func(m ast.Node) bool {
					if m == nil || m == n {
						return m == n
					}
					children = append(children, m)
					return false
				})
				for _, ch := range children {
					walk(ch)
				}
			}
			walk(b.body)
			if len(sends) == 0 {
				continue
			}
			key := h.key() + ":chunk-send:" + b.label
			msg := a.exactlyOncePerItem(ordInfo{kind: ordPass, src: src}, sends)
			if msg == "" {
				s.Pass(nil, key, sends[0].pos(), "the formatted chunk is sent exactly once per obtained batch on every path")
			} else {
				s.Fail(nil, key, sends[0].pos(), "chunk channel: "+msg)
			}
		}
	}
}

func runIT8(c *Ctx, s *Sink) {
	c.EachFunc([]string{"pkg/obiiter", "pkg/obichunk", "pkg/obiformats", "pkg/obitools", "pkg/obilua"}, func(p *packages.Package, fd *ast.FuncDecl) {
		info := p.TypesInfo
		// bodies: declaration + literals, each analysed on its own
		type bodyT struct {
			fn   ast.Node
			body *ast.BlockStmt
		}
		bodies := []bodyT{{fd, fd.Body}}
		ast.Inspect(fd.Body, func(n ast.Node) bool {
			if lit, ok := n.(*ast.FuncLit); ok {
				bodies = append(bodies, bodyT{lit, lit.Body})
			}
			return true
		})
		for bi, b := range bodies {
			// iterator objects on which Next is called in this body (not nested literals)
			iters := map[types.Object]bool{}
			ast.Inspect(b.body, func(n ast.Node) bool {
				if lit, ok := n.(*ast.FuncLit); ok && ast.Node(lit) != b.fn {
					return false
				}
				if call, ok := n.(*ast.CallExpr); ok {
					if sel, ok := call.Fun.(*ast.SelectorExpr); ok && fullName(callee(info, call)) == modPath+"/pkg/obiiter.(IBioSequence).Next" {
						if o := rootObj(info, sel.X); o != nil {
							iters[o] = true
						}
					}
				}
				return true
			})
			for it := range iters {
				key := fmt.Sprintf("%s:body#%d:%s", funcName(p, fd), bi, it.Name())
				g := buildCFG(info, b.body)
				method := func(n ast.Node) string {
					call, ok := n.(*ast.CallExpr)
					if !ok {
						return ""
					}
					sel, ok := call.Fun.(*ast.SelectorExpr)
					if !ok || rootObj(info, sel.X) != it {
						return ""
					}
					if _, isSel := ast.Unparen(sel.X).(*ast.Ident); !isSel {
						return ""
					}
					return sel.Sel.Name
				}
				ts := &typestate{g: g, init: 0, info: info,
					events: func(n ast.Node) []tsEvent {
						var evs []tsEvent
						visitEval(n, func(m ast.Node) {
							switch method(m) {
							case "Next":
								evs = append(evs, tsEvent{kind: "next", node: m})
							case "Get", "PushBack", "Load", "Recycle", "Consume", "Count":
								evs = append(evs, tsEvent{kind: "get", node: m})
							}
						})
						return evs
					},
					step: func(st int, ev tsEvent) (int, string) {
						switch ev.kind {
						case "next":
							if st == 1 {
								return 1, "Next() is called again although the batch obtained by the previous successful Next() was never fetched with Get(): that batch is lost"
							}
							return 2, ""
						case "get":
							return 0, ""
						}
						return st, ""
					},
					condLeaf: func(leaf ast.Expr, st int, truth bool) int {
						if st == 2 {
							if truth {
								return 1
							}
							return 0
						}
						return st
					},
					edge: func(blk *cfg.Block, succ int, st int) int {
						if st == 2 {
							return 1 // Next() used outside a condition: assume a batch was obtained
						}
						return st
					}}
				res := ts.run()
				if len(res.errs) > 0 {
					s.Fail(nil, key, res.errs[0].pos, res.errs[0].msg)
				} else {
					s.Pass(nil, key, b.body.Pos(), "every successful Next() is followed by Get() before the next one")
				}
			}
		}
	})
}
