package main

// FQL — a FASTQ record is written with one score per nucleotide (C04, C07).

import (
	"go/ast"
	"go/token"
	"go/types"
	"strings"
)

func init() {
	register(&Rule{
		ID: "FQL", Props: []string{"C04", "C07", "C02"}, Min: 1,
		Doc: `"well-formed FASTQ": the four lines of a record are only readable when the quality line has the length of the sequence line. In pkg/obiformats._formatFastq a comparison of the length of
the quality text with the length of the sequence guards a branch that ends the program, before the quality line is written: records whose scores and nucleotides have different lengths exist
(the CSV reader accepts any qualities column; Join appended nucleotides without scores) and were written as ill-formed FASTQ with exit status 0 (8 bases, 3 scores).`,
		Run: func(c *Ctx, s *Sink) {
			fd, p := c.FindFunc("pkg/obiformats", "_formatFastq")
			key := "pkg/obiformats._formatFastq:one-score-per-nucleotide"
			if fd == nil {
				s.Undecided(nil, key, 0, "function not found")
				return
			}
			info := p.TypesInfo
			ok := false
			ast.Inspect(fd.Body, func(n ast.Node) bool {
				ifs, isIf := n.(*ast.IfStmt)
				if !isIf {
					return true
				}
				b, isB := ast.Unparen(ifs.Cond).(*ast.BinaryExpr)
				if !isB || (b.Op != token.NEQ && b.Op != token.LSS && b.Op != token.GTR) {
					return true
				}
				txt := types.ExprString(b)
				if !strings.Contains(txt, "len(") || !strings.Contains(txt, "Len()") {
					return true
				}
				ast.Inspect(ifs.Body, func(m ast.Node) bool {
					if call, isC := m.(*ast.CallExpr); isC && linEndsProgram(info, call) {
						ok = true
					}
					return true
				})
				return true
			})
			if ok {
				s.Pass(nil, key, fd.Pos(), "a record whose scores and nucleotides differ in number ends the program instead of being written")
			} else {
				s.Fail(nil, key, fd.Pos(), "the quality line is written whatever its length: a record holding 8 bases and 3 scores (CSV input, or the result of Join) is written as a FASTQ record that no reader can parse, exit status 0")
			}
		},
	})
}
