package main

// HO — the spans of the hits are half-open: their comparisons are strict where they must be (C10).

import (
	"fmt"
	"go/ast"
	"go/token"
	"go/types"
	"strings"

	"golang.org/x/tools/go/packages"
)

// hoSpanPart: e reads the start (0) or the end (1) of a hit, a value of type [3]int indexed by a constant; -1 otherwise.
// The sum or difference of such a read and anything else (a margin) counts as the read itself.
func hoSpanPart(info *types.Info, e ast.Expr) int {
	e = ast.Unparen(e)
	switch x := e.(type) {
	case *ast.IndexExpr:
		if t := info.TypeOf(x.X); t != nil {
			if at, ok := t.Underlying().(*types.Array); ok && at.Len() == 3 {
				if v, isC := constInt(info, x.Index); isC && (v == 0 || v == 1) {
					return int(v)
				}
			}
		}
	case *ast.BinaryExpr:
		if x.Op == token.ADD || x.Op == token.SUB {
			if p := hoSpanPart(info, x.X); p >= 0 {
				return p
			}
			if x.Op == token.ADD {
				return hoSpanPart(info, x.Y)
			}
		}
	}
	return -1
}

func hoIsLen(info *types.Info, e ast.Expr) bool {
	call, ok := ast.Unparen(e).(*ast.CallExpr)
	if !ok {
		return false
	}
	if sel, ok := call.Fun.(*ast.SelectorExpr); ok && sel.Sel.Name == "Len" && len(call.Args) == 0 {
		return true
	}
	if id, ok := call.Fun.(*ast.Ident); ok && id.Name == "len" {
		return true
	}
	return false
}

func init() {
	register(&Rule{
		ID: "HO", Props: []string{"C10"}, Min: 2,
		Doc: `"reports exactly the positions …, matches touching either end of the sequence": a hit is a [3]int {start, end, errors} whose end is NOT included (the Go convention the package documents). In
pkg/obiapat (Go) (a) the end of a hit is compared with the length of the sequence by > or <= only: an end equal to Len() is a match touching the last base, and 'end >= Len()' rejects it (BestMatch answers
"no match" for GGATTC at the end of ttttttttttggattc while FindAllIndex reports it); (b) the start of a hit is compared with the end of another one by < or >= only (margins added on either side do not
change it): a hit that starts where the previous one ends does not overlap it, and '<=' merges two back-to-back occurrences into one.`,
		Run: func(c *Ctx, s *Sink) {
			c.EachFunc([]string{"pkg/obiapat"}, func(p *packages.Package, fd *ast.FuncDecl) {
				if rel(p.PkgPath) != "pkg/obiapat" {
					return
				}
				info := p.TypesInfo
				n := 0
				ast.Inspect(fd.Body, func(nd ast.Node) bool {
					b, ok := nd.(*ast.BinaryExpr)
					if !ok {
						return true
					}
					switch b.Op {
					case token.LSS, token.LEQ, token.GTR, token.GEQ:
					default:
						return true
					}
					px, py := hoSpanPart(info, b.X), hoSpanPart(info, b.Y)
					op := b.Op
					var kind string
					switch {
					case px == 1 && hoIsLen(info, b.Y):
						kind = "end-vs-length"
					case py == 1 && hoIsLen(info, b.X):
						kind = "end-vs-length"
						op = map[token.Token]token.Token{token.LSS: token.GTR, token.LEQ: token.GEQ, token.GTR: token.LSS, token.GEQ: token.LEQ}[op]
					case px == 0 && py == 1:
						kind = "start-vs-end"
					case px == 1 && py == 0:
						kind = "start-vs-end"
						op = map[token.Token]token.Token{token.LSS: token.GTR, token.LEQ: token.GEQ, token.GTR: token.LSS, token.GEQ: token.LEQ}[op]
					default:
						return true
					}
					n++
					key := fmt.Sprintf("%s:%s#%d:half-open", funcName(p, fd), kind, n)
					text := strings.Join(strings.Fields(types.ExprString(b)), " ")
					switch kind {
					case "end-vs-length":
						// normalised: end OP Len
						if op == token.GTR || op == token.LEQ {
							s.Pass(nil, key, b.Pos(), "an end equal to the length is inside the sequence ("+text+")")
						} else {
							s.Fail(nil, key, b.Pos(), "the end of a hit, which is not included in it, is compared with the length of the sequence by "+b.Op.String()+" ("+text+"): a match touching the last base (end == Len()) falls on the wrong side — BestMatch answers matched=false for GGATTC on ttttttttttggattc, which FindAllIndex reports at [10,16)")
						}
					default:
						// normalised: start OP end
						if op == token.LSS || op == token.GEQ {
							s.Pass(nil, key, b.Pos(), "a hit starting where another ends does not overlap it ("+text+")")
						} else {
							s.Fail(nil, key, b.Pos(), "the start of a hit is compared with the end of another, which is not included in it, by "+b.Op.String()+" ("+text+"): two occurrences exactly back to back count as overlapping and one of them is dropped — FilterBestMatch returns [[4 10 0]] where [[4 10 0] [10 16 0]] are two occurrences")
						}
					}
					return true
				})
			})
		},
	})
}
