package main

// RS — per-record accumulators of the flat-file chunk parsers are
// re-initialised for every record (C01).

import (
	"fmt"
	"go/ast"
	"go/token"
	"go/types"
	"sort"
	"strings"

	"golang.org/x/tools/go/packages"
)

func init() {
	register(&Rule{
		ID: "RS", Props: []string{"C01"}, Min: 8,
		Doc: `per-record state is reset for every record: in the GenBank and EMBL chunk parsers every local declared outside the line loop whose value reaches the emitted
record (arguments of NewBioSequence, annotation stores, SetFeatures in the block that emits on '//') must be re-initialised between two records: assigned in the emit block,
or assigned (for buffers: replaced or Reset) in a clause guarded by the line type that starts a record (GenBank LOCUS; EMBL ID — the other line types are not required by
the parsers, so nothing may rely on them: a record without SOURCE / OS line reported the organism of the previous record). A value set only under an optional line (e.g. the /db_xref="taxon:…" qualifier) and never reset is inherited by the next record, and what the next
record inherits depends on where the chunk was cut.`,
		Run: runRS,
	})
}

var rsMandatory = map[string][]string{
	// only the line that starts a record is certain to be there: a hand-made or third-party record lacking its SOURCE / OS line
	// is accepted by the parsers, and inherited the organism of the record before it — or of nothing, when a chunk was cut there
	"GenbankChunkParser": {"LOCUS"},
	"EmblChunkParser":    {"ID   "},
}

func runRS(c *Ctx, s *Sink) {
	for _, name := range []string{"GenbankChunkParser", "EmblChunkParser"} {
		fd, p := c.FindFunc("pkg/obiformats", name)
		if fd == nil {
			s.Undecided(nil, "pkg/obiformats."+name, 0, "parser not found")
			continue
		}
		rsCheck(c, s, p, fd, rsMandatory[name])
	}
}

func rsCheck(c *Ctx, s *Sink, p *packages.Package, fd *ast.FuncDecl, mandatory []string) {
	info := p.TypesInfo
	fname := funcName(p, fd)
	// the parser literal and its line loop
	var lit *ast.FuncLit
	ast.Inspect(fd.Body, func(n ast.Node) bool {
		if l, ok := n.(*ast.FuncLit); ok && lit == nil {
			lit = l
		}
		return true
	})
	if lit == nil {
		s.Undecided(nil, fname, fd.Pos(), "no parser literal")
		return
	}
	var loop *ast.ForStmt
	for _, st := range lit.Body.List {
		if f, ok := st.(*ast.ForStmt); ok {
			loop = f
		}
	}
	if loop == nil {
		s.Undecided(nil, fname, lit.Pos(), "no line loop at the top level of the parser")
		return
	}
	// emit block: the statement list containing the NewBioSequence call
	var emit []ast.Stmt
	var emitPos token.Pos
	var findEmit func(n ast.Node)
	findEmit = func(n ast.Node) {
		ast.Inspect(n, func(m ast.Node) bool {
			var list []ast.Stmt
			switch x := m.(type) {
			case *ast.CaseClause:
				list = x.Body
			case *ast.BlockStmt:
				list = x.List
			}
			for _, st := range list {
				direct := false
				ast.Inspect(st, func(k ast.Node) bool {
					switch k.(type) {
					case *ast.BlockStmt, *ast.CaseClause:
						return false
					}
					if call, ok := k.(*ast.CallExpr); ok && isCallTo(info, call, "pkg/obiseq.NewBioSequence") {
						direct = true
					}
					return true
				})
				if direct {
					emit, emitPos = list, st.Pos()
				}
			}
			return true
		})
	}
	findEmit(loop.Body)
	if emit == nil {
		s.Undecided(nil, fname, loop.Pos(), "no emit block (NewBioSequence) in the line loop")
		return
	}
	// record inputs: locals of the literal declared before the loop and read in the emit block
	inputs := map[types.Object]bool{}
	for _, st := range emit {
		ast.Inspect(st, func(n ast.Node) bool {
			if id, ok := n.(*ast.Ident); ok {
				if v, ok := info.Uses[id].(*types.Var); ok && !v.IsField() && v.Pos() > lit.Pos() && v.Pos() < loop.Pos() {
					inputs[v] = true
				}
			}
			return true
		})
	}
	// assignments inside the loop with their guards
	type asg struct {
		pos    token.Pos
		inEmit bool
		guard  string // literal prefixes found in the guarding condition(s)
		reset  bool
	}
	assigns := map[types.Object][]asg{}
	var stack []ast.Node
	var walk func(n ast.Node)
	guardsOf := func() string {
		var lits []string
		for _, anc := range stack {
			var conds []ast.Expr
			switch x := anc.(type) {
			case *ast.CaseClause:
				conds = x.List
			case *ast.IfStmt:
				conds = []ast.Expr{x.Cond}
			}
			for _, cd := range conds {
				ast.Inspect(cd, func(m ast.Node) bool {
					if bl, ok := m.(*ast.BasicLit); ok && bl.Kind == token.STRING {
						lits = append(lits, strings.Trim(bl.Value, "\"`"))
					}
					return true
				})
			}
		}
		return strings.Join(lits, "\x00")
	}
	inEmit := func(pos token.Pos) bool {
		return len(emit) > 0 && pos >= emit[0].Pos() && pos <= emit[len(emit)-1].End()
	}
	walk = func(n ast.Node) {
		if n == nil {
			return
		}
		stack = append(stack, n)
		defer func() { stack = stack[:len(stack)-1] }()
		switch x := n.(type) {
		case *ast.AssignStmt:
			for _, l := range x.Lhs {
				if id, ok := ast.Unparen(l).(*ast.Ident); ok {
					if v, ok := info.ObjectOf(id).(*types.Var); ok && inputs[v] {
						assigns[v] = append(assigns[v], asg{x.Pos(), inEmit(x.Pos()), guardsOf(), true})
					}
				}
			}
		case *ast.CallExpr:
			if sel, ok := x.Fun.(*ast.SelectorExpr); ok && sel.Sel.Name == "Reset" {
				if v, ok := rootObj(info, sel.X).(*types.Var); ok && inputs[v] {
					assigns[v] = append(assigns[v], asg{x.Pos(), inEmit(x.Pos()), guardsOf(), true})
				}
			}
		}
		var children []ast.Node
		ast.Inspect(n, func(m ast.Node) bool {
			if m == nil || m == n {
				return m == n
			}
			children = append(children, m)
			return false
		})
		for _, ch := range children {
			walk(ch)
		}
	}
	walk(loop.Body)
	var vars []types.Object
	for v := range inputs {
		vars = append(vars, v)
	}
	sort.Slice(vars, func(i, j int) bool { return vars[i].Pos() < vars[j].Pos() })
	for _, v := range vars {
		// constants of the closure (source name, flags) are never assigned: skip those with no assignment and non-accumulating types
		as := assigns[v]
		key := fmt.Sprintf("%s:%s", fname, v.Name())
		isBuffer := strings.Contains(v.Type().String(), "bytes.Buffer")
		if len(as) == 0 {
			if isBuffer {
				s.Fail(nil, key, v.Pos(), "the buffer "+v.Name()+" accumulates text for the emitted record and is never replaced or reset: every record contains the text of all previous records of the chunk")
			}
			// never written in the loop: a per-chunk constant (e.g. sequences slice handled elsewhere)
			continue
		}
		ok := false
		var optional []string
		for _, a := range as {
			if a.inEmit {
				ok = true
				continue
			}
			mand := false
			for _, g := range strings.Split(a.guard, "\x00") {
				for _, m := range mandatory {
					if strings.HasPrefix(strings.TrimLeft(g, " "), strings.TrimRight(m, " ")) && !strings.Contains(g, "/") {
						mand = true
					}
				}
			}
			if mand {
				ok = true
			} else {
				optional = append(optional, strings.ReplaceAll(a.guard, "\x00", " & "))
			}
		}
		if ok {
			s.Pass(nil, key, as[0].pos, "re-initialised for every record (in the emit block or under a mandatory line type)")
		} else {
			s.Fail(nil, key, as[0].pos, fmt.Sprintf("%s reaches the emitted record but is only assigned under optional line(s) [%s] and never reset when a record is emitted: a record without that line inherits the value of the previous record of its chunk (and a different value when the chunk boundary falls elsewhere)", v.Name(), strings.Join(optional, "; ")))
		}
	}
	_ = emitPos
}
