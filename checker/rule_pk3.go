package main

// PK-3 — a batch taken for a look is put back whatever it holds (C03, C05).
// WD-6 — the writers with their own writing goroutine close the destination before they say they are done (C04, C18).

import (
	"fmt"
	"go/ast"
	"go/token"
	"go/types"
	"strings"

	"golang.org/x/tools/go/packages"
)

func init() {
	register(&Rule{
		ID: "PK-3", Props: []string{"C03", "C05"}, Min: 2,
		Doc: `"every record received is written": a writer that looks at one batch before writing takes it off the iterator (Next(), Get()) and gives it back with PushBack(). The PushBack() lies on every
path that follows the successful Next(): between the call and the body of the function the only conditionals are the test of that Next() (its call, or a variable defined from it), or an if/else both branches
of which push back. Put under a test of what the batch holds (if len(keys) > 0 { …; PushBack() }) the first batch is dropped when the test fails: obicsv --auto on records without attribute writes an empty file —
batch 0 never reaches the writer, which waits for it and parks all the others — and the command ends normally.`,
		Run: func(c *Ctx, s *Sink) {
			c.EachFunc([]string{"pkg", "cmd"}, func(p *packages.Package, fd *ast.FuncDecl) {
				info := p.TypesInfo
				if self, ok := info.Defs[fd.Name].(*types.Func); ok {
					if sig, ok := self.Type().(*types.Signature); ok && sig.Recv() != nil && strings.HasSuffix(namedTypeName(sig.Recv().Type()), "IBioSequence") {
						return
					}
				}
				defs := collectDefs(info, fd)
				isNextOf := func(e ast.Expr, it types.Object) bool {
					var rec func(e ast.Expr, depth int) bool
					rec = func(e ast.Expr, depth int) bool {
						e = ast.Unparen(e)
						if depth > 3 {
							return false
						}
						switch x := e.(type) {
						case *ast.CallExpr:
							if sel, ok := ast.Unparen(x.Fun).(*ast.SelectorExpr); ok && sel.Sel.Name == "Next" && rootObj(info, sel.X) == it {
								return true
							}
						case *ast.Ident:
							for _, d := range defs[info.ObjectOf(x)] {
								if d != nil && rec(d, depth+1) {
									return true
								}
							}
						}
						return false
					}
					return rec(e, 0)
				}
				pushesBack := func(n ast.Node, it types.Object) bool {
					found := false
					if n == nil {
						return false
					}
					ast.Inspect(n, func(m ast.Node) bool {
						if call, ok := m.(*ast.CallExpr); ok {
							if sel, ok := ast.Unparen(call.Fun).(*ast.SelectorExpr); ok && sel.Sel.Name == "PushBack" && rootObj(info, sel.X) == it {
								found = true
							}
						}
						return true
					})
					return found
				}
				n := 0
				var stack []ast.Node
				ast.Inspect(fd.Body, func(nd ast.Node) bool {
					if nd == nil {
						stack = stack[:len(stack)-1]
						return true
					}
					stack = append(stack, nd)
					call, ok := nd.(*ast.CallExpr)
					if !ok {
						return true
					}
					sel, ok := ast.Unparen(call.Fun).(*ast.SelectorExpr)
					if !ok || sel.Sel.Name != "PushBack" || !strings.HasSuffix(fullName(callee(info, call)), "IBioSequence).PushBack") {
						return true
					}
					it := rootObj(info, sel.X)
					if it == nil {
						return true
					}
					n++
					key := fmt.Sprintf("%s:peek#%d:put-back-whatever-the-batch-holds", funcName(p, fd), n)
					// the Next() of the look: the last one on this iterator before the PushBack()
					var next token.Pos
					ast.Inspect(fd.Body, func(m ast.Node) bool {
						if nc, ok := m.(*ast.CallExpr); ok && nc.Pos() < call.Pos() {
							if ns, ok := ast.Unparen(nc.Fun).(*ast.SelectorExpr); ok && ns.Sel.Name == "Next" && rootObj(info, ns.X) == it && nc.Pos() > next {
								next = nc.Pos()
							}
						}
						return true
					})
					if !next.IsValid() {
						s.Undecided(nil, key, call.Pos(), "no Next() on "+it.Name()+" before this PushBack()")
						return true
					}
					var under ast.Node
					for k := len(stack) - 2; k >= 0 && under == nil; k-- {
						if is, ok := stack[k].(*ast.IfStmt); ok && is.Body.Pos() <= next && next < is.Body.End() || !ok && stack[k].Pos() <= next && next < stack[k].End() {
							break // this statement holds the look as a whole
						}
						switch y := stack[k].(type) {
						case *ast.IfStmt:
							// which part of the if statement holds the call
							child := stack[k+1]
							if child == y.Cond || child == y.Init {
								continue
							}
							if isNextOf(y.Cond, it) {
								continue
							}
							if y.Else != nil && pushesBack(y.Body, it) && pushesBack(y.Else, it) {
								continue
							}
							under = y
						case *ast.ForStmt, *ast.RangeStmt, *ast.SwitchStmt, *ast.TypeSwitchStmt, *ast.SelectStmt:
							under = y
						case *ast.FuncLit:
							under = y
						}
					}
					if under == nil {
						s.Pass(nil, key, call.Pos(), "the batch is put back on every path after the successful Next()")
					} else {
						what := "a " + strings.TrimPrefix(fmt.Sprintf("%T", under), "*ast.")
						if is, ok := under.(*ast.IfStmt); ok {
							what = "the test " + types.ExprString(is.Cond)
						}
						s.Fail(nil, key, call.Pos(), "the batch taken off "+it.Name()+" for a look is put back only under "+what+": when it fails the batch is neither written nor forwarded — and being the first of the stream, the writer that waits for batch 0 parks every other batch: the output is empty (obicsv --auto on records without attribute), the command ends normally")
					}
					return true
				})
			})
		},
	})

	register(&Rule{
		ID: "WD-6", Props: []string{"C04", "C18"}, Min: 3,
		Doc: `"a failed close is reported / the file is complete when the command ends": in pkg/obiformats every goroutine of a Write… function that tells the rest of the program it is done — obiiter.UnregisterPipe()
(the guard main waits on before it exits) or Done() on a WaitGroup — and that closes a destination (a Close() on an io.Closer value) closes it BEFORE it tells: the Close() is an ordinary statement placed before
the first of those calls, not a deferred one (a deferred Close runs after them). Released first, main may return while the last buffer is still to be flushed: the file is empty or truncated, and a full device is
reported after the exit status was decided (obicsv > /dev/full exits 0 on some runs). WriteSeqFileChunk, WriteJSON and WriteCSV are the siblings.`,
		Run: func(c *Ctx, s *Sink) {
			c.EachFunc([]string{"pkg/obiformats"}, func(p *packages.Package, fd *ast.FuncDecl) {
				if rel(p.PkgPath) != "pkg/obiformats" || !strings.HasPrefix(fd.Name.Name, "Write") {
					return
				}
				info := p.TypesInfo
				lits := localFuncLits(info, fd.Body)
				n := 0
				ast.Inspect(fd.Body, func(nd ast.Node) bool {
					g, ok := nd.(*ast.GoStmt)
					if !ok {
						return true
					}
					lit, _ := g.Call.Fun.(*ast.FuncLit)
					if lit == nil {
						if id, isId := g.Call.Fun.(*ast.Ident); isId {
							lit = lits[info.ObjectOf(id)]
						}
					}
					var body *ast.BlockStmt
					ginfo := info
					if lit != nil {
						body = lit.Body
					} else if f := callee(info, g.Call); f != nil {
						// go f(…), f declared in the module
						if hd, hp := c.DeclOf(f); hd != nil && hp != nil && hd.Body != nil {
							body, ginfo = hd.Body, hp.TypesInfo
						}
					}
					if body == nil {
						return true
					}
					info := ginfo
					var told, closed, deferredClose token.Pos
					var stack []ast.Node
					ast.Inspect(body, func(m ast.Node) bool {
						if m == nil {
							stack = stack[:len(stack)-1]
							return true
						}
						stack = append(stack, m)
						call, ok := m.(*ast.CallExpr)
						if !ok {
							return true
						}
						inDefer := false
						for _, a := range stack {
							if _, ok := a.(*ast.DeferStmt); ok {
								inDefer = true
							}
						}
						fn := fullName(callee(info, call))
						switch {
						case strings.HasSuffix(fn, "/pkg/obiiter.UnregisterPipe") || fn == "sync.(WaitGroup).Done":
							if !inDefer && !told.IsValid() {
								told = call.Pos()
							}
							if inDefer && !told.IsValid() {
								told = body.Rbrace // a deferred signal is raised at the end
							}
						default:
							sel, ok := ast.Unparen(call.Fun).(*ast.SelectorExpr)
							if !ok || sel.Sel.Name != "Close" || len(call.Args) != 0 {
								return true
							}
							t := info.TypeOf(sel.X)
							if t == nil {
								return true
							}
							if _, isIface := t.Underlying().(*types.Interface); !isIface {
								return true
							}
							if inDefer {
								if !deferredClose.IsValid() {
									deferredClose = call.Pos()
								}
							} else if !closed.IsValid() {
								closed = call.Pos()
							}
						}
						return true
					})
					if !told.IsValid() || !closed.IsValid() && !deferredClose.IsValid() {
						return true
					}
					n++
					key := fmt.Sprintf("%s:writing-goroutine#%d:closed-before-it-says-done", funcName(p, fd), n)
					switch {
					case closed.IsValid() && closed < told:
						s.Pass(nil, key, closed, "the destination is closed before UnregisterPipe()/Done()")
					case closed.IsValid():
						s.Fail(nil, key, closed, "the destination is closed after the goroutine said it is done (UnregisterPipe()/Done() at "+c.Fset.Position(told).String()+"): main may exit before the last buffer is flushed — truncated or empty file, a full device reported after the exit status is decided")
					default:
						s.Fail(nil, key, deferredClose, "the destination is closed by a deferred call, which runs after UnregisterPipe() and Done() released main and the goroutine that ends the iterator: the process may exit 0 before the flush fails, or with an empty file")
					}
					return true
				})
			})
		},
	})
}
