package main

// AL-4 — the shared default quality vector is read-only (C05, C07).
// AL-3 — the in-place reverse-complement loop visits the middle element (C07).

import (
	"fmt"
	"go/ast"
	"go/token"
	"go/types"
	"strings"

	"golang.org/x/tools/go/packages"
)

func init() {
	register(&Rule{
		ID: "AL-4", Props: []string{"C05", "C07"}, Min: 15,
		Doc: `the shared default quality vector is never written: BioSequence.Qualities() returns, for a sequence without qualities, a slice of one package-level vector shared
by all sequences and all goroutines. Every value obtained from Qualities() (directly, sliced, or through a local) may only be read: it must not be the target of an element store or
copy, and must not be handed to a function that stores through that parameter (write-through summaries), unless the use is guarded by HasQualities() on the same sequence.`,
		Run: runAL4,
	})
	register(&Rule{
		ID: "AL-3", Props: []string{"C07"}, Min: 1,
		Doc: `the in-place reverse complement complements every position: the two-index loop of ReverseComplement must admit i == j (condition i >= j) so that the middle base of
an odd-length sequence is complemented, and both swapped operands are passed through nucComplement.`,
		Run: runAL3,
	})
}

func isQualitiesCall(info *types.Info, e ast.Expr) bool {
	e = ast.Unparen(e)
	if sl, ok := e.(*ast.SliceExpr); ok {
		e = ast.Unparen(sl.X)
	}
	if cv, ok := e.(*ast.CallExpr); ok {
		if tv, ok := info.Types[cv.Fun]; ok && tv.IsType() && len(cv.Args) == 1 {
			e = ast.Unparen(cv.Args[0]) // conversion []byte(x.Qualities()) copies? no: a conversion between slice types of the same element shares storage
		}
	}
	call, ok := e.(*ast.CallExpr)
	return ok && strings.HasSuffix(fullName(callee(info, call)), "/pkg/obiseq.(BioSequence).Qualities")
}

func runAL4(c *Ctx, s *Sink) {
	wt := writeThrough(c)
	c.EachFunc([]string{"pkg"}, func(p *packages.Package, fd *ast.FuncDecl) {
		info := p.TypesInfo
		// locals defined from Qualities()
		qvars := map[types.Object]bool{}
		ast.Inspect(fd.Body, func(n ast.Node) bool {
			if as, ok := n.(*ast.AssignStmt); ok && len(as.Lhs) == len(as.Rhs) {
				for i, r := range as.Rhs {
					if isQualitiesCall(info, r) {
						if o := rootObj(info, as.Lhs[i]); o != nil {
							if _, isIdent := ast.Unparen(as.Lhs[i]).(*ast.Ident); isIdent {
								qvars[o] = true
							}
						}
					}
				}
			}
			return true
		})
		isQ := func(e ast.Expr) bool {
			if isQualitiesCall(info, e) {
				return true
			}
			x := ast.Unparen(e)
			if sl, ok := x.(*ast.SliceExpr); ok {
				x = ast.Unparen(sl.X)
			}
			if id, ok := x.(*ast.Ident); ok {
				return qvars[info.ObjectOf(id)]
			}
			return false
		}
		n := 0
		guarded := func(stack []ast.Node) bool {
			for _, anc := range stack {
				if ifs, ok := anc.(*ast.IfStmt); ok && strings.Contains(types.ExprString(ifs.Cond), "HasQualities()") {
					return true
				}
			}
			return false
		}
		var stack []ast.Node
		var visit func(nd ast.Node)
		visit = func(nd ast.Node) {
			if nd == nil {
				return
			}
			stack = append(stack, nd)
			defer func() { stack = stack[:len(stack)-1] }()
			switch x := nd.(type) {
			case *ast.AssignStmt:
				for _, l := range x.Lhs {
					if ix, ok := ast.Unparen(l).(*ast.IndexExpr); ok && isQ(ix.X) {
						n++
						key := fmt.Sprintf("%s:qualities-use#%d", funcName(p, fd), n)
						if guarded(stack) {
							s.Pass(nil, key, x.Pos(), "element store guarded by HasQualities()")
						} else {
							s.Fail(nil, key, x.Pos(), "an element of a Qualities() result is overwritten: for a sequence without qualities this is the default vector shared by every sequence and goroutine")
						}
					}
				}
			case *ast.CallExpr:
				fn := callee(info, x)
				for i, a := range x.Args {
					if !isQ(a) {
						continue
					}
					n++
					key := fmt.Sprintf("%s:qualities-use#%d", funcName(p, fd), n)
					bad := false
					if id, ok := x.Fun.(*ast.Ident); ok && id.Name == "copy" && i == 0 {
						bad = true
					}
					if fn != nil && wt.writes(fn, i) {
						bad = true
					}
					switch {
					case bad && !guarded(stack):
						name := types.ExprString(x.Fun)
						s.Fail(nil, key, x.Pos(), "a Qualities() result is handed to "+name+", which stores through that parameter: for a sequence without qualities this is the default vector shared by every sequence and goroutine")
					default:
						s.Pass(nil, key, x.Pos(), "Qualities() result only read by the callee")
					}
				}
			}
			var children []ast.Node
			ast.Inspect(nd, func(m ast.Node) bool {
				if m == nil || m == nd {
					return m == nd
				}
				children = append(children, m)
				return false
			})
			for _, ch := range children {
				visit(ch)
			}
		}
		visit(fd.Body)
	})
}

func runAL3(c *Ctx, s *Sink) {
	fd, p := c.FindFunc("pkg/obiseq", "(*BioSequence).ReverseComplement")
	key := "pkg/obiseq.(*BioSequence).ReverseComplement:loop"
	if fd == nil {
		s.Undecided(nil, key, 0, "function not found")
		return
	}
	info := p.TypesInfo
	found := false
	// the loop may sit in ReverseComplement itself or in a helper of the package it calls (two levels)
	bodies := []*ast.BlockStmt{fd.Body}
	seen := map[*ast.FuncDecl]bool{fd: true}
	for level := 0; level < 2; level++ {
		for _, b := range append([]*ast.BlockStmt(nil), bodies...) {
			ast.Inspect(b, func(n ast.Node) bool {
				if call, ok := n.(*ast.CallExpr); ok {
					if f := callee(info, call); f != nil && f.Pkg() == p.Types {
						if d, _ := c.DeclOf(f); d != nil && d.Body != nil && !seen[d] {
							seen[d] = true
							bodies = append(bodies, d.Body)
						}
					}
				}
				return true
			})
		}
	}
	for _, body := range bodies {
		ast.Inspect(body, func(n ast.Node) bool {
			f, ok := n.(*ast.ForStmt)
			if !ok || f.Cond == nil || found {
				return true
			}
			// the loop whose body calls nucComplement
			calls := 0
			ast.Inspect(f.Body, func(m ast.Node) bool {
				if call, ok := m.(*ast.CallExpr); ok && strings.HasSuffix(fullName(callee(info, call)), "/pkg/obiseq.nucComplement") {
					calls++
				}
				return true
			})
			if calls == 0 {
				return true
			}
			found = true
			b, ok := ast.Unparen(f.Cond).(*ast.BinaryExpr)
			switch {
			case !ok:
				s.Undecided(nil, key, f.Pos(), "loop condition is not a comparison")
			case b.Op == token.GTR || b.Op == token.LSS:
				s.Fail(nil, key, f.Pos(), "the two indexes of the in-place reverse complement stop before they meet (strict comparison): the middle base of an odd-length sequence is never complemented")
			case calls < 2:
				s.Fail(nil, key, f.Pos(), "only one of the two swapped bases goes through nucComplement")
			default:
				s.Pass(nil, key, f.Pos(), "the loop admits i == j and complements both swapped operands")
			}
			return true
		})
	}
	if !found {
		s.Undecided(nil, key, fd.Pos(), "no loop calling nucComplement")
	}
}
