package main

// Rules added after the fifth round of independent changes: each encodes a necessary condition named
// in a property statement or in its anchors; they are small and local on purpose.

import (
	"fmt"
	"go/ast"
	"go/token"
	"go/types"
	"sort"
	"strings"

	"golang.org/x/tools/go/packages"
)

func init() {
	register(&Rule{
		ID: "CH", Props: []string{"C16"}, Min: 10,
		Doc: `edits are chained in the order of the code: wherever a worker variable accumulates edits through ChainWorkers, every step has the form acc = acc.ChainWorkers(next) — the
accumulated worker is the receiver (it runs first), the new edit the argument; acc = next.ChainWorkers(acc) silently runs the new edit before all earlier ones (--length before --clear …).`,
		Run: runCH,
	})
	register(&Rule{
		ID: "CL-2", Props: []string{"C06"}, Min: 3,
		Doc: `a classifier that rewinds its code counter on Reset also forgets its value→code table: in every constructor of a BioSequenceClassifier whose code function numbers new values
with a counter and records them in a map, a reset function that assigns the counter must empty or reallocate that map; otherwise fresh codes collide with the stale entries and two different
keys of the next batch get the same code (they are merged into one record).`,
		Run: runCL2,
	})
	register(&Rule{
		ID: "PA-cache", Props: []string{"C15"}, Min: 2,
		Doc: `the lazily built index is cached on the reference it was built for: where the result of IndexSequence(K, refs, …) is attached with refs[E].SetOBITagRefIndex / SetAttribute, E is the
same expression as K (or the receiver is a copy of refs[K]).`,
		Run: runPACache,
	})
	register(&Rule{
		ID: "WE-4", Props: []string{"C18"}, Min: 1,
		Doc: `the decision to close the underlying output comes from the writer's close option: the 'close' field of every obiutils.Wfile literal originates, through parameters and all static
call sites, from Options.CloseFile(); taken from another flag the stream is flushed but never closed, and the error its Close() would report (deferred write errors of network and quota
file systems) is lost.`,
		Run: runWE4,
	})
	register(&Rule{
		ID: "RE-7", Props: []string{"C17"}, Min: 1,
		Doc: `the guard that vouches for the end of an xz stream is exact: in a Read method of pkg/obiformats that turns io.EOF into io.ErrUnexpectedEOF under an extra condition on remembered bytes,
that condition (predicate methods of the module inlined) — evaluated over every valuation of its equality tests and boolean alarm flags — is true exactly when an alarm is raised or at least
one test fails (De Morgan slips accept a truncated stream whenever one test happens to hold); the tests include the CRC32 of the footer (magic bytes alone are matched by one block boundary in
65536), and one alarm flag is set by a source Read of the package when it meets io.EOF after a short read (a damaged block header that swallows the footer).`,
		Run: runRE7,
	})
	register(&Rule{
		ID: "IT-9", Props: []string{"C03", "C04"}, Min: 1,
		Doc: `a pushed-back batch is delivered whatever the other clones did: in IBioSequence.Next the test of the iterator's own pushBack flag precedes the test of the finished flag, which is
shared by all Split() clones; in the other order a clone that reaches the end of the channel first makes the owner drop the batch it pushed back (writers peek at the first batch this way).`,
		Run: runIT9,
	})
	register(&Rule{
		ID: "RD", Props: []string{"C05"}, Min: 1,
		Doc: `the reduction of per-worker summaries is a field-wise additive merge: in (*DataSummary).Add every numeric or map field of the result is computed from the same field of both operands,
by '+' or by a helper whose stored value depends on the values of both maps (a helper that only counts the keys of the second map makes the result depend on how the input was split between workers),
and no field is left out.`,
		Run: runRD,
	})
	register(&Rule{
		ID: "RS-loop", Props: []string{"C01"}, Min: 1,
		Doc: `the stdin (kseq) reader builds each record from that record only: in _FastseqReader every variable declared outside the record loop and passed to NewBioSequence is assigned on every
path of the iteration before the call (must-define over go/cfg); otherwise a title line without comment inherits the comment — and, after header parsing, the annotations — of the previous record.`,
		Run: runRSLoop,
	})
}

func runCH(c *Ctx, s *Sink) {
	c.EachFunc([]string{"pkg/obitools", "pkg/obiseq"}, func(p *packages.Package, fd *ast.FuncDecl) {
		info := p.TypesInfo
		fname := funcName(p, fd)
		n := 0
		ast.Inspect(fd.Body, func(nd ast.Node) bool {
			as, ok := nd.(*ast.AssignStmt)
			if !ok || len(as.Lhs) != 1 || len(as.Rhs) != 1 || as.Tok != token.ASSIGN {
				return true
			}
			call, ok := ast.Unparen(as.Rhs[0]).(*ast.CallExpr)
			if !ok || len(call.Args) != 1 {
				return true
			}
			sel, ok := call.Fun.(*ast.SelectorExpr)
			if !ok || sel.Sel.Name != "ChainWorkers" {
				return true
			}
			acc := rootObj(info, as.Lhs[0])
			if acc == nil {
				return true
			}
			recvIsAcc := rootObj(info, sel.X) == acc
			argIsAcc := rootObj(info, call.Args[0]) == acc
			if !recvIsAcc && !argIsAcc {
				return true // not an accumulation step
			}
			n++
			key := fmt.Sprintf("%s:chain#%d", fname, n)
			if recvIsAcc {
				s.Pass(nil, key, as.Pos(), "accumulated worker is the receiver: the new edit runs after the earlier ones")
			} else {
				s.Fail(nil, key, as.Pos(), "the accumulated worker "+acc.Name()+" is passed as the argument of ChainWorkers: the new edit runs before every edit requested earlier in the fixed order (e.g. the sequence length is set before --clear / --keep / --delete-tag remove it)")
			}
			return true
		})
	})
}

func runCL2(c *Ctx, s *Sink) {
	c.EachFunc([]string{"pkg/obiseq"}, func(p *packages.Package, fd *ast.FuncDecl) {
		info := p.TypesInfo
		// a composite literal of BioSequenceClassifier built from local closures
		var lit *ast.CompositeLit
		ast.Inspect(fd.Body, func(n ast.Node) bool {
			if cl, ok := n.(*ast.CompositeLit); ok && namedTypeName(info.TypeOf(cl)) == modPath+"/pkg/obiseq.BioSequenceClassifier" {
				lit = cl
			}
			return true
		})
		if lit == nil || len(lit.Elts) < 3 {
			return
		}
		defs := collectDefs(info, fd)
		get := func(i int, name string) *ast.FuncLit {
			for j, el := range lit.Elts {
				if kv, ok := el.(*ast.KeyValueExpr); ok {
					if id, ok := kv.Key.(*ast.Ident); ok && id.Name == name {
						return localClosure(info, defs, kv.Value)
					}
				} else if j == i {
					return localClosure(info, defs, el)
				}
			}
			return nil
		}
		code, reset := get(0, "Code"), get(2, "Reset")
		if code == nil || reset == nil {
			return
		}
		// counter: captured int incremented in code; table: captured map stored in code
		var counter, table types.Object
		ast.Inspect(code.Body, func(n ast.Node) bool {
			switch x := n.(type) {
			case *ast.IncDecStmt:
				if o := rootObj(info, x.X); o != nil && !(o.Pos() >= code.Pos() && o.Pos() < code.End()) {
					counter = o
				}
			case *ast.AssignStmt:
				for _, l := range x.Lhs {
					if ix, ok := ast.Unparen(l).(*ast.IndexExpr); ok {
						if o := rootObj(info, ix.X); o != nil && !(o.Pos() >= code.Pos() && o.Pos() < code.End()) {
							if _, isMap := o.Type().Underlying().(*types.Map); isMap {
								table = o
							}
						}
					}
				}
			}
			return true
		})
		if counter == nil || table == nil {
			return // stateless classifier
		}
		key := funcName(p, fd) + ":reset"
		rewinds, clears := false, false
		ast.Inspect(reset.Body, func(n ast.Node) bool {
			switch x := n.(type) {
			case *ast.AssignStmt:
				for i, l := range x.Lhs {
					o := rootObj(info, l)
					if _, isIdent := ast.Unparen(l).(*ast.Ident); !isIdent {
						continue
					}
					if o == counter {
						rewinds = true
					}
					if o == table && i < len(x.Rhs) {
						clears = true // reallocated
					}
				}
			case *ast.RangeStmt:
				if rootObj(info, x.X) == table {
					ast.Inspect(x.Body, func(m ast.Node) bool {
						if call, ok := m.(*ast.CallExpr); ok {
							if id, ok := call.Fun.(*ast.Ident); ok && id.Name == "delete" && len(call.Args) == 2 && rootObj(info, call.Args[0]) == table {
								clears = true
							}
						}
						return true
					})
				}
			case *ast.CallExpr:
				if id, ok := x.Fun.(*ast.Ident); ok && id.Name == "clear" && len(x.Args) == 1 && rootObj(info, x.Args[0]) == table {
					clears = true
				}
			}
			return true
		})
		switch {
		case rewinds && !clears:
			s.Fail(nil, key, reset.Pos(), "Reset rewinds the code counter "+counter.Name()+" but keeps the entries of "+table.Name()+": a new value of the next batch receives a code already held by a stale entry, so two different keys are coded alike and merged into one record")
		default:
			s.Pass(nil, key, reset.Pos(), fmt.Sprintf("counter rewound: %v, table emptied: %v — codes stay injective after Reset", rewinds, clears))
		}
	})
}

func runPACache(c *Ctx, s *Sink) {
	c.EachFunc([]string{"pkg/obitools/obitag", "pkg/obitools/obitag2", "pkg/obitools/obirefidx"}, func(p *packages.Package, fd *ast.FuncDecl) {
		info := p.TypesInfo
		fname := funcName(p, fd)
		n := 0
		var visit func(list []ast.Stmt)
		visit = func(list []ast.Stmt) {
			for i, st := range list {
				as, ok := st.(*ast.AssignStmt)
				if !ok || len(as.Rhs) != 1 || len(as.Lhs) != 1 {
					continue
				}
				call, ok := ast.Unparen(as.Rhs[0]).(*ast.CallExpr)
				if !ok || !isCallTo(info, call, "pkg/obitools/obirefidx.IndexSequence") || len(call.Args) < 2 {
					continue
				}
				idx := rootObj(info, as.Lhs[0])
				K := types.ExprString(call.Args[0])
				refs := rootObj(info, call.Args[1])
				// the statement that attaches idx
				for _, later := range list[i+1:] {
					es, ok := later.(*ast.ExprStmt)
					if !ok {
						continue
					}
					at, ok := es.X.(*ast.CallExpr)
					if !ok {
						continue
					}
					sel, ok := at.Fun.(*ast.SelectorExpr)
					if !ok || (sel.Sel.Name != "SetOBITagRefIndex" && sel.Sel.Name != "SetAttribute") {
						continue
					}
					uses := false
					for _, a := range at.Args {
						if rootObj(info, a) == idx {
							uses = true
						}
					}
					if !uses {
						continue
					}
					n++
					key := fmt.Sprintf("%s:cache#%d", fname, n)
					recv := ast.Unparen(sel.X)
					// a local copy of refs[K]
					if id, ok := recv.(*ast.Ident); ok {
						if ds := collectDefs(info, fd)[info.ObjectOf(id)]; len(ds) == 1 && ds[0] != nil {
							d := ast.Unparen(ds[0])
							if cc, ok := d.(*ast.CallExpr); ok {
								if cs, ok := cc.Fun.(*ast.SelectorExpr); ok && cs.Sel.Name == "Copy" {
									d = ast.Unparen(cs.X)
								}
							}
							recv = d
						}
					}
					ix, ok := recv.(*ast.IndexExpr)
					switch {
					case !ok || rootObj(info, ix.X) != refs:
						s.Undecided(nil, key, at.Pos(), "the index is attached to "+types.ExprString(sel.X)+", which is not an element of the reference table")
					case types.ExprString(ix.Index) != K:
						s.Fail(nil, key, at.Pos(), fmt.Sprintf("the index built for reference number %s is cached on reference number %s: a later query whose best match is that reference is assigned from another reference's distance→taxon table", K, types.ExprString(ix.Index)))
					default:
						s.Pass(nil, key, at.Pos(), "index built for reference "+K+" is attached to reference "+K)
					}
					break
				}
			}
		}
		ast.Inspect(fd.Body, func(nd ast.Node) bool {
			if b, ok := nd.(*ast.BlockStmt); ok {
				visit(b.List)
			}
			return true
		})
	})
}

func runWE4(c *Ctx, s *Sink) {
	t := &originTracer{c: c}
	want := modPath + "/pkg/obiformats.(Options).CloseFile"
	n := 0
	c.EachFunc([]string{"pkg/obiutils", "pkg/obiformats"}, func(p *packages.Package, fd *ast.FuncDecl) {
		info := p.TypesInfo
		ast.Inspect(fd.Body, func(nd ast.Node) bool {
			cl, ok := nd.(*ast.CompositeLit)
			if !ok || namedTypeName(info.TypeOf(cl)) != modPath+"/pkg/obiutils.Wfile" {
				return true
			}
			for _, el := range cl.Elts {
				kv, ok := el.(*ast.KeyValueExpr)
				if !ok {
					continue
				}
				if id, ok := kv.Key.(*ast.Ident); !ok || id.Name != "close" {
					continue
				}
				n++
				key := funcName(p, fd) + ":Wfile.close"
				if id, ok := ast.Unparen(kv.Value).(*ast.Ident); ok && id.Name == "true" {
					s.Pass(nil, key, kv.Pos(), "a file opened by the package itself is always closed")
					continue
				}
				orig := t.origins(p, fd, kv.Value, 0)
				if ok, bad := allFrom(orig, want); ok {
					s.Pass(nil, key, kv.Pos(), fmt.Sprintf("originates from Options.CloseFile() at %d call chain(s)", len(orig)))
				} else {
					s.Fail(nil, key, kv.Pos(), "the flag deciding whether the underlying output is closed does not come from the writer's close option on every call chain ("+bad+"): when it is false the stream is flushed but never closed and the error of its Close() is lost; the command exits 0")
				}
			}
			return true
		})
	})
	if n == 0 {
		s.Undecided(nil, "pkg/obiutils.Wfile.close", 0, "no Wfile literal setting the close field")
	}
}

// boolAtoms evaluates cond with every byte comparison atom (X == 'c' / X != 'c') replaced by a boolean.
func evalByteCond(info *types.Info, e ast.Expr, equal map[string]bool) (bool, bool) {
	e = ast.Unparen(e)
	switch x := e.(type) {
	case *ast.UnaryExpr:
		if x.Op == token.NOT {
			v, ok := evalByteCond(info, x.X, equal)
			return !v, ok
		}
	case *ast.BinaryExpr:
		switch x.Op {
		case token.LAND, token.LOR:
			a, ok1 := evalByteCond(info, x.X, equal)
			b, ok2 := evalByteCond(info, x.Y, equal)
			if x.Op == token.LAND {
				return a && b, ok1 && ok2
			}
			return a || b, ok1 && ok2
		case token.EQL, token.NEQ:
			if _, isConst := constInt(info, x.Y); isConst {
				v, known := equal[types.ExprString(x.X)]
				if x.Op == token.NEQ {
					v = !v
				}
				return v, known
			}
		}
	}
	return false, false
}

func runRE7(c *Ctx, s *Sink) {
	c.EachFunc([]string{"pkg/obiformats"}, func(p *packages.Package, fd *ast.FuncDecl) {
		if fd.Recv == nil || fd.Name.Name != "Read" {
			return
		}
		info := p.TypesInfo
		ast.Inspect(fd.Body, func(nd ast.Node) bool {
			ifs, ok := nd.(*ast.IfStmt)
			if !ok {
				return true
			}
			// body assigns io.ErrUnexpectedEOF to an error variable tested == io.EOF in the condition
			var errObj types.Object
			ast.Inspect(ifs.Body, func(m ast.Node) bool {
				if as, ok := m.(*ast.AssignStmt); ok && len(as.Lhs) == 1 && len(as.Rhs) == 1 && isObj(info, as.Rhs[0], "io", "ErrUnexpectedEOF") {
					errObj = rootObj(info, as.Lhs[0])
				}
				return true
			})
			if errObj == nil || !conjunctHasEOFTest(info, ifs.Cond, errObj) {
				return true
			}
			// the other conjuncts
			var rest []ast.Expr
			for _, cj := range conjuncts(ifs.Cond) {
				if !conjunctHasEOFTest(info, cj, errObj) {
					rest = append(rest, cj)
				}
			}
			if len(rest) == 0 {
				return true // unconditional mapping
			}
			key := funcName(p, fd) + ":footer-guard"
			// atoms: "match" atoms are the equalities the guard (or a predicate method of the module it calls, inlined)
			// tests — bytes against constants, a stored checksum against a computed one, a length; "alarm" atoms are
			// plain boolean fields or variables (something went wrong before)
			match, alarm := map[string]bool{}, map[string]bool{}
			var collect func(ci *types.Info, e ast.Expr, depth int) bool
			collect = func(ci *types.Info, e ast.Expr, depth int) bool {
				e = ast.Unparen(e)
				switch x := e.(type) {
				case *ast.UnaryExpr:
					if x.Op == token.NOT {
						return collect(ci, x.X, depth)
					}
				case *ast.BinaryExpr:
					switch x.Op {
					case token.LAND, token.LOR:
						return collect(ci, x.X, depth) && collect(ci, x.Y, depth)
					case token.EQL, token.NEQ:
						match[types.ExprString(x)] = true
						if x.Op == token.NEQ {
							delete(match, types.ExprString(x))
							match[types.ExprString(x.X)+" == "+types.ExprString(x.Y)] = true
						}
						return true
					}
				case *ast.Ident, *ast.SelectorExpr:
					if t := ci.TypeOf(x); t != nil {
						if bt, ok := t.Underlying().(*types.Basic); ok && bt.Kind() == types.Bool {
							alarm[types.ExprString(x)] = true
							return true
						}
					}
				case *ast.CallExpr:
					if depth < 2 {
						if ret, ri := predicateBody(c, ci, x); ret != nil {
							return collect(ri, ret, depth+1)
						}
					}
				}
				return false
			}
			okAll := true
			for _, r := range rest {
				if !collect(info, r, 0) {
					okAll = false
				}
			}
			var mnames, anames []string
			for a := range match {
				mnames = append(mnames, a)
			}
			for a := range alarm {
				anames = append(anames, a)
			}
			sort.Strings(mnames)
			sort.Strings(anames)
			names := append(append([]string{}, mnames...), anames...)
			if !okAll || len(mnames) == 0 || len(names) > 10 {
				s.Undecided(nil, key, ifs.Pos(), "the guard contains something else than equalities, boolean flags and predicate methods of the module combined with && || !")
				return true
			}
			var eval func(ci *types.Info, e ast.Expr, val map[string]bool, depth int) bool
			eval = func(ci *types.Info, e ast.Expr, val map[string]bool, depth int) bool {
				e = ast.Unparen(e)
				switch x := e.(type) {
				case *ast.UnaryExpr:
					return !eval(ci, x.X, val, depth)
				case *ast.BinaryExpr:
					switch x.Op {
					case token.LAND:
						return eval(ci, x.X, val, depth) && eval(ci, x.Y, val, depth)
					case token.LOR:
						return eval(ci, x.X, val, depth) || eval(ci, x.Y, val, depth)
					case token.EQL:
						return val[types.ExprString(x)]
					case token.NEQ:
						return !val[types.ExprString(x.X)+" == "+types.ExprString(x.Y)]
					}
				case *ast.Ident, *ast.SelectorExpr:
					return val[types.ExprString(x)]
				case *ast.CallExpr:
					if ret, ri := predicateBody(c, ci, x); ret != nil {
						return eval(ri, ret, val, depth+1)
					}
				}
				return false
			}
			var bad []string
			for mask := 0; mask < 1<<len(names); mask++ {
				val := map[string]bool{}
				allMatch, anyAlarm := true, false
				for i, nme := range names {
					val[nme] = mask&(1<<i) != 0
					if i < len(mnames) && !val[nme] {
						allMatch = false
					}
					if i >= len(mnames) && val[nme] {
						anyAlarm = true
					}
				}
				got := true
				for _, r := range rest {
					got = got && eval(info, r, val, 0)
				}
				want := anyAlarm || !allMatch // the end is NOT vouched for as soon as one test of the footer fails or an alarm is raised
				if got != want && len(bad) < 4 {
					var desc []string
					for _, nme := range names {
						desc = append(desc, fmt.Sprintf("%s is %v", nme, val[nme]))
					}
					bad = append(bad, fmt.Sprintf("when %s the end of data is %s", strings.Join(desc, ", "), map[bool]string{true: "rejected although the footer is there and nothing was wrong", false: "accepted although a test of the footer fails or an alarm is raised"}[got]))
				}
			}
			// what the guard must rest on: the footer's own checksum (two magic bytes can be matched by the arbitrary bytes of
			// a block check field: one block boundary in 65536), and an alarm raised by the source reader when the decoder
			// met the end of the data in the middle of a request (a block header announcing more bytes than the file holds
			// swallows the footer and ends on a plain io.EOF)
			hasCRC := false
			for _, m := range mnames {
				if strings.Contains(m, "crc32.") {
					hasCRC = true
				}
			}
			alarmSet := false
			c.EachFunc([]string{"pkg/obiformats"}, func(rp *packages.Package, rfd *ast.FuncDecl) {
				if rfd.Recv == nil || rfd.Name.Name != "Read" {
					return
				}
				ast.Inspect(rfd.Body, func(m ast.Node) bool {
					rif, ok := m.(*ast.IfStmt)
					if !ok {
						return true
					}
					eof := false
					ast.Inspect(rif.Cond, func(k ast.Node) bool {
						if e, ok := k.(ast.Expr); ok && isObj(rp.TypesInfo, e, "io", "EOF") {
							eof = true
						}
						return true
					})
					if !eof {
						return true
					}
					for _, st := range rif.Body.List {
						if as, ok := st.(*ast.AssignStmt); ok && len(as.Lhs) == 1 && len(as.Rhs) == 1 {
							if id, ok := ast.Unparen(as.Rhs[0]).(*ast.Ident); ok && id.Name == "true" {
								if sel, ok := ast.Unparen(as.Lhs[0]).(*ast.SelectorExpr); ok {
									for _, a := range anames {
										if strings.HasSuffix(a, "."+sel.Sel.Name) {
											alarmSet = true
										}
									}
								}
							}
						}
					}
					return true
				})
			})
			if len(bad) > 0 {
				s.Fail(nil, key, ifs.Pos(), "the condition that turns io.EOF into io.ErrUnexpectedEOF is not 'an alarm is raised or at least one test of the footer fails': "+strings.Join(bad, "; "))
			} else if !hasCRC {
				s.Fail(nil, key, ifs.Pos(), "the end of the stream is vouched for by magic bytes only, not by the checksum of the footer: the last bytes of a block (its check field) are arbitrary, a file cut at a block boundary whose check ends with those bytes is accepted as complete")
			} else if !alarmSet {
				s.Fail(nil, key, ifs.Pos(), "no alarm is raised when the decoder meets the end of the data in the middle of a request: a damaged block header announcing more bytes than remain swallows the intact footer, the decoder returns io.EOF, and the last block is silently dropped")
			} else {
				s.Pass(nil, key, ifs.Pos(), fmt.Sprintf("guard over %d footer tests and %d alarm flags is exactly 'alarm or not all tests hold' (%d valuations)", len(mnames), len(anames), 1<<len(names)))
			}
			return true
		})
	})
}

func runIT9(c *Ctx, s *Sink) {
	fd, p := c.FindFunc("pkg/obiiter", "(IBioSequence).Next")
	key := "pkg/obiiter.(IBioSequence).Next:pushback-first"
	if fd == nil {
		s.Undecided(nil, key, 0, "function not found")
		return
	}
	// which boolean fields are per clone and which are shared: Split() creates the former afresh
	// (abool.New()) and copies the latter from the original — names are not relied upon
	perClone, shared := map[types.Object]bool{}, map[types.Object]bool{}
	if sd, sp := c.FindFunc("pkg/obiiter", "(IBioSequence).Split"); sd != nil {
		sinfo := sp.TypesInfo
		ast.Inspect(sd.Body, func(n ast.Node) bool {
			cl, ok := n.(*ast.CompositeLit)
			if !ok {
				return true
			}
			for _, el := range cl.Elts {
				kv, ok := el.(*ast.KeyValueExpr)
				if !ok {
					continue
				}
				kid, ok := kv.Key.(*ast.Ident)
				if !ok {
					continue
				}
				fo := sinfo.ObjectOf(kid)
				if fo == nil || !strings.HasSuffix(types.TypeString(fo.Type(), nil), "AtomicBool") {
					continue
				}
				switch ast.Unparen(kv.Value).(type) {
				case *ast.CallExpr:
					perClone[fo] = true
				case *ast.SelectorExpr:
					shared[fo] = true
				}
			}
			return true
		})
	}
	info := p.TypesInfo
	var pb, fin token.Pos
	ast.Inspect(fd.Body, func(n ast.Node) bool {
		if sel, ok := n.(*ast.SelectorExpr); ok {
			fo := info.ObjectOf(sel.Sel)
			if perClone[fo] && pb == token.NoPos {
				pb = sel.Pos()
			}
			if shared[fo] && fin == token.NoPos {
				fin = sel.Pos()
			}
		}
		return true
	})
	if len(perClone) == 0 || len(shared) == 0 {
		s.Undecided(nil, key, fd.Pos(), "cannot tell the per-clone flag from the shared one in Split()")
		return
	}
	switch {
	case pb == token.NoPos:
		s.Pass(nil, key, fd.Pos(), "Next does not implement push-back")
	case fin != token.NoPos && fin < pb:
		s.Fail(nil, key, fin, "Next tests the shared finished flag before the iterator's own pushBack flag: when a Split() clone has drained the channel first, the batch pushed back by this iterator is never delivered (a one-batch input written by several writer workers yields an empty file)")
	default:
		s.Pass(nil, key, pb, "the pushed-back batch is returned before the shared finished flag is consulted")
	}
}

func runRD(c *Ctx, s *Sink) {
	fd, p := c.FindFunc("pkg/obitools/obisummary", "(*DataSummary).Add")
	key := "pkg/obitools/obisummary.(*DataSummary).Add:fieldwise"
	if fd == nil {
		s.Undecided(nil, key, 0, "function not found")
		return
	}
	info := p.TypesInfo
	params := flattenParams(fd.Type.Params)
	if len(params) != 1 || len(fd.Recv.List[0].Names) != 1 {
		s.Undecided(nil, key, fd.Pos(), "unexpected signature")
		return
	}
	a := info.ObjectOf(fd.Recv.List[0].Names[0])
	b := info.ObjectOf(params[0])
	// the struct's accumulator fields
	var st *types.Struct
	if ptr, ok := a.Type().(*types.Pointer); ok {
		st, _ = ptr.Elem().Underlying().(*types.Struct)
	}
	if st == nil {
		s.Undecided(nil, key, fd.Pos(), "receiver is not a pointer to a struct")
		return
	}
	need := map[string]bool{}
	for i := 0; i < st.NumFields(); i++ {
		f := st.Field(i)
		switch u := f.Type().Underlying().(type) {
		case *types.Basic:
			if u.Info()&types.IsNumeric != 0 {
				need[f.Name()] = true
			}
		case *types.Map:
			need[f.Name()] = true
		}
	}
	// only the fields that the per-record accumulation (Update) writes have to be merged
	if ud, up := c.FindFunc("pkg/obitools/obisummary", "(*DataSummary).Update"); ud != nil {
		uinfo := up.TypesInfo
		written := map[string]bool{}
		ast.Inspect(ud.Body, func(n ast.Node) bool {
			mark := func(e ast.Expr) {
				if sel, ok := ast.Unparen(e).(*ast.SelectorExpr); ok {
					if v, ok := uinfo.ObjectOf(sel.Sel).(*types.Var); ok && v.IsField() {
						written[sel.Sel.Name] = true
					}
				}
			}
			switch x := n.(type) {
			case *ast.AssignStmt:
				for _, l := range x.Lhs {
					mark(l)
				}
			case *ast.IncDecStmt:
				mark(x.X)
			}
			return true
		})
		for f := range need {
			if !written[f] {
				delete(need, f)
			}
		}
	}
	valueDependent := func(h *types.Func) bool {
		hd, hp := c.DeclOf(h)
		if hd == nil {
			return false
		}
		hinfo := hp.TypesInfo
		hparams := flattenParams(hd.Type.Params)
		if len(hparams) != 2 {
			return false
		}
		m2 := hinfo.ObjectOf(hparams[1])
		ok := false
		ast.Inspect(hd.Body, func(n ast.Node) bool {
			rs, isR := n.(*ast.RangeStmt)
			if !isR || rootObj(hinfo, rs.X) != m2 || rs.Value == nil {
				return true
			}
			v := rootObj(hinfo, rs.Value)
			ast.Inspect(rs.Body, func(m ast.Node) bool {
				if as, isA := m.(*ast.AssignStmt); isA {
					for i, l := range as.Lhs {
						if _, isIx := ast.Unparen(l).(*ast.IndexExpr); isIx && i < len(as.Rhs) && v != nil && mentionsVar(hinfo, as.Rhs[i], v) {
							ok = true
						}
					}
				}
				return true
			})
			return true
		})
		return ok
	}
	var bad []string
	done := map[string]bool{}
	ast.Inspect(fd.Body, func(n ast.Node) bool {
		as, ok := n.(*ast.AssignStmt)
		if !ok || len(as.Lhs) != 1 || len(as.Rhs) != 1 {
			return true
		}
		lsel, ok := ast.Unparen(as.Lhs[0]).(*ast.SelectorExpr)
		if !ok || !need[lsel.Sel.Name] {
			return true
		}
		f := lsel.Sel.Name
		var x, y ast.Expr
		how := ""
		switch r := ast.Unparen(as.Rhs[0]).(type) {
		case *ast.BinaryExpr:
			if r.Op == token.ADD {
				x, y, how = r.X, r.Y, "+"
			}
		case *ast.CallExpr:
			if len(r.Args) == 2 {
				x, y = r.Args[0], r.Args[1]
				if h := callee(info, r); h != nil {
					how = h.Name()
					if !valueDependent(h) {
						bad = append(bad, fmt.Sprintf("field %s is merged with %s, whose result does not depend on the values of its second map: partial counts of the other worker are replaced by the number of its keys", f, h.Name()))
					}
				}
			}
		}
		if how == "" {
			bad = append(bad, "field "+f+" is not merged additively")
			return true
		}
		fx, okx := ast.Unparen(x).(*ast.SelectorExpr)
		fy, oky := ast.Unparen(y).(*ast.SelectorExpr)
		if !okx || !oky || fx.Sel.Name != f || fy.Sel.Name != f ||
			!((rootObj(info, fx.X) == a && rootObj(info, fy.X) == b) || (rootObj(info, fx.X) == b && rootObj(info, fy.X) == a)) {
			bad = append(bad, fmt.Sprintf("field %s is not computed from the field %s of both operands (%s, %s)", f, f, types.ExprString(x), types.ExprString(y)))
		}
		done[f] = true
		return true
	})
	var missing []string
	for f := range need {
		if !done[f] {
			missing = append(missing, f)
		}
	}
	sort.Strings(missing)
	if len(missing) > 0 {
		bad = append(bad, "fields never merged: "+strings.Join(missing, ", "))
	}
	sort.Strings(bad)
	if len(bad) > 0 {
		s.Fail(nil, key, fd.Pos(), "the merge of two partial summaries is not a field-wise additive reduction: "+strings.Join(bad, "; ")+" — the report depends on how the records were split between workers")
	} else {
		s.Pass(nil, key, fd.Pos(), fmt.Sprintf("%d accumulator fields, each merged additively from the same field of both operands", len(need)))
	}
}

func runRSLoop(c *Ctx, s *Sink) {
	fd, p := c.FindFunc("pkg/obiformats", "_FastseqReader")
	key := "pkg/obiformats._FastseqReader:record-state"
	if fd == nil {
		s.Undecided(nil, key, 0, "function not found")
		return
	}
	info := p.TypesInfo
	var loop *ast.ForStmt
	var newCall *ast.CallExpr
	ast.Inspect(fd.Body, func(n ast.Node) bool {
		if f, ok := n.(*ast.ForStmt); ok && loop == nil {
			ast.Inspect(f.Body, func(m ast.Node) bool {
				if call, ok := m.(*ast.CallExpr); ok && isCallTo(info, call, "pkg/obiseq.NewBioSequence") {
					loop, newCall = f, call
				}
				return true
			})
		}
		return true
	})
	if loop == nil {
		s.Undecided(nil, key, fd.Pos(), "no record loop building a sequence")
		return
	}
	var bad []string
	nvars := 0
	for _, a := range newCall.Args {
		id, ok := ast.Unparen(a).(*ast.Ident)
		if !ok {
			continue
		}
		v := info.ObjectOf(id)
		if v == nil || (v.Pos() >= loop.Body.Pos() && v.Pos() < loop.Body.End()) {
			continue // declared in the iteration
		}
		nvars++
		// must-define before the call on every path of the body
		g := buildCFG(info, loop.Body)
		ts := &typestate{g: g, init: 0, info: info,
			events: func(n ast.Node) []tsEvent {
				var evs []tsEvent
				visitEval(n, func(m ast.Node) {
					if m == ast.Node(newCall) {
						evs = append(evs, tsEvent{kind: "use", node: m})
					}
				})
				if as, ok := n.(*ast.AssignStmt); ok {
					for _, l := range as.Lhs {
						if lid, ok := ast.Unparen(l).(*ast.Ident); ok && info.ObjectOf(lid) == v {
							evs = append(evs, tsEvent{kind: "def", node: n})
						}
					}
				}
				return evs
			},
			step: func(st int, ev tsEvent) (int, string) {
				switch ev.kind {
				case "def":
					return 1, ""
				case "use":
					if st == 0 {
						return 0, "carried"
					}
				}
				return st, ""
			}}
		if res := ts.run(); len(res.errs) > 0 {
			bad = append(bad, v.Name())
		}
	}
	if len(bad) > 0 {
		s.Fail(nil, key, newCall.Pos(), "on some path of the record loop the record is built from "+strings.Join(bad, ", ")+" without assigning it first: the value of the previous record is reused (a title line without comment inherits the previous comment and, after header parsing, its annotations)")
	} else {
		s.Pass(nil, key, newCall.Pos(), fmt.Sprintf("%d variable(s) declared outside the loop, each assigned on every path before the record is built", nvars))
	}
}

// predicateBody: for a call of a method/function of the module whose body is a (possibly preceded by simple local
// definitions) single 'return <bool expr>', the returned expression and the type information to read it with.
func predicateBody(c *Ctx, info *types.Info, call *ast.CallExpr) (ast.Expr, *types.Info) {
	f := callee(info, call)
	if f == nil || f.Pkg() == nil || !strings.HasPrefix(f.Pkg().Path(), modPath) {
		return nil, nil
	}
	d, dp := c.DeclOf(f)
	if d == nil || d.Body == nil || len(d.Body.List) == 0 {
		return nil, nil
	}
	r, ok := d.Body.List[len(d.Body.List)-1].(*ast.ReturnStmt)
	if !ok || len(r.Results) != 1 {
		return nil, nil
	}
	// the statements before: definitions, and early answers 'if A { return true|false }', folded into the expression
	// (if A { return true }; return B  is  A || B;  if A { return false }; return B  is  !A && B)
	expr := r.Results[0]
	for i := len(d.Body.List) - 2; i >= 0; i-- {
		switch st := d.Body.List[i].(type) {
		case *ast.AssignStmt:
			if st.Tok != token.DEFINE {
				return nil, nil
			}
		case *ast.IfStmt:
			if st.Init != nil || st.Else != nil || len(st.Body.List) != 1 {
				return nil, nil
			}
			er, ok := st.Body.List[0].(*ast.ReturnStmt)
			if !ok || len(er.Results) != 1 {
				return nil, nil
			}
			id, ok := ast.Unparen(er.Results[0]).(*ast.Ident)
			if !ok {
				return nil, nil
			}
			switch id.Name {
			case "true":
				expr = &ast.BinaryExpr{X: &ast.ParenExpr{X: st.Cond}, Op: token.LOR, Y: &ast.ParenExpr{X: expr}}
			case "false":
				expr = &ast.BinaryExpr{X: &ast.UnaryExpr{Op: token.NOT, X: &ast.ParenExpr{X: st.Cond}}, Op: token.LAND, Y: &ast.ParenExpr{X: expr}}
			default:
				return nil, nil
			}
		default:
			return nil, nil
		}
	}
	return expr, dp.TypesInfo
}
