package main

// RC — record conservation in per-record loops of forwarding combinators.

import (
	"fmt"
	"go/ast"
	"go/types"

	"golang.org/x/tools/go/cfg"
	"golang.org/x/tools/go/packages"
)

func init() {
	register(&Rule{
		ID: "RC", Props: []string{"C16", "C03"}, Min: 7,
		Doc: `record conservation: in pkg/obiseq, pkg/obiiter and pkg/obichunk every 'for _, s := range <BioSequenceSlice>' loop of a body that forwards records (returns a
BioSequenceSlice or pushes on an iterator) must, on every path of an iteration, hand the record on — pass it to a worker/predicate-independent call, store or append it — or
explicitly discard it (Recycle) in a combinator whose contract is filtering (FilterOn, FilterAnd). A path that does nothing with the record (e.g. the false arm of a
condition in a non-filter) silently drops it. Typestate over go/cfg, fatal logging is no-return.`,
		Run: runRC,
	})
}

// combinators allowed to recycle a record: filters, and the fragmenter which
// replaces a record by its fragments (Subsequence copies) before recycling it
var rcFilters = map[string]bool{
	"pkg/obiiter.(IBioSequence).FilterOn":  true,
	"pkg/obiiter.(IBioSequence).FilterAnd": true,
	"pkg/obiiter.IFragments":               true,
}

const sliceType = modPath + "/pkg/obiseq.BioSequenceSlice"

func runRC(c *Ctx, s *Sink) {
	c.EachFunc([]string{"pkg/obiseq", "pkg/obiiter", "pkg/obichunk"}, func(p *packages.Package, fd *ast.FuncDecl) {
		info := p.TypesInfo
		fname := funcName(p, fd)
		n := 0
		// bodies: declaration + literals
		var bodies []struct {
			node ast.Node
			body *ast.BlockStmt
			typ  *ast.FuncType
		}
		bodies = append(bodies, struct {
			node ast.Node
			body *ast.BlockStmt
			typ  *ast.FuncType
		}{fd, fd.Body, fd.Type})
		ast.Inspect(fd.Body, func(m ast.Node) bool {
			if lit, ok := m.(*ast.FuncLit); ok {
				bodies = append(bodies, struct {
					node ast.Node
					body *ast.BlockStmt
					typ  *ast.FuncType
				}{lit, lit.Body, lit.Type})
			}
			return true
		})
		for _, b := range bodies {
			forwards := false
			if b.typ.Results != nil {
				for _, r := range b.typ.Results.List {
					if tv, ok := info.Types[r.Type]; ok && namedTypeName(tv.Type) == sliceType {
						forwards = true
					}
				}
			}
			// pushes
			ast.Inspect(b.body, func(m ast.Node) bool {
				if lit, ok := m.(*ast.FuncLit); ok && lit != b.node {
					return false
				}
				switch x := m.(type) {
				case *ast.CallExpr:
					if fullName(callee(info, x)) == modPath+"/pkg/obiiter.(IBioSequence).Push" {
						forwards = true
					}
				case *ast.SendStmt:
					forwards = true
				}
				return true
			})
			if !forwards {
				continue
			}
			// range loops directly in this body
			var loops []*ast.RangeStmt
			ast.Inspect(b.body, func(m ast.Node) bool {
				if lit, ok := m.(*ast.FuncLit); ok && lit != b.node {
					return false
				}
				if rs, ok := m.(*ast.RangeStmt); ok && rs.Value != nil {
					if tv, ok := info.Types[rs.X]; ok && namedTypeName(tv.Type) == sliceType {
						if _, ok := rs.Value.(*ast.Ident); ok {
							loops = append(loops, rs)
						}
					}
				}
				return true
			})
			for _, rs := range loops {
				n++
				key := fmt.Sprintf("%s:recordloop#%d", fname, n)
				sv := info.ObjectOf(rs.Value.(*ast.Ident))
				msg := rcCheck(info, b.body, rs, sv, rcFilters[fname] || onlyCalledByFilters(c, p, fd))
				if msg == "" {
					s.Pass(nil, key, rs.Pos(), "every path of an iteration forwards (or, in a filter, explicitly discards) the record")
				} else {
					s.Fail(nil, key, rs.Pos(), msg)
				}
			}
		}
	})
}

func rcCheck(info *types.Info, body *ast.BlockStmt, rs *ast.RangeStmt, sv types.Object, isFilter bool) string {
	g := buildCFG(info, body)
	isS := func(e ast.Expr) bool {
		id, ok := ast.Unparen(e).(*ast.Ident)
		return ok && info.ObjectOf(id) == sv
	}
	discardSeen := false
	ts := &typestate{g: g, init: 0, info: info,
		events: func(n ast.Node) []tsEvent {
			var evs []tsEvent
			if !(n.Pos() >= rs.Body.Pos() && n.End() <= rs.Body.End()) {
				return nil
			}
			visitEval(n, func(m ast.Node) {
				switch x := m.(type) {
				case *ast.CallExpr:
					if isLoggingCall(info, x) {
						return
					}
					if sel, ok := x.Fun.(*ast.SelectorExpr); ok && isS(sel.X) && sel.Sel.Name == "Recycle" {
						evs = append(evs, tsEvent{kind: "discard", node: m})
						return
					}
					for _, a := range x.Args {
						if isS(a) {
							// a predicate call only inspects the record
							if tv, ok := info.Types[x.Fun]; ok && namedTypeName(tv.Type) == modPath+"/pkg/obiseq.SequencePredicate" {
								continue
							}
							evs = append(evs, tsEvent{kind: "account", node: m})
						}
					}
				case *ast.AssignStmt:
					for _, r := range x.Rhs {
						if isS(r) {
							evs = append(evs, tsEvent{kind: "account", node: m})
						}
					}
				case *ast.CompositeLit:
					for _, e := range x.Elts {
						if kv, ok := e.(*ast.KeyValueExpr); ok {
							e = kv.Value
						}
						if isS(e) {
							evs = append(evs, tsEvent{kind: "account", node: m})
						}
					}
				}
			})
			return evs
		},
		step: func(st int, ev tsEvent) (int, string) {
			switch ev.kind {
			case "account":
				if st == 1 {
					return 2, ""
				}
			case "discard":
				discardSeen = true
				if st == 1 {
					if isFilter {
						return 2, ""
					}
					return 2, "the record is recycled (discarded) in a combinator that is not a filter"
				}
			}
			return st, ""
		},
		edge: func(b *cfg.Block, succ int, st int) int {
			if b.Kind == cfg.KindRangeLoop && b.Stmt == ast.Stmt(rs) {
				if st == 1 {
					return 3 // previous record dropped
				}
				if st == 3 {
					return 3
				}
				if succ == 0 {
					return 1
				}
				return 0
			}
			return st
		}}
	res := ts.run()
	_ = discardSeen
	if len(res.errs) > 0 {
		return res.errs[0].msg
	}
	if res.exitStates&(1<<3) != 0 {
		return "a path of the per-record loop neither forwards nor explicitly discards the record: it silently disappears from the stream (e.g. records for which a condition is false)"
	}
	return ""
}

// onlyCalledByFilters: fd is an unexported function whose static callers (at least one) are all
// filter combinators — a block extracted from a filter keeps the filter's licence to discard records.
func onlyCalledByFilters(c *Ctx, p *packages.Package, fd *ast.FuncDecl) bool {
	if fd.Name.IsExported() {
		return false
	}
	self := p.TypesInfo.Defs[fd.Name]
	n, ok := 0, true
	c.EachFunc([]string{"pkg/obiseq", "pkg/obiiter", "pkg/obichunk"}, func(cp *packages.Package, cfd *ast.FuncDecl) {
		ast.Inspect(cfd.Body, func(m ast.Node) bool {
			if call, isCall := m.(*ast.CallExpr); isCall {
				if f := callee(cp.TypesInfo, call); f != nil && types.Object(f) == self {
					n++
					if !rcFilters[funcName(cp, cfd)] {
						ok = false
					}
				}
			}
			return true
		})
	})
	return ok && n > 0
}
