package main

// TX — a taxon that the taxonomy does not know is not kept as a nil node (C15).

import (
	"fmt"
	"go/ast"
	"go/types"
	"strings"

	"golang.org/x/tools/go/packages"
)

func init() {
	register(&Rule{
		ID: "TX", Props: []string{"C15"}, Min: 4,
		Doc: `the taxon sets the search and the indexing work on hold no nil node: in pkg/obitools, the error returned by (*obitax.Taxonomy).Taxon with the node is neither discarded (_) nor left
behind a node already stored in a container: either the node goes to a local variable and is only stored under 'err == nil', or the error ends the program. obitag's CLIAssignTaxonomy wrote
'taxa[j], err = taxo.Taxon(…)' and advanced j only on success: for the LAST reference of the database the nil node stayed in the set, and the first query died on 'Try to get LCA of nil
taxon' after the warning that the reference had been discarded; obireffamidx and obitag2 discarded the error altogether. A constant taxid (the root, 1) is exempt.`,
		Run: func(c *Ctx, s *Sink) {
			c.EachFunc([]string{"pkg/obitools"}, func(p *packages.Package, fd *ast.FuncDecl) {
				info := p.TypesInfo
				n := 0
				ast.Inspect(fd.Body, func(nd ast.Node) bool {
					as, ok := nd.(*ast.AssignStmt)
					if !ok || len(as.Lhs) != 2 || len(as.Rhs) != 1 {
						return true
					}
					call, ok := ast.Unparen(as.Rhs[0]).(*ast.CallExpr)
					if !ok || !strings.HasSuffix(fullName(callee(info, call)), "/pkg/obitax.(Taxonomy).Taxon") || len(call.Args) != 1 {
						return true
					}
					if _, isC := constInt(info, call.Args[0]); isC {
						return true
					}
					n++
					key := fmt.Sprintf("%s:Taxon#%d:unknown-taxon-not-kept", funcName(p, fd), n)
					_, toElement := ast.Unparen(as.Lhs[0]).(*ast.IndexExpr)
					errId, _ := ast.Unparen(as.Lhs[1]).(*ast.Ident)
					switch {
					case errId == nil || errId.Name == "_":
						s.Fail(nil, key, as.Pos(), "the error of the taxonomy look-up is discarded: a reference whose taxid is not in the taxonomy gives a nil node, and the first LCA computed with it panics (Try to get LCA of nil taxon)")
					case toElement:
						// stored before the test: the error branch must end the program
						ends := false
						eo := info.ObjectOf(errId)
						ast.Inspect(fd.Body, func(m ast.Node) bool {
							ifs, ok := m.(*ast.IfStmt)
							if !ok || ifs.Pos() < as.Pos() {
								return true
							}
							b, ok := ast.Unparen(ifs.Cond).(*ast.BinaryExpr)
							if !ok || b.Op.String() != "!=" || rootObj(info, b.X) != eo {
								return true
							}
							ast.Inspect(ifs.Body, func(q ast.Node) bool {
								if c2, ok := q.(*ast.CallExpr); ok && linEndsProgram(info, c2) {
									ends = true
								}
								return true
							})
							return true
						})
						if ends {
							s.Pass(nil, key, as.Pos(), "an unknown taxid ends the program")
						} else {
							s.Fail(nil, key, as.Pos(), "the node is stored in the set before the error is looked at and the error does not end the program: when the reference is the last one its nil node stays in the set — obitag warns 'Sequence Z is discared from the reference database' and then panics on 'Try to get LCA of nil taxon'")
						}
					default:
						s.Pass(nil, key, as.Pos(), "the node goes to a local variable and the error is kept")
					}
					return true
				})
			})
			_ = types.Universe
		},
	})
}

func init() {
	register(&Rule{
		ID: "IX0", Props: []string{"C15"}, Min: 1,
		Doc: `"assignment search … for any reference database": a reference read from a file may carry an index without any level ("obitag_ref_index":{}), and a database may hold no reference whose
taxid the taxonomy knows. In pkg/obitools/obitag and obitag2 the test that decides to (re)build the index of a reference (the if whose body calls IndexSequence / the indexing helper) looks at the
LENGTH of the index, not only at nil: on an empty map the descent over the levels of Identify never ends (obitag hung, killed by timeout); and CLIAssignTaxonomy ends the program when its loop
left no reference, instead of indexing references[o[0]] of an empty list (index out of range).`,
		Run: func(c *Ctx, s *Sink) {
			c.EachFunc([]string{"pkg/obitools/obitag", "pkg/obitools/obitag2"}, func(p *packages.Package, fd *ast.FuncDecl) {
				info := p.TypesInfo
				n := 0
				ast.Inspect(fd.Body, func(nd ast.Node) bool {
					is, ok := nd.(*ast.IfStmt)
					if !ok {
						return true
					}
					builds := false
					for _, st := range is.Body.List {
						ast.Inspect(st, func(m ast.Node) bool {
							if call, ok := m.(*ast.CallExpr); ok {
								if fn := callee(info, call); fn != nil && strings.Contains(fn.Name(), "IndexSequence") {
									builds = true
								}
							}
							return true
						})
					}
					if !builds {
						return true
					}
					// the condition is about a map variable
					var idx types.Object
					ast.Inspect(is.Cond, func(m ast.Node) bool {
						if id, ok := m.(*ast.Ident); ok {
							if o := info.ObjectOf(id); o != nil {
								if _, isMap := o.Type().Underlying().(*types.Map); isMap {
									idx = o
								}
							}
						}
						return true
					})
					if idx == nil {
						return true
					}
					n++
					key := fmt.Sprintf("%s:index#%d:empty-index-rebuilt", funcName(p, fd), n)
					hasLen := false
					ast.Inspect(is.Cond, func(m ast.Node) bool {
						if call, ok := m.(*ast.CallExpr); ok && len(call.Args) == 1 {
							if id, ok := call.Fun.(*ast.Ident); ok && id.Name == "len" && rootObj(info, call.Args[0]) == idx {
								hasLen = true
							}
						}
						return true
					})
					if hasLen {
						s.Pass(nil, key, is.Pos(), "an index without level is rebuilt as a missing one is")
					} else {
						s.Fail(nil, key, is.Pos(), "only a nil index is rebuilt: a reference carrying \"obitag_ref_index\":{} keeps its empty map, and the descent of Identify over the levels (d-- to -1, then d++ to 1001, then again) never ends — obitag hangs on that query")
					}
					return true
				})
			})
		},
	})
}
