package main

// TX — a taxon that the taxonomy does not know is not kept as a nil node (C15).

import (
	"fmt"
	"go/ast"
	"go/types"
	"strings"

	"golang.org/x/tools/go/packages"
)

func init() {
	register(&Rule{
		ID: "TX", Props: []string{"C15"}, Min: 4,
		Doc: `the taxon sets the search and the indexing work on hold no nil node: in pkg/obitools, the error returned by (*obitax.Taxonomy).Taxon with the node is neither discarded (_) nor left
behind a node already stored in a container: either the node goes to a local variable and is only stored under 'err == nil', or the error ends the program. obitag's CLIAssignTaxonomy wrote
'taxa[j], err = taxo.Taxon(…)' and advanced j only on success: for the LAST reference of the database the nil node stayed in the set, and the first query died on 'Try to get LCA of nil
taxon' after the warning that the reference had been discarded; obireffamidx and obitag2 discarded the error altogether. A constant taxid (the root, 1) is exempt.`,
		Run: func(c *Ctx, s *Sink) {
			c.EachFunc([]string{"pkg/obitools"}, func(p *packages.Package, fd *ast.FuncDecl) {
				info := p.TypesInfo
				n := 0
				ast.Inspect(fd.Body, func(nd ast.Node) bool {
					as, ok := nd.(*ast.AssignStmt)
					if !ok || len(as.Lhs) != 2 || len(as.Rhs) != 1 {
						return true
					}
					call, ok := ast.Unparen(as.Rhs[0]).(*ast.CallExpr)
					if !ok || !strings.HasSuffix(fullName(callee(info, call)), "/pkg/obitax.(Taxonomy).Taxon") || len(call.Args) != 1 {
						return true
					}
					if _, isC := constInt(info, call.Args[0]); isC {
						return true
					}
					n++
					key := fmt.Sprintf("%s:Taxon#%d:unknown-taxon-not-kept", funcName(p, fd), n)
					_, toElement := ast.Unparen(as.Lhs[0]).(*ast.IndexExpr)
					errId, _ := ast.Unparen(as.Lhs[1]).(*ast.Ident)
					switch {
					case errId == nil || errId.Name == "_":
						s.Fail(nil, key, as.Pos(), "the error of the taxonomy look-up is discarded: a reference whose taxid is not in the taxonomy gives a nil node, and the first LCA computed with it panics (Try to get LCA of nil taxon)")
					case toElement:
						// stored before the test: the error branch must end the program
						ends := false
						eo := info.ObjectOf(errId)
						ast.Inspect(fd.Body, func(m ast.Node) bool {
							ifs, ok := m.(*ast.IfStmt)
							if !ok || ifs.Pos() < as.Pos() {
								return true
							}
							b, ok := ast.Unparen(ifs.Cond).(*ast.BinaryExpr)
							if !ok || b.Op.String() != "!=" || rootObj(info, b.X) != eo {
								return true
							}
							ast.Inspect(ifs.Body, func(q ast.Node) bool {
								if c2, ok := q.(*ast.CallExpr); ok && linEndsProgram(info, c2) {
									ends = true
								}
								return true
							})
							return true
						})
						if ends {
							s.Pass(nil, key, as.Pos(), "an unknown taxid ends the program")
						} else {
							s.Fail(nil, key, as.Pos(), "the node is stored in the set before the error is looked at and the error does not end the program: when the reference is the last one its nil node stays in the set — obitag warns 'Sequence Z is discared from the reference database' and then panics on 'Try to get LCA of nil taxon'")
						}
					default:
						s.Pass(nil, key, as.Pos(), "the node goes to a local variable and the error is kept")
					}
					return true
				})
			})
			_ = types.Universe
		},
	})
}
