package main

// GR — the room reserved for the text of a batch is bounded by the data of the batch (C02, C04).

import (
	"fmt"
	"go/ast"
	"go/token"
	"go/types"

	"golang.org/x/tools/go/packages"
)

func init() {
	register(&Rule{
		ID: "GR", Props: []string{"C02", "C04"}, Min: 4,
		Doc: `"any set of records … once written by the toolkit": the set must be writable. In pkg/obiformats the argument of bytes.Buffer.Grow (followed through the local variables defined once) is
either a call of the builtin min — the estimate is bounded — or holds no product of two quantities that are not constants: FormatFastaBatch and FormatFastqBatch multiplied the size of the title
of the FIRST record by the number of records of the batch, and Grow really allocates and clears that amount — a dereplicated sequence present in 40000 samples followed by 30000 singletons
(1.5 MB file) reserved 9.6 GB and took 45 s, with 160000 samples the runtime aborted (out of memory); the same records with the big one last: 74 MB, 0.15 s.`,
		Run: func(c *Ctx, s *Sink) {
			c.EachFunc([]string{"pkg/obiformats"}, func(p *packages.Package, fd *ast.FuncDecl) {
				info := p.TypesInfo
				defs := collectDefs(info, fd)
				n := 0
				ast.Inspect(fd.Body, func(nd ast.Node) bool {
					call, ok := nd.(*ast.CallExpr)
					if !ok || len(call.Args) != 1 || fullName(callee(info, call)) != "bytes.(Buffer).Grow" {
						return true
					}
					n++
					key := fmt.Sprintf("%s:Grow#%d:bounded", funcName(p, fd), n)
					arg := ast.Unparen(call.Args[0])
					if id, ok := arg.(*ast.Ident); ok {
						if ds := defs[info.ObjectOf(id)]; len(ds) == 1 && ds[0] != nil {
							arg = ast.Unparen(ds[0])
						}
					}
					// Grow panics on a negative count: an estimate computed with a subtraction is wrapped in max(0, …)
					hasSub := false
					ast.Inspect(arg, func(m ast.Node) bool {
						if b, ok := m.(*ast.BinaryExpr); ok && b.Op == token.SUB {
							hasSub = true
						}
						return true
					})
					nonNeg := !hasSub
					if c0, ok := arg.(*ast.CallExpr); ok && len(c0.Args) == 2 {
						if id, ok := c0.Fun.(*ast.Ident); ok && id.Name == "max" {
							for k := 0; k < 2; k++ {
								if v, isC := constInt(info, c0.Args[k]); isC && v >= 0 {
									nonNeg = true
									arg = ast.Unparen(c0.Args[1-k])
								}
							}
						}
					}
					keyNN := fmt.Sprintf("%s:Grow#%d:not-negative", funcName(p, fd), n)
					if nonNeg {
						s.Pass(nil, keyNN, call.Pos(), "the count cannot be negative (no subtraction, or max(0, …))")
					} else {
						s.Fail(nil, keyNN, call.Pos(), "the count handed to Grow is computed with a subtraction and nothing keeps it from being negative: a record with a long sequence and a 1-symbol quality string (the CSV reader accepts any qualities column) makes FormatFastqBatch panic — bytes.Buffer.Grow: negative count, exit status 2")
					}
					if c2, ok := arg.(*ast.CallExpr); ok {
						if id, ok := c2.Fun.(*ast.Ident); ok && id.Name == "min" {
							// the builtin, or the two-integer helper of the package of the same name
							isMin := false
							switch o := info.ObjectOf(id).(type) {
							case *types.Builtin:
								isMin = true
							case *types.Func:
								if sig, ok := o.Type().(*types.Signature); ok && sig.Params().Len() == 2 && sig.Results().Len() == 1 {
									isMin = true
								}
							}
							if isMin {
								s.Pass(nil, key, call.Pos(), "the estimate goes through min(): it is bounded by its other operand")
								return true
							}
						}
					}
					prod := token.NoPos
					ast.Inspect(arg, func(m ast.Node) bool {
						if b, ok := m.(*ast.BinaryExpr); ok && b.Op == token.MUL {
							_, cl := constInt(info, b.X)
							_, cr := constInt(info, b.Y)
							if !cl && !cr && !prod.IsValid() {
								prod = b.Pos()
							}
						}
						return true
					})
					if prod.IsValid() {
						s.Fail(nil, key, call.Pos(), "the room reserved is a product of two sizes of the data (what the first record adds to its sequence, times the number of records of the batch) without any bound: a first record with a title of 0.87 MB in a batch of 9000 records reserves and clears 9.6 GB (obiconvert h40k.fasta: 45 s, 9.6 GB resident; with a title of 3.6 MB: runtime: out of memory), the same records in another order 74 MB")
					} else {
						s.Pass(nil, key, call.Pos(), "the room reserved is linear in the sizes of the data")
					}
					return true
				})
			})
		},
	})
}
