package main

// BOE, LF — obiscript: the error policy reaches the worker; finish() runs before the pipe is released (C03, C18).

import (
	"fmt"
	"go/ast"
	"go/token"
	"go/types"
	"strings"

	"golang.org/x/tools/go/packages"
)

func init() {
	register(&Rule{
		ID: "BOE", Props: []string{"C03", "C16"}, Min: 3,
		Doc: `"no record is lost silently": the pipelines take a breakOnError policy. In the module, a function that has a boolean parameter named breakOnError forwards it — and not a constant — to every
callee whose corresponding parameter is also named breakOnError: LuaProcessor wrapped its per-record worker with SeqToSliceWorker(w, false), so the error of a record on which the script fails
never came back to its own 'if breakOnError { Fatalf }' (dead code): obiscript, which asks for breakOnError, dropped those records with a warning and exit status 0 (50 records in, 48 out).`,
		Run: func(c *Ctx, s *Sink) {
			c.EachFunc([]string{"pkg"}, func(p *packages.Package, fd *ast.FuncDecl) {
				info := p.TypesInfo
				var boe types.Object
				for _, id := range flattenParams(fd.Type.Params) {
					if id != nil && id.Name == "breakOnError" {
						boe = info.ObjectOf(id)
					}
				}
				if boe == nil {
					return
				}
				n := 0
				ast.Inspect(fd.Body, func(nd ast.Node) bool {
					call, ok := nd.(*ast.CallExpr)
					if !ok {
						return true
					}
					f := callee(info, call)
					if f == nil {
						return true
					}
					sig, ok := f.Type().(*types.Signature)
					if !ok {
						return true
					}
					for k := 0; k < sig.Params().Len() && k < len(call.Args); k++ {
						if sig.Params().At(k).Name() != "breakOnError" {
							continue
						}
						n++
						key := fmt.Sprintf("%s:%s#%d:policy-forwarded", funcName(p, fd), f.Name(), n)
						if tv, ok := info.Types[call.Args[k]]; ok && tv.Value != nil {
							s.Fail(nil, key, call.Pos(), "the function receives a breakOnError policy and hands the constant "+tv.Value.String()+" to "+f.Name()+": the errors of the records never come back to the caller's own test of the policy — obiscript (breakOnError = true) drops the records on which the script fails, with a warning and exit status 0")
						} else {
							s.Pass(nil, key, call.Pos(), "the policy is forwarded")
						}
					}
					return true
				})
			})
		},
	})
	register(&Rule{
		ID: "LF", Props: []string{"C03", "C18"}, Min: 2,
		Doc: `what the finish() function of an obiscript script prints is a result of the command: in obilua.LuaProcessor, in the goroutine that looks the global 'finish' up and calls it, no call
that closes the output iterator (Close / WaitAndClose, which unregister the pipe the process waits for) precedes that look-up: closed first, main() returned from WaitForLastPipe() and exited
before — or while — finish() ran (its text was printed in 19 runs of 40), and with the records on stdout it printed on a stream the writer had already closed.`,
		Run: func(c *Ctx, s *Sink) {
			fd, p := c.FindFunc("pkg/obilua", "LuaProcessor")
			key := "pkg/obilua.LuaProcessor:finish-before-the-pipe-is-released"
			if fd == nil {
				s.Undecided(nil, key, 0, "function not found")
				return
			}
			info := p.TypesInfo
			done := false
			ast.Inspect(fd.Body, func(n ast.Node) bool {
				lit, ok := n.(*ast.FuncLit)
				if !ok || done {
					return true
				}
				finishPos, closePos := token.NoPos, token.NoPos
				ast.Inspect(lit.Body, func(m ast.Node) bool {
					switch x := m.(type) {
					case *ast.BasicLit:
						if x.Value == `"finish"` && !finishPos.IsValid() {
							finishPos = x.Pos()
						}
					case *ast.CallExpr:
						if f := callee(info, x); f != nil && (f.Name() == "Close" || f.Name() == "WaitAndClose") && strings.HasSuffix(fullName(f), "IBioSequence)."+f.Name()) {
							if !closePos.IsValid() {
								closePos = x.Pos()
							}
						}
					}
					return true
				})
				if !finishPos.IsValid() {
					return true
				}
				done = true
				if closePos.IsValid() && closePos < finishPos {
					s.Fail(nil, key, closePos, "the output iterator is closed (its pipe unregistered) before finish() is looked up and called: the process is free to exit, and does in about half the runs, before the text finish() prints is written — with the records on stdout it is printed on a stream already closed")
				} else {
					s.Pass(nil, key, finishPos, "finish() is called while the pipe is still registered")
				}
				return true
			})
			if !done {
				s.Pass(nil, key, fd.Pos(), "no goroutine calls a finish function")
			}
			// the print of the scripts reports its errors
			key = "pkg/obilua.NewInterpreter:print-reports-its-errors"
			nfd, np := c.FindFunc("pkg/obilua", "NewInterpreter")
			if nfd == nil {
				s.Undecided(nil, key, 0, "function not found")
				return
			}
			over := false
			ast.Inspect(nfd.Body, func(n ast.Node) bool {
				call, ok := n.(*ast.CallExpr)
				if !ok || len(call.Args) < 2 {
					return true
				}
				if f := callee(np.TypesInfo, call); f != nil && f.Name() == "SetGlobal" {
					if bl, ok := ast.Unparen(call.Args[0]).(*ast.BasicLit); ok && bl.Value == `"print"` {
						over = true
					}
				}
				return true
			})
			if over {
				s.Pass(nil, key, nfd.Pos(), "the interpreter is given a print function of the package (which tests its write)")
			} else {
				s.Fail(nil, key, nfd.Pos(), "the scripts print with the print of the Lua standard library, which calls fmt.Print and drops its result: obiscript -S s.lua big.fasta -o out.fasta > /dev/full loses what the script prints, without a message, exit status 0 — where obicount, obisummary, obimatrix, obifind and --template report the error")
			}
		},
	})
}

var _ = packages.NeedName

func init() {
	register(&Rule{
		ID: "TD", Props: []string{"C03", "C06"}, Min: 1,
		Doc: `obiuniq's default mode writes its chunks in a temporary directory: in pkg/obichunk, in the goroutine that closes the output iterator, the removal of that directory (os.RemoveAll) is a
statement executed before the call of Close() — not a deferred one, which runs after it: Close() unregisters the pipe the process waits for, and the process exited while the removal was
half done or not started (21 runs of 30 left an obiseq_chunks_* directory holding a copy of the input in $TMPDIR).`,
		Run: func(c *Ctx, s *Sink) {
			n := 0
			c.EachFunc([]string{"pkg/obichunk"}, func(p *packages.Package, fd *ast.FuncDecl) {
				info := p.TypesInfo
				ast.Inspect(fd.Body, func(nd ast.Node) bool {
					lit, ok := nd.(*ast.FuncLit)
					if !ok {
						return true
					}
					closePos, rmPos := token.NoPos, token.NoPos
					deferred := false
					var stack []ast.Node
					ast.Inspect(lit.Body, func(m ast.Node) bool {
						if m == nil {
							stack = stack[:len(stack)-1]
							return true
						}
						stack = append(stack, m)
						call, ok := m.(*ast.CallExpr)
						if !ok {
							return true
						}
						f := callee(info, call)
						if f == nil {
							return true
						}
						if (f.Name() == "Close" || f.Name() == "WaitAndClose") && strings.HasSuffix(fullName(f), "IBioSequence)."+f.Name()) && !closePos.IsValid() {
							closePos = call.Pos()
						}
						if fullName(f) == "os.RemoveAll" || fullName(f) == "os.Remove" {
							rmPos = call.Pos()
							for _, a := range stack {
								if _, isD := a.(*ast.DeferStmt); isD {
									deferred = true
								}
							}
						}
						return true
					})
					if !closePos.IsValid() || !rmPos.IsValid() {
						return true
					}
					n++
					key := fmt.Sprintf("%s:cleanup#%d:before-the-pipe-is-released", funcName(p, fd), n)
					if deferred || rmPos > closePos {
						s.Fail(nil, key, rmPos, "the temporary directory is removed after the iterator is closed (a deferred call runs last): the pipe is unregistered first, main() leaves WaitForLastPipe() and the process exits before or during the removal — obiuniq leaves obiseq_chunks_* directories holding a copy of its input in $TMPDIR in two runs out of three")
					} else {
						s.Pass(nil, key, rmPos, "the directory is removed before the iterator is closed")
					}
					return true
				})
			})
			if n == 0 {
				s.Pass(nil, "pkg/obichunk:cleanup", 0, "no goroutine both removes files and closes an iterator")
			}
		},
	})
}

func init() {
	register(&Rule{
		ID: "GB", Props: []string{"C19", "C05"}, Min: 1,
		Doc: `the graph obiconsensus builds from its reads is complete when it is read: obigraph.GraphBuffer stores the edges it receives on a channel in a goroutine of its own; its Close() method, which
the builders call before they read the graph, closes that channel and waits for the goroutine (a receive from a channel, or a Wait()): closing only, the caller read Degree and Neighbors while
the last edge was still being stored — 46 graphs out of 200 missed an edge, a read was then left out of the pack given to the De Bruijn graph and the consensus of a sample changed from run to
run (the other nucleotide at the variable site in 2, 6 and 14 runs of 30).`,
		Run: func(c *Ctx, s *Sink) {
			n := 0
			c.EachFunc([]string{"pkg/obigraph"}, func(p *packages.Package, fd *ast.FuncDecl) {
				if fd.Name.Name != "Close" || fd.Recv == nil {
					return
				}
				info := p.TypesInfo
				closes, waits := false, false
				ast.Inspect(fd.Body, func(m ast.Node) bool {
					switch x := m.(type) {
					case *ast.CallExpr:
						if id, ok := x.Fun.(*ast.Ident); ok && id.Name == "close" {
							closes = true
						}
						if f := callee(info, x); f != nil && f.Name() == "Wait" {
							waits = true
						}
					case *ast.UnaryExpr:
						if x.Op == token.ARROW {
							waits = true
						}
					}
					return true
				})
				if !closes {
					return
				}
				n++
				key := funcName(p, fd) + ":waits-for-the-consumer"
				if waits {
					s.Pass(nil, key, fd.Pos(), "Close() returns once the consumer goroutine has stored the last edge")
				} else {
					s.Fail(nil, key, fd.Pos(), "Close() closes the channel and returns: the goroutine storing the edges may still be at work when the caller reads the graph — BuildDiffSeqGraph returned a graph lacking an edge in 46 calls out of 200, and obiconsensus wrote a different consensus in a share of the runs")
				}
			})
			if n == 0 {
				s.Pass(nil, "pkg/obigraph:Close", 0, "no Close() method closing a channel")
			}
		},
	})
}

func init() {
	register(&Rule{
		ID: "SOL", Props: []string{"C05", "C13", "C19"}, Min: 1,
		Doc: `(*BioSequence).StatsOn is not a read: for a record that has no statistics map yet it builds one from the current attributes and stores it in the record. In pkg/obitools/obiconsensus
and pkg/obitools/obiclean it is therefore not called inside a function literal (the weight functions handed to the worker goroutines of the graph builders are such literals): two workers
asking the weight of the same record built and counted its map twice — the count written for a few reads was doubled in about half the runs on a 3000-read input.`,
		Run: func(c *Ctx, s *Sink) {
			n := 0
			c.EachFunc([]string{"pkg/obitools/obiconsensus", "pkg/obitools/obiclean"}, func(p *packages.Package, fd *ast.FuncDecl) {
				info := p.TypesInfo
				var stack []ast.Node
				ast.Inspect(fd.Body, func(m ast.Node) bool {
					if m == nil {
						stack = stack[:len(stack)-1]
						return true
					}
					stack = append(stack, m)
					call, ok := m.(*ast.CallExpr)
					if !ok {
						return true
					}
					f := callee(info, call)
					if f == nil || f.Name() != "StatsOn" || !strings.HasSuffix(fullName(f), "BioSequence).StatsOn") {
						return true
					}
					n++
					key := fmt.Sprintf("%s:StatsOn#%d:not-in-a-closure", funcName(p, fd), n)
					inLit := false
					for _, a := range stack {
						if _, ok := a.(*ast.FuncLit); ok {
							inLit = true
						}
					}
					if inLit {
						s.Fail(nil, key, call.Pos(), "StatsOn — which creates and stores the statistics map of a record that has none — is called inside a function literal handed to concurrent workers: two workers asking for the same record build its map twice (data race; the count of a few reads is doubled in about half the runs of obiconsensus on 3000 reads)")
					} else {
						s.Pass(nil, key, call.Pos(), "called from the body of the function, before any worker exists")
					}
					return true
				})
			})
			if n == 0 {
				s.Pass(nil, "pkg/obitools:StatsOn", 0, "no call of StatsOn in the graph builders")
			}
		},
	})
}
